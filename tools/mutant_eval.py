#!/usr/bin/env python3
"""Development aid (not a registered check): confirms a candidate mutation of /repo and runs the checks on it.
usage: mutant_eval.py <dir with patch.diff, demo.sh|demo_test.go, meta.json> <seeded id> [Cxx ...checks to run; default: the property in meta.json]
 1. scratch copy of /repo (outside /repo and /verif): patch applies, builds, the repository's test suite passes with it;
 2. the demonstration fails with the patch and passes without it;
 3. git -C /repo apply; bin/check quick <Cxx> for each requested check; git -C /repo checkout -- .
 4. writes /verif/seeded/<id>/{patch.diff, demo.*, meta.json} (meta.json extended with what was run and which checks raised an alarm)."""
import json, os, re, shutil, subprocess, sys, tempfile

ENV = dict(os.environ, GOPROXY="off", GOSUMDB="off", GOTOOLCHAIN="local", GOFLAGS="")

def sh(cmd, cwd=None, timeout=1800, env=ENV):
    p = subprocess.run(cmd, shell=isinstance(cmd, str), cwd=cwd, env=env, stdout=subprocess.PIPE, stderr=subprocess.STDOUT, timeout=timeout)
    return p.returncode, p.stdout.decode(errors="replace")

def scratch(patch=None):
    d = tempfile.mkdtemp(prefix="mut-eval.", dir="/var/tmp")
    sh(["rsync", "-a", "--exclude", ".git", "/repo/", d + "/"])
    if patch:
        rc, out = sh(["git", "apply", "--unsafe-paths", "--directory=" + d, patch], cwd="/")
        if rc != 0:
            rc, out = sh("patch -p1 < %s" % patch, cwd=d)
        if rc != 0: raise SystemExit("patch does not apply: " + out)
    return d

def run_suite(d):
    res = {}
    for m in (".", "cmd/hranoprovod-cli"):
        rc, out = sh("go build ./... && go test -vet=off -count=1 ./...", cwd=os.path.join(d, m))
        res[m] = (rc, out[-1500:])
    return res

def run_demo(src, d):
    """returns (rc, tail)"""
    if os.path.exists(os.path.join(src, "demo.sh")):
        rc, out = sh("go build -o %s/hr-demo ." % d, cwd=os.path.join(d, "cmd/hranoprovod-cli"))
        if rc != 0: return (99, "build failed: " + out[-800:])
        return sh(["bash", os.path.join(src, "demo.sh"), os.path.join(d, "hr-demo")], cwd=d, timeout=300)
    t = os.path.join(src, "demo_test.go")
    txt = open(t).read()
    pkg = re.search(r"^package\s+(\w+)", txt, re.M).group(1)
    # the header says which directory; otherwise guess from the package name
    m = re.search(r"(?:copied? (?:in)?to|directory|place (?:it )?in|put (?:it )?in|lives? in)\W+(?:the\s+)?(?:package\s+)?(?:directory\s+)?[`'\"]?([\w./-]+/?[\w./-]*)", txt[:1500], re.I)
    cands = []
    if m: cands.append(m.group(1).strip("`'\". "))
    for root, dirs, files in os.walk(d):
        if any(f.endswith(".go") and re.search(r"^package\s+%s\b" % re.escape(pkg.replace("_test", "")), open(os.path.join(root, f), errors="replace").read(), re.M) for f in files if f.endswith(".go")):
            cands.append(os.path.relpath(root, d))
    for c in cands:
        pd = os.path.join(d, c)
        if os.path.isdir(pd):
            shutil.copy(t, os.path.join(pd, "zz_demo_test.go"))
            mod = "cmd/hranoprovod-cli" if c.startswith("cmd/hranoprovod-cli") else "."
            rel = os.path.relpath(pd, os.path.join(d, mod))
            names = re.findall(r"^func (Test\w+|Example\w*|Fuzz\w+)\(", txt, re.M)
            rc, out = sh("go test -vet=off -count=1 ./%s/ -run '^(%s)$'" % (rel, "|".join(names)), cwd=os.path.join(d, mod), timeout=600)
            os.remove(os.path.join(pd, "zz_demo_test.go"))
            if "no test files" in out or "[setup failed]" in out or "[build failed]" in out: continue
            return rc, out[-1500:]
    return (98, "could not place demo_test.go (package %s; tried %r)" % (pkg, cands))

def main():
    src, sid = sys.argv[1], sys.argv[2]
    meta = json.load(open(os.path.join(src, "meta.json")))
    checks = sys.argv[3:] or [meta["property"]]
    patch = os.path.join(src, "patch.diff")
    rep = dict(confirmed={}, checks={})
    rc, out = sh(["git", "-C", "/repo", "status", "--porcelain"])
    if out.strip(): raise SystemExit("/repo is not clean: " + out)
    dm = scratch(patch); dc = scratch()
    try:
        suite = run_suite(dm)
        rep["confirmed"]["suite_with_patch"] = {m: ("pass" if rc == 0 else "FAIL: " + o[-400:]) for m, (rc, o) in suite.items()}
        r1, o1 = run_demo(src, dm); r0, o0 = run_demo(src, dc)
        rep["confirmed"]["demo_with_patch"] = "fails (rc=%d)" % r1 if r1 not in (0, 98, 99) else "DOES NOT FAIL rc=%d %s" % (r1, o1[-300:])
        rep["confirmed"]["demo_without_patch"] = "passes" if r0 == 0 else "DOES NOT PASS rc=%d %s" % (r0, o0[-300:])
    finally:
        shutil.rmtree(dm, ignore_errors=True); shutil.rmtree(dc, ignore_errors=True)
    ok = all(v == "pass" for v in rep["confirmed"]["suite_with_patch"].values()) and rep["confirmed"]["demo_with_patch"].startswith("fails") and rep["confirmed"]["demo_without_patch"] == "passes"
    rep["confirmed"]["valid_mutant"] = ok
    print(json.dumps(rep["confirmed"], indent=1))
    if ok:
        rc, out = sh(["git", "-C", "/repo", "apply", patch])
        if rc != 0: raise SystemExit("git apply on /repo failed: " + out)
        try:
            for c in checks:
                rc, out = sh(["/verif/bin/check", "quick", c], cwd="/verif", timeout=3000, env=dict(os.environ))
                lines = [l[:400] for l in out.split("\n") if l.startswith("VIOLATION") or l.startswith("KNOWN-FINDING")]
                rep["checks"][c] = dict(rc=rc, alarms=lines[:6])
                print(c, "rc=%d" % rc, *lines[:4], sep="\n   ")
        finally:
            sh(["git", "-C", "/repo", "checkout", "--", "."]); sh(["git", "-C", "/repo", "clean", "-fdq"])
    dst = os.path.join("/verif/seeded", sid); os.makedirs(dst, exist_ok=True)
    for f in os.listdir(src):
        if os.path.isfile(os.path.join(src, f)): shutil.copy(os.path.join(src, f), os.path.join(dst, f))
    meta["confirmation"] = rep["confirmed"]; meta["checks_run"] = rep["checks"]
    meta["detected_by"] = sorted(c for c, v in rep["checks"].items() if v["rc"] == 1 and any(a.startswith("VIOLATION") for a in v["alarms"]))
    json.dump(meta, open(os.path.join(dst, "meta.json"), "w"), indent=1)
    # leave no replay files of a mutated tree behind
    sh("git -C /verif checkout -- evidence 2>/dev/null; git -C /verif clean -fdq replays", cwd="/verif")
    return 0 if ok else 3

if __name__ == "__main__":
    sys.exit(main())
