#!/bin/bash
# Runs the repository's own test suite (both Go modules) on an untagged scratch
# copy of /repo's working tree (building inside /repo rewrites go.work.sum).
# usage: baseline_off.sh [repo-dir]
set -u
REPO=${1:-/repo}
export GOPROXY=off GOSUMDB=off GOTOOLCHAIN=local GOFLAGS=
S=$(mktemp -d /var/tmp/hr-baseline.XXXXXX)
trap 'rm -rf "$S"' EXIT
rsync -a --exclude .git "$REPO"/ "$S"/
rc=0
for m in . ./cmd/hranoprovod-cli; do
  (cd "$S/$m" && go test -vet=off -count=1 -timeout 25m ./...) || rc=1
done
exit $rc
