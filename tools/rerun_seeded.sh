#!/bin/bash
# development aid: applies every seeded change to the repository copy in $VERIF_REPO (default /repo), runs the quick check of the property it
# was written against, reverts. usage: rerun_seeded.sh [id ...]      prints "<id> detected|MISSED"
here=$(cd "$(dirname "$0")/.." && pwd)
REPO=${VERIF_REPO:-/repo}
ids=("$@"); [ ${#ids[@]} -eq 0 ] && ids=($(ls $here/seeded))
git -C $REPO diff --quiet || { echo "$REPO not clean"; exit 2; }
for id in "${ids[@]}"; do
  p=${id%-*}
  git -C $REPO apply $here/seeded/$id/patch.diff 2>/dev/null || (cd $REPO && patch -p1 -s < $here/seeded/$id/patch.diff) || { echo "$id PATCH-FAILS"; git -C $REPO checkout -- .; git -C $REPO clean -fdq; continue; }
  out=$($here/bin/check quick $p 2>&1); rc=$?
  git -C $REPO checkout -- . ; git -C $REPO clean -fdq
  if [ $rc -eq 1 ] && echo "$out" | grep -q '^VIOLATION'; then
    n=$(echo "$out" | grep '^VIOLATION' | grep -vc 'no-failing-input-found$'); m=$(echo "$out" | grep '^VIOLATION' | grep -c 'no-failing-input-found$')
    echo "$id detected (with a failing input of the property: $n; model/proof disagreement only: $m)$([ $n -eq 0 ] && echo ' CORRESPONDENCE-ONLY')"
  else echo "$id MISSED rc=$rc"; fi
done
git -C $here checkout -- evidence 2>/dev/null; git -C $here clean -fdq replays 2>/dev/null
