#!/bin/bash
# development aid: applies each harmless change (dir/<Bk>/<x>/patch.diff) to $VERIF_REPO (default /repo), runs ALL quick checks, reverts; prints the alarms
here=$(cd "$(dirname "$0")/.." && pwd)
REPO=${VERIF_REPO:-/repo}; R=${1:-$here/benign}
git -C $REPO diff --quiet || { echo "$REPO not clean"; exit 2; }
for d in $R/B*; do
  [ -f $d/patch.diff ] || continue
  id=$(basename $d)
  git -C $REPO apply $d/patch.diff 2>/dev/null || { echo "$id PATCH-FAILS"; git -C $REPO checkout -- .; git -C $REPO clean -fdq; continue; }
  alarms=""
  for i in 01 02 03 04 05 06 07 08 09 10 11 12 13 14 15 16 17 18; do
    out=$($here/bin/check quick C$i 2>&1); rc=$?
    if [ $rc -ne 0 ]; then alarms="$alarms C$i"; echo "$out" | grep '^VIOLATION' | head -3 | cut -c1-420 | sed "s/^/   [$id C$i] /"; fi
  done
  git -C $REPO checkout -- . ; git -C $REPO clean -fdq
  echo "$id alarms:${alarms:- none}"
done
git -C $here checkout -- evidence 2>/dev/null; git -C $here clean -fdq replays 2>/dev/null
