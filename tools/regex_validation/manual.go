// Hand-written cases: each line of the input is two Go-quoted strings
// ("pattern" "name"); writes the same line format as gen.go.
// usage: go run manual.go < manual_cases.txt > cases.txt
package main

import (
	"bufio"
	"encoding/hex"
	"fmt"
	"os"
	"regexp"
	"strconv"
	"strings"
)

func main() {
	sc := bufio.NewScanner(os.Stdin)
	sc.Buffer(make([]byte, 1<<20), 1<<20)
	for sc.Scan() {
		line := strings.TrimSpace(sc.Text())
		if line == "" || strings.HasPrefix(line, "#") {
			continue
		}
		ps, err := strconv.QuotedPrefix(line)
		if err != nil {
			panic(line)
		}
		p, _ := strconv.Unquote(ps)
		s, err := strconv.Unquote(strings.TrimSpace(line[len(ps):]))
		if err != nil {
			panic(line)
		}
		m, err := regexp.MatchString(p, s)
		v := "F"
		if err != nil {
			v = "E"
		} else if m {
			v = "T"
		}
		fmt.Printf("%s %s %s\n", hex.EncodeToString([]byte(p)), hex.EncodeToString([]byte(s)), v)
	}
}
