#!/usr/bin/env python3
"""register -f PATTERN: the real binary against the whole extracted model (Driver.handle).

usage: PYTHONDONTWRITEBYTECODE=1 python3 cli_check.py HR_BINARY MODEL_BINARY SEED NCASES

Reuses the case format, the request encoding and the comparison of the verification
harness (/verif/harness/py/hv/run.py, read only).  A case: a database, a log of a few days
whose food names are drawn from an alphabet with non-ASCII letters, invalid UTF-8 and
metacharacters, and `reg -f PATTERN` with a generated pattern (valid subset, near misses,
(?i), plain text with non-ASCII / invalid bytes).  Model "unmodelled" is always acceptable."""
import os, random, subprocess, sys, tempfile, shutil
sys.path.insert(0, "/verif/harness/py")
from hv import run

LIT = ["a", "b", "c", "k", "s", "K", "A", "1", "0", " ", "/", "-", "é", "я", "\u212a", "\u017f", "\ufffd", "_", ","]
ESC = [r"\d", r"\w", r"\s", r"\D", r"\W", r"\S", r"\.", r"\*", r"\(", r"\\", r"\/", r"\-", r"\b", r"\B", r"\A", r"\z", r"\t"]
RARE = [r"\pL", r"\x41", r"\101", r"\1", r"\Q", r"\C", r"\q", "[[:alpha:]]", "(?s:.)", "(?P<n>a)", "(?m)^", "(?U)a*"]

def klass(r):
    s = "[" + ("^" if r.random() < .3 else "")
    for _ in range(r.randint(1, 3)):
        t = r.random()
        if t < .4: s += r.choice(LIT)
        elif t < .7: s += r.choice(["a-z", "A-Z", "0-9", "a-c", "j-l", "r-t", "é-я", "z-a", "a-"])
        else: s += r.choice(ESC[:12])
    return s + ("]" if r.random() < .95 else "")

def atom(r, d):
    t = r.random()
    if t < .45: return r.choice(LIT[:12])
    if t < .5: return r.choice(LIT)
    if t < .58: return "."
    if t < .7: return klass(r)
    if t < .8: return r.choice(ESC)
    if t < .83: return r.choice(RARE)
    if t < .88: return r.choice(["^", "$"])
    if d <= 0: return "a"
    return r.choice(["(", "(", "(?:", "(?i:"]) + alt(r, d - 1) + (")" if r.random() < .97 else "")

def piece(r, d):
    a = atom(r, d); t = r.random()
    if t < .12: return a + "*"
    if t < .22: return a + "+"
    if t < .32: return a + "?"
    if t < .40: return a + r.choice(["{2}", "{1,3}", "{0,}", "{2,}", "{0}", "{3,2}", "{1001}", "{,2}", "{"])
    if t < .44: return a + r.choice(["*?", "+?", "??", "**", "+*", "{2}{3}"])
    return a

def alt(r, d):
    s = "".join(piece(r, d) for _ in range(r.randint(0, 3) + 1))
    while r.random() < .25: s += "|" + "".join(piece(r, d) for _ in range(r.randint(0, 3)))
    return s

def pattern(r):
    t = r.random()
    if t < .5: p = alt(r, 2).encode("utf-8")
    elif t < .6: p = ("(?i)" + alt(r, 1)).encode("utf-8")
    elif t < .75:
        bs = bytearray(alt(r, 2).encode("utf-8"))
        for _ in range(r.randint(1, 2)):
            pos = r.randint(0, len(bs)); ins = r.choice([b"(", b")", b"[", b"]", b"*", b"\\", b"{", b"\xff", b"\xc3", b"|", b"?"])
            if r.random() < .5: bs[pos:pos] = ins
            elif pos < len(bs): bs[pos:pos + 1] = ins
        p = bytes(bs)
    else:
        p = "".join(r.choice(["a", "b", "c", "k", "1", " ", "/", "é", "я", "\ufffd", "A"]) for _ in range(r.randint(1, 4))).encode("utf-8")
        if r.random() < .2: p += r.choice([b"\xff", b"\xc3", b"\xe2\x82"])
    # an argument vector cannot hold NUL, and an empty pattern selects another reporter
    p = p.replace(b"\x00", b"")
    return p or b"a"

NAME = ["a", "a", "b", "c", "k", "s", "K", "A", "1", "0", "/", "-", "é", "я", "\u212a", "\u017f", "\ufffd", "_", ",", ".", "*", "(", "\xff", "\xc3", "ab", "ka", "bread", "milk", "app"]

def name(r, p):
    n = ""
    for _ in range(r.randint(1, 5)):
        n += r.choice(NAME)
    b = n.encode("latin-1") if all(ord(c) < 256 for c in n) and ("\xff" in n or "\xc3" in n) and not any(0x80 <= ord(c) < 0xc3 or 0xc3 < ord(c) < 0xff for c in n) else n.encode("utf-8", "surrogateescape")
    if r.random() < .3 and p:
        i = r.randrange(len(p)); b += p[i:i + r.randint(1, 3)]
    # a name must survive the log parser: no leading/trailing blanks, no colon-ish trouble, no newline, not empty
    b = b.replace(b"\n", b"").replace(b"\r", b"").replace(b":", b"").replace(b"#", b"").strip(b" \t")
    return b or b"x"

def log(r, p):
    out = b""
    for d in range(r.randint(0, 3)):
        out += b"2021/01/%02d:\n" % (d + 1)
        for _ in range(r.randint(0, 3)):
            out += b"  - " + name(r, p) + b": %d\n" % r.randint(1, 9)
    return out

def main():
    hr, model, seed, n = sys.argv[1], sys.argv[2], int(sys.argv[3]), int(sys.argv[4])
    r = random.Random(seed)
    cases = []
    for _ in range(n):
        p = pattern(r)
        cases.append(dict(cmd="reg", single_food=p, g_no_color=True, f_today="2021/02/01",
                          files={"food.yaml": b"bread:\n  kcal: 2\n", "log.yaml": log(r, p)}))
    lines = [run.model_request(c) for c in cases]
    env = dict(os.environ)
    mp = subprocess.run(["bash", "-c", "ulimit -s unlimited 2>/dev/null; exec " + model], input=("\n".join(lines) + "\n").encode(), stdout=subprocess.PIPE, env=env)
    mouts = [bytes.fromhex(x) if not x.startswith("!") else x.encode() for x in mp.stdout.decode().split("\n")[:len(cases)]]
    work = tempfile.mkdtemp(prefix="wp29-cli.", dir="/var/tmp")
    stats = dict(agree_ok=0, agree_rows=0, agree_regexp_error=0, agree_other_fail=0, unmodelled=0, bad=0)
    try:
        for c, m in zip(cases, mouts):
            res = run.run_cli_case({"hr": hr}, c, work)
            mst, mout = run.parse_model_outcome(m)
            if mst.startswith("fail:unmodelled"): stats["unmodelled"] += 1; continue
            d = run.compare_cli(m, res)
            if d is not None:
                stats["bad"] += 1
                print("DISCREPANCY pattern=%r log=%r: %s" % (c["single_food"], c["files"]["log.yaml"], d))
            elif mst == "ok":
                stats["agree_ok"] += 1
                if mout: stats["agree_rows"] += 1
            elif mst == "fail:regexp": stats["agree_regexp_error"] += 1
            else: stats["agree_other_fail"] += 1
    finally:
        shutil.rmtree(work, ignore_errors=True)
    print("cases=%d " % len(cases) + " ".join("%s=%d" % kv for kv in stats.items()))

main()
