// Generates (pattern, name) pairs and Go's verdict for each:
//   <hex pattern> <hex name> <E|T|F>
// E: regexp.MatchString returned an error; T/F: the boolean.
// usage: go run gen.go SEED NPATTERNS > cases.txt
package main

import (
	"bufio"
	"encoding/hex"
	"fmt"
	"math/rand"
	"os"
	"regexp"
	"strconv"
	"strings"
)

var rng *rand.Rand

func pick(xs []string) string { return xs[rng.Intn(len(xs))] }

var lits = []string{"a", "b", "c", "k", "s", "K", "S", "A", "z", "1", "0", "9", "_", " ", "/", "-", "é", "я", "K", "ſ", "�", ",", ":", "}", "]", "=", "!", "<", "\t"}
var escs = []string{`\d`, `\w`, `\s`, `\D`, `\W`, `\S`, `\.`, `\*`, `\(`, `\)`, `\\`, `\[`, `\]`, `\{`, `\}`, `\+`, `\?`, `\|`, `\^`, `\$`, `\-`, `\_`, `\ `, `\/`, `\n`, `\t`, `\r`, `\f`, `\v`, `\a`, `\b`, `\B`, `\A`, `\z`}
var rareEsc = []string{`\pL`, `\p{Greek}`, `\PL`, `\x41`, `\x{41}`, `\101`, `\0`, `\1`, `\8`, `\Q`, `\E`, `\C`, `\Z`, `\q`, `\é`, `\e`, `\G`, `\h`, `\<`, `\'`, `\"`, `\#`, `\~`, `\x`, `\k`, `\R`}

func classItem() string {
	switch rng.Intn(12) {
	case 0, 1, 2:
		return pick(lits)
	case 3, 4:
		a, c := pick(lits), pick(lits)
		return a + "-" + c
	case 5:
		return pick([]string{"a-z", "A-Z", "0-9", "a-c", "j-l", "r-t", "J-L", "R-T", " -/", "\x00-ž", "é-я", "a-я", "Ā-\U0010ffff", "\x00-\U0010ffff", "J-l"})
	case 6, 7:
		return pick(escs[:30])
	case 8:
		return pick([]string{"[:alpha:]", "[:digit:]", "[:^alpha:]", "[:foo:]", "[:", "[", "^", "-", "]", `\pL`, `\b`, `\A`, `\z`, `\x41`, `\Q`, `\101`})
	case 9:
		return pick([]string{`\d-a`, `a-\d`, `\.-\/`, `+--`, `--/`, `a--`, `\--a`, `\n-\r`})
	default:
		return pick(lits[:12])
	}
}

func class() string {
	var sb strings.Builder
	sb.WriteString("[")
	if rng.Intn(3) == 0 {
		sb.WriteString("^")
	}
	if rng.Intn(10) == 0 {
		sb.WriteString(pick([]string{"]", "-", "^"}))
	}
	n := 1 + rng.Intn(3)
	for i := 0; i < n; i++ {
		sb.WriteString(classItem())
	}
	if rng.Intn(12) == 0 {
		sb.WriteString("-")
	}
	if rng.Intn(25) != 0 {
		sb.WriteString("]")
	}
	return sb.String()
}

func count() string {
	ns := []string{"0", "1", "2", "3", "5", "10", "31", "32", "33", "100", "500", "999", "1000", "1001", "01", "00", "99999999999", ""}
	switch rng.Intn(8) {
	case 0, 1, 2:
		return "{" + pick(ns[:7]) + "}"
	case 3:
		return "{" + pick(ns[:5]) + ",}"
	case 4, 5:
		return "{" + pick(ns[:5]) + "," + pick(ns[:7]) + "}"
	case 6:
		return "{" + pick(ns) + "," + pick(ns) + "}"
	default:
		return pick([]string{"{,2}", "{2", "{", "{}", "{a}", "{2,3", "{ 2}", "{2 }", "{-1}", "{1001}", "{1000}", "{1000,}", "{2,1}", "{0}", "{0,0}", "{0,}", "{1,1000}", "{1,1001}"})
	}
}

func atom(depth int) string {
	switch r := rng.Intn(40); {
	case r < 14:
		return pick(lits[:16])
	case r < 17:
		return pick(lits)
	case r < 20:
		return "."
	case r < 25:
		return class()
	case r < 30:
		return pick(escs)
	case r < 31:
		return pick(rareEsc)
	case r < 33:
		return pick([]string{"^", "$", `\b`, `\B`, `\A`, `\z`})
	default:
		if depth <= 0 {
			return pick(lits[:8])
		}
		open := pick([]string{"(", "(", "(", "(?:", "(?:", "(?i:", "(?i:", "(?P<n>", "(?<n>", "(?s:", "(?m:", "(?U:", "(?-i:", "(?i)", "(?", "(?)", "(?is:", "(?i-s:"})
		if rng.Intn(60) == 0 {
			return open + alt(depth-1)
		}
		return open + alt(depth-1) + ")"
	}
}

func piece(depth int) string {
	a := atom(depth)
	switch r := rng.Intn(30); {
	case r < 4:
		return a + "*"
	case r < 7:
		return a + "+"
	case r < 10:
		return a + "?"
	case r < 13:
		return a + count()
	case r < 15:
		return a + pick([]string{"*?", "+?", "??"}) 
	case r < 16:
		return a + count() + "?"
	case r < 17:
		return a + pick([]string{"**", "*+", "+*", "?*", "*??", "+??", "?+", "++"}) 
	case r < 18:
		return a + pick([]string{"*", "+", "?", ""}) + count() + pick([]string{"*", "+", "", "", "?"}) + pick([]string{"", "", count()})
	}
	return a
}

func concat(depth int) string {
	n := rng.Intn(4)
	if rng.Intn(8) != 0 {
		n++
	}
	var sb strings.Builder
	for i := 0; i < n; i++ {
		sb.WriteString(piece(depth))
	}
	return sb.String()
}

func alt(depth int) string {
	s := concat(depth)
	for rng.Intn(4) == 0 {
		s += "|" + concat(depth)
	}
	return s
}

var metas = []string{"(", ")", "[", "]", "{", "}", "*", "+", "?", "|", "\\", "^", "$", ".", "-", ",", ":", "a", "k", "1", "\xff", "\xc3", "\xe2\x82", "é", "(?i)", "(?:", "?", "0"}

func mutate(p string) string {
	bs := []byte(p)
	n := 1 + rng.Intn(2)
	for i := 0; i < n; i++ {
		pos := 0
		if len(bs) > 0 {
			pos = rng.Intn(len(bs) + 1)
		}
		switch rng.Intn(3) {
		case 0: // insert
			ins := []byte(pick(metas))
			bs = append(bs[:pos], append(ins, bs[pos:]...)...)
		case 1: // delete
			if pos < len(bs) {
				bs = append(bs[:pos], bs[pos+1:]...)
			}
		case 2: // replace
			if pos < len(bs) {
				ins := []byte(pick(metas))
				bs = append(bs[:pos], append(ins, bs[pos+1:]...)...)
			}
		}
	}
	return string(bs)
}

func soup() string {
	n := rng.Intn(7)
	var sb strings.Builder
	for i := 0; i < n; i++ {
		sb.WriteString(pick(metas))
	}
	return sb.String()
}

func plain() string {
	ab := []string{"a", "b", "c", "k", "1", " ", "/", "é", "я", "�", "A", "K"}
	n := rng.Intn(5)
	var sb strings.Builder
	for i := 0; i < n; i++ {
		sb.WriteString(pick(ab))
	}
	if rng.Intn(15) == 0 {
		sb.WriteString(pick([]string{"\xff", "\xc3", "\xe2\x82", "\x80"}))
	}
	return sb.String()
}

var nameAb = []string{"a", "a", "b", "c", "k", "s", "K", "S", "A", "z", "1", "0", "9", "_", " ", "/", "-", "é", "я", "K", "ſ", "�", "\xff", "\xc3", "\xe2\x82", "\n", ",", ":", "}", "]", "=", "!", ".", "*", "(", "\\", "{", "2", "\t", "\x0b", "\U0001F600", "[", "^", "$", "+", "?", "|", ")", "<", "\r", "\x0c", "\x00", "\x7f"}

func name(p string) string {
	n := rng.Intn(7)
	var sb strings.Builder
	for i := 0; i < n; i++ {
		if rng.Intn(3) == 0 && len(p) > 0 {
			// a piece of the pattern itself
			i0 := rng.Intn(len(p))
			l := 1 + rng.Intn(3)
			if i0+l > len(p) {
				l = len(p) - i0
			}
			sb.WriteString(p[i0 : i0+l])
		} else {
			sb.WriteString(pick(nameAb[:28]))
		}
		if rng.Intn(20) == 0 {
			sb.WriteString(pick(nameAb))
		}
	}
	return sb.String()
}

func main() {
	seed, _ := strconv.ParseInt(os.Args[1], 10, 64)
	np, _ := strconv.Atoi(os.Args[2])
	rng = rand.New(rand.NewSource(seed))
	w := bufio.NewWriterSize(os.Stdout, 1<<20)
	defer w.Flush()
	for i := 0; i < np; i++ {
		var p string
		switch r := rng.Intn(20); {
		case r < 9:
			p = alt(2)
		case r < 11:
			p = "(?i)" + alt(2)
		case r < 15:
			p = mutate(alt(2))
		case r < 16:
			p = mutate("(?i)" + alt(1))
		case r < 18:
			p = soup()
		default:
			p = plain()
		}
		re, err := regexp.Compile(p)
		k := 3
		if err != nil {
			k = 1
		}
		for j := 0; j < k; j++ {
			s := name(p)
			v := "E"
			if err == nil {
				// MatchString(pattern, s) is Compile + re.MatchString(s)
				if re.MatchString(s) {
					v = "T"
				} else {
					v = "F"
				}
			}
			fmt.Fprintf(w, "%s %s %s\n", hex.EncodeToString([]byte(p)), hex.EncodeToString([]byte(s)), v)
		}
	}
}
