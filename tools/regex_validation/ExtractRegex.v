(* Extraction of the regular-expression model alone (ExtrOcamlBasic only). *)
From Coq Require Import extraction.Extraction extraction.ExtrOcamlBasic.
From Coq Require Import List.
From HP Require Import Model.Regex.
Extraction Language OCaml.
Extract Constant List.rev => "(fun l -> Stdlib.List.rev l)".
Separate Extraction Regex.parse_regex Regex.re_search.
