#!/usr/bin/env python3
"""Nested bounded repetitions (repeatIsValid, the {1000} limits, Go's size limits):
prints Go-quoted "pattern" "name" lines for manual.go.   usage: heavy_gen.py SEED N | go run manual.go | ./check"""
import random, sys
r = random.Random(int(sys.argv[1])); n = int(sys.argv[2])
reps = ['{1000}','{10}','{100}','{2}','{0,1000}','*','+','?','{999,1000}','{3,}','{1000,}','{31}','{32}','{0}','{1}','{1,}','{0,1}','{5,10}','{33}','{500}','{501}','{2,500}','{250}','{4}','{25}','{40}']
def gq(bs): return '"' + ''.join('\\x%02x' % c for c in bs) + '"'
def atom(d):
    t = r.random()
    if d <= 0 or t < .45: return r.choice(['a','a','b','.','[ab]','^','$'])
    return r.choice(['(','(?:']) + alt(d-1) + ')'
def piece(d):
    a = atom(d)
    if r.random() < .6: a += r.choice(reps) + ('?' if r.random() < .1 else '')
    return a
def alt(d):
    s = ''.join(piece(d) for _ in range(r.randint(1, 3)))
    if r.random() < .2: s += '|' + ''.join(piece(d) for _ in range(r.randint(0, 2)))
    return s
for _ in range(n):
    p = alt(4)
    s = ''.join(r.choice('aab') for _ in range(r.randint(0, 14)))
    print(gq(p.encode()), gq(s.encode()))
