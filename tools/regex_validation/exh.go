// Exhaustive companion of gen.go: every pattern of length <= L over a small
// alphabet of metacharacters and literals, each against a fixed set of names.
// usage: go run exh.go L ALPHABET > cases.txt      (same line format as gen.go)
package main

import (
	"bufio"
	"encoding/hex"
	"fmt"
	"os"
	"regexp"
	"strconv"
)

func main() {
	L, _ := strconv.Atoi(os.Args[1])
	ab := []byte(os.Args[2])
	names := []string{"", "a", "aa", "b", "ab", "ba1", "a-b", "\n", "a\nb", "{1}", "a,", "1a", "\xff", "A"}
	w := bufio.NewWriterSize(os.Stdout, 1<<20)
	defer w.Flush()
	var rec func(cur []byte)
	rec = func(cur []byte) {
		p := string(cur)
		re, err := regexp.Compile(p)
		ph := hex.EncodeToString(cur)
		if err != nil {
			fmt.Fprintf(w, "%s %s E\n", ph, "")
		} else {
			for _, s := range append(names, p) {
				v := "F"
				if re.MatchString(s) {
					v = "T"
				}
				fmt.Fprintf(w, "%s %s %s\n", ph, hex.EncodeToString([]byte(s)), v)
			}
		}
		if len(cur) < L {
			for _, c := range ab {
				rec(append(cur, c))
			}
		}
	}
	rec(nil)
}
