(* Reads "<hex pattern> <hex name> <E|T|F>" lines (Go's verdicts) and compares
   with the extracted parse_regex / re_search:
     ReOk        : Go must compile and the boolean must agree
     ReError     : Go must have returned an error
     ReUnmodelled: always acceptable
   Prints every discrepancy and a summary; with -u also every declined pattern. *)
module S = Stdlib.String
module L = Stdlib.List
let rec pos_of_int n = if n = 1 then BinNums.Coq_xH
  else if n land 1 = 0 then BinNums.Coq_xO (pos_of_int (n lsr 1)) else BinNums.Coq_xI (pos_of_int (n lsr 1))
let n_of_int n = if n = 0 then BinNums.N0 else BinNums.Npos (pos_of_int n)
let hexval c = match c with '0'..'9' -> Char.code c - 48 | 'a'..'f' -> Char.code c - 87 | 'A'..'F' -> Char.code c - 55 | _ -> failwith "hex"
let bytes_of_hex s =
  let n = S.length s / 2 in
  let rec go i acc = if i < 0 then acc else go (i - 1) (n_of_int (hexval (S.get s (2*i)) * 16 + hexval (S.get s (2*i+1))) :: acc) in
  go (n - 1) []
let () =
  let ok_t = ref 0 and ok_f = ref 0 and ok_e = ref 0 and unm = ref 0 and unm_e = ref 0 and bad = ref 0 and total = ref 0 in
  let last_p = ref "" and last_r = ref Regex.ReUnmodelled in
  (try
    while true do
      let line = input_line stdin in
      match S.split_on_char ' ' line with
      | [ph; nh; v] ->
          incr total;
          let r = if ph = !last_p && !total > 1 then !last_r else (let r = Regex.parse_regex (bytes_of_hex ph) in last_p := ph; last_r := r; r) in
          (match r with
           | Regex.ReUnmodelled -> incr unm; if v = "E" then incr unm_e;
               if Array.length Sys.argv > 1 && Sys.argv.(1) = "-u" then Printf.printf "UNMODELLED go=%s pattern=%s\n" v ph
           | Regex.ReError -> if v = "E" then incr ok_e else (incr bad; Printf.printf "DISCREPANCY model=E go=%s pattern=%s name=%s\n" v ph nh)
           | Regex.ReOk re ->
               if v = "E" then (incr bad; Printf.printf "DISCREPANCY model=Ok go=E pattern=%s name=%s\n" ph nh)
               else
                 let m = Regex.re_search re (bytes_of_hex nh) in
                 let mv = if m then "T" else "F" in
                 if mv = v then (if m then incr ok_t else incr ok_f)
                 else (incr bad; Printf.printf "DISCREPANCY model=%s go=%s pattern=%s name=%s\n" mv v ph nh))
      | _ -> ()
    done
  with End_of_file -> ());
  Printf.printf "cases=%d agree_true=%d agree_false=%d agree_error=%d unmodelled=%d (of which Go error: %d) discrepancies=%d\n"
    !total !ok_t !ok_f !ok_e !unm !unm_e !bad
