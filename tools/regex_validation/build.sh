#!/bin/bash
# Extracts Model/Regex.v and builds ./check (the comparer); go run gen.go SEED N | ./check
set -e
cd "$(dirname "$0")"
mkdir -p build && cd build
find . -maxdepth 1 \( -name '*.ml' -o -name '*.mli' -o -name '*.cm*' -o -name '*.o' \) -delete
cp ../ExtractRegex.v . && coqc -Q ../../../theories HP ExtractRegex.v > extract.log 2>&1 || { cat extract.log; exit 1; }
cp ../check.ml .
ORDER=$(ocamlfind ocamldep -sort *.ml *.mli)
ocamlfind ocamlopt -O3 -w -a -o ../check $ORDER 2> build.log || ocamlfind ocamlopt -w -a -o ../check $ORDER 2> build.log || { cat build.log; exit 1; }
cd .. && rm -rf build
echo built $(pwd)/check
