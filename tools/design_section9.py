#!/usr/bin/env python3
"""Regenerates the table of seeded changes inside DESIGN.md §9.5 from /verif/seeded/*/meta.json (development aid)."""
import json, glob, re, sys
rows = []
for f in sorted(glob.glob('/verif/seeded/*/meta.json')):
    m = json.load(open(f)); sid = f.split('/')[-2]
    def cl(x, n): return re.sub(r"\s+", " ", x).replace("|", "/")[:n]
    al = m.get('checks_run', {}).get(m['property'], {}).get('alarms', [])
    keys = sorted({re.sub(r"^VIOLATION property=\S+ replay=\S+ ", "", a)[:70] for a in al})[:1]
    rows.append("| %s | %s | %s | %s |" % (sid, cl(m['summary'], 170), cl(m['needs'], 150), (", ".join(m.get('detected_by', [])) or "**missed**") + (" (after extending the generators)" if m.get('missed_at_first') else "")))
for f in sorted(glob.glob('/verif/seeded_retired/*/meta.json')):
    m = json.load(open(f)); sid = f.split('/')[-2]
    rows.append("| %s | %s | %s | %s |" % (sid, cl(m['summary'], 170), cl(m['needs'], 150), "retired: no defect on the repaired tree (was caught by %s before the repair)" % ", ".join(m.get('detected_by', []))))
table = "| id | change | needs | caught by (quick) |\n|----|--------|-------|-------------------|\n" + "\n".join(rows)
p = '/verif/DESIGN.md'; s = open(p).read()
a = s.index("<!-- SEEDED-TABLE-BEGIN -->"); z = s.index("<!-- SEEDED-TABLE-END -->")
s = s[:a] + "<!-- SEEDED-TABLE-BEGIN -->\n" + table + "\n" + s[z:]
open(p, 'w').write(s)
print(len(rows), "rows")
