#!/bin/bash
# development aid: evaluates every finished candidate of a seeding round (dir/<Cxx>/<letter>/{patch.diff,meta.json,demo*}) not evaluated yet
R=${1:-/tmp/mut3/out}
for d in $R/C*/?; do
  [ -f $d/meta.json ] && [ -f $d/patch.diff ] || continue
  id=$(basename $(dirname $d))-$(basename $d)
  [ -f /verif/seeded/$id/meta.json ] && continue
  echo "=== $id"
  python3 /verif/tools/mutant_eval.py $d $id 2>&1 | grep -v '^WARNING' | tail -14 | cut -c1-400
done
