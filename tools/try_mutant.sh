#!/bin/bash
# usage: try_mutant.sh <patch.diff> <tier> <Cxx> [Cxx...]   applies the patch to /repo, runs the checks, reverts.
P=$1; T=$2; shift 2
git -C /repo diff --quiet || { echo "/repo not clean"; exit 2; }
git -C /repo apply "$P" || { echo "patch does not apply"; exit 2; }
trap 'git -C /repo checkout -- . ; git -C /repo clean -fdq' EXIT
for c in "$@"; do
  out=$(/verif/bin/check $T $c 2>&1); rc=$?
  echo "== $c rc=$rc: $(echo "$out" | grep -c VIOLATION) violation line(s)"; echo "$out" | grep "VIOLATION\|Traceback\|Error" | cut -c1-330 | head -4
done
