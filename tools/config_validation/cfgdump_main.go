// scratch tool (WP28): gcfg.ReadInto on the program's own Options type, fields dumped
package main

import (
	"bufio"
	"bytes"
	"encoding/hex"
	"fmt"
	"os"
	"strings"
	"time"

	"github.com/aquilax/hranoprovod-cli/cmd/hranoprovod-cli/v3/internal/options"
	gcfg "gopkg.in/gcfg.v1"
)

func sentinel(k int) *options.Options {
	o := options.New()
	tag := fmt.Sprintf("\x01sentinel%d", k)
	o.GlobalConfig.DbFileName = tag
	o.GlobalConfig.LogFileName = tag
	o.GlobalConfig.DateFormat = tag
	o.GlobalConfig.Now = time.Unix(int64(1000+k), int64(k+1)).In(time.FixedZone("S", 60*(k+1)))
	o.ResolverConfig.MaxDepth = -7777770 - k
	return o
}

func run(k int, data []byte) (o *options.Options, err error, pan interface{}) {
	defer func() {
		if r := recover(); r != nil {
			pan = r
		}
	}()
	o = sentinel(k)
	err = gcfg.ReadInto(o, bufio.NewReader(bytes.NewReader(data)))
	return
}

func sameTime(a, b time.Time) bool {
	_, oa := a.Zone()
	_, ob := b.Zone()
	return a.Equal(b) && oa == ob
}

func main() {
	sc := bufio.NewScanner(os.Stdin)
	sc.Buffer(make([]byte, 1<<20), 1<<26)
	w := bufio.NewWriter(os.Stdout)
	defer w.Flush()
	for sc.Scan() {
		data, e := hex.DecodeString(strings.TrimSpace(sc.Text()))
		if e != nil {
			fmt.Fprintln(w, "badhex")
			continue
		}
		a, errA, panA := run(0, data)
		b, errB, panB := run(1, data)
		if panA != nil || panB != nil {
			fmt.Fprintf(w, "panic %v\n", panA)
			continue
		}
		if (errA == nil) != (errB == nil) {
			fmt.Fprintln(w, "inconsistent")
			continue
		}
		if errA != nil {
			fmt.Fprintf(w, "err %s\n", hex.EncodeToString([]byte(errA.Error())))
			continue
		}
		sa, sb := sentinel(0), sentinel(1)
		str := func(va, vb, na, nb string) string {
			if va != na {
				return "s" + hex.EncodeToString([]byte(va))
			}
			if vb != nb {
				return "s" + hex.EncodeToString([]byte(vb))
			}
			return "-"
		}
		depth := "-"
		if a.ResolverConfig.MaxDepth != sa.ResolverConfig.MaxDepth {
			depth = fmt.Sprint(a.ResolverConfig.MaxDepth)
		} else if b.ResolverConfig.MaxDepth != sb.ResolverConfig.MaxDepth {
			depth = fmt.Sprint(b.ResolverConfig.MaxDepth)
		}
		now := "-"
		var t *time.Time
		if !sameTime(a.GlobalConfig.Now, sa.GlobalConfig.Now) {
			t = &a.GlobalConfig.Now
		} else if !sameTime(b.GlobalConfig.Now, sb.GlobalConfig.Now) {
			t = &b.GlobalConfig.Now
		}
		if t != nil {
			_, off := t.Zone()
			now = fmt.Sprintf("%d,%d,%d,%d,%d,%d", t.Unix(), t.Nanosecond(), off, t.Year(), int(t.Month()), t.Day())
		}
		fmt.Fprintf(w, "ok %s %s %s %s %s\n",
			str(a.GlobalConfig.DbFileName, b.GlobalConfig.DbFileName, sa.GlobalConfig.DbFileName, sb.GlobalConfig.DbFileName),
			str(a.GlobalConfig.LogFileName, b.GlobalConfig.LogFileName, sa.GlobalConfig.LogFileName, sb.GlobalConfig.LogFileName),
			str(a.GlobalConfig.DateFormat, b.GlobalConfig.DateFormat, sa.GlobalConfig.DateFormat, sb.GlobalConfig.DateFormat),
			depth, now)
	}
}
