#!/usr/bin/env python3
"""WP28: the real binary on configuration texts.  usage: realrun.py HEXFILE MODELFILE [LIMIT]
 model ok e  -> the binary must behave exactly as with the harness's rendering of e (hv/run.py cfg_file_text)
 model err   -> the binary must fail (rc 1, empty stdout) with a gcfg error message
 model unm   -> anything"""
import sys, os, re, subprocess, tempfile, shutil, collections
from concurrent.futures import ThreadPoolExecutor
HR = "/var/tmp/WP28/hr"
texts = [bytes.fromhex(x) for x in open(sys.argv[1]).read().split("\n")[:-1]]
model = open(sys.argv[2]).read().split("\n")[:-1]
limit = int(sys.argv[3]) if len(sys.argv) > 3 else len(texts)
texts, model = texts[:limit], model[:limit]
TS = re.compile(rb"^\d{4}/\d\d/\d\d \d\d:\d\d:\d\d ")
GCFG = re.compile(rb"can't store data|expected |illegal |blank value not supported|failed to parse|parsing time|unquoted '|string not terminated|unknown escape|out of range")

root = tempfile.mkdtemp(prefix="wp28real", dir="/var/tmp/WP28")
chain = "".join("c%d:\n  c%d: 1\n" % (i, i + 1) for i in range(6)) + "c6:\n  kcal: 2\n"
book = "a:\n  kcal: 1\n"
logs = {"2006/01/02": "2020/02/03:\n  a: 2\n2020/02/04:\n  c0: 1\n2021/03/01:\n  a: 1\n", "2006-01-02": "2020-02-03:\n  a: 2\n2020-02-04:\n  c0: 1\n", "02.01.2006": "03.02.2020:\n  a: 2\n04.02.2020:\n  c0: 1\n"}
for name in ["food.yaml", "my food.yaml", "храна.yaml", "日本.yaml", "a=b", "0", "a  b", "a\tb"]:
    open(os.path.join(root, name), "w").write(book)
for name, fmt in [("log.yaml", "2006/01/02"), ("журнал.yaml", "2006-01-02"), ("true", "02.01.2006"), ("x]", "2006/01/02"), ("[x]", "2006-01-02")]:
    open(os.path.join(root, name), "w").write(logs[fmt])
open(os.path.join(root, "chain.yaml"), "w").write(chain)

def canonical(m):
    f = m.split(" ")
    assert f[0] == "ok"
    def s(x): return None if x == "-" else bytes.fromhex(x[1:])
    lines = [b"[Global]"]
    if f[5] != "-":
        unix, ns, off, y, mo, d = [int(v) for v in f[5].split(",")]
        assert ns == 0
        sod = (unix + off) % 86400
        sign = "+" if off >= 0 else "-"
        zone = "Z" if off == 0 else "%s%02d:%02d" % (sign, abs(off) // 3600, abs(off) % 3600 // 60)
        lines.append(("Now=%04d-%02d-%02dT%02d:%02d:%02d%s" % (y, mo, d, sod // 3600, sod % 3600 // 60, sod % 60, zone)).encode())
    if s(f[1]) is not None: lines.append(b"DbFileName=" + s(f[1]))
    if s(f[2]) is not None: lines.append(b"LogFileName=" + s(f[2]))
    if s(f[3]) is not None: lines.append(b"DateFormat=" + s(f[3]))
    lines.append(b"[Resolver]")
    if f[4] != "-": lines.append(b"MaxDepth=" + f[4].encode())
    return b"\n".join(lines) + b"\n"

CMDS = [["--no-color", "stats"], ["-d", "chain.yaml", "-l", "log.yaml", "--no-color", "csv", "database-resolved"], ["--no-color", "csv", "log"], ["--no-color", "-d", "food.yaml", "-b", "today", "reg"]]
def run(cfgname, cmd):
    p = subprocess.run([HR, "-c", cfgname] + cmd, cwd=root, env={"PATH": "/usr/bin:/bin", "TZ": "UTC", "HOME": root}, stdout=subprocess.PIPE, stderr=subprocess.PIPE, timeout=30)
    return p.returncode, p.stdout, TS.sub(b"", p.stderr)

def one(k):
    t, m = texts[k], model[k]
    name = "cfg%d" % k
    open(os.path.join(root, name), "wb").write(t)
    res = []
    if m == "unm":
        rc, out, err = run(name, CMDS[0])
        return k, "unm/" + ("ok" if rc == 0 else "fail"), None
    if m == "err":
        for cmd in CMDS[:2]:
            rc, out, err = run(name, cmd)
            if not (rc == 1 and out == b"" and GCFG.search(err) and b"panic" not in err and b"goroutine" not in err):
                return k, "MISMATCH err", (cmd, rc, out, err)
        return k, "err/fail", None
    cname = name + ".canon"
    open(os.path.join(root, cname), "wb").write(canonical(m))
    allok = True
    for cmd in CMDS:
        a = run(name, cmd); bb = run(cname, cmd)
        if a != bb: return k, "MISMATCH ok", (cmd, a, bb)
        if GCFG.search(a[2]) and b"at section" in a[2]: return k, "MISMATCH ok (gcfg error)", (cmd, a, bb)
        allok = allok and a[0] == 0
    return k, "ok/same" + ("(all four commands succeed)" if allok else "(some command fails alike)"), None

cnt = collections.Counter(); bad = []
with ThreadPoolExecutor(8) as ex:
    for k, verdict, info in ex.map(one, range(len(texts))):
        cnt[verdict] += 1
        if info is not None: bad.append((k, verdict, info))
for k in sorted(cnt): print(k, cnt[k])
for k, v, info in bad[:10]:
    print("----", k, v); print(repr(texts[k])); print(" model:", model[k]); print(" ", info)
shutil.rmtree(root, ignore_errors=True)
