From Coq Require Import extraction.Extraction extraction.ExtrOcamlBasic.
From Coq Require Import List.
From HP Require Import Base.Bytes Model.Dates Model.Config.
Open Scope N_scope.
Definition hex_digit (n : N) : N := if n <? 10 then 48 + n else 87 + n.
Definition hex (s : bytes) : bytes := flat_map (fun c => [hex_digit (c / 16); hex_digit (c mod 16)]) s.
Definition show_ob (o : option bytes) : bytes := match o with None => b "-" | Some v => b "s" ++ hex v end.
Definition show_time (t : time) : bytes :=
  let '(y, m, d) := civ t in
  dec_of_Z (inst t / ns_per_sec)%Z ++ b "," ++ dec_of_Z (inst t mod ns_per_sec)%Z ++ b "," ++ dec_of_Z (off t) ++ b "," ++ dec_of_Z y ++ b "," ++ dec_of_Z m ++ b "," ++ dec_of_Z d.
Definition show_result (r : cfg_result) : bytes :=
  match r with
  | CfgError => b "err"
  | CfgUnmodelled => b "unm"
  | CfgOk f => b "ok " ++ show_ob (cf_db f) ++ b " " ++ show_ob (cf_log f) ++ b " " ++ show_ob (cf_fmt f) ++ b " "
               ++ match cf_depth f with None => b "-" | Some z => dec_of_Z z end ++ b " "
               ++ match cf_now f with None => b "-" | Some t => show_time t end
  end.
Definition handle (data : bytes) : bytes := show_result (parse_config data).
Extraction Language OCaml.
Extract Constant List.rev => "(fun l -> Stdlib.List.rev l)".
Separate Extraction handle.
