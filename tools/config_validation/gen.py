#!/usr/bin/env python3
"""WP28: configuration texts for the differential test of Model/Config.v against gcfg.
usage: gen.py SEED N  -> N lines of hex on stdout"""
import random, sys

seed, N = int(sys.argv[1]), int(sys.argv[2])
R = random.Random(seed)

BL = [b" ", b"\t", b"\r", b"  ", b" \t ", b""]
def bl(p=0.4):
    return R.choice(BL) if R.random() < p else b""

def recase(s):
    m = R.random()
    if m < 0.4: return s
    if m < 0.55: return s.lower()
    if m < 0.7: return s.upper()
    return bytes(c ^ 0x20 if (65 <= c <= 90 or 97 <= c <= 122) and R.random() < 0.5 else c for c in s)

SECTS = [b"Global", b"Resolver", b"ParserConfig", b"ReporterConfig", b"FilterConfig"]
BADSECTS = [b"Globals", b"GlobalConfig", b"ResolverConfig", b"Glob-al", b"Parser", b"x", b"Global1", b"Reso1ver", b"filter-config", b"Options"]
GVARS = [b"Now", b"DbFileName", b"LogFileName", b"DateFormat"]
BADVARS = [b"Foo", b"Db-File-Name", b"DbFileName2", b"MaxDepth", b"Nov", b"Db", b"Date-Format", b"x1", b"a-b", b"CommentChar", b"Color", b"CSV", b"BeginningTime", b"Output", b"N"]

STRVALS = [b"food.yaml", b"log.yaml", b"my food.yaml", b"/tmp/x y/z.yaml", b"2006/01/02", b"2006-01-02", b"02.01.2006", b"a=b", b"[x]", b"x]", b"=",
           "храна.yaml".encode(), "журнал.yaml".encode(), "日本.yaml".encode(), b"\xf0\x9f\x8d\x8e.yaml", b"a\tb", b"a  b", b"0", b"true", b"-", b"a\x01b", b"a\x7fb", b"\x0bx", b"x\x0c",
           b"", b"a'b", b"a`b", b"$HOME/x", b"~/.hr/food", b"a,b", b"%s", b"\xc2\xa0x", b"x\xc2\xa0", b"a\xe2\x80\xa8b", b"\xef\xbb\xbfx", b"\xef\xbf\xbd"]
SPECIAL_STR = [b'"food.yaml"', b'"a b"', b'a"b', b"a\\b", b"a\\", b'"a', b'a;b', b"a#b", b"a ;b", b"a\rb", b"a \r b", b"\\n", b'"a\\"b"', b"a\\\nb", b'"a\nb"', b"\xff", b"a\xc0\x80", b"\xed\xa0\x80", b"\xf4\x90\x80\x80", b"\xc3", b"a\x00b", b"\xe2\x82", b"\xf0\x9f\x8d"]

def rint():
    m = R.random()
    if m < 0.3: return str(R.randint(0, 30)).encode()
    if m < 0.4: return str(R.randint(-50, 50)).encode()
    if m < 0.5: return R.choice([b"+", b"-", b""]) + b"0" * R.randint(0, 3) + str(R.randint(0, 999)).encode()
    if m < 0.6: return str(R.choice([2**63 - 1, 2**63, -2**63, -2**63 - 1, 2**31, 2**64, 10**30, -10**30, 2**63 - 2, -2**63 + 1])).encode()
    return R.choice([b"0x10", b"-0x10", b"0X10", b"+0x10", b"010", b"0b11", b"0o17", b"1_000", b"1e3", b"1.0", b"1.", b".5", b"5 6", b"5\t6", b"- 5", b"+-5", b"--5", b"++5", b"5-", b"5+", b"abc", b"", b"0x", b"-0x", b"x10", b"5x",
                     b"1,000", b"\xd9\xa3", b"\xef\xbc\x95", b"5\xc2\xa0", b"\xc2\xa05", b"\x0b5", b"5\x0c", b"5\x0b6", b"true", b"0x1g", b"0x_1", b"-", b"+", b"00", b"-0", b"+0", b"0_1", b"1__0", b"_1", b"1_", b"0x1_0",
                     b"12345678901234567890", b"-9223372036854775808", b"9223372036854775807", b"9223372036854775808", b"-9223372036854775809", b"1'000", b"1 ", b"\x015"])

def rtime():
    m = R.random()
    y, mo, d = R.randint(0, 9999), R.randint(1, 12), R.randint(1, 28)
    h, mi, s = R.randint(0, 23), R.randint(0, 59), R.randint(0, 59)
    if m < 0.15:
        y = R.choice([0, 1, 1969, 1970, 1999, 2000, 2020, 2024, 2100, 9999]); mo = R.choice([1, 2, 3, 12]); d = R.choice([1, 28, 29, 30, 31])
    if m < 0.25 and m >= 0.15:
        mo = R.choice([0, 1, 12, 13, 99]); d = R.choice([0, 1, 31, 32]); h = R.choice([0, 23, 24, 25]); mi = R.choice([0, 59, 60]); s = R.choice([0, 59, 60, 61])
    z = R.random()
    if z < 0.35: zone = "Z"
    elif z < 0.85:
        zh = R.choice([0, 0, 1, 2, 5, 9, 12, 14, 23]); zm = R.choice([0, 0, 0, 30, 45, 59])
        zone = "%s%02d:%02d" % (R.choice("+-"), zh, zm)
    else:
        zone = R.choice(["+24:00", "-24:00", "+23:60", "+25:00", "+00:61", "+99:99", "z", "+0200", "+02", "+2:00", "+02:0", "", "ZZ", "Z+02:00", "+02:00Z", "-00:00", "+00:00", " Z", "UTC", "+02:00:00", "+02.00", "−02:00"])
    t = "%04d-%02d-%02dT%02d:%02d:%02d%s" % (y, mo, d, h, mi, s, zone)
    k = R.random()
    if k < 0.8: return t.encode()
    muts = [lambda t: t.replace("T", "t"), lambda t: t.replace("T", " "), lambda t: t[:19] + ".5" + t[19:], lambda t: t[:19] + ",5" + t[19:], lambda t: t[:19] + ".123456789" + t[19:],
            lambda t: t[:19] + "." + t[19:], lambda t: t[:11] + t[12:], lambda t: t[:10], lambda t: t[:19], lambda t: t[:16] + t[19:], lambda t: t[1:], lambda t: "+" + t, lambda t: "-" + t, lambda t: "1" + t,
            lambda t: t.replace("-", "/"), lambda t: t.replace(":", "."), lambda t: t[:5] + t[6:], lambda t: t[:8] + t[9:], lambda t: t[:14] + t[15:], lambda t: t[:17] + t[18:], lambda t: t + "x", lambda t: t + " x",
            lambda t: t[:19] + ".0000000000" + t[19:], lambda t: t[:4] + "-" + t[4:], lambda t: t.replace("T", "TT"), lambda t: "2020-02-30T00:00:00Z", lambda t: "2021-02-29T00:00:00Z", lambda t: "2020-02-29T23:59:59Z",
            lambda t: "2020-06-30T23:59:60Z", lambda t: "2020-1-02T03:04:05Z", lambda t: "20200102T030405Z", lambda t: "2020-01-02", lambda t: "10000-01-01T00:00:00Z", lambda t: "now", lambda t: "", lambda t: "2020-01-02T03:04:05+0٢:00"]
    return R.choice(muts)(t).encode()

def comment():
    c = R.choice([b";", b"#"])
    body = R.choice([b"", b" comment", b" \"quoted\" \\ back", b" [Global]", b" x = y", "# бележка".encode(), b";;#", b" \t", b" a\rb", b"\x01", b" tab\there"])
    if R.random() < 0.03: body = R.choice([b"\xff", b"a\x00", b"\xc3", b"\xed\xa0\x80"])
    return c + body

def eol_tail():
    """blanks and maybe a comment at the end of a line"""
    t = bl()
    if R.random() < 0.15: t += comment()
    return t

def sect_line(name=None, good=True):
    if name is None: name = R.choice(SECTS if good else BADSECTS)
    return bl(0.2) + b"[" + bl(0.2) + recase(name) + bl(0.2) + b"]" + eol_tail()

def var_line(name, val):
    return bl(0.2) + recase(name) + bl() + b"=" + bl() + val + eol_tail()

def valid_file(strict=False):
    """a text of the modelled subset (mostly)"""
    lines = []
    n = R.randint(0, 4)
    order = [R.choice([b"Global", b"Resolver", b"Global", b"Resolver", b"ParserConfig", b"ReporterConfig", b"FilterConfig"]) for _ in range(n)] if R.random() < 0.5 else [b"Global", b"Resolver"]
    for sec in order:
        while R.random() < 0.25: lines.append(R.choice([b"", bl(1), bl() + comment()]))
        lines.append(sect_line(sec))
        if sec == b"Global":
            for _ in range(R.randint(0, 5)):
                v = R.choice(GVARS)
                val = rtime() if v == b"Now" else R.choice(STRVALS)
                if strict and v == b"Now": val = ("%04d-%02d-%02dT%02d:%02d:%02d%s" % (R.randint(0, 9999), R.randint(1, 12), R.randint(1, 28), R.randint(0, 23), R.randint(0, 59), R.randint(0, 59), R.choice(["Z", "+02:00", "-11:30", "+00:00", "-00:00", "+23:59"]))).encode()
                lines.append(var_line(v, val))
                while R.random() < 0.15: lines.append(R.choice([b"", bl(1), bl() + comment()]))
        elif sec == b"Resolver":
            for _ in range(R.randint(0, 2)):
                val = str(R.randint(-3, 40)).encode() if strict else rint()
                lines.append(var_line(b"MaxDepth", val))
        else:
            if not strict and R.random() < 0.2: lines.append(var_line(R.choice([b"CommentChar", b"Color", b"CSV", b"Foo", b"BeginningTime", b"DateFormat"]), R.choice([b"35", b"true", b"x", b"2020-01-01T00:00:00Z"])))
    nl = b"\r\n" if R.random() < 0.15 else b"\n"
    txt = nl.join(lines)
    if R.random() < 0.8: txt += nl
    return txt

def near_miss():
    """one deviation from the subset inside an otherwise valid text"""
    base = valid_file(strict=True).split(b"\n")
    k = R.random()
    if k < 0.12: ins = var_line(R.choice(BADVARS), R.choice(STRVALS))
    elif k < 0.2: ins = sect_line(good=False)
    elif k < 0.28: ins = bl(0.2) + recase(R.choice(GVARS + [b"MaxDepth"] + BADVARS)) + eol_tail()        # no '='
    elif k < 0.4: ins = var_line(R.choice(GVARS[1:]), R.choice(SPECIAL_STR))
    elif k < 0.5: ins = R.choice([b"[", b"]", b"[]", b"[ ]", b"[Global", b"Global]", b"[Global]]", b"[[Global]]", b"[Global] x", b"[Global] = 1", b"[Global][Resolver]", b"[Global \"sub\"]", b"[Global \"\"]", b"[Global\"x\"]",
                                  b"[1Global]", b"[-Global]", b"[Global.x]", b"[Global x]", b"[Gl obal]", b"[Global;]", b"[;Global]", b"[Global]#c", b"[Global] ;c", b"[\tGlobal\t]", b"[Glob\xc3\xa9al]", b"[\xc3\xa9Global]", b"[Global\xc3\xa9]",
                                  b"[Global] \xc3\xa9", b"[Re\xc5\xbfolver]", b"[\xe2\x84\xaaGlobal]", b"[Global\r]", b"[Global]\r", b"\r[Global]", b"[Global]\x0c", b"\x0c[Global]", b"[\"Global\"]", b"[Global\\]", b"[ \\\nGlobal]"])
    elif k < 0.6: ins = R.choice([b"=", b"= x", b"=x", b"1 = 2", b"1x = 2", b"-x = 1", b"_x = 1", b"x_y = 1", b"x.y = 1", b"x y = 1", b"x y", b"x = 1 = 2", b"x: 1", b"x 1", b"x\x0c= 1", b"\x0bx = 1", b"\xc2\xa0x = 1", b"x\xc2\xa0= 1",
                                  b"\xc3\xa9 = 1", b"x\xc3\xa9 = 1", b"DbFileName\xc3\xa9 = 1", b"DbFileName \xc3\xa9 = 1", b"Db\xef\xac\x81leName = 1", b"\"x\" = 1", b"x\\ = 1", b"!", b"@x", b"x ! = 1", b"x [", b"x ]", b"x ] = 1", b"*", b"\x7f", b"\x01",
                                  b"\xef\xbb\xbf", b"\xef\xbb\xbf[Global]", b"x = ", b"x =", b"x=", b"DbFileName", b"DbFileName ;= 1", b"DbFileName #", b"Now", b"MaxDepth", b"dbfilename = A", b"DBFILENAME = B", b"Dbfilename=\tC\t", b"D\xc4\xb1bFileName = 1",
                                  b"\xc5\xbf = 1", b"Now = \xe2\x84\xaa"])
    elif k < 0.7: ins = var_line(b"Now", rtime())
    elif k < 0.8: ins = var_line(b"MaxDepth", rint())
    elif k < 0.88: ins = var_line(R.choice(GVARS + [b"MaxDepth"]), b"")
    else: ins = R.choice([b"\xff", b"\x00", b"a\x00 = 1", b"; \xff", b"# \x00", b"\xc3", b"\xe2\x82", b"x = \xc3", b"\xed\xa0\x80 = 1", b"x = \xf5", b"\xc0\xaf"])
    pos = R.randint(0, len(base))
    # put the variable lines under a section that exists more often than not
    if R.random() < 0.5 and (ins.lstrip()[:1].isalpha()):
        sec = b"[Resolver]" if b"maxdepth" in ins.lower() else b"[Global]"
        base.insert(pos, sec); pos += 1
    base.insert(pos, ins)
    return b"\n".join(base)

def mutate():
    t = bytearray(valid_file(strict=R.random() < 0.7))
    for _ in range(R.randint(1, 3)):
        if not t: break
        k = R.random(); i = R.randrange(len(t))
        pool = b" \t\r\n;#\"\\=[]-_.0aZ\x00\xff\xc3\xa9"
        if k < 0.35: t[i] = R.choice(pool) if R.random() < 0.8 else R.randrange(256)
        elif k < 0.65: t.insert(i, R.choice(pool) if R.random() < 0.8 else R.randrange(256))
        elif k < 0.85: del t[i]
        else:
            j = R.randrange(len(t)); t[i], t[j] = t[j], t[i]
    return bytes(t)

def canonical():
    """exactly what the harness writes (hv/run.py cfg_file_text)"""
    lines = [b"[Global]"]
    if R.random() < 0.6:
        off = R.choice([0, 0, 3600, 7200, -3600 * 5, 19800, -34200, 86340, -86340])
        y, m, d, sod = R.randint(0, 9999), R.randint(1, 12), R.randint(1, 28), R.randint(0, 86399)
        sign = "+" if off >= 0 else "-"
        zone = "Z" if off == 0 else "%s%02d:%02d" % (sign, abs(off) // 3600, abs(off) % 3600 // 60)
        lines.append(("Now=%04d-%02d-%02dT%02d:%02d:%02d%s" % (y, m, d, sod // 3600, sod % 3600 // 60, sod % 60, zone)).encode())
    if R.random() < 0.6: lines.append(b"DbFileName=" + R.choice(STRVALS))
    if R.random() < 0.6: lines.append(b"LogFileName=" + R.choice(STRVALS))
    if R.random() < 0.6: lines.append(b"DateFormat=" + R.choice(STRVALS))
    lines.append(b"[Resolver]")
    if R.random() < 0.6: lines.append(b"MaxDepth=" + str(R.choice([0, 1, 2, 3, 10, 100, -1, -5, 2**40, R.randint(-10**6, 10**6)])).encode())
    return b"\n".join(lines) + b"\n"

TOKS = [b"[", b"]", b"=", b" ", b"\t", b"\r", b"\n", b"\n", b"\n", b";c", b"#c", b"Global", b"Resolver", b"global", b"ParserConfig", b"DbFileName", b"LogFileName", b"DateFormat", b"MaxDepth", b"Now",
        b"x", b"1", b"-", b"_", b"\"", b"\\", b"\xc3\xa9", b"\xff", b"\x00", b"food.yaml", b"2020-01-02T03:04:05Z", b"5", b"[Global]\n", b"[Resolver]\n", b"DbFileName=", b"MaxDepth=", b"Now=", b".", b":", b"\x0c", b"+02:00"]
def soup():
    """token soup: the grammar, not the values"""
    return b"".join(R.choice(TOKS) for _ in range(R.randint(1, 14)))

def soup_lines():
    """lines made of few tokens under a known header"""
    out = [R.choice([b"[Global]", b"[Resolver]", b"[global]", b""])]
    for _ in range(R.randint(1, 4)):
        out.append(b"".join(R.choice(TOKS) for _ in range(R.randint(1, 6))).replace(b"\n", b""))
    return b"\n".join(out) + R.choice([b"", b"\n"])

GENS = [(valid_file, 0.3), (near_miss, 0.3), (mutate, 0.15), (canonical, 0.05), (soup, 0.1), (soup_lines, 0.1)]
for _ in range(N):
    x = R.random(); acc = 0
    for g, p in GENS:
        acc += p
        if x < acc: break
    sys.stdout.write(g().hex() + "\n")
