#!/usr/bin/env python3
import sys, collections
texts = open(sys.argv[1]).read().split("\n")[:-1]
model = open(sys.argv[2]).read().split("\n")[:-1]
real = open(sys.argv[3]).read().split("\n")[:-1]
assert len(texts) == len(model) == len(real), (len(texts), len(model), len(real))
cnt = collections.Counter(); bad = []
for t, m, r in zip(texts, model, real):
    rk = r.split(" ")[0]
    if m == "unm": cnt["unm/" + rk] += 1
    elif m == "err":
        if rk == "err": cnt["err/err"] += 1
        else: cnt["MISMATCH err/" + rk] += 1; bad.append((t, m, r))
    else:
        if m == r: cnt["ok/ok"] += 1
        else: cnt["MISMATCH ok/" + rk] += 1; bad.append((t, m, r))
for k in sorted(cnt): print(k, cnt[k])
for t, m, r in bad[:int(sys.argv[4]) if len(sys.argv) > 4 else 15]:
    print("----"); print(repr(bytes.fromhex(t))); print(" model:", m); print(" real: ", r if not r.startswith("err ") else "err " + repr(bytes.fromhex(r[4:])))
