module S = Stdlib.String
module L = Stdlib.List
let rec pos_of_int n = if n = 1 then BinNums.Coq_xH
  else if n land 1 = 0 then BinNums.Coq_xO (pos_of_int (n lsr 1)) else BinNums.Coq_xI (pos_of_int (n lsr 1))
let n_of_int n = if n = 0 then BinNums.N0 else BinNums.Npos (pos_of_int n)
let rec int_of_pos = function BinNums.Coq_xH -> 1 | BinNums.Coq_xO p -> 2 * int_of_pos p | BinNums.Coq_xI p -> 2 * int_of_pos p + 1
let int_of_n = function BinNums.N0 -> 0 | BinNums.Npos p -> int_of_pos p
let hexval c = match c with '0'..'9' -> Char.code c - 48 | 'a'..'f' -> Char.code c - 87 | 'A'..'F' -> Char.code c - 55 | _ -> failwith "hex"
let bytes_of_hex s =
  let n = S.length s / 2 in
  let rec go i acc = if i < 0 then acc else go (i - 1) (n_of_int (hexval (S.get s (2*i)) * 16 + hexval (S.get s (2*i+1))) :: acc) in
  go (n - 1) []
let plain_of_bytes l =
  let b = Buffer.create 256 in
  L.iter (fun c -> Buffer.add_char b (Char.chr (int_of_n c))) l; Buffer.contents b
let () =
  try
    while true do
      let line = S.trim (input_line stdin) in
      print_string (plain_of_bytes (Extract.handle (bytes_of_hex line))); print_newline ()
    done
  with End_of_file -> ()
