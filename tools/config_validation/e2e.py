#!/usr/bin/env python3
"""WP28: the whole extracted model (Driver.handle, op=cli) with the configuration as a TEXT file
against the real binary: stats and csv log.  usage: e2e.py HEXFILE MODELFILE LIMIT"""
import sys, os, re, subprocess, tempfile, shutil, collections
from concurrent.futures import ThreadPoolExecutor
HR = "/var/tmp/WP28/hr"; MODEL = "/var/tmp/coqcfg/extraction/model"
texts = [bytes.fromhex(x) for x in open(sys.argv[1]).read().split("\n")[:-1]]
pm = open(sys.argv[2]).read().split("\n")[:-1]
limit = int(sys.argv[3])
# only texts whose outcome does not depend on the wall clock: errors, or Now set
sel = [k for k in range(len(texts)) if pm[k] == "err" or (pm[k].startswith("ok") and pm[k].split(" ")[5] != "-")][:limit]
TS = re.compile(rb"^\d{4}/\d\d/\d\d \d\d:\d\d:\d\d ")
GCFG = re.compile(rb"can't store data|expected |illegal |blank value not supported|failed to parse|parsing time|unquoted '|string not terminated|unknown escape|out of range")
book = b"a:\n  kcal: 1\nb:\n  a: 2\n"
logs = {b"log.yaml": b"2020/02/03:\n  a: 2\n2020/02/04:\n  b: 1\n2021/03/01:\n  a: 1\n", "журнал.yaml".encode(): b"2020-02-03:\n  a: 2\n2020-02-04:\n  b: 1\n", b"true": b"03.02.2020:\n  a: 2\n04.02.2020:\n  b: 1\n"}
books = [b"food.yaml", b"my food.yaml", "храна.yaml".encode(), b"a=b", b"0"]
files = {n: book for n in books}; files.update(logs)
CMDS = [("stats", ["stats"]), ("csv-log", ["csv", "log"]), ("reg", ["reg"])]
def h(x): return x.hex()
reqs = []
for k in sel:
    for cmd, _ in CMDS:
        toks = ["op=" + h(b"cli"), "cmd=" + h(cmd.encode()), "f_config=" + h(b"cfg"), "g_no_color=", "tz=" + h(b"0"), "clock=" + h(b"2026,10,2,0,0"), "default_config=" + h(b"/nonexistent/config")]
        toks += ["path=" + h(b"cfg"), "data=" + h(texts[k])]
        for n, d in files.items(): toks += ["path=" + h(n), "data=" + h(d)]
        reqs.append(" ".join(toks))
out = subprocess.run([MODEL], input="\n".join(reqs) + "\n", capture_output=True, text=True).stdout.split("\n")[:-1]
assert len(out) == len(reqs), (len(out), len(reqs))
root = tempfile.mkdtemp(prefix="wp28e2e", dir="/var/tmp/WP28")
for n, d in files.items(): open(os.path.join(root.encode(), n), "wb").write(d)
def real(j):
    k = sel[j // len(CMDS)]; cmd = CMDS[j % len(CMDS)][1]
    name = "cfg%d" % k
    d = os.path.join(root, "d%d_%d" % (k, j % len(CMDS))); os.makedirs(d)
    for n, dd in files.items(): open(os.path.join(d.encode(), n), "wb").write(dd)
    open(os.path.join(d, "cfg"), "wb").write(texts[k])
    p = subprocess.run([HR, "-c", "cfg", "--no-color"] + cmd, cwd=d, env={"PATH": "/usr/bin:/bin", "TZ": "UTC", "HOME": d}, stdout=subprocess.PIPE, stderr=subprocess.PIPE, timeout=30)
    shutil.rmtree(d, ignore_errors=True)
    return p.returncode, p.stdout, TS.sub(b"", p.stderr)
cnt = collections.Counter(); bad = []
with ThreadPoolExecutor(8) as ex:
    for j, (rc, so, se) in enumerate(ex.map(real, range(len(reqs)))):
        if out[j].startswith("!"): cnt["model " + out[j]] += 1; bad.append((sel[j // len(CMDS)], out[j])); continue
        m = bytes.fromhex(out[j]).decode("utf-8", "replace")
        status, _, outhex = m.partition(" ")
        mout = bytes.fromhex(outhex)
        if status.startswith("fail:unmodelled"): cnt["model unmodelled (" + bytes.fromhex(status.split(":")[2]).decode() + ")"] += 1; continue
        if status == "ok": okk = rc == 0 and so == mout
        elif status == "fail:cfgsyntax": okk = rc == 1 and so == b"" and mout == b"" and GCFG.search(se) is not None
        elif status == "fail:open": okk = rc == 1 and so == mout and b"no such file" in se
        elif status == "fail:baddate": okk = rc == 1 and so == mout and b"parsing time" in se and b"at section" not in se
        else: okk = rc == 1 and so == mout
        key = status.split(":")[0] + (":" + status.split(":")[1] if ":" in status else "")
        if okk: cnt["agree " + key] += 1
        else: cnt["MISMATCH " + key] += 1; bad.append((sel[j // len(CMDS)], CMDS[j % len(CMDS)][0], m[:200], rc, so[:300], se[:300]))
for k in sorted(cnt): print(k, cnt[k])
for b_ in bad[:8]: print("----"); print(repr(texts[b_[0]])); print(b_[1:])
shutil.rmtree(root, ignore_errors=True)
