#!/usr/bin/env python3
"""Which parts of the MODEL do the correspondence streams exercise?  (development aid, not a registered check)

The theorems are about the Gallina model; the tie to /repo is the comparison of the extracted model with the implementation on
generated cases.  A branch of the model that no case ever executes is a part of the model that was never compared with the code.
This tool measures that: it records every request the checks send to the extracted model (HV_MODEL_LOG), replays them on a copy
of the same extracted OCaml compiled with the OCaml profiler (ocamlcp -P a: a counter at every function, match arm, if branch),
and reports the counters that stayed at zero, per extracted module.

usage: model_coverage.py [--tier quick|thorough] [Cxx ...]      writes /verif/evidence/model_coverage.json and prints a summary"""
import glob, json, os, re, shutil, subprocess, sys, tempfile, time

VERIF = os.path.abspath(os.path.join(os.path.dirname(os.path.abspath(__file__)), ".."))
MODULES = ["Bytes", "Utf8", "GoFloat", "Num", "Scanner", "Parser", "Syntax", "Elements", "Resolver", "Dates", "Tree", "Csv", "Writer", "Reporters", "Channel", "Cli", "Driver"]

def sh(cmd, **kw):
    return subprocess.run(cmd, stdout=subprocess.PIPE, stderr=subprocess.STDOUT, **kw)

def main():
    args = sys.argv[1:]; tier = "quick"
    if args[:1] == ["--tier"]: tier = args[1]; args = args[2:]
    pids = args or ["C%02d" % i for i in range(1, 19)]
    ext = os.path.join(VERIF, "coq", "extraction")
    work = tempfile.mkdtemp(prefix="hv-mcov.", dir="/var/tmp")
    try:
        # 1. profiled build of the very same extracted sources
        for f in glob.glob(os.path.join(ext, "*.ml")) + glob.glob(os.path.join(ext, "*.mli")): shutil.copy(f, work)
        order = sh("ocamlfind ocamldep -sort *.ml *.mli", shell=True, cwd=work).stdout.decode().split()
        p = sh(["ocamlcp", "-P", "a", "-w", "-a", "-o", "model_prof"] + order, cwd=work)
        if p.returncode != 0: print(p.stdout.decode()[-2000:]); return 1
        # 2. the checks, recording every model request
        logdir = os.path.join(work, "req"); os.makedirs(logdir)
        t0 = time.time()
        for pid in pids:
            p = sh([os.path.join(VERIF, "bin", "check"), tier, pid], env=dict(os.environ, HV_MODEL_LOG=logdir), cwd=VERIF)
            print(pid, "rc=%d" % p.returncode, "%d request files" % len(os.listdir(logdir)), flush=True)
        # 3. replay on the profiled model (16 processes, one dump each), merge the counters
        files = sorted(glob.glob(os.path.join(logdir, "req-*.txt")))
        lines = [l for f in files for l in open(f).read().split("\n") if l]
        uniq = list(dict.fromkeys(lines))
        print("%d requests (%d distinct) recorded in %.0f s" % (len(lines), len(uniq), time.time() - t0), flush=True)
        n = 16; shards = [uniq[i::n] for i in range(n)]
        procs = []
        for i, sl in enumerate(shards):
            inp = os.path.join(work, "in%d.txt" % i); open(inp, "w").write("\n".join(sl) + "\n")
            procs.append(subprocess.Popen("ulimit -s unlimited 2>/dev/null || ulimit -s 1000000; OCAMLRUNPARAM=l=8G OCAMLPROF_DUMP=%s/dump%d ./model_prof < %s > /dev/null" % (work, i, inp), shell=True, cwd=work))
        for pr in procs: pr.wait()
        os.makedirs(os.path.join(work, "mrg")); merge = os.path.join(work, "mrg", "merge.ml")
        open(merge, "w").write('''
let () =
  let tbl : (string, (string * int array)) Hashtbl.t = Hashtbl.create 64 in
  for i = 1 to Array.length Sys.argv - 2 do
    let ic = open_in_bin Sys.argv.(i) in
    let (l : (string * (string * int array)) list) = input_value ic in
    close_in ic;
    List.iter (fun (m, (k, a)) ->
      match Hashtbl.find_opt tbl m with
      | None -> Hashtbl.replace tbl m (k, Array.copy a)
      | Some (_, b) -> Array.iteri (fun j v -> if j < Array.length b then b.(j) <- b.(j) + v) a) l
  done;
  let oc = open_out_bin Sys.argv.(Array.length Sys.argv - 1) in
  output_value oc (Hashtbl.fold (fun m v acc -> (m, v) :: acc) tbl []);
  close_out oc
''')
        dumps = sorted(glob.glob(os.path.join(work, "dump*")))
        p = sh(["ocaml", merge] + dumps + [os.path.join(work, "ocamlprof.dump")], cwd="/var/tmp")
        if p.returncode != 0: print("merge failed:", p.stdout.decode()[-1500:]); return 1
        # 4. annotate each module; a counter is rendered as (* n *)
        report = {}
        for m in MODULES:
            src = os.path.join(work, m + ".ml")
            if not os.path.exists(src): continue
            p = sh(["ocamlprof", "-f", "ocamlprof.dump", m + ".ml"], cwd=work)
            txt = p.stdout.decode(errors="replace")
            fn = None; per = {}
            for line in txt.split("\n"):
                mm = re.match(r"^(?:let rec|let|and)\s+([a-z_][A-Za-z0-9_']*)", line)
                if mm: fn = mm.group(1)
                for c in re.findall(r"\(\* (\d+) \*\)", line):
                    t = per.setdefault(fn, [0, 0]); t[0] += 1; t[1] += 1 if int(c) > 0 else 0
            tot = sum(v[0] for v in per.values()); hit = sum(v[1] for v in per.values())
            never = sorted(f for f, v in per.items() if v[1] == 0 and f)
            partial = {f: "%d/%d" % (v[1], v[0]) for f, v in sorted(per.items()) if f and 0 < v[1] < v[0]}
            report[m] = dict(points=tot, reached=hit, functions_never_called=never, functions_partly_reached=partial)
            open(os.path.join(VERIF, ".cache", "model_cov_%s.ml.txt" % m), "w").write(txt)
            print("%-10s %5d/%5d points reached; never called: %s" % (m, hit, tot, ", ".join(never[:12]) + (" ..." if len(never) > 12 else "")))
        out = dict(tier=tier, properties=pids, requests=len(lines), distinct_requests=len(uniq), modules=report,
                   note="counters of the OCaml profiler (ocamlcp -P a) on the extracted model, replaying every request the correspondence checks sent; annotated sources in .cache/model_cov_<Module>.ml.txt")
        json.dump(out, open(os.path.join(VERIF, "evidence", "model_coverage.json"), "w"), indent=1)
    finally:
        shutil.rmtree(work, ignore_errors=True)
    return 0

if __name__ == "__main__":
    sys.exit(main())
