"""Generators.  Every random choice derives from one random.Random(seed).
Files are rendered from small abstract syntax trees shaped like Model/Syntax.v:
a file is a list of items (heading, entry with a layout, note, comment, blank,
bad entry); rendering picks among the layout variants the format documents."""
import random

LETTERS = "abcdefghijklmnopqrstuvwxyz"
SCRIPTS = ["хляб", "орех", "сирене", "Ρύζι", "米饭", "蠅", "café", "naïve", "🍎", "Р", "à", "ΩX", "smörgås"]
INNER_PUNCT = [",", "\"", "'", ":", ";", "-", "#", ".", "(", ")", "%", "/", " ", "  ", "\t", "_", "&", "=", "+", "@", "*", " ", " "]
LEAD_SPECIAL = ["=", "+", "@", "'", ",", "(", ".", " x", "　y", "*", "~", "$", "\\.", "!"]

def word(r, lo=1, hi=7):
    w = "".join(r.choice(LETTERS) for _ in range(r.randint(lo, hi)))
    x = r.random()
    # mixed case: byte order ('Z' < 'a') differs from case-insensitive order
    return w.capitalize() if x < 0.12 else w.upper() if x < 0.15 else w

def name(r, fancy=0.35, allow_slash=True):
    """a well-formed entry/heading name: non-empty, no LF, ends outside the trim set, does not start with '#'"""
    parts = []
    n = r.choice([1, 1, 1, 2, 2, 3])
    for i in range(n):
        x = r.random()
        if x < fancy / 2: parts.append(r.choice(SCRIPTS))
        elif x < fancy: parts.append(word(r, 1, 4) + r.choice(["1", "22", "100g", "Б", "é"]))
        else: parts.append(word(r))
        if i < n - 1:
            p = r.choice(INNER_PUNCT) if r.random() < fancy else r.choice([" ", "/", "/", " "])
            if not allow_slash and "/" in p: p = " "
            parts.append(p)
    s = "".join(parts)
    if r.random() < fancy / 4: s = r.choice(LEAD_SPECIAL) + s
    if r.random() < 0.04: s = s + word(r, 20, 40)     # longer than the columns
    if s in ("h", "help"): s += "x"                    # urfave/cli shows help for these when given as an argument
    return s

def simple_name(r):
    return word(r, 2, 6)

def path_name(r, segs=("a", "b", "c", "d"), maxdepth=4):
    parts = [r.choice(segs) for _ in range(r.randint(1, maxdepth))]
    x = r.random()
    if x < 0.06 and len(parts) > 1: parts.insert(r.randint(1, len(parts) - 1), "")      # an empty segment: a//b is not a/b
    elif x < 0.09: parts.append("")                                                        # trailing separator: a/ is not a
    return "/".join(parts)

NUM_SPECIAL = ["NaN", "nan", "Inf", "+Inf", "-Inf", "infinity", "-Infinity", "0x1p-2", "0x1.8p1", "1_000", "1_0.5", "-0", "+0", "0.0", "-0.0",
               "1e308", "1e-320", "4.9e-324", "2.2250738585072011e-308", "1.7976931348623157e308", "1e22", "1e23", "9007199254740993",
               "0.1", "0.2", "0.3", "2.675", "1.005", "0.125", "0.375", "0.625", "8.125", "0.0005", "-0.0005", "0.0015", "-0.0007", "-0.004", "0.004", "0.005", "0.015", "-0.006",
               ".5", "5.", "1E3", "1e+3", "1e-3", "007", "00.50",
               "300000.87", "131072.13", "16777217", "1234567.89", "-250000.37", "99999.995", "33554433.5"]

def number_wide(r):
    """a lexeme from the whole grammar strconv.ParseFloat accepts: every sign with every body shape (decimal with / without point and
    exponent, hexadecimal mantissa with binary exponent in both letter cases and with underscores, the spellings of infinity and NaN)"""
    sign = r.choice(["", "+", "-"])
    k = r.random()
    digs = lambda n, alpha="0123456789": "".join(r.choice(alpha) for _ in range(n))
    if k < 0.45:
        ip, fp = digs(r.randint(0, 6)), digs(r.randint(0, 5))
        if not ip and not fp: ip = "7"
        body = ip + ("." + fp if fp or r.random() < 0.2 else "")
        if r.random() < 0.5: body += r.choice("eE") + r.choice(["", "+", "-"]) + str(r.choice([0, 1, 2, 3, 7, 15, 22, 23, 30, 300, 308, 310, 320, 324, 400, 401, 5000]))
        return sign + body
    if k < 0.8:
        hexd = r.choice(["0123456789abcdef", "0123456789ABCDEF", "0123456789abcdefABCDEF"])
        ip, fp = digs(r.randint(0, 14), hexd), digs(r.randint(0, 6), hexd)
        if not ip and not fp: ip = "1"
        m = ip + ("." + fp if fp or r.random() < 0.2 else "")
        if r.random() < 0.25 and len(m) > 2 and "." not in m[:2]: j = r.randint(1, len(m) - 1); m = m[:j] + "_" + m[j:]     # may or may not be a legal position
        if r.random() < 0.1: m = "_" + m
        return sign + r.choice(["0x", "0X"]) + m + r.choice("pP") + r.choice(["", "+", "-"]) + str(r.choice([0, 1, 2, 4, 10, 52, 53, 64, 1000, 1023, 1024, 1074, 1075, 1100]))
    if k < 0.93:
        w = r.choice(["inf", "infinity"])
        return sign + "".join(c.upper() if r.random() < 0.5 else c for c in w)
    return "".join(c.upper() if r.random() < 0.5 else c for c in "nan")

def number(r, envelope=False, special=0.12):
    """a lexeme strconv.ParseFloat accepts. envelope=True: small dyadic values whose sums/products and two-decimal
    rendering are exact in binary64"""
    if envelope:
        return r.choice(["1", "2", "3", "4", "0.5", "1.5", "2.5", "0.25", "0.75", "-1", "-2", "-0.5", "-1.5", "10", "100", "-3", "0", "8", "0.5", "12", "20"])
    x = r.random()
    if x < special: return r.choice(NUM_SPECIAL) if r.random() < 0.6 else number_wide(r)
    if x < special + 0.06:   # long decimals (16-19 significant digits)
        nd = r.randint(15, 20)
        ds = "".join(r.choice("0123456789") for _ in range(nd)).lstrip("0") or "1"
        k = r.randint(0, len(ds))
        return r.choice(["", "-"]) + (ds[:k] or "0") + "." + (ds[k:] or "0")
    sign = r.choice(["", "", "", "-", "+"])
    ip = str(r.choice([0, 1, 2, 3, 5, 10, 42, 100, 250, 1234, r.randint(0, 99999)]))
    if r.random() < 0.55:
        fp = "".join(r.choice("0123456789") for _ in range(r.randint(1, 4)))
        s = sign + ip + "." + fp
    else:
        s = sign + ip
    if r.random() < 0.05: s += r.choice(["e2", "e-2", "E1", "e+1"])
    return s

BAD_NUMBERS = ["0x1", "0x1p", "0x.p1", "1e+", "1e-", "._5", "0x1_p1", "0x1p_1", "inf1", "infinit", "nanx", "-nan", "+NaN", "0b1", "0o7", "1p3", "0x1e3", "1_0e2", "0x_", "+.", "-e1", "0X1P", "InfinityX", "1e1_0", "abc", "1.2.3", "1,5", "--1", "1e", "e5", "0x", "0x1", "1__0", "_1", "1_", "infi", "+nan", "-nan", "1e999", "-1e400", "１", "1O", "..", "+", "+-1", "1e5x", "1 e5"]

# ---------------------------------------------------------------------------
# abstract files
# item kinds: ("heading", name) ("entry", name, lexeme) ("note", key or None, text) ("comment", text) ("blank",)
#             ("badnosep", text) ("badnum", name, text)
# ---------------------------------------------------------------------------
def render_entry(r, nm, lex, layout=None):
    """one of the documented layouts for an entry line (without line ending)"""
    indent = r.choice(["  ", "    ", "\t", " ", " \t", "\t\t"]) if layout is None else layout
    dash = r.random() < 0.3
    quote = r.random() < 0.2 and '"' not in nm
    colon = r.random() < 0.7
    sep = r.choice([" ", "  ", "\t", " \t ", "   "])
    q = '"' if quote else ""
    qv = '"' if r.random() < 0.08 else ""
    if dash:
        # a YAML list dash replaces/extends the indentation ("- name: 1" at column 0 is an entry line too)
        indent = r.choice([indent + "- ", "- ", indent + "-  "])
    if colon:
        mid = r.choice([":" + sep, ":" + sep, " :" + sep])
    else:
        mid = sep
    trail = r.choice(["", "", "", " ", "  ", "\t"])
    return indent + q + nm + q + mid + qv + lex + qv + trail

def render_items(r, items, crlf=None, final_newline=None):
    eol = "\r\n" if (crlf if crlf is not None else r.random() < 0.15) else "\n"
    lines = []
    for it in items:
        k = it[0]
        if k == "heading":
            q = '"' if r.random() < 0.1 and '"' not in it[1] else ""      # a quoted heading is the heading without the quotes, like a quoted name
            lines.append(q + it[1] + q + r.choice(["", ":", ":", " :", ": "]))
        elif k == "entry":
            lines.append(render_entry(r, it[1], it[2]))
        elif k == "note":
            ind = r.choice(["  ", "\t", "    "])
            if it[1] is None: lines.append(ind + "# " + it[2])
            else: lines.append(ind + "# " + it[1] + ": " + it[2])
        elif k == "comment":
            lines.append("#" + it[1])
        elif k == "blank":
            lines.append(r.choice(["", "", " ", "\t", "  "]))
        elif k == "badnosep":
            lines.append(r.choice(["  ", "\t", "- "]).replace("- ", "-") + it[1])
        elif k == "badnum":
            lines.append("  " + it[1] + r.choice([": ", " ", ":\t"]) + it[2])
        elif k == "raw":
            lines.append(it[1])
    text = eol.join(lines)
    if lines and (final_newline if final_newline is not None else r.random() < 0.85): text += eol
    return text.encode("utf-8", "surrogateescape")

def physical_line_of(items, idx):
    """1-based physical line of item idx (every item renders to exactly one line)"""
    return idx + 1

def decorate(r, items, density=0.25):
    """sprinkle blank lines, comments and notes (notes only inside records)"""
    out = []
    inrec = False
    for it in items:
        while r.random() < density:
            k = r.random()
            if k < 0.45: out.append(("blank",))
            elif k < 0.75: out.append(("comment", " " + word(r) + " " + word(r)))
            elif inrec: out.append(("note", r.choice([None, word(r)]), word(r) + " " + word(r)))
            else: out.append(("blank",))
        out.append(it)
        if it[0] == "heading": inrec = True
    return out

# ---------------------------------------------------------------------------
# books
# ---------------------------------------------------------------------------
def book(r, n_recipes=None, n_basic=None, depth=None, envelope=False, fancy=0.2, cycles=0.0, names=None):
    """a recipe book as (items, meta). Layered DAG with sharing, repeated ingredients, empty recipes, forward and backward
    references, duplicate headings."""
    n_basic = n_basic if n_basic is not None else r.randint(1, 5)
    n_recipes = n_recipes if n_recipes is not None else r.randint(0, 7)
    basics = []
    while len(basics) < n_basic:
        x = (name(r, fancy) if names is None else r.choice(names))
        if x not in basics: basics.append(x)
    recipes = []
    while len(recipes) < n_recipes:
        x = name(r, fancy)
        if x not in basics and x not in recipes: recipes.append(x)
    maxlayer = depth if depth is not None else r.randint(1, 4)
    layer = {x: r.randint(1, maxlayer) for x in recipes}
    defs = {}
    for x in recipes:
        lower = basics + [y for y in recipes if layer[y] < layer[x]]
        k = r.choice([0, 1, 2, 2, 3, 4])
        ings = []
        for _ in range(k):
            y = r.choice(lower)
            if cycles and r.random() < cycles: y = r.choice(recipes)      # may close a cycle
            ings.append((y, number(r, envelope)))
        if ings and r.random() < 0.2: ings.append((ings[0][0], number(r, envelope)))   # repeated ingredient
        defs[x] = ings
    order = recipes[:]
    r.shuffle(order)
    items = []
    for x in order:
        items.append(("heading", x))
        for y, q in defs[x]: items.append(("entry", y, q))
    if recipes and r.random() < 0.1:
        x = r.choice(recipes)      # duplicate heading: the later one wins
        items.append(("heading", x))
        for y, q in defs[x][:1]: items.append(("entry", y, q))
    return items, dict(basics=basics, recipes=recipes, defs=defs, layer=layer)

def chain_book(r, length, cyc=None, leaf=True):
    """r0 -> r1 -> ... a chain of `length` references; cyc = index to which the last recipe points back"""
    items = []
    names_ = ["r%d" % i for i in range(length + 1)]
    order = list(range(length))
    r.shuffle(order)
    for i in order:
        items.append(("heading", names_[i]))
        items.append(("entry", names_[i + 1] if i + 1 < length or leaf or cyc is None else names_[cyc], number(r, True)))
        if r.random() < 0.3: items.append(("entry", "salt", "1"))
    if cyc is not None:
        items.append(("heading", names_[length]))
        items.append(("entry", names_[cyc], "2"))
    return items

# ---------------------------------------------------------------------------
# logs
# ---------------------------------------------------------------------------
def fmt_date(layout, y, m, d):
    return layout.replace("2006", "%04d" % y).replace("01", "%02d" % m, 1).replace("02", "%02d" % d, 1) if False else \
        _fmt(layout, y, m, d)

MONTHS = ["January", "February", "March", "April", "May", "June", "July", "August", "September", "October", "November", "December"]

def layout_elements(layout):
    """the layout cut into Go's reference elements (the eight the checks use) and literal characters, in nextStdChunk's order of recognition"""
    out = []; i = 0
    while i < len(layout):
        for t in ("January", "Jan", "2006", "01", "02", "_2", "2", "1"):
            if layout.startswith(t, i) and not (t == "_2" and layout.startswith("_2006", i)) and not (t == "1" and layout.startswith("15", i)):
                out.append(("el", t)); i += len(t); break
        else:
            out.append(("lit", layout[i])); i += 1
    return out

def _fmt(layout, y, m, d):
    out = ""
    for kind, t in layout_elements(layout):
        if kind == "lit": out += t
        elif t == "2006": out += "%04d" % y
        elif t == "01": out += "%02d" % m
        elif t == "02": out += "%02d" % d
        elif t == "1": out += "%d" % m
        elif t == "2": out += "%d" % d
        elif t == "_2": out += "%2d" % d
        elif t == "Jan": out += MONTHS[m - 1][:3]
        elif t == "January": out += MONTHS[m - 1]
    return out

LAYOUTS = ["2006/01/02", "2006-01-02", "02.01.2006", "01/02/2006", "2006.01.02", "02-01-2006"]

def day_list(r, n, base=(2021, 1, 20), span=8, sorted_=None, repeat=0.15):
    import datetime
    b = datetime.date(*base)
    days = [b + datetime.timedelta(days=r.randint(0, span)) for _ in range(n)]
    if sorted_ if sorted_ is not None else r.random() < 0.6: days.sort()
    if n > 1 and r.random() < repeat: days[r.randrange(n)] = days[r.randrange(n)]
    return [(d.year, d.month, d.day) for d in days]

def note_text(r):
    """free text of a note; one in five carries characters that mean something to a formatter, a template or a shell (%, braces, backslash, quotes)"""
    t = word(r) + " " + word(r)
    if r.random() < 0.2: t += " " + r.choice(["18%", "100 %", "%d", "%s%s", "50%!", "{{.}}", "\\n", "a%20b", "%!(EXTRA)", "'q'", "$HOME", "%v %"])
    if r.random() < 0.15: t += " " + r.choice(["18:45", "http://example.com/soup", "a:b:c", "12:30 - 13:00", "x::y"])      # colons inside the text of a note
    return t

def log(r, foods, n_days=None, layout="2006/01/02", envelope=False, notes=0.15, days=None):
    """items of a log: days (any order, repeated dates), repeated foods in a day, empty days, notes"""
    if days is None: days = day_list(r, n_days if n_days is not None else r.randint(0, 5))
    items = []
    for (y, m, d) in days:
        items.append(("heading", _fmt(layout, y, m, d)))
        k = r.choice([0, 1, 2, 3, 3, 4, 6, 6, 11, 16])     # long days too: more distinct foods than any small fixed capacity
        used = []
        pool = foods if k < 10 else foods + [word(r, 3, 8) for _ in range(k)]
        for _ in range(k):
            if r.random() < notes: items.append(("note", r.choice([None, word(r)]), note_text(r)))
            f = (used[0] if r.random() < 0.4 else r.choice(used)) if used and r.random() < 0.25 else r.choice(pool)
            used.append(f)
            items.append(("entry", f, number(r, envelope)))
    return items

# ---------------------------------------------------------------------------
# worlds for the command line
# ---------------------------------------------------------------------------
def world(r, envelope=False, fancy=0.25, layout="2006/01/02", cycles=0.0, pathy=0.3):
    bitems, meta = book(r, envelope=envelope, fancy=fancy, cycles=cycles)
    foods = meta["recipes"] + meta["basics"] + [name(r, fancy) for _ in range(r.randint(0, 2))]
    if r.random() < pathy: foods += [path_name(r) for _ in range(r.randint(1, 4))]
    if not foods: foods = ["water"]
    litems = log(r, foods, layout=layout, envelope=envelope)
    return dict(book=decorate(r, bitems), log=decorate(r, litems), meta=meta, foods=foods)

def element_names(w):
    return w["meta"]["basics"] + w["meta"]["recipes"]

# ---------------------------------------------------------------------------
# abstract files in the shape of coq/theories/Model/Syntax.v: every item carries
# its explicit layout pieces, so the model can render it and state what the
# parser must report
# ---------------------------------------------------------------------------
TRIMCH = ["\t", " ", ":", "\"", "-"]

def s_pre(r):
    p = r.choice([" ", "  ", "    ", "\t", "\t\t", " \t", "-", "- ", "  - ", "\t- ", "  -  "])
    if r.random() < 0.2: p += "\""
    if r.random() < 0.03: p += r.choice(TRIMCH)
    return p

def s_mid(r):
    m = r.choice([" ", "  ", "\t", ": ", ":  ", ":\t", " : ", "\": ", "\" ", " \"", ": \"", " :\""])
    return m

def s_post(r):
    return r.choice(["", "", "", " ", "  ", "\t", "\"", "\" ", " -", ":"])

def s_name(r, fancy=0.35):
    n = name(r, fancy)
    # ends outside the trim set (tab space LF : " -), does not start with '#', does not end in CR
    while n and (n[0] in "\t \n:\"-#" or n[-1] in "\t \n:\"-\r"):
        n = n.strip("\t \n:\"-\r#")
    return n or "x"

def syntax_items(r, n_records=None, bad=0.0, pre_heading_junk=0.1, fancy=0.35, heading=None):
    """list of (kind, fields, crlf)"""
    items = []
    crlf_file = r.random() < 0.15
    def add(kind, *fields):
        items.append((kind, [f for f in fields], crlf_file if r.random() < 0.9 else not crlf_file))
    def filler():
        while r.random() < 0.25:
            k = r.random()
            if k < 0.4: add("blank", r.choice(["", "", " ", "\t", "  ", ":", "-", "\"\"", "---", " - "]))
            else: add("comment", r.choice(["", " "]) + word(r) + " " + word(r))
    if r.random() < pre_heading_junk:
        add("entry", s_pre(r), s_name(r, fancy), s_mid(r), number(r), s_post(r))   # before any heading: ignored
    nrec = n_records if n_records is not None else r.randint(0, 4)
    for i in range(nrec):
        filler()
        add("heading", heading(r, i) if heading else s_name(r, fancy), r.choice(["", ":", ":", " :", ": ", ":\t"]))
        for _ in range(r.choice([0, 1, 2, 3, 5])):
            filler()
            x = r.random()
            if x < bad / 2:
                t = r.choice([word(r), s_name(r, 0).replace(" ", "").replace("\t", "") or "q", "a:1", "x=1"])
                while t and (t[0] in "\t \n:\"-#" or t[-1] in "\t \n:\"-\r"): t = t.strip("\t \n:\"-\r#")
                add("badnosep", s_pre(r), t or "zz")
            elif x < bad:
                add("badnum", s_pre(r), s_name(r, fancy), s_mid(r), r.choice(BAD_NUMBERS).replace(" ", ""), s_post(r))
            elif x < bad + 0.12:
                key = r.choice([None, word(r)])
                txt = word(r) + " " + word(r)
                add("note", s_pre(r).replace("\"", ""), "# " + (key + ": " if key else "") + txt)
            else:
                add("entry", s_pre(r), s_name(r, fancy), s_mid(r), number(r), s_post(r))
    filler()
    return items, (r.random() < 0.85)

def syntax_render(items, final_newline=True):
    out = b""
    for i, (kind, f, crlf) in enumerate(items):
        line = {"blank": lambda: f[0], "comment": lambda: "#" + f[0], "heading": lambda: f[0] + f[1],
                "entry": lambda: "".join(f), "note": lambda: f[0] + f[1], "badnosep": lambda: f[0] + f[1],
                "badnum": lambda: "".join(f)}[kind]()
        out += line.encode("utf-8", "surrogateescape")
        if i < len(items) - 1 or final_newline: out += b"\r\n" if crlf else b"\n"
    return out

def syntax_pairs(items, final_newline=True):
    """request pairs for the model driver's op=syntax"""
    pairs = []
    for kind, f, crlf in items:
        pairs.append((kind + ("+" if crlf else ""), "\n".join(f).encode("utf-8", "surrogateescape")))
    if not final_newline: pairs.append(("nofinal", True))
    return pairs

def cycle_book(r, lead, cyc, extra_user=False):
    """a cycle c0 -> c1 -> ... -> c(cyc-1) -> c0 reached through a chain l0 -> ... -> l(lead-1) -> c0 (lead may be 0);
    extra_user adds one more recipe that uses c0"""
    recs = []
    for i in range(lead): recs.append(("l%d" % i, "l%d" % (i + 1) if i + 1 < lead else "c0"))
    for i in range(cyc): recs.append(("c%d" % i, "c%d" % ((i + 1) % cyc)))
    if extra_user: recs.append(("u", "c0"))
    r.shuffle(recs)
    items = []
    for n, ing in recs:
        items.append(("heading", n)); items.append(("entry", ing, number(r, True)))
        if r.random() < 0.3: items.append(("entry", "salt", "1"))
    return items


# ---------------------------------------------------------------------------
# calendar days whose midnight does not exist in some time zone (daylight-saving switch at 00:00): a date parsed or
# rebuilt in the local zone silently lands on another day or hour there
# ---------------------------------------------------------------------------
_GAPS = None
def midnight_gap_days():
    """[(zone name, utc offset in seconds just before the switch, datetime.date)] for 2015..2023, computed from the system's zoneinfo"""
    global _GAPS
    if _GAPS is not None: return _GAPS
    import zoneinfo, datetime
    out = []
    for z in ["America/Havana", "America/Santiago", "America/Asuncion", "Asia/Beirut", "Africa/Cairo", "America/Sao_Paulo", "Asia/Tehran", "Asia/Amman", "Asia/Damascus", "Asia/Gaza"]:
        try: tz = zoneinfo.ZoneInfo(z)
        except Exception: continue
        d = datetime.date(2015, 1, 1)
        while d < datetime.date(2024, 1, 1):
            loc = datetime.datetime(d.year, d.month, d.day, 0, 0, tzinfo=tz)
            back = loc.astimezone(datetime.timezone.utc).astimezone(tz)
            if (back.day, back.hour, back.minute) != (d.day, 0, 0):
                before = datetime.datetime(d.year, d.month, d.day, 12, 0, tzinfo=tz) - datetime.timedelta(days=1)
                out.append((z, int(before.utcoffset().total_seconds()), d))
            d += datetime.timedelta(days=1)
    _GAPS = out
    return out


_LONGDAYS = None
def long_local_days():
    """[(zone, utc offset in seconds at 00:00 UTC of the date, datetime.date)]: dates D such that the LOCAL calendar day containing the instant D 00:00 UTC
    covers two UTC midnights (a 25-hour day in a zone whose offset passes through zero: Atlantic/Azores, America/Scoresbysund on their fall-back days).
    A day window built in the local zone selects two log days there."""
    global _LONGDAYS
    if _LONGDAYS is not None: return _LONGDAYS
    import zoneinfo, datetime
    UTC = datetime.timezone.utc; out = []
    for z in ["Atlantic/Azores", "America/Scoresbysund", "Europe/Lisbon", "Europe/London", "Africa/Casablanca", "Atlantic/Canary", "Atlantic/Reykjavik"]:
        try: tz = zoneinfo.ZoneInfo(z)
        except Exception: continue
        d = datetime.date(2015, 1, 1)
        while d < datetime.date(2024, 1, 1):
            now = datetime.datetime(d.year, d.month, d.day, tzinfo=UTC); loc = now.astimezone(tz)
            s0 = datetime.datetime(loc.year, loc.month, loc.day, 0, 0, 0, tzinfo=tz).astimezone(UTC)
            e0 = datetime.datetime(loc.year, loc.month, loc.day, 23, 59, 59, tzinfo=tz).astimezone(UTC)
            m0 = datetime.datetime(s0.year, s0.month, s0.day, tzinfo=UTC)
            n = sum(1 for k in range(-1, 3) if s0 <= m0 + datetime.timedelta(days=k) <= e0)
            if n != 1: out.append((z, int(loc.utcoffset().total_seconds()), d))
            d += datetime.timedelta(days=1)
    _LONGDAYS = out
    return out
