"""Running the model driver and the implementation on the same cases."""
import json, os, re, shutil, subprocess, tempfile, concurrent.futures as cf
from . import build

NPROC = int(os.environ.get("VERIF_JOBS", "16"))

def hx(b):
    if isinstance(b, str): b = b.encode("utf-8", "surrogateescape")
    return b.hex()

def req(**kw):
    """a request line for the model driver / the pub harness: key=hex tokens.
    Values: bytes/str -> hex; int -> decimal digits hexed; True -> bare key; None/False -> omitted.
    Lists of (key, value) pairs are passed through `pairs`."""
    toks = []
    for k, v in kw.items():
        if k == "pairs":
            for kk, vv in v: toks.append(tok(kk, vv))
        elif v is None or v is False: continue
        else: toks.append(tok(k, v))
    return " ".join(t for t in toks if t)

def tok(k, v):
    if v is True: return k
    if isinstance(v, int): v = str(v)
    return f"{k}={hx(v)}"

def _run_lines(binary, lines, env=None, timeout=600):
    if not lines: return []
    p = subprocess.run([binary], input=("\n".join(lines) + "\n").encode(), stdout=subprocess.PIPE, stderr=subprocess.PIPE, env=env, timeout=timeout)
    out = p.stdout.decode().split("\n")
    if out and out[-1] == "": out.pop()
    if len(out) != len(lines):
        raise RuntimeError(f"{binary}: {len(lines)} requests, {len(out)} replies (rc={p.returncode}) stderr={p.stderr.decode(errors='replace')[-2000:]}")
    return out

def _shard(lines, n):
    k = max(1, min(n, len(lines) // 8 or 1))
    size = (len(lines) + k - 1) // k
    return [lines[i:i + size] for i in range(0, len(lines), size)]

def run_sharded(binary, lines, env=None, nproc=NPROC, timeout=900):
    shards = _shard(lines, nproc)
    with cf.ThreadPoolExecutor(max_workers=len(shards) or 1) as ex:
        res = list(ex.map(lambda s: _run_lines(binary, s, env, timeout), shards))
    return [x for r in res for x in r]

def unhex(s):
    if s.startswith("!"): return s.encode()
    return bytes.fromhex(s)

def run_model(lines, nproc=NPROC):
    """the extracted Coq model; raised stack limit because the extracted list functions are not tail recursive"""
    wrapper = os.path.join(build.VERIF, "harness", "model.sh")
    logdir = os.environ.get("HV_MODEL_LOG")      # tools/model_coverage.py: keep every request so that it can be replayed on the profiled model
    if logdir and lines:
        import uuid
        with open(os.path.join(logdir, "req-%s.txt" % uuid.uuid4().hex), "w") as fh: fh.write("\n".join(lines) + "\n")
    return [unhex(x) for x in run_sharded(wrapper, lines, nproc=nproc)]

COVDIR = None     # set by the check context: where the instrumented binaries write their coverage counters

def _covenv(env=None):
    if COVDIR is None: return env
    e = dict(env if env is not None else os.environ); e["GOCOVERDIR"] = COVDIR
    return e

def run_pub(impl, lines, race=False, nproc=NPROC):
    # the -race build counts in atomic mode: its counters cannot be merged with the other binaries', so it writes none
    env = dict((os.environ if race else (_covenv() or os.environ)), HV_TMP="/var/tmp")      # scratch of the harness (named pipes) outside /tmp, removed by the harness itself
    return [unhex(x) for x in run_sharded(impl["pub_race" if race else "pub"], lines, env=env, nproc=nproc)]

# ---------------------------------------------------------------------------
# command-line cases
# A case is a dict:
#   cmd: reg|bal|lint|element-total|unresolved|quantity|totals|csv-log|csv-db|csv-db-resolved|stats|summary|print
#   arg: bytes (lint file, element name, summary date)
#   files: {path(str): bytes | "DIR" | {"cfg": {...}}}
#   f_db e_db f_log e_log f_fmt e_fmt f_depth e_depth f_today f_config e_config: values (str/int)
#   no_database g_begin g_end l_begin l_end g_no_color l_no_color single_food single_element group_food csv
#   no_totals totals_only shorten old template collapse collapse_last desc silent
#   tz: (name, offset_seconds)   sink: int   default_config: bool (config file at the default location)
# ---------------------------------------------------------------------------
SETTING_KEYS = ["f_db", "e_db", "f_log", "e_log", "f_fmt", "e_fmt", "f_depth", "e_depth", "f_today", "f_config", "e_config",
                "g_begin", "g_end", "l_begin", "l_end", "single_food", "single_element", "template"]
BOOL_KEYS = ["no_database", "g_no_color", "l_no_color", "group_food", "csv", "no_totals", "totals_only", "shorten", "old",
             "collapse", "collapse_last", "desc", "silent"]
DEFAULT_CONFIG_PATH = "/root/.hranoprovod/config"

def b_(x):
    if isinstance(x, bytes): return x
    if isinstance(x, int): return str(x).encode()
    return x.encode("utf-8", "surrogateescape")

def time_str(t):
    """(y,m,d,sod,off) -> model encoding"""
    return ",".join(str(x) for x in t)

def model_request(case, perm=0):
    pairs = [("op", "cli"), ("cmd", case["cmd"])]
    if case.get("arg") is not None: pairs.append(("arg", case["arg"]))
    for k in SETTING_KEYS:
        if case.get(k) is not None: pairs.append((k, b_(case[k])))
    for k in BOOL_KEYS:
        if case.get(k): pairs.append((k, True))
    cfgd = None
    for path, content in case.get("files", {}).items():
        mp = DEFAULT_CONFIG_PATH if path == "@default-config" else path
        if isinstance(content, dict) and "symlink" in content: content = case["files"][content["symlink"]]
        pairs.append(("path", b_(mp)))
        if content == "DIR": pairs.append(("dir", True))
        elif isinstance(content, dict):
            # a configuration file: the model is given the very bytes the implementation reads and parses them itself (Model/Config.v)
            pairs.append(("data", cfg_file_text(content["cfg"])))
        else: pairs.append(("data", content))
    if cfgd is not None:
        for k in ("db", "log", "fmt", "depth"):
            if cfgd.get(k) is not None: pairs.append(("cfg." + k, b_(cfgd[k])))
        if cfgd.get("now") is not None: pairs.append(("cfg.now", time_str(cfgd["now"])))
    pairs.append(("default_config", DEFAULT_CONFIG_PATH))
    # the argument vector and the environment exactly as the program gets them: the model reads its invocation from these (Model/Argv.v, parse_argv),
    # the record fields above are what the harness meant and serve requests without a vector
    if case.get("raw_argv") is None and not case.get("_record_only"):
        argv, env = argv_env(case)
        pairs.append(("argv", True))
        for a in argv: pairs.append(("a", a.encode("utf-8", "surrogateescape")))
        for k, v in env.items():
            if k != "TZ": pairs.append(("env." + k, v.encode("utf-8", "surrogateescape")))
    if case.get("tz"): pairs.append(("tz", case["tz"][1]))
    if case.get("clock"): pairs.append(("clock", time_str(case["clock"])))
    if case.get("sink") is not None: pairs.append(("sink", case["sink"]))
    for path, k in case.get("read_faults", {}).items():
        pairs.append(("faultpath", b_(path))); pairs.append(("faultat", k))
    if perm: pairs.append(("perm", perm))
    return req(pairs=pairs)

CMD_ARGV = {"reg": ["reg"], "bal": ["bal"], "lint": ["lint"], "element-total": ["report", "element-total"],
            "unresolved": ["report", "unresolved"], "quantity": ["report", "quantity"], "totals": ["report", "totals"],
            "csv-log": ["csv", "log"], "csv-db": ["csv", "database"], "csv-db-resolved": ["csv", "database-resolved"],
            "stats": ["stats"], "summary": ["summary"], "print": ["print"]}

def s_(x):
    """argv/env strings: bytes are passed through surrogateescape"""
    if isinstance(x, bytes): return x.decode("utf-8", "surrogateescape")
    return str(x)

def cfg_file_text(c):
    lines = ["[Global]"]
    if c.get("now") is not None:
        y, m, d, sod, off = c["now"]
        sign = "+" if off >= 0 else "-"
        zone = "Z" if off == 0 else "%s%02d:%02d" % (sign, abs(off) // 3600, abs(off) % 3600 // 60)
        lines.append("Now=%04d-%02d-%02dT%02d:%02d:%02d%s" % (y, m, d, sod // 3600, sod % 3600 // 60, sod % 60, zone))
    if c.get("db") is not None: lines.append("DbFileName=" + s_(c["db"]))
    if c.get("log") is not None: lines.append("LogFileName=" + s_(c["log"]))
    if c.get("fmt") is not None: lines.append("DateFormat=" + s_(c["fmt"]))
    lines.append("[Resolver]")
    if c.get("depth") is not None: lines.append("MaxDepth=" + s_(c["depth"]))
    return ("\n".join(lines) + "\n").encode("utf-8", "surrogateescape")

def argv_env(case):
    if case.get("raw_argv") is not None:      # outside the model: the argument vector as given (robustness-only cases)
        return [s_(a) for a in case["raw_argv"]], dict({"TZ": "UTC"}, **{k: s_(v) for k, v in (case.get("raw_env") or {}).items()})
    g = []
    if case.get("f_db") is not None: g += ["-d", s_(case["f_db"])]
    if case.get("f_log") is not None: g += ["-l", s_(case["f_log"])]
    if case.get("f_fmt") is not None: g += ["--date-format", s_(case["f_fmt"])]
    if case.get("f_depth") is not None: g += ["--maxdepth", s_(case["f_depth"])]
    if case.get("f_today") is not None: g += ["--today", s_(case["f_today"])]
    if case.get("f_config") is not None: g += ["-c", s_(case["f_config"])]
    if case.get("no_database"): g += ["--no-database"]
    if case.get("g_begin") is not None: g += ["-b", s_(case["g_begin"])]
    if case.get("g_end") is not None: g += ["-e", s_(case["g_end"])]
    if case.get("g_no_color"): g += ["--no-color"]
    l = []
    if case.get("l_begin") is not None: l += ["-b", s_(case["l_begin"])]
    if case.get("l_end") is not None: l += ["-e", s_(case["l_end"])]
    if case.get("l_no_color"): l += ["--no-color"]
    if case.get("single_food"): l += ["-f", s_(case["single_food"])]
    if case.get("single_element"): l += ["-s", s_(case["single_element"])]
    for k, flag in [("group_food", "-g"), ("csv", "--csv"), ("no_totals", "--no-totals"), ("totals_only", "--totals-only"),
                    ("shorten", "--shorten"), ("old", "--use-old-reg-reporter"), ("collapse", "--collapse"),
                    ("collapse_last", "--collapse-last"), ("desc", "--desc"), ("silent", "--silent")]:
        if case.get(k): l += [flag]
    if case.get("template") is not None: l += ["--internal-template-name", s_(case["template"])]
    # boolean flags given with the explicit value false (urfave/cli's --flag=false): the same as not giving them - the model is told nothing
    FALSEFLAG = dict(csv="--csv", no_totals="--no-totals", totals_only="--totals-only", shorten="--shorten", old="--use-old-reg-reporter", collapse="--collapse",
                     collapse_last="--collapse-last", desc="--desc", silent="--silent", l_no_color="--no-color", group_food="--group-food")
    for k in case.get("false_flags") or []:
        if k == "g_no_color": g += ["--no-color=false"]
        elif k == "no_database": g += ["--no-database=false"]
        else: l += [FALSEFLAG[k] + "=false"]
    cmdv = list(CMD_ARGV[case["cmd"]])
    if case.get("spell") is not None:
        # another spelling of the same command line (Go's flag syntax as urfave/cli applies it: one or two dashes, `name value` or `name=value`, the
        # flag's other name, a boolean as `=true`, a flag given twice - the last occurrence counts -, the command's alias); the model reads the vector itself
        import random as _random
        rr = _random.Random(case["spell"])
        g, l = respell(rr, g), respell(rr, l)
        if cmdv[0] == "reg" and rr.random() < 0.5: cmdv[0] = "register"
        if cmdv[0] == "bal" and rr.random() < 0.5: cmdv[0] = "balance"
    argv = g + cmdv + l
    if case.get("arg") is not None: argv += ["--", s_(case["arg"])] if s_(case["arg"]).startswith("-") else [s_(case["arg"])]
    env = {}
    for k, name in [("e_db", "HR_DATABASE"), ("e_log", "HR_LOGFILE"), ("e_fmt", "HR_DATE_FORMAT"), ("e_depth", "HR_MAXDEPTH"), ("e_config", "HR_CONFIG")]:
        if case.get(k) is not None: env[name] = s_(case[k])
    env["TZ"] = case["tz"][0] if case.get("tz") else "UTC"
    return argv, env

VALUE_FLAGS = {"-d": ["d", "database"], "-l": ["l", "logfile"], "-c": ["c", "config"], "--date-format": ["date-format"], "--maxdepth": ["maxdepth"], "--today": ["today"],
               "-b": ["b", "begin"], "-e": ["e", "end"], "-f": ["f", "single-food"], "-s": ["s", "single-element"], "--internal-template-name": ["internal-template-name"]}
BOOL_FLAGS = {"--no-database": ["no-database"], "--no-color": ["no-color"], "-g": ["g", "group-food"], "--csv": ["csv"], "--no-totals": ["no-totals"], "--totals-only": ["totals-only"],
              "--shorten": ["shorten"], "--use-old-reg-reporter": ["use-old-reg-reporter"], "--collapse": ["collapse", "c"], "--collapse-last": ["collapse-last"], "--desc": ["desc"],
              "--silent": ["silent", "s"]}
DECOY = {"d": "decoy.yaml", "database": "decoy.yaml", "l": "decoy.yaml", "logfile": "decoy.yaml", "c": "decoy.cfg", "config": "decoy.cfg", "date-format": "2006-01-02", "maxdepth": "7",
         "f": "decoy", "single-food": "decoy", "s": "decoy", "single-element": "decoy"}

def respell(rr, toks):
    """the same flags in another of the spellings the flag syntax allows (one name per flag: urfave refuses two forms of one flag in one level)"""
    out = []; i = 0
    while i < len(toks):
        t = toks[i]
        if t in VALUE_FLAGS and i + 1 < len(toks):
            v = toks[i + 1]; i += 2
            name = rr.choice(VALUE_FLAGS[t]); dash = rr.choice(["-", "--"])
            def one(val): return [dash + name + "=" + val] if rr.random() < 0.5 else [dash + name, val]
            if rr.random() < 0.2: out += one(DECOY.get(name, v))       # given twice: the last occurrence counts
            out += one(v)
        elif t in BOOL_FLAGS:
            i += 1
            name = rr.choice(BOOL_FLAGS[t]); dash = rr.choice(["-", "--"])
            out.append(dash + name + rr.choice(["", "", "=true", "=1", "=T"]))
        else:
            out.append(t); i += 1
    return out

def materialize(case, root):
    """writes the case's files under `root` (relative paths; absolute ones are refused except the default config marker)"""
    for path, content in case.get("files", {}).items():
        if path == "@default-config": continue
        p = os.path.join(root, path) if not os.path.isabs(path) else path
        if os.path.isabs(path) and not path.startswith(root): raise ValueError("absolute path outside case dir: " + path)
        os.makedirs(os.path.dirname(p) or root, exist_ok=True)
        if content == "DIR": os.makedirs(p, exist_ok=True)
        elif isinstance(content, dict) and "symlink" in content: os.symlink(content["symlink"], p)
        elif isinstance(content, dict): open(p, "wb").write(cfg_file_text(content["cfg"]))
        elif path in case.get("fifo", []): os.mkfifo(p)
        else: open(p, "wb").write(content)

TS = re.compile(rb"^\d{4}/\d\d/\d\d \d\d:\d\d:\d\d ")

def classify_error(msg):
    """implementation error text -> the model's error classes (a program-name prefix such as "hranoprovod-cli: " in front of the message is layout, not content)"""
    c = classify_error_1(msg)
    if c.startswith("other:"):
        m2 = re.sub(r"^[A-Za-z0-9_.-]+: ", "", msg.strip(), count=1)
        if m2 != msg.strip():
            c2 = classify_error_1(m2)
            if not c2.startswith("other:"): return c2
    return c

def classify_error_1(msg):
    m = msg.strip()
    if m.startswith("bad syntax on line") or m.startswith("error converting"): return "parse:" + m.encode("utf-8", "surrogateescape").hex()
    if m == "maximum resolution depth reached": return "maxdepth"
    if " at section " in m and ", variable " in m: return "cfgsyntax"       # gcfg: a value its field cannot hold (also a time: "parsing time ... at section ...")
    if m.startswith("parsing time "): return "baddate"
    if m.startswith("open ") and m.endswith("no such file or directory"): return "open"
    if "is a directory" in m and m.startswith("read "): return "readerr"
    if "verif: injected read error" in m: return "readerr"
    if m == "bufio.Scanner: token too long": return "toolong"
    if m in ("no element name", "no file provided"): return "usage:" + m.encode().hex()
    if m.startswith("File ") and m.endswith("not found"): return "cfgmissing"
    # gcfg (the configuration file reader): syntax errors carry a position "line:col:", data errors name the section / variable, and several are collected as "warnings:"
    if re.match(r"^(\d+:\d+: |warnings?:|invalid (section|variable)|can't store data|failed to parse |gcfg: )", m) or "at section" in m or m.startswith("illegal "): return "cfgsyntax"
    if m.startswith("error parsing regexp"): return "regexp"
    if "no space left" in m or "short write" in m or "broken pipe" in m or m.startswith("write "): return "write"
    return "other:" + m

def run_cli_case(impl, case, workdir, timeout=20, cover=False):
    """runs the real binary; returns dict(status, stdout, raw_err, rc)"""
    d = tempfile.mkdtemp(prefix="c", dir=workdir)
    try:
        materialize(case, d)
        argv, env = argv_env(case)
        full_env = {"PATH": "/usr/bin:/bin", "HOME": d}
        full_env.update(env)
        if cover and COVDIR: full_env["GOCOVERDIR"] = COVDIR
        cmd = [impl["hr"]] + argv
        if "@default-config" in case.get("files", {}):
            # the default configuration file is $HOME/.hranoprovod/config, as documented (fix F28; before, the home directory of the password
            # database was used whatever HOME said).  HOME is the case directory; the directory the password database names (/root) is
            # covered by an empty scratch directory in a private mount namespace, so that a program that looks there finds nothing
            os.makedirs(os.path.join(d, ".hranoprovod"))
            open(os.path.join(d, ".hranoprovod", "config"), "wb").write(cfg_file_text(case["files"]["@default-config"]["cfg"]))
            home = os.path.join(d, "@home"); os.makedirs(home)
            if os.path.realpath(cmd[0]).startswith("/root/"):
                # the binary itself lives under /root (a snapshot run): the bind mount would hide it; run_cli_cases made one copy outside
                # (one copy per batch, made before any worker thread starts: a file still open for writing in a forking process cannot be executed)
                cmd[0] = impl.get("hr_outside_root") or cmd[0]
            inner = "mount --bind %s /root && cd %s && exec \"$@\"" % (sh_quote(home), sh_quote(d))
            cmd = ["unshare", "-m", "sh", "-c", inner, "sh"] + cmd
        try:
            if case.get("fifo"):
                # a time-out of a pipe-fed run is confirmed before it is reported: twice more with the pipes, and the run must also end on plain files -
                # a program that really hangs on a pipe does so every time; a stall of the feeding threads on a loaded machine does not repeat
                for attempt in range(3):
                    try:
                        p = run_with_fifos(cmd, d, full_env, case, timeout); break
                    except subprocess.TimeoutExpired:
                        if attempt == 2: raise
                        for fp in case["fifo"]:
                            try: os.unlink(os.path.join(d, fp))
                            except OSError: pass
                            os.mkfifo(os.path.join(d, fp))
            else:
                p = subprocess.run(cmd, cwd=d, env=full_env, stdout=subprocess.PIPE, stderr=subprocess.PIPE, timeout=timeout)
        except subprocess.TimeoutExpired:
            return dict(status="timeout", stdout=b"", raw_err="timeout", rc=None)
        err = TS.sub(b"", p.stderr).decode("utf-8", "surrogateescape")
        if p.returncode == 0: status = "ok"
        elif p.returncode == 1: status = "fail:" + classify_error(err)
        elif p.returncode > 1 and not any(mark in p.stderr for mark in (b"panic:", b"fatal error:", b"goroutine ", b"SIGSEGV", b"runtime error")):
            status = "fail:exit%d:%s" % (p.returncode, classify_error(err))      # an error message with another non-zero status (urfave/cli's own exit codes)
        else: status = "crash:rc=%s" % p.returncode
        return dict(status=status, stdout=p.stdout, raw_err=err, rc=p.returncode)
    finally:
        shutil.rmtree(d, ignore_errors=True)

def run_with_fifos(cmd, d, env, case, timeout):
    """the named files are FIFOs fed by writer threads (a file that is readable but has no size)"""
    import threading, time, errno
    proc = subprocess.Popen(cmd, cwd=d, env=env, stdout=subprocess.PIPE, stderr=subprocess.PIPE)
    def feed(path, data):
        t0 = time.time()
        while proc.poll() is None and time.time() - t0 < timeout:
            try: fd = os.open(path, os.O_WRONLY | os.O_NONBLOCK)
            except OSError as e:
                time.sleep(0.002 if e.errno == errno.ENXIO else 0.05); continue     # ENXIO: nobody reads yet; anything else (descriptor table full on a loaded machine ...): try again
            try:
                os.set_blocking(fd, True)
                # short pieces only for the first 64 bytes of the file (the reader's first reads see them one by one); the rest in large writes, so that the
                # delivery of a big file never takes long on a loaded machine
                view = memoryview(data); piece = case.get("fifo_piece") or 65536; sent = 0
                while view:
                    n = os.write(fd, view[:piece if sent < 64 else 65536]); view = view[n:]; sent += n
                    if piece < 64 and sent <= 64: time.sleep(0.0002)
            except OSError: pass
            finally: os.close(fd)
            return
    ths = [threading.Thread(target=feed, args=(os.path.join(d, p), case["files"][p]), daemon=True) for p in case["fifo"]]
    for t in ths: t.start()
    try: out, err = proc.communicate(timeout=timeout)
    except subprocess.TimeoutExpired:
        proc.kill(); proc.communicate(); raise
    class R: pass
    r = R(); r.returncode, r.stdout, r.stderr = proc.returncode, out, err
    return r

def sh_quote(s): return "'" + s.replace("'", "'\\''") + "'"

def run_cli_cases(impl, cases, nproc=NPROC):
    work = tempfile.mkdtemp(prefix="hv-run.", dir="/var/tmp")
    try:
        if os.path.realpath(impl["hr"]).startswith("/root/") and any("@default-config" in c.get("files", {}) for c in cases):
            shutil.copy2(impl["hr"], os.path.join(work, "@hr")); impl = dict(impl, hr_outside_root=os.path.join(work, "@hr"))
        with cf.ThreadPoolExecutor(max_workers=nproc) as ex:
            res = list(ex.map(lambda c: run_cli_case(impl, c, work), cases))
            if COVDIR is not None and impl.get("hr_cover"):
                # coverage measurement only: a quarter of the cases (chosen pseudo-randomly, so that no periodic command pattern is
                # missed) once more on the instrumented build of the same sources (results discarded)
                cimpl = dict(impl, hr=impl["hr_cover"])
                import random as _random
                pick = sorted(_random.Random(len(cases)).sample(range(len(cases)), (len(cases) + 3) // 4))
                list(ex.map(lambda c: run_cli_case(cimpl, c, work, cover=True), [cases[i] for i in pick if "@default-config" not in cases[i].get("files", {})]))
            return res
    finally:
        shutil.rmtree(work, ignore_errors=True)

def run_inproc_cases(impl, cases, nproc=NPROC, repeat=1):
    """the in-process harness (real commands, injected sink). Each worker process serves a shard; files are
    materialised under a per-case directory. Returns dict(status, stdout, raw_err, panic)."""
    work = tempfile.mkdtemp(prefix="hv-inp.", dir="/var/tmp")
    try:
        lines = []
        for i, c in enumerate(cases):
            d = os.path.join(work, "c%d" % i); os.makedirs(d)
            materialize(c, d)
            argv, env = argv_env(c)
            lines.append(json.dumps({"args": argv, "env": env, "cwd": d, "sink": c["sink"] if c.get("sink") is not None else -1, "faults": c.get("read_faults") or {}}))
        lines = [l for l in lines for _ in range(repeat)]
        env = _covenv(dict(PATH="/usr/bin:/bin", HOME=work, HR_VERIF_SERVE="1", TZ="UTC"))
        try:
            outs = run_sharded(impl["hr_verif"], lines, env=env, nproc=nproc, timeout=300)
        except subprocess.TimeoutExpired:
            # a case never returns (the harness serves its cases one after the other): run every case on the real binary, each under its own time limit,
            # so that the hanging invocation is named (sinks cannot be injected there: statuses of sink cases are not comparable, the hang is)
            rr = run_cli_cases(impl, [dict(c, sink=None) for c in cases], nproc=nproc)
            return [x for x in rr for _ in range(repeat)]
        res = []
        for o in outs:
            j = json.loads(o)
            err = bytes.fromhex(j.get("err", "")).decode("utf-8", "surrogateescape")
            if j.get("panic"): status = "crash:panic"
            elif err: status = "fail:" + classify_error(err)
            else: status = "ok"
            res.append(dict(status=status, stdout=bytes.fromhex(j.get("out", "")), raw_err=err, panic=j.get("panic", "")))
        return res
    finally:
        shutil.rmtree(work, ignore_errors=True)

def parse_model_outcome(raw):
    """b'ok <hex>' / b'fail:<class> <hex>' -> (status, stdout)"""
    s = raw.decode()
    st, _, out = s.partition(" ")
    return st, bytes.fromhex(out)

def framework_intercepts(case):
    """urfave/cli answers a positional argument `h` or `help` itself (the help of the command) before the program's action runs; the model's
    invocation record has no such case (DESIGN 9.4, trusted base: argv parsing). Only a clean exit is required there."""
    a = case.get("arg")
    if a is None: return False
    if isinstance(a, str): a = a.encode()
    return a in (b"h", b"help")

def compare_cli(model_raw, impl_res, case=None):
    """None when the observables agree, else a description. Unmodelled cases only require a clean exit."""
    mst, mout = parse_model_outcome(model_raw)
    if case is not None and framework_intercepts(case): mst = "fail:unmodelled"
    ist, iout = impl_res["status"], impl_res["stdout"]
    if ist.startswith("crash") or ist == "timeout":
        return f"implementation {ist}: {impl_res.get('raw_err','')[:300]}{impl_res.get('panic','')[:600]}"
    if mst.startswith("panic"):
        return f"model predicts a panic {mst}"
    if mst.startswith("fail:unmodelled"): return None
    if mst != ist:
        return f"status: model {mst} / implementation {ist}"
    if mout != iout:
        return f"stdout differs: model {mout[:400]!r} / implementation {iout[:400]!r}"
    return None


def run_inproc_single(impl, case, env_extra=None, timeout=120):
    """one case in a harness process of its own (a crash of the Go runtime - stack overflow, out of memory - kills the process: no reply line).
    Returns dict(status, stdout, raw_err, rc)."""
    work = tempfile.mkdtemp(prefix="hv-one.", dir="/var/tmp")
    try:
        d = os.path.join(work, "c0"); os.makedirs(d)
        materialize(case, d)
        argv, env = argv_env(case)
        line = json.dumps({"args": argv, "env": env, "cwd": d, "sink": -1, "faults": {}})
        e = dict(PATH="/usr/bin:/bin", HOME=work, HR_VERIF_SERVE="1", TZ="UTC"); e.update(env_extra or {})
        try:
            p = subprocess.run([impl["hr_verif"]], input=(line + "\n").encode(), stdout=subprocess.PIPE, stderr=subprocess.PIPE, env=e, timeout=timeout)
        except subprocess.TimeoutExpired:
            return dict(status="timeout", stdout=b"", raw_err="timeout", rc=None)
        if p.returncode != 0 or not p.stdout.strip():
            return dict(status="crash:rc=%s" % p.returncode, stdout=b"", raw_err=p.stderr[:600].decode("utf-8", "replace"), rc=p.returncode)
        j = json.loads(p.stdout.decode().split("\n")[0])
        err = bytes.fromhex(j.get("err", "")).decode("utf-8", "surrogateescape")
        status = "crash:panic" if j.get("panic") else ("fail:" + classify_error(err) if err else "ok")
        return dict(status=status, stdout=bytes.fromhex(j.get("out", "")), raw_err=err, rc=0, panic=j.get("panic", ""))
    finally:
        shutil.rmtree(work, ignore_errors=True)
