"""Per-property checks, part 2 (C02 C03 C05 C06 C07 C08 C12 C13 C14 C15 C16 C17 C18).
Each check = (1) correspondence: the extracted Coq model and the implementation on the same generated cases, projected
observables compared; (2) the property's own relations evaluated on the implementation's outputs alone (no model in
between), which is what turns a mismatch into a concrete failing input."""
import csv as pycsv, datetime, io, itertools, json, os, re, subprocess
from fractions import Fraction
from . import build, run, gen
from .props import cli_diff, impl_only, first_diff, ws_norm, files_of, short, NOCOLOR, parse_stream_diff

SGR = re.compile(rb"\x1b\[[0-9;]*m")
def strip_sgr(b): return SGR.sub(b"", b)

def simple_world(r, envelope=True, pathy=0.3, n_days=None, layout="2006/01/02", cycles=0.0):
    """a world whose names are plain words (so that the implementation's output can be parsed back unambiguously)"""
    w = gen.world(r, envelope=envelope, fancy=0.0, layout=layout, cycles=cycles, pathy=pathy)
    return w

def log_days(w):
    """[(heading, [(food, lexeme)])] of the abstract log"""
    days = []
    for it in w["log"]:
        if it[0] == "heading": days.append((it[1], []))
        elif it[0] == "entry" and days: days[-1][1].append((it[1], it[2]))
    return days

def fr(lex):
    try: return Fraction(lex)
    except Exception: return None

def num(b):
    return Fraction(b.decode().strip())

def close(a, b, tol=Fraction(1, 100)):
    return abs(a - b) <= tol

# ---------------------------------------------------------------------------
# C02  register
# ---------------------------------------------------------------------------
def parse_reg_default(out):
    """plain default-template register output -> [(date, [(food, qty, [(el, val)])], [(el, pos, neg, sum)] | None)]"""
    days = []; section = None
    for line in out.split(b"\n"):
        if not line: continue
        if not line.startswith(b"\t"):
            days.append([line, [], None]); section = "foods"; continue
        if line.startswith(b"\t-- TOTAL"):
            days[-1][2] = []; section = "totals"; continue
        if line.startswith(b"\t\t"):
            body = line[2:]
            if section == "totals":
                m = re.match(rb"^(.{20,}?) +(-?[0-9.]+|NaN|[+-]Inf) +(-?[0-9.]+|NaN|[+-]Inf) = *(-?[0-9.]+|NaN|[+-]Inf)$", body)
                if not m: raise ValueError("total row: %r" % line)
                days[-1][2].append((m.group(1).strip(), m.group(2), m.group(3), m.group(4)))
            else:
                m = re.match(rb"^(.{20,}?) +(-?[0-9.]+|NaN|[+-]Inf)$", body)
                if not m: raise ValueError("ingredient row: %r" % line)
                days[-1][1][-1][2].append((m.group(1).strip(), m.group(2)))
        else:
            m = re.match(rb"^\t(.{27,}?) : *(-?[0-9.]+|NaN|[+-]Inf)$", line)
            if not m: raise ValueError("food row: %r" % line)
            days[-1][1].append((m.group(1).rstrip(), m.group(2), []))
    return days

def check_C02(ctx):
    r = ctx.rng
    cases = []; worlds = []
    for k in range(ctx.scale(600, 8000)):
        w = gen.world(r, envelope=r.random() < 0.5, fancy=r.choice([0, 0.2, 0.4]))
        f = files_of(r, w)
        days = [h for h, _ in log_days(w)]
        col = {} if r.random() < 0.25 else NOCOLOR
        if days and r.random() < 0.3:      # "every selected day in file order": with a period on a log whose days may be out of order
            col = dict(col, **{r.choice(["g_end", "l_end", "g_begin"]): r.choice(days)})
            # ... in a process zone other than UTC and without --today: the bound is a calendar day, not an instant of the local zone
            if r.random() < 0.5: col["tz"] = r.choice([("Asia/Tokyo", 32400), ("America/New_York", -18000), ("Asia/Kolkata", 19800), ("Pacific/Kiritimati", 50400)])
            # the same bound given before AND after the sub-command with different values: the one on the sub-command counts
            if r.random() < 0.35:
                if "g_begin" in col: col["l_begin"] = r.choice(days)
                if "g_end" in col: col["l_end"] = r.choice(days)
                if "l_end" in col and "g_end" not in col: col["g_end"] = r.choice(days)
        if r.random() < 0.08: col = dict(col, no_database=True, **r.choice([dict(f_db="food.yaml"), dict(e_db="food.yaml"), {}]))     # --no-database wins over a book named by flag or environment
        cases.append(dict(files=f, cmd="reg", **col))
        cases.append(dict(files=f, cmd="reg", template="left-aligned", **col))
        cases.append(dict(files=f, cmd="reg", old=True, **col))
        if days: cases.append(dict(files=f, cmd="summary", arg=r.choice(days).encode(), **{k2: v for k2, v in col.items() if k2 not in ("g_end", "l_end", "g_begin", "l_begin")}))
        d = log_days(w)
        rep_food = any(len({x for x, _ in es}) < len(es) for _, es in d)
        if rep_food or any(len(v) > 0 for v in w["meta"]["defs"].values()): ctx.nontriv(f["log.yaml"] + f["food.yaml"])
        ctx.tally("repeated_food_in_a_day", rep_food)
        if k < 1: ctx.sample(dict(book=f["food.yaml"], log=f["log.yaml"]))
    cli_diff(ctx, cases, tag="C02:", pipe_frac=0.1)
    # the property's clauses on the implementation's own output (plain names, exact-envelope numbers)
    pc = []; metas = []
    for k in range(ctx.scale(400, 6000)):
        w = simple_world(r, envelope=True, pathy=0.2)
        f = files_of(r, w)
        per = {}
        hs = [h for h, _ in log_days(w)]
        if hs and k % 3 == 0:       # with a period on a log whose days may be out of order: the selected days, still in file order
            per = {r.choice(["g_end", "l_end", "g_begin", "l_begin"]): r.choice(hs)}
            if r.random() < 0.3: per["g_end" if "g_begin" in per or "l_begin" in per else "g_begin"] = r.choice(hs)
        pc.append(dict(files=f, cmd="reg", **per, **NOCOLOR)); metas.append(w)
        pc.append(dict(files=f, cmd="csv-db-resolved", **NOCOLOR)); metas.append(w)
    ires = impl_only(ctx, pc)
    for j in range(0, len(pc), 2):
        w, reg, res = metas[j], ires[j], ires[j + 1]
        if reg["status"] != "ok" or res["status"] != "ok": continue
        resolved = {}
        for row in pycsv.reader(io.StringIO(res["stdout"].decode("utf-8", "surrogateescape"))):
            resolved.setdefault(row[0].encode("utf-8", "surrogateescape"), []).append((row[1].encode("utf-8", "surrogateescape"), Fraction(row[2])))
        book_names = {it[1].encode() for it in w["book"] if it[0] == "heading"}
        try: got = parse_reg_default(reg["stdout"])
        except ValueError as e:
            ctx.violation("C02:unparsable-register", "register output does not have the register's shape: %s" % e, dict(kind="cli", case=pc[j], impl=reg)); continue
        want_days = log_days(w)
        lo = pc[j].get("l_begin") or pc[j].get("g_begin"); hi = pc[j].get("l_end") or pc[j].get("g_end")
        want_days = [(h, es) for h, es in want_days if (lo is None or h >= lo) and (hi is None or h <= hi)]       # the layout 2006/01/02 orders as text
        rep = dict(kind="cli", case=pc[j], impl=reg)
        if [d[0] for d in got] != [h.encode() for h, _ in want_days]:
            ctx.violation("C02:days-not-in-file-order", "days shown %r, days of the file %r" % ([d[0] for d in got][:6], [h for h, _ in want_days][:6]), rep); continue
        for (date, foods, totals), (_, es) in zip(got, want_days):
            order = []; qty = {}
            for fname, lx in es:
                fb = fname.encode()
                if fb not in qty: order.append(fb); qty[fb] = Fraction(0)
                qty[fb] += Fraction(lx)
            if [x[0] for x in foods] != order:
                ctx.violation("C02:foods-not-once-in-first-appearance-order", "day %r shows foods %r, expected %r" % (date, [x[0] for x in foods][:6], order[:6]), rep); break
            contrib = {}
            bad = False
            for (fname, q, ings) in foods:
                if not close(num(q), qty[fname]):
                    ctx.violation("C02:food-quantity", "day %r food %r shows %r, logged quantities add up to %s" % (date, fname, q, qty[fname]), rep); bad = True; break
                exp = [(e, v * qty[fname]) for e, v in resolved.get(fname, [])] if fname in book_names else [(fname, qty[fname])]
                itol = Fraction(1, 200) * abs(qty[fname]) + Fraction(1, 100)      # the resolved export is itself rounded to two decimals
                if [i[0] for i in ings] != [e for e, _ in exp] or any(not close(num(i[1]), v, itol) for i, (_, v) in zip(ings, exp)):
                    ctx.violation("C02:ingredient-lines", "day %r food %r shows %r, expected quantity x resolved elements %r" % (date, fname, ings[:4], [(e, float(v)) for e, v in exp][:4]), rep); bad = True; break
                for e, v in exp:
                    contrib.setdefault(e, [Fraction(0), Fraction(0), Fraction(1, 100)])
                    if v < 0: contrib[e][1] += v
                    else: contrib[e][0] += v
                    contrib[e][2] += itol
            if bad: break
            if totals is not None:
                names = [t[0] for t in totals]
                if names != sorted(set(names)) or set(names) != set(contrib):
                    ctx.violation("C02:totals-names", "day %r totals list %r, contributed elements %r" % (date, names[:8], sorted(contrib)[:8]), rep); break
                for (e, p, n, s) in totals:
                    tol = contrib[e][2]
                    if not (close(num(p), contrib[e][0], tol) and close(num(n), contrib[e][1], tol) and close(num(s), contrib[e][0] + contrib[e][1], tol)):
                        ctx.violation("C02:totals-values", "day %r element %r shows %r %r %r, contributions give %s %s" % (date, e, p, n, s, contrib[e][0], contrib[e][1]), rep); break
        ctx.nontriv(pc[j]["files"]["log.yaml"] + pc[j]["files"]["food.yaml"])
    return dict(rule="random worlds (recipe DAG + log with repeated foods, unknown foods, direct elements, negative and zero quantities, empty days, fancy names) through reg "
                "(default / left-aligned / old reporter, with and without colour) and summary: stdout and status compared byte for byte with the extracted Coq model; then, on "
                "plain-name exact-arithmetic worlds, the clauses of the property are evaluated on the implementation's own register output against the abstract log and the "
                "implementation's resolved book (days in file order; foods once in first-appearance order with summed quantity; quantity x resolved element or the food itself; "
                "totals sorted, unique, positive/negative/sum). Non-trivial = a day with a repeated food or a food the book defines; distinct by file bytes")

# ---------------------------------------------------------------------------
# C03  balance
# ---------------------------------------------------------------------------
ROW = re.compile(rb"^ *(-?[0-9.]+|NaN|[+-]Inf) \| ( *)(.*)$")

def parse_bal(out):
    """-> rows [(amount, level, label)], optional grand total line (amount, label)"""
    rows = []; grand = None; lines = [l for l in out.split(b"\n") if l]
    i = 0
    while i < len(lines):
        l = lines[i]
        if re.match(rb"^-+\|$", l):
            m = ROW.match(lines[i + 1]); grand = (m.group(1), m.group(3)); i += 2; continue
        m = ROW.match(l)
        if not m: raise ValueError("balance row: %r" % l)
        rows.append((m.group(1), len(m.group(2)) // 2, m.group(3))); i += 1
    return rows, grand

def decode_rows(rows):
    """full paths: [(path tuple, amount, is_leaf)]"""
    out = []; stack = []   # (level, path)
    for idx, (amt, lvl, label) in enumerate(rows):
        while stack and stack[-1][0] >= lvl: stack.pop()
        base = stack[-1][1] if stack else ()
        path = base + tuple(label.split(b"/"))
        stack.append((lvl, path))
        leaf = not (idx + 1 < len(rows) and rows[idx + 1][1] > lvl)
        out.append((path, amt, leaf))
    return out

def prefix_free(names):
    segs = [tuple(n.split("/")) for n in set(names)]
    return not any(a != b and b[:len(a)] == a for a in segs for b in segs)

def expected_balance(w, x=None):
    """the property's right-hand side from the abstract files, in exact rationals: {path tuple: sum of the contributions of all logged foods at or below
    the path}. Without x a logged food contributes its quantity; with x it contributes quantity x its resolved amount of x (the quantity itself when the
    food is x and the book does not define it). None when a number is not a plain decimal or the book does not resolve."""
    from .props import expected_resolution
    book = [it for it in w["book"] if it[0] in ("heading", "entry")]
    res = expected_resolution(book) if x is not None else {}
    if res is None: return None
    defined = {it[1] for it in book if it[0] == "heading"}
    out = {}
    for _, entries in log_days(w):
        for food, lex in entries:
            q = fr(lex)
            if q is None: return None
            if x is None: v = q
            elif food in defined:
                if food not in res or x not in res[food]: continue
                v = q * res[food][x]
            elif food == x: v = q
            else: continue
            segs = tuple(food.encode().split(b"/"))
            for k in range(1, len(segs) + 1): out[segs[:k]] = out.get(segs[:k], Fraction(0)) + v
    return out

def check_C03(ctx):
    r = ctx.rng
    paths = ["/".join(p) for n in (1, 2, 3) for p in itertools.product("ab", repeat=n)]
    sets = [s for n in range(1, ctx.scale(3, 4) + 1) for s in itertools.combinations(paths, n)]
    if ctx.tier == "quick": sets = [s for i, s in enumerate(sets) if len(s) < 3 or i % 2 == 0]
    cases = []; meta = []; worlds_by_files = {}
    modes = [dict(), dict(collapse=True), dict(collapse_last=True)]
    for s in sets:
        amounts = [r.choice(["1", "2", "4", "8", "16", "0.5", "-3"]) for _ in s]
        log = "2021/01/01:\n" + "".join("  %s: %s\n" % (p, a) for p, a in zip(s, amounts))
        if r.random() < 0.3: log += "2021/01/02:\n  %s: 32\n" % r.choice(s)
        for m in modes:
            cases.append(dict(files={"food.yaml": b"", "log.yaml": log.encode()}, cmd="bal", **m, **NOCOLOR)); meta.append((s, log))
        ctx.nontriv(log)
    # amounts beyond single precision, long days (more distinct foods than a small fixed capacity, the first food repeated)
    for k in range(ctx.scale(30, 500)):
        n = r.randint(9, 20)
        names = ["%s/%s" % (r.choice("abc"), gen.word(r, 2, 5)) for _ in range(n)]
        es = [(nm, r.choice(["300000.87", "16777217", "131072.13", "2", "0.5", "1234567.89", "-250000.37"])) for nm in names]
        es.insert(r.randint(3, len(es)), (names[0], "2")); es.append((names[r.randrange(len(names))], "3"))
        log = "2021/01/01:\n" + "".join("  %s: %s\n" % e for e in es)
        for m in modes:
            cases.append(dict(files={"food.yaml": b"", "log.yaml": log.encode()}, cmd="bal", **m, **NOCOLOR)); meta.append((None, log))
        ctx.nontriv(log)
    # a category whose first child carries the category's whole total while its other children cancel (a correction of +30 / -30, a zero quantity):
    # the children are several, so nothing is joined in any mode, and every branch keeps its row
    for k in range(ctx.scale(30, 400)):
        cat = r.choice(["cat", "food/x", "a"]); q = r.choice(["5", "2.5", "12"]); z = r.choice(["30", "7", "0.5"])
        ents = [(cat + "/a", q), (cat + "/b", z), (cat + "/c", "-" + z)] if r.random() < 0.6 else [(cat + "/a", q), (cat + "/z", "0")]
        if r.random() < 0.4: ents.append(("other/" + gen.word(r, 2, 4), "1"))
        r.shuffle(ents)
        log = "2021/01/01:\n" + "".join("  %s: %s\n" % e for e in ents)
        for m in modes:
            cases.append(dict(files={"food.yaml": b"", "log.yaml": log.encode()}, cmd="bal", **m, **NOCOLOR)); meta.append((None, log))
        ctx.nontriv(log)
    # path segments with characters that mean something to fmt, text/template or the column layout (a name is data, never a format)
    oddseg = ["100%", "3.5%", "%s", "%d", "%v%v", "50%off", "a b", "a.b", "a,b", "é", "x%", "%", "{{.}}", "a\\b", "$1", "%!s(MISSING)", "%%"]
    for k in range(ctx.scale(40, 600)):
        names = []
        for _ in range(r.randint(2, 6)):
            names.append("/".join(r.choice(oddseg + ["a", "b", "milk"]) for _ in range(r.randint(1, 4))))
        if r.random() < 0.5: names.append(names[0] + "/" + r.choice(oddseg))      # a sole child below a logged name
        log = "2021/01/01:\n" + "".join("  %s: %s\n" % (nm, r.choice(["1", "2", "0.5", "-3"])) for nm in names)
        el = r.choice(oddseg)
        bookb = ("%s:\n  %s: 2\n  kcal: 1\n" % (names[0], el)).encode()
        for m in modes:
            cases.append(dict(files={"food.yaml": b"", "log.yaml": log.encode()}, cmd="bal", **m, **NOCOLOR)); meta.append((None, log))
            cases.append(dict(files={"food.yaml": bookb, "log.yaml": log.encode()}, cmd="bal", single_element=el, **m, **NOCOLOR)); meta.append((None, log))
        ctx.nontriv(log)
    ctx.notes["exhaustive_path_sets"] = dict(segments="ab", max_depth=3, max_paths=ctx.scale(3, 4), sets=len(sets), every_second_3_set_only=(ctx.tier == "quick"))
    # random: deeper, shared prefixes, forks below chains, empty segments, single element with a book
    for k in range(ctx.scale(700, 10000)):
        w = simple_world(r, envelope=True, pathy=1.0)
        x = r.choice(gen.element_names(w) or ["x"])
        if k % 4 == 0:
            # a food whose name is the category of another food, both carrying the element (amounts booked on an inner node of the tree)
            g0 = gen.word(r, 3, 6)
            w["book"] += [("heading", g0), ("entry", x, gen.number(r, True)), ("heading", g0 + "/sub"), ("entry", x, gen.number(r, True))]
            for it_i, it in enumerate(list(w["log"])):
                if it[0] == "heading":
                    w["log"].insert(it_i + 1, ("entry", g0, gen.number(r, True))); w["log"].insert(it_i + 2, ("entry", g0 + "/sub", gen.number(r, True))); break
        f = files_of(r, w)
        worlds_by_files[(f["log.yaml"], f["food.yaml"])] = w
        for m in modes:
            cases.append(dict(files=f, cmd="bal", **m, **NOCOLOR)); meta.append((None, None))
            if r.random() < 0.5: cases.append(dict(files=f, cmd="bal", single_element=x, **m, **NOCOLOR)); meta.append((None, None))
        if k < 1: ctx.sample(dict(log=f["log.yaml"], book=f["food.yaml"], single_element=x))
    ires = cli_diff(ctx, cases, tag="C03:")
    # property-level: conservation and leaves on the implementation's own rows
    by_world = {}
    for c, i in zip(cases, ires):
        if i["status"] != "ok": continue
        key = (c["files"]["log.yaml"], c["files"]["food.yaml"], c.get("single_element"))
        mode = "collapse" if c.get("collapse") else "collapse_last" if c.get("collapse_last") else "plain"
        by_world.setdefault(key, {})[mode] = (c, i)
    for key, modes_ in by_world.items():
        try: dec = {m: (decode_rows(parse_bal(i["stdout"])[0]), parse_bal(i["stdout"])[1]) for m, (c, i) in modes_.items()}
        except (ValueError, AttributeError, IndexError) as e:
            c, i = next(iter(modes_.values()))
            ctx.violation("C03:unparsable-balance", "balance output does not have the balance's shape: %s" % e, dict(kind="cli", case=c, impl=i)); continue
        c0, i0 = modes_.get("plain", next(iter(modes_.values())))
        rep = dict(kind="cli", case=c0, impl={m: i["stdout"] for m, (c, i) in modes_.items()})
        if "plain" in dec:
            rows, grand = dec["plain"]
            pathsl = [p for p, _, _ in rows]
            if len(set(pathsl)) != len(pathsl):
                ctx.violation("C03:path-shown-twice", "a category path appears more than once", rep); continue
            amount = {p: num(a) for p, a, _ in rows}
            for p in pathsl:                      # siblings sorted
                sib = [q[-1] for q in pathsl if len(q) == len(p) and q[:-1] == p[:-1]]
                if sib != sorted(sib): ctx.violation("C03:siblings-unsorted", "siblings below %r are %r" % (p[:-1], sib), rep); break
            # every row against the files themselves: the amount at a path is the sum of what the logged foods at or below it contribute
            w0 = worlds_by_files.get((key[0], key[1]))
            exp = expected_balance(w0, key[2]) if w0 is not None else None
            if exp is not None:
                ctx.tally("balance_rows_oracle", "applied")
                tol = Fraction(1, 100)
                wrong = [(p, amount[p], exp.get(p)) for p in pathsl if p in exp and not close(amount[p], exp[p], tol)]
                # without -s every category path of a logged food is shown, also when its amount is 0; with -s only paths that received a contribution are required here
                lost = [p for p, v in exp.items() if (key[2] is None or abs(v) > tol) and p not in amount]
                if wrong: ctx.violation("C03:row-amount-not-sum-of-entries", "path %r shows %s, the logged foods at or below it contribute %s%s" % (b"/".join(wrong[0][0]), wrong[0][1], wrong[0][2], " of " + key[2] if key[2] else ""), rep)
                elif lost: ctx.violation("C03:path-with-entries-not-shown", "path %r is not shown although the logged foods below it contribute %s" % (b"/".join(lost[0]), exp[lost[0]]), rep)
                if grand is not None and key[2] is not None:
                    tot = sum(v for p, v in exp.items() if len(p) == 1)
                    if not close(num(grand[0]), tot, tol): ctx.violation("C03:single-grand-total", "grand total %r, the log contributes %s of %s" % (grand[0], tot, key[2]), rep)
            if grand is not None:
                top = sum(amount[p] for p in pathsl if len(p) == 1)
                if not close(num(grand[0]), top, Fraction(len(pathsl) + 1, 100)):
                    ctx.violation("C03:grand-total-not-sum-of-top-rows", "grand total %r, top-level rows add up to %s" % (grand[0], top), rep)
        # the collapsed modes against the files themselves: a row that joins several segments shows ONE amount for all the paths it introduces, so every one
        # of those paths must have that amount at or below it (a category with entries of its own cannot be joined with its only sub-category)
        w0 = worlds_by_files.get((key[0], key[1]))
        exp = expected_balance(w0, key[2]) if w0 is not None else None
        if exp is not None:
            for m in dec:
                if m == "plain": continue
                shown = set()
                for p, a, _ in dec[m][0]:
                    k0 = max((k for k in range(len(p)) if p[:k] in shown), default=0)
                    for k in range(k0 + 1, len(p) + 1):
                        shown.add(p[:k])
                        if p[:k] in exp and not close(num(a), exp[p[:k]], Fraction(1, 100)):
                            ctx.violation("C03:joined-row-hides-an-amount:" + m, "mode %s prints %s on the row %r, the logged foods at or below %r contribute %s" % (m, num(a), b"/".join(p), b"/".join(p[:k]), exp[p[:k]]), rep)
                            break
        # (the sign of a zero is not an amount: a chain joined over totals 0 and -0 - equal in Go - shows `0.00` where the plain tree shows `-0.00`;
        #  Props/C03_print.v, collapsed_leaves_without_hypothesis_refuted_b64)
        leaves = {m: [(p, b"0.00" if a.strip() == b"-0.00" else a) for p, a, leaf in d[0] if leaf] for m, d in dec.items()}
        allp = {m: {p[:k] for p, _, _ in d[0] for k in range(1, len(p) + 1)} for m, d in dec.items()}
        if "plain" in dec:
            names = [p for p, _, leaf in dec["plain"][0]]
            # logged names are not available for random worlds here: prefix-freeness is judged on the plain tree: no inner node has own entries
            # <=> for every inner node amount == sum of children (exact arithmetic worlds)
            amount = {p: num(a) for p, a, _ in dec["plain"][0]}
            inner_ok = True
            for p, a, leaf in dec["plain"][0]:
                if not leaf:
                    ch = [q for q in amount if len(q) == len(p) + 1 and q[:-1] == p]
                    if amount[p] != sum(amount[q] for q in ch): inner_ok = False
            for m in dec:
                if not allp["plain"] <= allp[m]:
                    ctx.violation("C03:branch-dropped:" + m, "mode %s does not show %r" % (m, sorted(allp["plain"] - allp[m])[:3]), rep)
                if inner_ok and leaves[m] != leaves["plain"]:
                    ctx.violation("C03:leaves-differ:" + m, "mode %s shows leaves %r, plain mode %r" % (m, leaves[m][:4], leaves["plain"][:4]), rep)
    return dict(rule="(1) every set of up to %d paths over segments {a,b}, depth <= 3 (quick: every second 3-set) x {plain, --collapse, --collapse-last}; (2) random path-shaped logs "
                "(shared prefixes, forks below single-child chains, repeated foods, several days) with and without -s X over a recipe book; stdout compared byte for byte with the "
                "extracted Coq model; on the implementation's own rows: every amount equals the sum of what the logged foods at or below the path contribute, recomputed from the files in exact "
                "rationals (with -s X: quantity x resolved amount, sum over ingredient paths), each path once, siblings sorted, grand total = sum of top-level rows, no mode drops a path, and - when no inner "
                "node has entries of its own - every mode shows the same leaf paths with the same amounts. Non-trivial = every case (each has >= 1 path), distinct by log bytes" % ctx.scale(3, 4))

# ---------------------------------------------------------------------------
# C05  determinism
# ---------------------------------------------------------------------------
ALL_CMDS = ["reg", "bal", "unresolved", "quantity", "totals", "csv-log", "csv-db", "csv-db-resolved", "stats", "summary", "print", "element-total", "lint"]

def tie_world(r):
    """many ties: equal quantities, equal element values, several unknown foods, chains near the limit"""
    els = ["kcal", "fat", "prot", "salt"]
    if r.random() < 0.35: els += r.sample(["Kcal", "KCAL", "Fat", "FAT", "Prot", "SALT", "Salt"], r.randint(1, 4))     # names that differ only in letter case: distinct names, ties for any case-blind order
    recs = ["r%d" % i for i in range(r.randint(2, 7))]
    if r.random() < 0.25: recs += r.sample(["R0", "R1", "R2"], r.randint(1, 2))
    book = []
    for x in recs:
        book.append(("heading", x))
        # 0 elements too: an empty recipe (a bare heading) that other recipes may use; references with quantity 0; an ingredient listed twice
        for e in r.sample(els, r.choice([0, 1, 1, 2, 3])): book.append(("entry", e, r.choice(["1", "2", "2", "2", "0"])))
        for _ in range(r.choice([0, 0, 0, 1, 1, 2])): book.append(("entry", r.choice(recs), r.choice(["1", "1", "2", "0"])))     # may nest or cycle
        if r.random() < 0.15 and len(book) > 1 and book[-1][0] == "entry": book.append(book[-1])
    if r.random() < 0.15:      # a heading declared twice (the later record replaces the earlier one)
        book += [("heading", r.choice(recs)), ("entry", r.choice(els), "2")]
    foods = recs + ["u%d" % i for i in range(r.randint(2, 5))] + ["a/b", "a/c", "b/a"] + (["U0", "A/b", "a/B"] if r.random() < 0.25 else [])
    log = []
    for d in range(r.randint(1, 3)):
        log.append(("heading", "2021/01/%02d" % (d + 1)))
        for f in r.sample(foods, min(len(foods), r.randint(2, 6))): log.append(("entry", f, r.choice(["1", "1", "2"])))
    if r.random() < 0.2:
        # values that no comparison orders (NaN; Inf and -Inf of one food add up to NaN): a sort on them must still not depend on the map order
        for f in r.sample(foods, 2): log.append(("entry", f, r.choice(["NaN", "nan", "Inf", "-Inf"])))
        if r.random() < 0.5: f = r.choice(foods); log += [("entry", f, "Inf"), ("heading", "2021/01/04"), ("entry", f, "-Inf")]
    return book, log

def boundary_world(r):
    """amounts whose sum lies on a two-decimal rounding boundary: the order of the additions decides the printed digit"""
    vals = ["0.105", "0.155", "1.975", "0.335", "2.675", "1.005", "0.015", "0.045", "1.115", "0.285", "0.565"]
    n = r.randint(3, 6)
    book = []; log = [("heading", "2021/01/01")]
    for j in range(n):
        f = "%s/item%d" % (r.choice(["grp%d" % j, "g%d" % j]), j)
        book += [("heading", f), ("entry", "kcal", r.choice(vals))]
        log.append(("entry", f, "1"))
    return book, log

def check_C05(ctx):
    r = ctx.rng
    cases = []
    for k in range(ctx.scale(40, 600)):
        book, log = boundary_world(r)
        f = {"food.yaml": gen.render_items(r, book), "log.yaml": gen.render_items(r, log)}
        for extra in (dict(cmd="bal", single_element="kcal"), dict(cmd="totals"), dict(cmd="reg", single_element="kcal", group_food=True), dict(cmd="reg")):
            cases.append(dict(files=f, f_today="2021/01/05", **extra, **NOCOLOR))
        ctx.nontriv(f["food.yaml"] + f["log.yaml"])
    # stats reads two files: exactly one of them malformed, both long enough for two concurrent readers to finish in either order
    for k in range(ctx.scale(4, 40)):
        n = r.randint(200, 400)
        bookb = b"".join(b"food%d:\n  kcal: %d\n" % (j, j) for j in range(n))
        logb = b"".join(b"2021/%02d/%02d:\n  food%d: 1\n" % (j % 12 + 1, j % 28 + 1, j) for j in range(n))
        if k % 2 == 0: bookb += b"last:\n  kcal: 12O\n"
        else: logb += b"2021/12/30:\n  oops\n"
        cases.append(dict(files={"food.yaml": bookb, "log.yaml": logb}, cmd="stats", f_today="2022/01/05", **NOCOLOR))
    # the period keywords are resolved against --today, never against the clock
    for k in range(ctx.scale(10, 100)):
        book, log = tie_world(r)
        f = {"food.yaml": gen.render_items(r, book), "log.yaml": gen.render_items(r, log)}
        for cmd in ("reg", "csv-log", "bal"):
            cases.append(dict(files=f, cmd=cmd, f_today="2021/01/02", g_begin=r.choice(["yesterday", "today", "last7"]), g_end=r.choice([None, "today", "yesterday"]), **NOCOLOR))
        cases.append(dict(files=f, cmd="summary", arg=r.choice([b"today", b"yesterday"]), f_today="2021/01/02", **NOCOLOR))
    # natural-language period dates ("2 days ago") with --today given: the report must not depend on the wall clock, i.e. it is the report for the date
    # that lies that far before --today (outside the model; the implementation against itself)
    natural = []
    for k in range(ctx.scale(6, 60)):
        days = [datetime.date(2021, 1, 24) - datetime.timedelta(days=j) for j in range(12)]
        r.shuffle(days)
        logb = "".join("%s:\n  food%d: %d\n" % (d.strftime("%Y/%m/%d"), j, j + 1) for j, d in enumerate(days)).encode()
        f = {"food.yaml": b"", "log.yaml": logb}
        for phrase, back in (("2 days ago", 2), ("1 week ago", 7), ("3 days ago", 3), ("10 days ago", 10)):
            cmd = r.choice(["print", "reg", "csv-log", "bal", "quantity"])
            side = r.choice(["g_begin", "g_end"])
            want = (datetime.date(2021, 1, 24) - datetime.timedelta(days=back)).strftime("%Y/%m/%d")
            natural.append((dict(files=f, cmd=cmd, f_today="2021/01/24", **{side: phrase}, **NOCOLOR), dict(files=f, cmd=cmd, f_today="2021/01/24", **{side: want}, **NOCOLOR), phrase))
    nres = impl_only(ctx, [c for a, b2, _ in natural for c in (a, b2)])
    for j, (a, b2, phrase) in enumerate(natural):
        x, y = nres[2 * j], nres[2 * j + 1]
        if (x["status"], x["stdout"]) != (y["status"], y["stdout"]):
            ctx.violation("C05:depends-on-wall-clock:" + a["cmd"], "%s with %r and --today 2021/01/24 differs from the same run with that date written out (%s): the phrase is resolved against the wall clock: %r / %r"
                          % ((a["cmd"], phrase, b2.get("g_begin") or b2.get("g_end")) + first_diff(x["stdout"], y["stdout"])), dict(kind="cli", case=a, impl=x, other_case=b2, other_impl=y))
    for k in range(ctx.scale(200, 2500)):
        book, log = tie_world(r)
        f = {"food.yaml": gen.render_items(r, book), "log.yaml": gen.render_items(r, log)}
        for cmd in ALL_CMDS:
            c = dict(files=f, cmd=cmd, f_today="2021/01/05", f_depth=r.choice([10, 10, 3, 2]), **NOCOLOR)
            if cmd == "summary": c["arg"] = b"2021/01/01"
            if cmd == "element-total": c["arg"] = r.choice([b"kcal", b"fat"])
            if cmd == "lint": c["arg"] = b"food.yaml"
            if cmd in ("quantity", "element-total") and r.random() < 0.5: c["desc"] = True
            if cmd == "reg":
                v = r.random()
                if v < 0.3: c.update(single_element="kcal", group_food=True)
                elif v < 0.5: c["old"] = True
                if r.random() < 0.1: c.update(old=True, **r.choice([dict(single_element="kcal"), dict(single_food="r"), dict(single_element="fat", group_food=True)]))
            if cmd == "bal" and r.random() < 0.4: c["single_element"] = "kcal"
            cases.append(c)
        ctx.nontriv(f["food.yaml"] + f["log.yaml"])
        if k < 1: ctx.sample(dict(book=f["food.yaml"], log=f["log.yaml"]))
    R = ctx.scale(10, 30)
    mres = run.run_model([run.model_request(c) for c in cases])
    ires = run.run_inproc_cases(ctx.impl, [dict(c, sink=None) for c in cases], repeat=R)
    for idx, (c, m) in enumerate(zip(cases, mres)):
        outs = ires[idx * R:(idx + 1) * R]
        ctx.count(R); ctx.traces += 1
        distinct = {(o["status"], o["stdout"]) for o in outs}
        if len(distinct) > 1:
            a, b2 = sorted(distinct)[:2]
            ctx.violation("C05:differs-between-runs:" + c["cmd"], "%s gives different results on identical invocations: %r / %r" % (c["cmd"], a[0] + " " + repr(a[1][:150]), b2[0] + " " + repr(b2[1][:150])),
                          dict(kind="cli", case=c, outputs=[dict(status=s, stdout=o) for s, o in sorted(distinct)][:4], repeat=R))
            continue
        d = run.compare_cli(m, outs[0], c)
        if d: ctx.violation("corr:C05:" + c["cmd"], d, dict(kind="cli", case=c, impl=outs[0], correspondence="S-CLI (extracted Coq model vs implementation)"), found_input=outs[0]["status"].startswith("crash"))
    # separate processes as well (fresh hash seeds)
    sub = cases[:: max(1, len(cases) // ctx.scale(40, 400))]
    P = ctx.scale(3, 10)
    res = [run.run_cli_cases(ctx.impl, sub) for _ in range(P)]
    for j, c in enumerate(sub):
        ctx.count(P)
        distinct = {(rr[j]["status"], rr[j]["stdout"]) for rr in res}
        if len(distinct) > 1:
            ctx.violation("C05:differs-between-processes:" + c["cmd"], "%s gives different results in different processes" % c["cmd"], dict(kind="cli", case=c, outputs=[dict(status=s, stdout=o) for s, o in sorted(distinct)][:4]))
    # the same bytes delivered in different pieces (a pipe written byte by byte, in pairs, at once; a regular file): the report is a function of the bytes, not of
    # how the operating system hands them over.  Files that begin with a byte order mark or whose first line is split by the first read are the sensitive ones.
    BOM = b"\xef\xbb\xbf"
    for k in range(ctx.scale(4, 30)):
        book, log = tie_world(r)
        fb, lb = gen.render_items(r, book), gen.render_items(r, log)
        for f, cmd in (({"food.yaml": BOM + fb, "log.yaml": lb}, "csv-db"), ({"food.yaml": fb, "log.yaml": BOM + lb}, "print"), ({"food.yaml": fb, "log.yaml": lb}, "reg")):
            base = dict(files=f, cmd=cmd, f_today="2021/01/05", **NOCOLOR)
            name = "food.yaml" if cmd == "csv-db" else "log.yaml"
            variants = [base] + [dict(base, fifo=[name], fifo_piece=pc) for pc in (1, 1, 1, 2, 2, 3, 4096) for _ in range(2)]
            outs = run.run_cli_cases(ctx.impl, variants); ctx.count(len(variants)); ctx.tally("delivery", "same bytes as a file and through a pipe in pieces of 1, 2, 3, 4096")
            distinct = {(o["status"], o["stdout"]) for o in outs}
            if len(distinct) > 1:
                a, b2 = sorted(distinct)[:2]
                ctx.violation("C05:depends-on-delivery:" + cmd, "%s gives different results for the same bytes delivered in different pieces: %r / %r" % (cmd, a[0] + " " + repr(a[1][:150]), b2[0] + " " + repr(b2[1][:150])),
                              dict(kind="cli", case=base, outputs=[dict(status=s2, stdout=o2) for s2, o2 in sorted(distinct)][:4]))
            m = run.run_model([run.model_request(base)])[0]
            d = run.compare_cli(m, outs[0], base)
            if d: ctx.violation("corr:C05:delivery:" + cmd, d, dict(kind="cli", case=base, impl=outs[0], correspondence="S-CLI (extracted Coq model vs implementation)"), found_input=False)
    return dict(rule="tie-rich worlds (equal quantities, equal element values, several unresolved foods, >= 2 keys in every accumulator, sibling categories, chains and cycles near the depth "
                "limit) x all 13 commands; each invocation repeated %d times in one process (fresh maps each time) and in %d separate processes; all repetitions must be byte-identical "
                "(stdout and status) and equal to the extracted Coq model, whose independence of every map order is the theorem. Non-trivial = every world (ties by construction), "
                "distinct by file bytes" % (R, P))

# ---------------------------------------------------------------------------
# C06  date range selection
# ---------------------------------------------------------------------------
LOCAL_PERIOD = ("reg", "reg-s", "reg-f", "bal", "csv-log", "print")
PERIOD_CMDS = ["reg", "reg-s", "reg-f", "bal", "csv-log", "print", "totals", "quantity", "unresolved"]

def period_case(r, f, cmd, **kw):
    c = dict(files=f, f_today="2021/01/24", **NOCOLOR, **kw)
    if cmd == "reg-s": c.update(cmd="reg", single_element="kcal")
    elif cmd == "reg-f": c.update(cmd="reg", single_food="ea")
    else: c["cmd"] = cmd
    return c

def window_log(r, days, layout="2006/01/02"):
    foods = ["bread", "tea", "meat/veal", "unknown", "a/b"]
    items = []
    for (y, m, d) in days:
        items.append(("heading", gen._fmt(layout, y, m, d)))
        for _ in range(r.randint(0, 3)): items.append(("entry", r.choice(foods), gen.number(r, True)))
    return items

def delete_days(items, keep):
    """the abstract log with only the days for which keep(heading index) holds"""
    out = []; idx = -1; on = False
    for it in items:
        if it[0] == "heading": idx += 1; on = keep(idx)
        if on: out.append(it)
    return out

def check_C06(ctx):
    r = ctx.rng
    base = datetime.date(2021, 1, 20)
    win = [base + datetime.timedelta(days=i) for i in range(5)]
    book = b"bread:\n  kcal: 250\n  fat: 1\ntea:\n  kcal: 2\nmeat/veal:\n  kcal: 100\n  prot: 20\n"
    bounds = [None] + win
    tzs = [("UTC", 0), ("America/New_York", -18000), ("Asia/Tokyo", 32400)] + ([("Pacific/Kiritimati", 50400), ("Etc/GMT+12", -43200)] if ctx.tier == "thorough" else [])
    nlogs = ctx.scale(10, 50)
    cases = []; pairs = []     # pairs: (index of the period case, index of the deleted-file case)
    for ln in range(nlogs):
        n = r.randint(4, 8)
        ds = [r.choice(win + [base - datetime.timedelta(days=3), base + datetime.timedelta(days=9)]) for _ in range(n)]
        if ln % 2 == 0: ds.sort()
        days = [(d.year, d.month, d.day) for d in ds]
        items = window_log(r, days)
        logb = gen.render_items(r, items, crlf=False, final_newline=True)
        f = {"food.yaml": book, "log.yaml": logb}
        ctx.nontriv(logb)
        if ln < 1: ctx.sample(dict(log=logb, window=[str(d) for d in win]))
        for b in bounds:
            for e in bounds:
                keep = lambda i, b=b, e=e: (b is None or ds[i] >= b) and (e is None or ds[i] <= e)
                fdel = {"food.yaml": book, "log.yaml": gen.render_items(r, delete_days(items, keep), crlf=False, final_newline=True)}
                bs = b.strftime("%Y/%m/%d") if b else None; es = e.strftime("%Y/%m/%d") if e else None
                for cmd in (PERIOD_CMDS if ctx.tier == "thorough" else r.sample(PERIOD_CMDS, 4)):
                    # only reg, bal, csv log and print define -b/-e themselves; the report sub-commands take the global ones
                    pos = r.choice(["global", "local", "both"]) if cmd in LOCAL_PERIOD else "global"
                    tz = r.choice(tzs)
                    kw = {}
                    if pos == "global": kw = dict(g_begin=bs, g_end=es)
                    elif pos == "local": kw = dict(l_begin=bs, l_end=es)
                    else:   # the sub-command's value must win over a different global one
                        kw = dict(l_begin=bs, l_end=es)
                        if bs: kw["g_begin"] = (b + datetime.timedelta(days=r.choice([-2, 1, 3]))).strftime("%Y/%m/%d")
                        if es: kw["g_end"] = (e + datetime.timedelta(days=r.choice([-3, -1, 2]))).strftime("%Y/%m/%d")
                    cases.append(period_case(r, f, cmd, tz=tz, **kw))
                    cases.append(period_case(r, fdel, cmd, tz=tz))
                    pairs.append((len(cases) - 2, len(cases) - 1, "period %s..%s (%s) %s tz=%s" % (bs, es, pos, cmd, tz[0])))
                    ctx.tally("flag_position", pos); ctx.tally("tz", tz[0])
        # keywords against --today; summary selects exactly that calendar day, in every zone
        for kwd, off in [("today", 0), ("yesterday", -1), ("last7", -7), ("last30", -30)]:
            for today in r.sample(win, 2):
                tz = r.choice(tzs)
                ts = today.strftime("%Y/%m/%d")
                bd = today + datetime.timedelta(days=off)
                keep = lambda i, bd=bd: ds[i] >= bd
                fdel = {"food.yaml": book, "log.yaml": gen.render_items(r, delete_days(items, keep), crlf=False, final_newline=True)}
                cmd = r.choice(PERIOD_CMDS)
                c1 = period_case(r, f, cmd, tz=tz, g_begin=kwd); c1["f_today"] = ts
                c2 = period_case(r, fdel, cmd, tz=tz); c2["f_today"] = ts
                src = "--today"
                if r.random() < 0.3:
                    # the current date from the configuration file (`Now=` with a time of day and a zone of its own) instead of --today: the keywords
                    # mean that CALENDAR DAY, whatever the hour and the zone say (fix F25)
                    nowv = (today.year, today.month, today.day) + r.choice([(3600, 0), (82800, -18000), (43200, 32400), (86399, 0), (1, 50400)]); src = "config Now=%r" % (nowv,)
                    for c in (c1, c2):
                        del c["f_today"]; c["files"] = dict(c["files"], **{"now.cfg": {"cfg": {"now": nowv}}}); c["f_config"] = "now.cfg"
                cases += [c1, c2]; pairs.append((len(cases) - 2, len(cases) - 1, "keyword %s today=%s (%s) %s tz=%s" % (kwd, ts, src, cmd, tz[0])))
                ctx.tally("current_date_source", src.split(" ")[0])
        # the date format from the configuration file / the environment / the flag: --today, the bounds and the headings are all read in the format IN EFFECT
        if ln < ctx.scale(3, 12):
            for lay in ("2006-01-02", "02.01.2006", "01/02/2006", "2 Jan 2006"):
                items2 = window_log(r, [(d.year, d.month, d.day) for d in ds], layout=lay)
                f2 = {"food.yaml": book, "log.yaml": gen.render_items(r, items2, crlf=False, final_newline=True)}
                for kwd, off in [("today", 0), ("yesterday", -1), (None, -2)]:
                    today = r.choice(win); bd = today + datetime.timedelta(days=off)
                    keep = lambda i, bd=bd: ds[i] >= bd
                    fdel = {"food.yaml": book, "log.yaml": gen.render_items(r, delete_days(items2, keep), crlf=False, final_newline=True)}
                    src = r.choice(["cfg", "cfg", "env", "flag"])
                    cmd = r.choice(PERIOD_CMDS)
                    c1 = period_case(r, dict(f2), cmd, tz=r.choice(tzs), g_begin=kwd or gen._fmt(lay, bd.year, bd.month, bd.day)); c2 = period_case(r, dict(fdel), cmd, tz=c1["tz"])
                    for c in (c1, c2):
                        c["f_today"] = gen._fmt(lay, today.year, today.month, today.day)
                        if src == "flag": c["f_fmt"] = lay
                        elif src == "env": c["e_fmt"] = lay
                        else: c["files"]["my.cfg"] = {"cfg": {"fmt": lay}}; c["f_config"] = "my.cfg"
                    cases += [c1, c2]; pairs.append((len(cases) - 2, len(cases) - 1, "begin %s today=%s %s, date format %r from %s" % (kwd or "a date", c1["f_today"], cmd, lay, src)))
                    ctx.tally("date_format_source", src)
        # keywords across a daylight-saving switch of the process zone (the period is defined on calendar days, not on local wall-clock hours)
        if ln < ctx.scale(2, 10):
            for (ty, tm, td) in [(2021, 3, 15), (2021, 3, 14), (2021, 11, 8), (2021, 11, 7), (2021, 3, 29), (2021, 10, 31)]:
                today = datetime.date(ty, tm, td)
                dsd = [today - datetime.timedelta(days=k2) for k2 in (0, 1, 2, 6, 7, 8, 29, 30, 31)]
                r.shuffle(dsd)
                ditems = window_log(r, [(d.year, d.month, d.day) for d in dsd])
                for it_i, it in enumerate(ditems):
                    if it[0] == "heading" and (it_i + 1 == len(ditems) or ditems[it_i + 1][0] == "heading"): ditems.insert(it_i + 1, ("entry", "bread", "1"))
                fd = {"food.yaml": book, "log.yaml": gen.render_items(r, ditems, crlf=False, final_newline=True)}
                for kwd, off in [("yesterday", -1), ("last7", -7), ("last30", -30)]:
                    for side in ("g_begin", "g_end"):
                        for tz in [("America/New_York", -18000), ("Europe/Berlin", 3600), ("Australia/Lord_Howe", 37800)]:
                            bd = today + datetime.timedelta(days=off)
                            keep = (lambda i, bd=bd: dsd[i] >= bd) if side == "g_begin" else (lambda i, bd=bd: dsd[i] <= bd)
                            fdel = {"food.yaml": book, "log.yaml": gen.render_items(r, delete_days(ditems, keep), crlf=False, final_newline=True)}
                            cmd = r.choice(["reg", "csv-log", "bal", "print"])
                            c1 = period_case(r, fd, cmd, tz=tz, **{side: kwd}); c1["f_today"] = today.strftime("%Y/%m/%d")
                            c2 = period_case(r, fdel, cmd, tz=tz); c2["f_today"] = today.strftime("%Y/%m/%d")
                            cases += [c1, c2]; pairs.append((len(cases) - 2, len(cases) - 1, "keyword %s as %s, today=%s %s tz=%s (daylight-saving switch nearby)" % (kwd, side, today, cmd, tz[0])))
        # days whose midnight does not exist in the process zone (daylight saving starts at 00:00 there): selection is by calendar day all the same
        if ln < ctx.scale(3, 12):
            gaps = gen.midnight_gap_days()
            for gk in range(min(len(gaps), ctx.scale(4, 16))):
                zone, off, gd = gaps[(ln * 11 + gk * 7) % len(gaps)]
                gds = [gd + datetime.timedelta(days=o) for o in (-1, 0, 1, 0, 2)]
                r.shuffle(gds)
                gitems = window_log(r, [(d.year, d.month, d.day) for d in gds])
                for it_i, it in enumerate(gitems):
                    if it[0] == "heading" and (it_i + 1 == len(gitems) or gitems[it_i + 1][0] == "heading"): gitems.insert(it_i + 1, ("entry", "bread", "1"))
                fg = {"food.yaml": book, "log.yaml": gen.render_items(r, gitems, crlf=False, final_newline=True)}
                ctx.nontriv(fg["log.yaml"] + zone.encode())
                for (bb, ee) in [(gd, gd), (gd, None), (None, gd), (gd - datetime.timedelta(days=1), gd)]:
                    keep = lambda i, bb=bb, ee=ee: (bb is None or gds[i] >= bb) and (ee is None or gds[i] <= ee)
                    fdel = {"food.yaml": book, "log.yaml": gen.render_items(r, delete_days(gitems, keep), crlf=False, final_newline=True)}
                    cmd = r.choice(PERIOD_CMDS)
                    kw = dict(g_begin=bb.strftime("%Y/%m/%d") if bb else None, g_end=ee.strftime("%Y/%m/%d") if ee else None)
                    cases.append(period_case(r, fg, cmd, tz=(zone, off), **kw)); cases.append(period_case(r, fdel, cmd, tz=(zone, off)))
                    pairs.append((len(cases) - 2, len(cases) - 1, "period %s..%s %s tz=%s (no midnight on %s there)" % (bb, ee, cmd, zone, gd)))
                    ctx.tally("tz", zone)
        # `summary today|yesterday|DATE` on dates whose local calendar day has 25 hours and covers two UTC midnights (a zone whose offset passes through zero)
        if ln < ctx.scale(3, 12):
            longd = gen.long_local_days()
            for gk in range(min(len(longd), ctx.scale(6, 36))):
                zone, off, gd = longd[(ln * 5 + gk * 7) % len(longd)]
                gds = [gd + datetime.timedelta(days=o) for o in (-1, 0, 1, 2)]
                gitems = window_log(r, [(d.year, d.month, d.day) for d in gds])
                for it_i, it in enumerate(gitems):
                    if it[0] == "heading" and (it_i + 1 == len(gitems) or gitems[it_i + 1][0] == "heading"): gitems.insert(it_i + 1, ("entry", "bread", "1"))
                fg = {"food.yaml": book, "log.yaml": gen.render_items(r, gitems, crlf=False, final_newline=True)}
                ctx.nontriv(fg["log.yaml"] + zone.encode())
                for arg, offd in [("today", 0), ("yesterday", -1), (gd.strftime("%Y/%m/%d"), 0)]:
                    sel = gd + datetime.timedelta(days=offd)
                    keep = lambda i, sel=sel: gds[i] == sel
                    fdel = {"food.yaml": book, "log.yaml": gen.render_items(r, delete_days(gitems, keep), crlf=False, final_newline=True)}
                    c1 = dict(files=fg, cmd="summary", arg=arg.encode(), f_today=gd.strftime("%Y/%m/%d"), tz=(zone, off), **NOCOLOR)
                    cases.append(c1); pairs.append((len(cases) - 1, None, (sel, gds)))
                    ctx.tally("tz", zone)
        # a date format that carries a zone ("2006/01/02 -0700", outside the model): the period is still the filter, compared on the implementation alone
        if ln < ctx.scale(2, 8):
            for zfmt, zsuf in (("2006/01/02 -0700", " +0530"), ("2006/01/02 -0700", " -0330"), ("2006/01/02 Z07:00", " +05:45"), ("2006/01/02 -0700", " +0000")):
                zds = [(2021, 1, 19), (2021, 1, 20), (2021, 1, 22), (2021, 1, 21), (2021, 1, 20)]
                zitems = []
                for (y, m, d) in zds:
                    zitems.append(("heading", "%04d/%02d/%02d%s" % (y, m, d, zsuf))); zitems.append(("entry", r.choice(["bread", "tea", "a/b"]), gen.number(r, True)))
                fz = {"food.yaml": book, "log.yaml": gen.render_items(r, zitems, crlf=False, final_newline=True)}
                for (bb, ee) in [((2021, 1, 20), (2021, 1, 21)), ((2021, 1, 20), None), (None, (2021, 1, 20)), ((2021, 1, 22), (2021, 1, 22))]:
                    keep = lambda i, bb=bb, ee=ee: (bb is None or zds[i] >= bb) and (ee is None or zds[i] <= ee)
                    fdel = {"food.yaml": book, "log.yaml": gen.render_items(r, delete_days(zitems, keep), crlf=False, final_newline=True)}
                    cmd = r.choice(["reg", "bal", "csv-log", "print", "totals", "quantity"])
                    tz = r.choice([("UTC", 0), ("Asia/Tokyo", 32400), ("America/New_York", -18000), ("Asia/Kolkata", 19800)])
                    kw = dict(g_begin="%04d/%02d/%02d%s" % (bb + (zsuf,)) if bb else None, g_end="%04d/%02d/%02d%s" % (ee + (zsuf,)) if ee else None)
                    c1 = period_case(r, fz, cmd, tz=tz, f_fmt=zfmt, **kw); c2 = period_case(r, fdel, cmd, tz=tz, f_fmt=zfmt)
                    c1["f_today"] = c2["f_today"] = "2021/01/24" + zsuf
                    cases += [c1, c2]; pairs.append((len(cases) - 2, len(cases) - 1, "period %s..%s %s under the date format %r, TZ %s" % (bb, ee, cmd, zfmt, tz[0])))
            ctx.nontriv(fz["log.yaml"])
        # a date format with a time of day, down to fractions of a second (outside the model): `summary DATE` shows every record of that calendar day, also one
        # in its first and in its last second (23:59:59.250 is after 23:59:59 and before midnight); the period bounds compare instants
        if ln < ctx.scale(2, 8):
            for tfmt, times in (("2006/01/02 15:04:05.000", ["00:00:00.000", "23:59:59.250", "23:59:59.999", "12:30:00.500", "23:59:59.000"]), ("2006/01/02 15:04", ["00:00", "23:59", "12:00"]),
                                ("2006/01/02 15:04:05", ["00:00:00", "23:59:59", "23:59:58"])):
                tds = [datetime.date(2021, 1, 19), datetime.date(2021, 1, 20), datetime.date(2021, 1, 20), datetime.date(2021, 1, 21), datetime.date(2021, 1, 20), datetime.date(2021, 1, 21)]
                heads = [d.strftime("%Y/%m/%d") + " " + times[j % len(times)] for j, d in enumerate(tds)]
                logb = "".join("%s:\n  bread: %d\n" % (h, j + 1) for j, h in enumerate(heads)).encode()
                ft = {"food.yaml": book, "log.yaml": logb}
                for sel in (datetime.date(2021, 1, 20), datetime.date(2021, 1, 21), datetime.date(2021, 1, 19)):
                    arg = sel.strftime("%Y/%m/%d") + " " + r.choice(times)
                    c1 = dict(files=ft, cmd="summary", arg=arg.encode(), f_fmt=tfmt, f_today="2021/01/24 " + times[0], tz=("UTC", 0), **NOCOLOR)
                    cases.append(c1); pairs.append((len(cases) - 1, None, (sel, tds))); ctx.tally("date_format_with_time_of_day", tfmt)
        # days and bounds far from the present: years 1 ... 9999 (instants outside 1678 .. 2262 do not fit a 64-bit nanosecond counter)
        if ln < ctx.scale(2, 10):
            far = [(1, 1, 1), (1500, 6, 1), (1677, 9, 21), (1677, 9, 22), (1969, 12, 31), (2262, 4, 11), (2262, 4, 12), (2300, 1, 1), (9999, 12, 31), (2021, 1, 20), (2021, 1, 22)]
            fds = r.sample(far, 6) + [(2021, 1, 21)]
            fitems = window_log(r, fds)
            for it_i, it in enumerate(fitems):
                if it[0] == "heading" and (it_i + 1 == len(fitems) or fitems[it_i + 1][0] == "heading"): fitems.insert(it_i + 1, ("entry", "bread", "1"))
            ff = {"food.yaml": book, "log.yaml": gen.render_items(r, fitems, crlf=False, final_newline=True)}
            ctx.nontriv(ff["log.yaml"])
            for (bb, ee) in [((2021, 1, 11), None), (None, (2021, 1, 31)), ((1600, 1, 1), (2400, 1, 1)), ((1, 1, 1), (1677, 9, 21)), ((2262, 4, 12), None), (None, (1500, 6, 1)), ((2021, 1, 21), (9999, 12, 31))]:
                keep = lambda i, bb=bb, ee=ee: (bb is None or fds[i] >= bb) and (ee is None or fds[i] <= ee)
                fdel = {"food.yaml": book, "log.yaml": gen.render_items(r, delete_days(fitems, keep), crlf=False, final_newline=True)}
                cmd = r.choice(PERIOD_CMDS)
                kw = dict(g_begin="%04d/%02d/%02d" % bb if bb else None, g_end="%04d/%02d/%02d" % ee if ee else None)
                cases.append(period_case(r, ff, cmd, **kw)); cases.append(period_case(r, fdel, cmd))
                pairs.append((len(cases) - 2, len(cases) - 1, "period %s..%s %s (years far from the present)" % (bb, ee, cmd)))
        for d in win:
            for tz in tzs:
                for arg, off in [(d.strftime("%Y/%m/%d"), 0), ("today", 0), ("yesterday", -1)]:
                    sel = d + datetime.timedelta(days=off)
                    keep = lambda i, sel=sel: ds[i] == sel
                    fdel = {"food.yaml": book, "log.yaml": gen.render_items(r, delete_days(items, keep), crlf=False, final_newline=True)}
                    c1 = dict(files=f, cmd="summary", arg=arg.encode(), f_today=d.strftime("%Y/%m/%d"), tz=tz, **NOCOLOR)
                    if r.random() < 0.3:      # a global period that does not hold the date: `summary DATE` still selects exactly that day (its own period overrides the global one)
                        c1[r.choice(["g_begin", "g_end"])] = (d + datetime.timedelta(days=r.choice([-9, 5, 40]))).strftime("%Y/%m/%d")
                    c2 = dict(files=fdel, cmd="reg", f_today=d.strftime("%Y/%m/%d"), tz=tz, **NOCOLOR)
                    cases.append(c1); pairs.append((len(cases) - 1, None, (sel, ds)))
    # a date format that carries a zone, in a process zone that has the same offset on those days and changes it nearby (daylight saving): the selection
    # must be the same in every process zone (time.Parse hands back a time in the LOCAL zone when the offsets match, and day arithmetic in a local zone
    # follows its clock changes) - the implementation against itself under TZ = UTC / New_York / Tokyo
    zf = "2006/01/02 -0700"
    znov = {"food.yaml": book, "log.yaml": "".join("2021/11/%02d -0400:\n  bread: %d\n" % (d, d) for d in (5, 6, 7, 8, 9)).encode()}
    znov5 = {"food.yaml": book, "log.yaml": "".join("2021/11/%02d -0500:\n  bread: %d\n" % (d, d) for d in range(1, 11)).encode()}
    zcases = [dict(files=znov, cmd="summary", arg=b"2021/11/07 -0400", f_fmt=zf, f_today="2021/11/09 -0400", **NOCOLOR),
              dict(files=znov, cmd="summary", arg=b"today", f_fmt=zf, f_today="2021/11/07 -0400", **NOCOLOR),
              dict(files=znov5, cmd="print", f_fmt=zf, f_today="2021/11/08 -0500", g_begin="yesterday", g_end="yesterday", **NOCOLOR),
              dict(files=znov5, cmd="csv-log", f_fmt=zf, f_today="2021/11/10 -0500", g_begin="last7", g_end="last7", **NOCOLOR),
              dict(files=znov5, cmd="reg", f_fmt=zf, f_today="2021/11/08 -0500", g_begin="2021/11/07 -0500", g_end="2021/11/07 -0500", **NOCOLOR)]
    zres = {tzn: impl_only(ctx, [dict(c, tz=(tzn, 0)) for c in zcases]) for tzn in ("UTC", "America/New_York", "Asia/Tokyo")}
    for j, c in enumerate(zcases):
        outs = {tzn: (zres[tzn][j]["status"], zres[tzn][j]["stdout"]) for tzn in zres}
        if len(set(outs.values())) > 1:
            other = [t for t in outs if outs[t] != outs["UTC"]][0]
            ctx.violation("C06:zone-bearing-date-format-in-a-dst-zone", "%s under the date format %r gives another selection with TZ=%s than with TZ=UTC: %r / %r" % ((c["cmd"], zf, other) + first_diff(outs["UTC"][1], outs[other][1])),
                          dict(kind="cli", case=dict(c, tz=(other, 0)), impl=zres[other][j], utc_impl=zres["UTC"][j]))
    ires = cli_diff(ctx, cases, tag="C06:")
    for a, b2, what in pairs:
        if b2 is None:
            # summary DATE shows exactly the records of that calendar day: one block per record of that date
            sel, ds = what
            want = sum(1 for d in ds if d == sel)
            got = ires[a]["stdout"].count(b"------------")
            if ires[a]["status"] == "ok" and got != want:
                ctx.violation("C06:summary-day", "summary %r (today %s, TZ %s) shows %d day record(s), the log has %d for %s" % (cases[a]["arg"], cases[a]["f_today"], cases[a]["tz"][0], got, want, sel),
                              dict(kind="cli", case=cases[a], impl=ires[a]))
            continue
        x, y = ires[a], ires[b2]
        if (x["status"], x["stdout"]) != (y["status"], y["stdout"]):
            ctx.violation("C06:period-is-not-the-filter:" + cases[a]["cmd"], "%s: output with the period differs from the output on the file with the other days deleted: %r / %r" % ((what,) + first_diff(x["stdout"], y["stdout"])),
                          dict(kind="cli", case=cases[a], impl=x, deleted_file_case=cases[b2], deleted_file_impl=y))
    ctx.notes["exhaustive_window"] = dict(days=5, bound_pairs=36, logs=nlogs, zones=[t[0] for t in tzs])
    return dict(rule="logs over a 5-day window (plus days outside it; unsorted and repeated dates) x every (begin,end) in (absent + 5 days)^2 incl. inverted and equal x flag position "
                "{global, sub-command, both with a different global value} x period-aware commands x time zones; keywords today/yesterday/last7/last30 against --today; summary DATE / "
                "today / yesterday for every day x zone, also on dates whose local calendar day has 25 hours and covers two UTC midnights (Atlantic/Azores, America/Scoresbysund). Each run is compared with the extracted Coq model AND, on the implementation alone, with its own output on the file with the "
                "other days deleted and no period given. Non-trivial = every log (>= 4 days), distinct by bytes", extra=dict(exhaustive=True))

# ---------------------------------------------------------------------------
# C07  reports agree
# ---------------------------------------------------------------------------
def parse_cols(out, n):
    rows = []
    for l in out.split(b"\n"):
        if not l: continue
        parts = l.split(None, n - 1) if n > 1 else [l]
        rows.append(parts)
    return rows

def check_C07(ctx):
    r = ctx.rng
    cases = []; worlds = []
    CM = ["totals", "reg", "reg-sx", "reg-sxg", "bal", "bal-sx", "quantity", "csv-log", "element-total", "csv-db-resolved", "summary", "unresolved", "csv-db", "stats", "reg-csv"]
    for k in range(ctx.scale(350, 6000)):
        w = simple_world(r, envelope=True, pathy=0.3)
        els = gen.element_names(w) or ["x"]
        x = r.choice(els)
        if k % 3 == 0:
            # a food whose name is the category prefix of another food, both carrying the element (amounts booked on an inner node)
            g = gen.word(r, 3, 6)
            w["book"] += [("heading", g), ("entry", x, gen.number(r, True)), ("heading", g + "/sub"), ("entry", x, gen.number(r, True))]
            for it_i, it in enumerate(list(w["log"])):
                if it[0] == "heading":
                    w["log"].insert(it_i + 1, ("entry", g, gen.number(r, True))); w["log"].insert(it_i + 2, ("entry", g + "/sub", gen.number(r, True))); break
        if k % 4 == 3:
            # the element itself logged as a food (the book does not define it: it stands for itself in every report)
            for it_i, it in enumerate(list(w["log"])):
                if it[0] == "heading" and r.random() < 0.6: w["log"].insert(it_i + 1, ("entry", x, gen.number(r, True)))
        if k % 4 == 1:
            # amounts with more significant digits than single precision holds (exact in binary64: integers and quarters)
            for it_i, it in enumerate(list(w["log"])):
                if it[0] == "entry" and r.random() < 0.5: w["log"][it_i] = ("entry", it[1], r.choice(["16777217", "1234567.25", "300000.75", "-16777219", "33554433.5", "99999999"]))
        f = files_of(r, w)
        days = [h for h, _ in log_days(w)]
        day = r.choice(days) if days else "2021/01/20"
        base = dict(files=f, f_today="2021/02/01", **NOCOLOR)
        if k % 5 == 2: base["false_flags"] = ["no_database"]; ctx.tally("world", "--no-database=false given (the book is used all the same)")
        split_levels = None
        if k % 6 == 4 and len(days) >= 2:
            # a period whose begin is given before the sub-command and whose end after it (where the sub-command has the flag): the same period for every report
            b0, e0 = sorted(r.sample(days, 2)); base["g_begin"] = b0; split_levels = e0; day = b0; ctx.tally("world", "period with its two bounds at different levels")
        cs = dict(
            totals=dict(base, cmd="totals"), reg=dict(base, cmd="reg"), regsx=dict(base, cmd="reg", single_element=x, csv=True),
            regsxg=dict(base, cmd="reg", single_element=x, group_food=True), bal=dict(base, cmd="bal"), balsx=dict(base, cmd="bal", single_element=x),
            quantity=dict(base, cmd="quantity"), csvlog=dict(base, cmd="csv-log"), et=dict(base, cmd="element-total", arg=x.encode()),
            csvres=dict(base, cmd="csv-db-resolved"), summary=dict(base, cmd="summary", arg=day.encode()), unresolved=dict(base, cmd="unresolved"),
            csvdb=dict(base, cmd="csv-db"), stats=dict(base, cmd="stats"))
        if split_levels is not None:
            for kk, cc in cs.items():
                if cc["cmd"] in ("reg", "bal", "csv-log"): cc["l_end"] = split_levels
                elif cc["cmd"] in ("totals", "quantity"): cc["g_end"] = split_levels
            for kk in ("summary", "stats", "et", "csvres", "csvdb", "unresolved"): cs[kk].pop("g_begin", None)     # (the relations on these are stated for the whole log)
        worlds.append((w, x, day, len(cases), list(cs.keys())))
        cases += list(cs.values())
        ctx.nontriv(f["food.yaml"] + f["log.yaml"] + x.encode())
        if k < 1: ctx.sample(dict(book=f["food.yaml"], log=f["log.yaml"], element=x))
    ires = cli_diff(ctx, cases, tag="C07:")
    for w, x, day, start, keys in worlds:
        o = {k: ires[start + j] for j, k in enumerate(keys)}
        c = {k: cases[start + j] for j, k in enumerate(keys)}
        if any(v["status"] != "ok" for v in o.values()): continue
        xb = x.encode()
        def viol(key, msg, *ks):
            ctx.violation("C07:" + key, msg, dict(kind="cli", case=c[ks[0]], impl=o[ks[0]], other_case=c[ks[1]] if len(ks) > 1 else None, other_impl=o[ks[1]] if len(ks) > 1 else None, element=x))
        ndays = len(log_days(w))
        tol = Fraction(ndays * 12 + 2, 100)
        try:
            # period totals
            tot = {}
            for row in parse_cols(o["totals"]["stdout"], 4)[1:]:
                tot[row[3]] = (num(row[0]), num(row[1]), num(row[2]))
            # daily totals of the register
            daily = {}
            for date, foods, totals in parse_reg_default(o["reg"]["stdout"]):
                for (e, p, n, s) in totals or []:
                    a = daily.setdefault(e, [Fraction(0), Fraction(0)]); a[0] += num(p); a[1] += num(n)
            if set(tot) != set(daily): viol("totals-vs-register-elements", "report totals lists %r, the register's daily totals %r" % (sorted(tot)[:6], sorted(daily)[:6]), "totals", "reg")
            else:
                for e in tot:
                    if not (close(tot[e][0], daily[e][0], tol) and close(tot[e][1], daily[e][1], tol)):
                        viol("totals-vs-sum-of-daily", "element %r: period totals %s / %s, daily register totals add up to %s / %s" % (e, tot[e][0], tot[e][1], daily[e][0], daily[e][1]), "totals", "reg"); break
            # single-element register rows (csv form: date;"x";pos;neg;sum  with neg printed positive)
            sp = sn = Fraction(0)
            for l in o["regsx"]["stdout"].split(b"\n"):
                if not l: continue
                parts = l.split(b";"); sp += num(parts[-3]); sn += num(parts[-2])
            tp, tn, ts = tot.get(xb, (Fraction(0), Fraction(0), Fraction(0)))
            if not (close(sp, tp, tol) and close(-sn, tn, tol)):
                viol("totals-vs-single-element-register", "element %r: period totals %s / %s, reg -s rows add up to %s / %s" % (x, tp, tn, sp, -sn), "totals", "regsx")
            # single-element register grouped by food (reg -s X -g: "sum<TAB>food" rows): the rows add up to the period total of X as well (fix F26: X logged directly counts)
            gs = sum((num(l.split(b"\t")[0]) for l in o["regsxg"]["stdout"].split(b"\n") if l), Fraction(0))
            if not close(gs, ts, tol * 2):
                viol("totals-vs-grouped-single-element-register", "element %r: period total %s, reg -s -g rows add up to %s" % (x, ts, gs), "totals", "regsxg")
            # single-element balance grand total
            rows, grand = parse_bal(o["balsx"]["stdout"])
            if grand is not None and not close(num(grand[0]), ts, tol):
                viol("balance-single-total-vs-totals", "element %r: bal -s grand total %r, period total %s" % (x, grand[0], ts), "balsx", "totals")
            # quantities vs csv log vs balance leaves
            qty = {}
            for row in parse_cols(o["quantity"]["stdout"], 2): qty[row[1] if len(row) > 1 else b""] = num(row[0])
            csvq = {}
            for row in pycsv.reader(io.StringIO(o["csvlog"]["stdout"].decode("utf-8", "surrogateescape"))):
                k2 = row[1].encode("utf-8", "surrogateescape"); csvq[k2] = csvq.get(k2, Fraction(0)) + Fraction(row[2])
            if set(qty) != set(csvq): viol("quantity-vs-csv-foods", "report quantity lists %r, csv log %r" % (sorted(qty)[:6], sorted(csvq)[:6]), "quantity", "csvlog")
            else:
                for k2 in qty:
                    if not close(qty[k2], csvq[k2], tol): viol("quantity-vs-csv-sum", "food %r: quantity %s, csv log rows add up to %s" % (k2, qty[k2], csvq[k2]), "quantity", "csvlog"); break
            names = [k2.decode() for k2 in qty]
            if prefix_free(names):
                leaves = {b"/".join(p): num(a) for p, a, leaf in decode_rows(parse_bal(o["bal"]["stdout"])[0]) if leaf}
                if set(leaves) != set(qty): viol("balance-leaves-vs-foods", "balance leaves %r, foods %r" % (sorted(leaves)[:6], sorted(qty)[:6]), "bal", "quantity")
                else:
                    for k2 in qty:
                        if not close(leaves[k2], qty[k2], tol): viol("balance-leaf-vs-quantity", "food %r: balance leaf %s, quantity %s" % (k2, leaves[k2], qty[k2]), "bal", "quantity"); break
            # element-total vs the resolved book
            et = sorted((row[1] if len(row) > 1 else b"", num(row[0])) for row in parse_cols(o["et"]["stdout"], 2))
            res = sorted((row[0].encode("utf-8", "surrogateescape"), Fraction(row[2])) for row in pycsv.reader(io.StringIO(o["csvres"]["stdout"].decode("utf-8", "surrogateescape"))) if row[1].encode("utf-8", "surrogateescape") == xb)
            if et != res: viol("element-total-vs-resolved-csv", "element %r: element-total rows %r, resolved csv rows %r" % (x, et[:4], res[:4]), "et", "csvres")
            # summary = the register for that day (positive column + foods)
            regday = [d for d in parse_reg_default(o["reg"]["stdout"]) if d[0] == day.encode()]
            sblocks = o["summary"]["stdout"].split(day.encode() + b" :\n")[1:]
            if len(sblocks) != len(regday): viol("summary-vs-register-days", "summary shows %d record(s) for %s, the register %d" % (len(sblocks), day, len(regday)), "summary", "reg")
            else:
                for blk, (_, foods, totals) in zip(sblocks, regday):
                    top, _, bottom = blk.partition(b"------------\n")
                    t1 = [(l.split(b" : ", 1)[1], num(l.split(b" : ", 1)[0])) for l in top.split(b"\n") if l]
                    t2 = [(l.split(b" : ", 1)[1], num(l.split(b" : ", 1)[0])) for l in bottom.split(b"\n") if l]
                    if t1 != [(e, num(p)) for (e, p, n, s) in totals or []] or t2 != [(fn, num(q)) for (fn, q, _) in foods]:
                        viol("summary-vs-register", "summary of %s differs from the register of that day" % day, "summary", "reg"); break
            # unresolved = logged foods the book does not define
            book_names = {it[1] for it in w["book"] if it[0] == "heading"}
            logged = {fn for _, es in log_days(w) for fn, _ in es}
            want = sorted(x2.encode() for x2 in logged - book_names)
            got = [l for l in o["unresolved"]["stdout"].split(b"\n") if l]
            if got != want: viol("unresolved-set", "report unresolved prints %r, logged foods the book does not define: %r" % (got[:6], want[:6]), "unresolved")
            # stats
            st = o["stats"]["stdout"].decode("utf-8", "surrogateescape")
            nrec_log = sum(1 for it in w["log"] if it[0] == "heading"); nrec_db = sum(1 for it in w["book"] if it[0] == "heading")
            # read by shape, not by the wording of the labels (a reworded label is not a wrong number): the lines "label: <integer>" are the
            # book and the log count in that order, the lines "label: <date> (<n> day(s) ago)" the first and the last record
            counts = [int(x) for x in re.findall(r"^[^:\n]+:[ \t]+(\d+)[ \t]*$", st, re.M)]
            agos = re.findall(r"^[^:\n]+:[ \t]+(\S+) \((-?\d+) days? ago\)[ \t]*$", st, re.M)
            if len(counts) == 2:
                if counts != [nrec_db, nrec_log]:
                    viol("stats-counts", "stats counts %s / %s, the files have %d book and %d log headings" % (counts[0], counts[1], nrec_db, nrec_log), "stats")
            else: ctx.tally("stats_oracle", "counts not recognisable: skipped")
            hs = [h for h, _ in log_days(w)]
            if hs and len(agos) == 2:
                today = datetime.date(2021, 2, 1)
                for label, h, (gd, gn) in (("first record", hs[0], agos[0]), ("last record", hs[-1], agos[1])):
                    dd = datetime.date(*map(int, h.split("/")))
                    if gd != h or int(gn) != (today - dd).days:
                        viol("stats-dates", "stats %s: %r, expected %s (%d days before --today)" % (label, (gd, gn), h, (today - dd).days), "stats"); break
            elif hs: ctx.tally("stats_oracle", "dates not recognisable: skipped")
        except (ValueError, IndexError, ZeroDivisionError, AttributeError) as e:
            viol("unparsable-report", "a report does not have its shape: %r" % (e,), "totals")
    # stats on logs whose records lie far from --today (a time.Duration holds about 292 years) or begin at 0001/01/01 (Go's zero time)
    far = []
    for k in range(ctx.scale(12, 120)):
        pool = [(1, 1, 1), (1, 1, 3), (1500, 6, 1), (1700, 1, 1), (1728, 9, 22), (1969, 12, 31), (2021, 1, 2), (2313, 4, 12), (2400, 1, 1), (9999, 12, 31)]
        hs = r.sample(pool, r.randint(2, 5))
        if k % 3 == 0: hs = [(1, 1, 1)] + [h for h in hs if h != (1, 1, 1)]
        today = r.choice([(2021, 1, 2), (1, 1, 6), (2400, 1, 1)])
        logb = "".join("%04d/%02d/%02d:\n  a: 1\n" % h for h in hs).encode()
        far.append((dict(files={"food.yaml": b"x:\n  k: 1\n", "log.yaml": logb}, cmd="stats", f_today="%04d/%02d/%02d" % today, **NOCOLOR), hs, today))
        ctx.nontriv(logb + bytes(str(today), "ascii"))
    # a heading that is not a date of the calendar (30 February, month 13, a word): stats fails with the date error like every other command - it does not
    # count the heading and report 0001/01/01 as the last record (fix F27)
    badd = []
    for bad_h in ("2021/02/30", "2021/13/01", "soon", "2021/1/5", "2021/04/31"):
        for pos in ("first", "middle", "last"):
            hs2 = ["2021/01/10", "2021/01/12", "2021/01/14"]; hs2.insert({"first": 0, "middle": 2, "last": 3}[pos], bad_h)
            logb2 = "".join("%s:\n  a: 1\n" % h for h in hs2).encode()
            badd.append(dict(files={"food.yaml": b"x:\n  k: 1\n", "log.yaml": logb2}, cmd="stats", f_today="2021/02/01", **NOCOLOR))
    bres = cli_diff(ctx, badd, tag="C07:stats-bad-date:")
    for c, i in zip(badd, bres):
        ctx.tally("stats_heading_not_a_date", i["status"].split(":")[0] + ":" + (i["status"].split(":") + [""])[1])
        if i["status"] == "ok":
            ctx.violation("C07:stats-counts-a-heading-that-is-not-a-date", "stats succeeds on a log with a heading that is not a date and reports %r" % i["stdout"][-120:], dict(kind="cli", case=c, impl=i))
    fres = cli_diff(ctx, [c for c, _, _ in far], tag="C07:stats-far:")
    for (c, hs, today), i in zip(far, fres):
        if i["status"] != "ok": continue
        st = i["stdout"].decode("utf-8", "surrogateescape")
        agos = re.findall(r"^[^:\n]+:[ \t]+(\S+) \((-?\d+) days? ago\)[ \t]*$", st, re.M)
        if len(agos) != 2: continue
        t0 = datetime.date(*today)
        for label, h, (gd, gn) in (("first record", hs[0], agos[0]), ("last record", hs[-1], agos[1])):
            want = (t0 - datetime.date(*h)).days
            if gd != "%04d/%02d/%02d" % h or int(gn) != want:
                ctx.violation("C07:stats-dates", "stats %s: %r, expected %04d/%02d/%02d (%d days before --today %s)" % ((label, (gd, gn)) + h + (want, c["f_today"])), dict(kind="cli", case=c, impl=i)); break
    return dict(rule="plain-name exact-arithmetic worlds; 14 reports per world on the real binary, each compared with the extracted Coq model, and the property's relations evaluated on the "
                "implementation's own outputs: period totals = sum of daily register totals = sum of reg -s rows; bal -s grand total = period total; quantity = sum of csv log rows = "
                "balance leaf (prefix-free logs); element-total rows = resolved csv rows; summary = register of the day; unresolved = logged foods minus book; stats counts and day "
                "distances from --today. Non-trivial = every world, distinct by (files, element)")

# ---------------------------------------------------------------------------
# C08  no crash, no hang
# ---------------------------------------------------------------------------
def mutate(r, data):
    """byte-level and grammar-aware mutations of a valid file"""
    b = bytearray(data)
    for _ in range(r.randint(1, 4)):
        k = r.random()
        if not b: b = bytearray(b"x"); continue
        i = r.randrange(len(b))
        if k < 0.15: del b[i:i + r.randint(1, 8)]                                # deletion
        elif k < 0.3: b[i:i] = bytes(r.randrange(256) for _ in range(r.randint(1, 4)))  # arbitrary bytes
        elif k < 0.4: b = b[:i]                                                  # truncation
        elif k < 0.5: b[i] = r.choice(b"\n\r\t :-\"#")                           # structure character
        elif k < 0.6: b[i:i] = r.choice([b"\xff\xfe", b"\xc3", b"\xe2\x82", b"\xf0\x9f\x8d", b"\x00"])   # invalid UTF-8, NUL
        elif k < 0.75:                                                           # a bad / special number
            b[i:i] = (" " + r.choice(gen.BAD_NUMBERS + ["NaN", "Inf", "-Inf", "1e308", "1e-400", "0x1p-1074", "-0"]) + "\n").encode()
        elif k < 0.82: b[i:i] = b"\n  " + bytes(r.choice(b"abc:- \t\"") for _ in range(r.randint(0, 5))) + b"\n"
        elif k < 0.87: b[i:i] = b"\n  " + r.choice([b"# Breakfast: #", b"#:#", b"# a:", b"#:", b"# : #", b"#", b"##", b"# x: y: z:", b"#\t:\t#", b"# \xc2\xa0:", b"#a:#b:#"]) + b"\n"   # notes of odd shapes
        else: b[i:i] = b[max(0, i - 20):i]                                       # duplication
    return bytes(b)

def all_command_forms(r, f, x=b"kcal", day=b"2021/01/21"):
    base = dict(files=f, f_today="2021/02/01", **NOCOLOR)
    forms = [dict(base, cmd="reg"), dict(base, cmd="reg", old=True), dict(base, cmd="reg", template=r.choice(["left-aligned", "left-aligned", "default", "compact", "Default", "x"])), dict(base, cmd="reg", single_element=x.decode("utf-8", "replace")),
             dict(base, cmd="reg", single_element=x.decode("utf-8", "replace"), group_food=True), dict(base, cmd="reg", single_food="a"), dict(base, cmd="reg", shorten=True, totals_only=True),
             dict(base, cmd="bal"), dict(base, cmd="bal", collapse=True), dict(base, cmd="bal", collapse_last=True), dict(base, cmd="bal", single_element=x.decode("utf-8", "replace")),
             dict(base, cmd="totals"), dict(base, cmd="quantity"), dict(base, cmd="quantity", desc=True), dict(base, cmd="unresolved"), dict(base, cmd="element-total", arg=x),
             dict(base, cmd="csv-log"), dict(base, cmd="csv-db"), dict(base, cmd="csv-db-resolved"), dict(base, cmd="stats"), dict(base, cmd="summary", arg=day), dict(base, cmd="print"),
             dict(base, cmd="lint", arg=b"log.yaml"), dict(base, cmd="lint", arg=b"food.yaml", silent=True)]
    return forms

def near_miss(r, name):
    """a spelling close to `name` (bytes) but different from it where possible"""
    t = name.decode("utf-8", "replace")
    cands = [t.upper(), t.lower(), t.swapcase(), t.title(), t[:-1], t[1:], t + " ", " " + t, t[:1], t + t]
    cands = [c for c in cands if c and c != t and not c.startswith("-")] or [t + "x"]
    return r.choice(cands).encode("utf-8")

def check_C08(ctx):
    r = ctx.rng
    cases = []
    for k in range(ctx.scale(300, 8000)):
        w = gen.world(r, envelope=r.random() < 0.3, fancy=0.3, cycles=r.choice([0, 0, 0.3]))
        f = files_of(r, w)
        which = r.random()
        if which < 0.4: f["log.yaml"] = mutate(r, f["log.yaml"])
        elif which < 0.8: f["food.yaml"] = mutate(r, f["food.yaml"])
        elif which < 0.9: f = {"food.yaml": bytes(r.randrange(256) for _ in range(r.randint(0, 60))), "log.yaml": bytes(r.randrange(256) for _ in range(r.randint(0, 60)))}
        else: f["log.yaml"] = mutate(r, f["log.yaml"]); f["food.yaml"] = mutate(r, f["food.yaml"])
        els = [e.encode() for e in gen.element_names(w)] or [b"x"]
        forms = all_command_forms(r, f, x=r.choice(els))
        pick = forms if ctx.tier == "thorough" else r.sample(forms, 6)
        if k % 2 == 0:
            # an argument that names an element / food of the files only approximately: other letter case, a prefix, a blank added
            names = els + [n.encode() for n in w.get("foods", [])]
            near = near_miss(r, r.choice(names))
            ns = near.decode("utf-8", "replace")
            pick = pick + r.sample([dict(forms[0], cmd="reg", single_element=ns), dict(forms[0], cmd="reg", single_element=ns, csv=True), dict(forms[0], cmd="reg", single_element=ns, group_food=True),
                                    dict(forms[0], cmd="bal", single_element=ns), dict(forms[0], cmd="bal", single_element=ns, collapse=True), dict(forms[0], cmd="reg", single_food=ns),
                                    dict(forms[0], cmd="element-total", arg=near), dict(forms[0], cmd="element-total", arg=near, desc=True)], 3)
        for c in r.sample(forms, 2):      # the same commands under a random combination of their boolean flags
            c2 = dict(c)
            flags = {"reg": ["no_totals", "totals_only", "shorten", "old", "csv", "group_food", "l_no_color"], "bal": ["collapse", "collapse_last"],
                     "quantity": ["desc"], "element-total": ["desc"], "lint": ["silent"]}.get(c["cmd"], [])
            for fl in flags:
                if r.random() < 0.5: c2[fl] = True
            if c["cmd"] == "reg" and r.random() < 0.5: c2["template"] = r.choice(["left-aligned", "default", "nonsense"])
            pick = pick + [c2]
        for c in pick:
            if r.random() < 0.1: c["f_depth"] = r.choice([0, -1, 1, 2, 1000000])
            cases.append(c)
        ctx.nontriv(f["food.yaml"] + b"\0" + f["log.yaml"])
        if k < 2: ctx.sample(dict(book=f["food.yaml"], log=f["log.yaml"]))
    # odd invocations: missing arguments, a bad regexp, odd layouts and period strings, cyclic book with a huge limit
    f0 = {"food.yaml": b"a:\n  a: 1\nb:\n  kcal: 2\n", "log.yaml": b"2021/01/21:\n  a: 1\n  b: 2\n"}
    f1 = {"food.yaml": b"a:\n  kcal: 1\nb:\n  kcal: 2\n  a: 1\n", "log.yaml": b"2021/01/21:\n  a: 1\n  b: 2\n  bread: 3\n"}
    base = dict(files=f1, f_today="2021/02/01", **NOCOLOR)
    cyc = dict(files=f0, f_today="2021/02/01", **NOCOLOR)
    odd = [dict(base, cmd="element-total"), dict(base, cmd="lint"), dict(base, cmd="summary"), dict(base, cmd="reg", single_food="(["), dict(base, cmd="reg", single_food="a.*b"),
           dict(base, cmd="reg", f_fmt="Jan 2 2006"), dict(base, cmd="reg", f_fmt=""), dict(base, cmd="reg", g_begin="next tuesday"), dict(base, cmd="reg", g_begin="garbage!!"),
           dict(cyc, cmd="reg", f_depth=10000000), dict(cyc, cmd="csv-db-resolved", f_depth=10000000), dict(cyc, cmd="bal", f_depth=0), dict(cyc, cmd="totals", f_depth=-5),
           dict(base, cmd="reg", f_depth=0), dict(base, cmd="csv-db-resolved", f_depth=-1),
           dict(base, cmd="summary", arg=b"not a date"), dict(base, cmd="reg", single_food="("), dict(base, cmd="reg", single_food="*bread"), dict(base, cmd="reg", single_food="a(b", old=True),
           dict(dict(base, files=dict(f1, **{"log.yaml": b""})), cmd="reg", single_food="("), dict(base, cmd="reg", no_totals=True, totals_only=True), dict(base, cmd="reg", no_totals=True, totals_only=True, old=True),
           dict(base, cmd="stats", f_today="2020/01/01"), dict(base, cmd="stats", f_today="1999/12/31"), dict(base, cmd="stats", f_fmt="02.01.2006"), dict(base, cmd="reg", no_database=True), dict(base, cmd="stats", no_database=True)]
    # cycles of every small length (direct, indirect, reached through a chain) under a huge limit given by flag, environment or configuration file
    for cyc in (1, 2, 3, 5):
        for lead in (0, 2):
            bookc = gen.render_items(r, gen.cycle_book(r, lead, cyc, extra_user=True))
            fc = {"food.yaml": bookc, "log.yaml": b"2021/01/21:\n  c0: 1\n  u: 2\n"}
            odd.append(dict(files=fc, cmd=r.choice(["reg", "bal", "totals"]), f_today="2021/02/01", f_depth=10000000, **NOCOLOR))
            odd.append(dict(files=fc, cmd="csv-db-resolved", e_depth=10000000, **NOCOLOR))
            odd.append(dict(files=dict(fc, **{"c.cfg": {"cfg": {"depth": 5000000}}}), cmd="element-total", arg=b"salt", f_config="c.cfg", **NOCOLOR))
    for c in odd:
        if c.get("f_fmt") == "02.01.2006": c["f_today"] = "01.02.2021"
        elif c.get("f_fmt") is not None: c.pop("f_today", None)
    # outside the model (only "a report or an error message, never a crash or a hang" is checked): file names whose stat / open fails
    # in unusual ways - a path through a regular file (ENOTDIR), an over-long name, a symbolic link loop, the empty name, a directory
    weird = []
    wf = dict(f1, **{"loop": {"symlink": "loop"}, "somedir/keep": b"", "c.cfg": {"cfg": {"depth": 7}}})
    odd_paths = ["food.yaml/config", "n" * 300, "loop", "loop/x", "", "somedir", "/dev/null", "/dev/null/x", "missing/dir/file", "c.cfg/"]
    wforms = all_command_forms(r, wf, x=b"kcal")
    for pth in odd_paths:
        for key in ("f_config", "e_config", "f_db", "e_db", "f_log", "e_log"):
            for c in r.sample(wforms, ctx.scale(2, 8)):
                weird.append(dict(c, **{key: pth}))
        weird.append(dict(files=wf, cmd="lint", arg=pth.encode(), **NOCOLOR))
    # argument vectors as a user may mistype them: unknown and repeated flags, flags without their value, values that look like flags, flags after the
    # arguments, "--flag=value" forms, empty strings, sub-commands that do not exist (urfave/cli decodes them; only crash / hang is checked)
    FLAGS = ["-d", "--database", "-l", "--logfile", "-c", "--config", "--date-format", "--maxdepth", "--today", "-b", "--begin", "-e", "--end", "--no-color", "--no-database",
             "-f", "--single-food", "-s", "--single-element", "-g", "--group-food", "--csv", "--no-totals", "--totals-only", "--shorten", "--use-old-reg-reporter",
             "--internal-template-name", "--collapse", "--collapse-last", "-c", "--desc", "--silent", "--help", "-h", "--version", "-v", "--", "-", "--nonsense", "-x", "-bx", "--begin=2021/01/01", "--maxdepth=abc"]
    WORDS = ["register", "reg", "balance", "bal", "lint", "report", "totals", "quantity", "unresolved", "element-total", "csv", "log", "database", "database-resolved", "stats", "summary",
             "today", "yesterday", "print", "gen", "man", "markdown", "help", "food.yaml", "log.yaml", "kcal", "", " ", "2021/01/21", "10", "-1", "0", "nothing"]
    for k in range(ctx.scale(400, 8000)):
        n = r.randint(0, 7)
        av = [r.choice(FLAGS) if r.random() < 0.45 else r.choice(WORDS) for _ in range(n)]
        if r.random() < 0.7: av.insert(r.randint(0, len(av)), r.choice(["register", "balance", "report", "csv", "lint", "stats", "summary", "print"]))
        weird.append(dict(files=wf, cmd="argv", raw_argv=av, raw_env={"HR_MAXDEPTH": r.choice(["", "x", "3", "-1"])} if r.random() < 0.1 else None))
    wres = impl_only(ctx, weird) + impl_only(ctx, [dict(c, sink=None) for c in weird[::3]], inproc=True)
    for c, i in zip(weird + weird[::3], wres):
        ctx.tally("robustness_only_status", i["status"].split(":")[0])
        if i["status"].startswith("crash") or i["status"] == "timeout":
            ctx.violation("C08:crash:" + c["cmd"], "%s with an unusual file name (%s): %s %s" % (c["cmd"], {k2: c[k2] for k2 in ("f_config", "e_config", "f_db", "e_db", "f_log", "e_log", "arg", "raw_argv") if c.get(k2) is not None}, i["status"], (i.get("panic") or i.get("raw_err") or "")[:300]), dict(kind="cli", case=c, impl=i, robustness_only=True))
    # the depth of the resolver's recursion is bounded by --maxdepth only: a very long ACYCLIC chain under a huge limit overflows the goroutine stack.
    # With the default 1 GB stack that takes about 3 million links (a book of 70 MB and more: thorough tier); the in-process harness lowers the stack limit
    # (HR_VERIF_MAXSTACK) so that 200 000 links suffice. The resolver starts at a random recipe, so a few tries may be needed.
    nlinks = 200000
    chainb = b"".join(b"r%d:\n  r%d: 1\n" % (j, j + 1) for j in range(nlinks))
    cc = dict(files={"food.yaml": chainb, "log.yaml": b"2021/01/01:\n  r0: 1\n"}, cmd="csv-db-resolved", f_depth=1000000000, **NOCOLOR)
    for attempt in range(4):
        i = run.run_inproc_single(ctx.impl, cc, env_extra={"HR_VERIF_MAXSTACK": str(8 << 20)})
        ctx.count(); ctx.tally("long_chain_under_huge_maxdepth", i["status"].split(":")[0])
        if i["status"].startswith("crash") or i["status"] == "timeout":
            ctx.violation("C08:stack-overflow:long-acyclic-chain-under-huge-maxdepth", "csv database-resolved --maxdepth 1000000000 on an acyclic chain of %d recipes (goroutine stack limited to 8 MB): %s %s" % (nlinks, i["status"], i["raw_err"][:200].replace("\n", " ")),
                          dict(kind="cli", case=dict(cc, files={"food.yaml": "(a chain r0 -> r1 -> ... -> r%d, each 'rI:\\n  rI+1: 1')" % nlinks, "log.yaml": cc["files"]["log.yaml"]}), impl=i, stack_limit_bytes=8 << 20))
            break
    # in-process (panics are recovered and reported with their stack) ...
    ires = cli_diff(ctx, [dict(c, sink=None) for c in cases], tag="C08:", inproc=True, keyf=lambda c: "C08:outcome:" + c["cmd"])
    # ... and the real binary (exit status / signal / timeout)
    sub = cases[:: max(1, len(cases) // ctx.scale(250, 6000))] + odd
    ires2 = cli_diff(ctx, sub, tag="C08:", keyf=lambda c: "C08:outcome:" + c["cmd"])
    for c, i in list(zip(cases, ires)) + list(zip(sub, ires2)):
        ctx.tally("status_class", i["status"].split(":")[0])
        if i["status"].startswith("crash") or i["status"] == "timeout":
            ctx.violation("C08:crash:" + c["cmd"], "%s: %s %s" % (c["cmd"], i["status"], (i.get("panic") or i.get("raw_err") or "")[:300]), dict(kind="cli", case=c, impl=i))
        elif i["status"].startswith("fail") and not i.get("raw_err", "").strip():
            ctx.violation("C08:silent-failure:" + c["cmd"], "%s failed without an error message" % c["cmd"], dict(kind="cli", case=c, impl=i))
    return dict(rule="valid worlds with 1-4 mutations (deletions, arbitrary bytes, truncation, structure characters, invalid UTF-8, NUL, bad and special numbers, duplicated fragments), pure "
                "random bytes, cyclic books; x command forms (24 forms, %s per world), odd invocations (missing arguments, bad regexp, odd layouts and period strings, --maxdepth 0 / "
                "negative / 10^7 on a cyclic book), arguments that name an element or food only approximately (other letter case, prefix, blank), and - outside the model, crash / hang only - "
                "file names whose stat or open fails unusually (path through a file, over-long name, symlink loop, empty name, directory) and mistyped argument vectors (unknown / repeated / "
                "valueless flags, flags after arguments, unknown sub-commands); run in-process (a panic is recovered and reported) and on the real binary (exit status, signal, 20 s timeout); the outcome class and, "
                "where the model is exact, the bytes are compared with the extracted Coq model. Non-trivial = every mutated world, distinct by file bytes" % ("all" if ctx.tier == "thorough" else "6 sampled"))

# ---------------------------------------------------------------------------
# C12  composition over the history
# ---------------------------------------------------------------------------
def day_block(r, day, foods, envelope=True):
    items = [("heading", "%04d/%02d/%02d" % day)]
    for _ in range(r.choice([0, 1, 2, 3, 4])):
        if r.random() < 0.1: items.append(("note", r.choice([None, gen.word(r)]), gen.word(r)))
        items.append(("entry", r.choice(foods), gen.number(r, envelope)))
    return items

PERDAY = [("reg", {}), ("reg", dict(shorten=True)), ("reg", dict(template="left-aligned")), ("reg", dict(old=True)), ("csv-log", {}), ("print", {}), ("reg", dict(single_food="e")), ("reg", dict(single_element="kcal"))]
PERIOD = [("bal", {}), ("bal", dict(single_element="kcal")), ("totals", {}), ("quantity", {})]

REGEX_RAW_BYTES = True      # Model/Reporters.v sends patterns that are not valid UTF-8 (or hold U+FFFD) through the regular-expression path (WP29)
REGEXES = ["^br", "ea$", "b.*d", "[a-c]+", "tea|bread", "(meat)/(veal|pork)", "\\d+g", "(?i)BREAD", "e{2,3}", "a{2}", "^[^/]+$", "^drinks/.*/tea$", "[[:alpha:]]+", "\\pL", "(?i:TEA)|water",
           "[", "(", "*a", "a**", "\\", "a{1001}", "(?P<n>a)", "\\Qa.b\\E", "x?y*z+", ".", "^$", "é", "[^a-z/]", "a|", "()", "\\.", "\\bsweets\\b", "^(vegetables|sweets)/", "-", "a-very.*fit$",
           ] + ([b"\xff".decode("utf-8", "surrogateescape"), b"a\xef\xbf\xbdb".decode(), b"te\xc3".decode("utf-8", "surrogateescape")] if REGEX_RAW_BYTES else [])

def check_C12(ctx):
    r = ctx.rng
    book = b"bread:\n  kcal: 250\n  fat: 1\ntea:\n  kcal: 2\nmeat/veal:\n  kcal: 100\n  prot: 20\nmeat/pork:\n  kcal: 0.5\nbread/white/slice:\n  kcal: 80\nmeat:\n  kcal: 10\n"
    foods = ["bread", "tea", "meat/veal", "meat/pork", "water", "kcal", "sweets/cake", "vegetables/tomato/red/organic/100g", "a-very-long-food-name-that-does-not-fit", "drinks/hot/coffee", "drinks/hot/tea",
             "bread/white/slice", "meat"]      # names that are booked directly AND are the category of another booked food
    cases = []; triples = []
    for k in range(ctx.scale(200, 4000)):
        nb = r.randint(2, 6)
        days = gen.day_list(r, nb, sorted_=r.random() < 0.5, repeat=0.3)
        dblocks = [day_block(r, d, foods) for d in days]
        if r.random() < 0.2:      # members of one category that cancel across the two parts
            q = r.choice(["3", "1.5", "8"])
            dblocks[0].append(("entry", "drinks/hot/coffee", q)); dblocks[-1].append(("entry", "drinks/hot/tea", "-" + q))
        if r.random() < 0.2:      # the same category spelled with another letter case in the two parts: two categories
            dblocks[0].append(("entry", "Drinks/hot/coffee", "1")); dblocks[-1].append(("entry", "drinks/Hot/coffee", "2")); dblocks[-1].append(("entry", "Bread", "1"))
        if r.random() < 0.25:     # a food booked directly in one part and a food below it (its sub-category) in the other
            dblocks[0].append(("entry", "bread", r.choice(["2", "1.5"]))); dblocks[-1].append(("entry", "bread/white/slice", r.choice(["3", "1"])))
        blocks = [gen.render_items(r, b2, crlf=False, final_newline=True) for b2 in dblocks]
        cut = r.randint(1, nb - 1)
        l1, l2 = b"".join(blocks[:cut]), b"".join(blocks[cut:])
        ctx.nontriv(l1 + b"|" + l2); ctx.tally("blocks", nb)
        if k < 1: ctx.sample(dict(L1=l1, L2=l2))
        # the single-food register with a regular expression (anchors, classes, alternation, repetition, case folding; ill-formed ones; raw bytes)
        rx = r.choice(REGEXES)
        for cmd, kw in ((PERDAY + PERIOD if ctx.tier == "thorough" else r.sample(PERDAY, 3) + r.sample(PERIOD, 2)) + [("reg", dict(single_food=rx))]):
            if cmd in ("reg", "bal", "csv-log", "print", "totals", "quantity") and r.random() < 0.4:
                dd = r.choice(days); kw = dict(kw, **{r.choice(["g_end", "g_begin"]): "%04d/%02d/%02d" % dd})
            tri = []
            for lg in (l1, l2, l1 + l2):
                cases.append(dict(files={"food.yaml": book, "log.yaml": lg}, cmd=cmd, **kw, **NOCOLOR)); tri.append(len(cases) - 1)
            triples.append((cmd, kw, tri))
    ires = cli_diff(ctx, cases, tag="C12:", pipe_frac=0.1)
    for cmd, kw, (a, b2, ab) in triples:
        x, y, z = ires[a], ires[b2], ires[ab]
        if not (x["status"] == y["status"] == z["status"] == "ok"): continue
        rep = dict(kind="cli", case=cases[ab], impl=z, L1_case=cases[a], L1_impl=x, L2_case=cases[b2], L2_impl=y)
        kw0 = {k2: v for k2, v in kw.items() if k2 not in ("g_end", "g_begin")}
        if any(cmd == c and kw0 == k2 for c, k2 in PERDAY) or (cmd == "reg" and set(kw0) == {"single_food"}):
            if x["stdout"] + y["stdout"] != z["stdout"]:
                ctx.violation("C12:per-day-report-not-concatenation:" + cmd, "%s %r: report of L1++L2 is not report(L1) ++ report(L2): %r / %r" % ((cmd, kw) + first_diff(x["stdout"] + y["stdout"], z["stdout"])), rep)
        else:
            try:
                def table(o):
                    if cmd == "bal":
                        rows, grand = parse_bal(o)
                        t = {b"/".join(p): num(a2) for p, a2, _ in decode_rows(rows)}
                        if grand: t[b"<grand>"] = num(grand[0])
                        return t
                    if cmd == "totals": return {row[3]: (num(row[0]), num(row[1]), num(row[2])) for row in parse_cols(o, 4)[1:]}
                    return {(row[1] if len(row) > 1 else b""): num(row[0]) for row in parse_cols(o, 2)}
                t1, t2, t12 = table(x["stdout"]), table(y["stdout"]), table(z["stdout"])
                if set(t12) != set(t1) | set(t2):
                    ctx.violation("C12:period-report-keys:" + cmd, "%s: rows of L1++L2 are not the union of the rows of the parts" % cmd, rep); continue
                zero = (Fraction(0),) * 3 if cmd == "totals" else Fraction(0)
                for key in t12:
                    u, v, s = t1.get(key, zero), t2.get(key, zero), t12[key]
                    ok = all(close(a2 + b3, c2, Fraction(3, 100)) for a2, b3, c2 in zip(u, v, s)) if cmd == "totals" else close(u + v, s, Fraction(3, 100))
                    if not ok:
                        ctx.violation("C12:period-report-not-sum:" + cmd, "%s row %r: %s (L1) + %s (L2) is not %s (L1++L2)" % (cmd, key, u, v, s), rep); break
            except (ValueError, IndexError, AttributeError) as e:
                ctx.violation("C12:unparsable-report:" + cmd, "a report does not have its shape: %r" % (e,), rep)
    return dict(rule="histories of 2..6 appended day blocks (unsorted and repeated dates, empty days, notes) cut in two at a random point; the same command on L1, L2 and L1++L2 "
                "(per-day: reg default / left-aligned / old, csv log, print, reg -f, reg -s; period: bal, bal -s, totals, quantity); every run compared with the extracted Coq model, "
                "and on the implementation alone: per-day reports concatenate byte for byte, period reports have the union of the rows with element-wise sums (exact-arithmetic "
                "values). Non-trivial = every history, distinct by (L1, L2)")

# ---------------------------------------------------------------------------
# C13  csv exports
# ---------------------------------------------------------------------------
ODD_FRAGMENTS = [b"\xc0\x80", b"\xed\xa0\x80", b"\xf4\x90\x80\x80", b"\xe2\x82", b"\x80", b"\xbf", b"\xff", b"\xfe", b"\xf8\x88\x80\x80\x80", b"\xc2\xa0", b"\xe2\x80\xa8",
                 b"\xe3\x80\x80", b"\xc2\x85", b"\xe1\x9a\x80", b"\xe2\x80\x8b", b"\xef\xbb\xbf", b"\x0b", b"\x0c", b"\x00", b"\x1f", b"\x7f", b"\x1b[31m", b"a", b"Zq", b"0", b"%", b"%s", b"\\",
                 b"\xf0\x9f\x8d\x8e", b"e\xcc\x81", b"\xd0\x96", b"\xe7\xb1\xb3", b",", b"\"", b";", b" ", b"\t", b"/", b"\r", b"'", b"{{.}}", b"$"]

def odd_name(r, lo=1, hi=14):
    """a name over arbitrary bytes: invalid UTF-8 (overlong, surrogate, beyond U+10FFFF, truncated, stray continuation), Unicode spaces, control characters,
    escape sequences, template and format metacharacters. One line; the ends are outside the parser's trim set, the first byte is not '#'."""
    s = b"".join(r.choice(ODD_FRAGMENTS) for _ in range(r.randint(lo, hi)))
    s = s.strip(b"\t \n:\"-\r").lstrip(b"#")
    s = s.strip(b"\t \n:\"-\r")
    return s or b"\xffx"

def odd_names_files(r):
    names = [odd_name(r) for _ in range(r.randint(2, 5))] + [odd_name(r, 12, 40)]
    els = [odd_name(r, 1, 6) for _ in range(2)]
    book = b"".join(n + b":\n" + b"".join(b"  " + e + b": " + gen.number(r, True).encode() + b"\n" for e in r.sample(els, r.randint(1, 2))) for n in names[:2])
    log = b"".join(b"2021/01/%02d:\n" % (d + 1) + b"".join(b"  " + r.choice(names) + b": " + gen.number(r, True).encode() + b"\n" for _ in range(r.randint(1, 4))) for d in range(r.randint(1, 3)))
    return {"food.yaml": book, "log.yaml": log}, names, els

def check_C13(ctx):
    r = ctx.rng
    cases = []; metas = []
    for k in range(ctx.scale(700, 10000)):
        w = gen.world(r, envelope=r.random() < 0.3, fancy=r.choice([0.3, 0.6, 0.9]))
        if r.random() < 0.4:   # names that need quoting
            extra = r.choice(['a,b', 'say "hi" x', 'x;y', '\u00a0nbsp', '\u3000wide', 'tab\there', 'q"z', 'ü,"ö"x', '\\.', "cr\rmid", "ж,ж", ",", "a,,b"])
            w["log"].append(("heading", "2021/03/01")); w["log"].append(("entry", extra, gen.number(r)))
            w["book"].append(("heading", extra)); w["book"].append(("entry", r.choice(['e,1', 'plain', 'x"q"y', '\u2003em']), gen.number(r)))
        if r.random() < 0.15:   # days in years of fewer than four digits and far ones: the date column is ISO 8601 (four-digit year, zero padded)
            for yy in r.sample([1, 7, 45, 999, 1000, 1066, 9999, 476], 2):
                w["log"].append(("heading", "%04d/%02d/%02d" % (yy, r.randint(1, 12), r.randint(1, 28)))); w["log"].append(("entry", r.choice(["bread", "tea", "x y"]), gen.number(r)))
        f = files_of(r, w)
        tz = r.choice([None, None, ("Asia/Tokyo", 32400), ("Europe/Sofia", 7200), ("America/New_York", -18000), ("Pacific/Kiritimati", 50400)])
        for cmd in ("csv-log", "csv-db", "csv-db-resolved"):
            c = dict(files=f, cmd=cmd, **NOCOLOR)
            if tz: c["tz"] = tz
            cases.append(c); metas.append(w)
        ctx.nontriv(f["food.yaml"] + f["log.yaml"])
        if k < 1: ctx.sample(dict(book=f["food.yaml"], log=f["log.yaml"]))
    # names over arbitrary bytes (invalid UTF-8, Unicode spaces, control characters): what is quoted and how is decided on runes and bytes
    oddc = []
    for k in range(ctx.scale(150, 3000)):
        f, _, _ = odd_names_files(r)
        for cmd in ("csv-log", "csv-db", "csv-db-resolved"): oddc.append(dict(files=f, cmd=cmd, **NOCOLOR))
        ctx.nontriv(f["food.yaml"] + f["log.yaml"])
    # names written with a dash, a colon or a quote at their end (`fat-: 3`, `"tea-": 1.5`, `wine/red -: 2`): the parser's normal form drops them - two spellings of one food are one row
    for k in range(ctx.scale(6, 60)):
        tails = ["-", " -", "--", ":", "\"", "-:"]
        ents = [(nm + r.choice(tails + [""]), r.choice(["1", "2", "1.5"])) for nm in r.sample(["fat", "wine/red", "tea", "alcohol", "x y"], 3) for _ in range(2)]
        logb = ("2021/03/01:\n" + "".join("  %s: %s\n" % e for e in ents)).encode()
        bookb = "".join("%s:\n  %s: %s\n" % (r.choice(["rec", "rec-", "rec2"]), nm, q) for nm, q in ents[:3]).encode()
        for cmd in ("csv-log", "csv-db", "csv-db-resolved"): oddc.append(dict(files={"food.yaml": bookb, "log.yaml": logb}, cmd=cmd, **NOCOLOR))
    ores = cli_diff(ctx, oddc, tag="C13:odd-names:")
    for c, i in zip(oddc, ores):
        if i["status"] != "ok": continue
        try:
            rows = list(pycsv.reader(io.StringIO(i["stdout"].decode("utf-8", "surrogateescape"), newline=""), strict=True))
        except Exception as e:
            ctx.violation("C13:not-rfc4180:" + c["cmd"], "the export is not readable as CSV: %r" % (e,), dict(kind="cli", case=c, impl=i)); continue
        if any(len(row) != 3 for row in rows):
            ctx.violation("C13:not-rfc4180:" + c["cmd"], "a row of the export does not have three fields", dict(kind="cli", case=c, impl=i))
        srcb = c["files"]["log.yaml" if c["cmd"] == "csv-log" else "food.yaml"]
        for row in rows:
            nm = row[1 if c["cmd"] == "csv-log" else 0].encode("utf-8", "surrogateescape")
            if nm not in srcb:
                ctx.violation("C13:name-not-preserved:" + c["cmd"], "the exported name %r does not occur in the source file" % nm, dict(kind="cli", case=c, impl=i)); break
    ires = cli_diff(ctx, cases, tag="C13:", pipe_frac=0.1)
    # the model's own RFC 4180 reader and Python's csv module as two independent readers of the implementation's output
    oks = [(c, i, w) for c, i, w in zip(cases, ires, metas) if i["status"] == "ok"]
    dec = run.run_model([run.req(op="csvdecode", data=i["stdout"]) for c, i, w in oks])
    for (c, i, w), d in zip(oks, dec):
        rep = dict(kind="cli", case=c, impl=i)
        try:
            text = i["stdout"].decode("utf-8", "surrogateescape")
            prow = [[x.encode("utf-8", "surrogateescape") for x in row] for row in pycsv.reader(io.StringIO(text, newline=""), strict=True)]
        except Exception as e:
            ctx.violation("C13:not-rfc4180:" + c["cmd"], "the export is not readable as CSV: %r" % (e,), rep); continue
        if d == b"error":
            ctx.violation("C13:not-rfc4180:" + c["cmd"], "the export is rejected by the RFC 4180 reader of the model", rep); continue
        mrow = [[bytes.fromhex(x.decode()) for x in line.split(b",")] for line in d.split(b"\n")[1:]]
        if mrow != prow and not any(b"\r" in x for row in prow for x in row):     # Python's reader normalises a bare CR inside quotes differently
            ctx.violation("C13:readers-disagree:" + c["cmd"], "two RFC 4180 readers disagree on the export", rep); continue
        rows = mrow
        if any(len(row) != 3 for row in rows):
            ctx.violation("C13:row-shape:" + c["cmd"], "a row does not have three fields", rep); continue
        if c["cmd"] == "csv-log":
            want = []
            for h, es in log_days(w):
                seen = []
                for fn, lx in es:
                    if fn not in seen: seen.append(fn)
                want += [(h.replace("/", "-").encode(), fn.encode("utf-8", "surrogateescape")) for fn in seen]
            if [(a, b2) for a, b2, _ in rows] != want:
                ctx.violation("C13:log-rows", "csv log rows (date, food) %r, expected one per (day, distinct food) in file order %r" % ([(a, b2) for a, b2, _ in rows][:4], want[:4]), rep); continue
            if any(not re.fullmatch(rb"-?\d+\.\d{3}|NaN|[+-]Inf", q) for _, _, q in rows):
                ctx.violation("C13:log-precision", "a quantity is not printed with three decimals", rep)
        elif c["cmd"] == "csv-db":
            want = []; cur = None
            for it in w["book"]:
                if it[0] == "heading": cur = it[1]
                elif it[0] == "entry" and cur is not None: want.append((cur.encode("utf-8", "surrogateescape"), it[1].encode("utf-8", "surrogateescape"), it[2]))
            if [(a, b2) for a, b2, _ in rows] != [(a, b2) for a, b2, _ in want]:
                ctx.violation("C13:db-rows", "csv database rows %r, expected one per entry in file order %r" % ([(a, b2) for a, b2, _ in rows][:4], [(a, b2) for a, b2, _ in want][:4]), rep); continue
            for (_, _, q), (_, _, lx) in zip(rows, want):
                v = fr(lx)
                if v is not None and re.fullmatch(rb"-?\d+\.\d{2}", q) and abs(v) < 10 ** 15 and not close(Fraction(q.decode()), v, Fraction(1, 200) + abs(v) / 10 ** 15):
                    ctx.violation("C13:db-precision", "amount %r printed as %r: more than half a unit of the last digit away" % (lx, q), rep); break
        else:
            keyl = [(a, b2) for a, b2, _ in rows]
            if keyl != sorted(set(keyl)):
                ctx.violation("C13:resolved-order", "resolved export is not sorted by recipe then element without duplicates: %r" % keyl[:6], rep)
    return dict(rule="random worlds with names containing commas, quotes, semicolons, leading (Unicode) spaces, tabs, CR, non-ASCII text; quantities negative, tiny, huge, at rounding "
                "ties, NaN/Inf; csv log / csv database / csv database-resolved on the real binary compared byte for byte with the extracted Coq model; the implementation's output is "
                "read back by two independent RFC 4180 readers (the model's csv_decode, proved inverse to the writer, and Python's csv module) and the rows are checked against the "
                "abstract files: one row per (day, distinct food) in file order with ISO date and 3 decimals; one row per entry in file order within half a unit of the 2nd decimal; "
                "resolved rows strictly sorted by (recipe, element). Non-trivial = every world, distinct by file bytes")

# ---------------------------------------------------------------------------
# C14  print normal form
# ---------------------------------------------------------------------------
def parse_layout_date(layout, text):
    """(y, m, d) of a date written in a layout made of 2006 / 01 / 02 / 1 / 2 / _2 / Jan / January and literals (fields the layout omits default to
    0 / 1 / 1), read as Go's time.Parse reads it (numbers without padding take one digit, or two when a digit follows; month names in any letter case;
    a blank of the layout matches a run of blanks); raises when it does not fit"""
    y, m, d = 0, 1, 1; j = 0
    def getnum():
        nonlocal j
        assert text[j:j + 1].isdigit()
        n = 2 if text[j + 1:j + 2].isdigit() else 1
        v = int(text[j:j + n]); j += n; return v
    for kind, t in gen.layout_elements(layout):
        if kind == "lit":
            if t == " ":
                assert j >= len(text) or text[j] == " "
                while j < len(text) and text[j] == " ": j += 1
            else:
                assert text[j] == t; j += 1
        elif t == "2006": assert len(text[j:j + 4]) == 4; y = int(text[j:j + 4]); j += 4
        elif t == "01": assert len(text[j:j + 2]) == 2; m = int(text[j:j + 2]); j += 2
        elif t == "02": assert len(text[j:j + 2]) == 2; d = int(text[j:j + 2]); j += 2
        elif t == "1": m = getnum()
        elif t == "2": d = getnum()
        elif t == "_2":
            if text[j:j + 1] == " ": j += 1
            d = getnum()
        else:
            names = [n[:3] for n in gen.MONTHS] if t == "Jan" else gen.MONTHS
            for k, n in enumerate(names):
                if text[j:j + len(n)].lower() == n.lower(): m = k + 1; j += len(n); break
            else: raise AssertionError("month name")
    assert j == len(text)
    return (y, m, d)

def check_C14(ctx):
    r = ctx.rng
    cases = []; metas = []
    layouts = ["2006/01/02", "2006-01-02", "02.01.2006", "01/02/2006"]
    for k in range(ctx.scale(700, 10000)):
        layout = r.choice(layouts)
        foods = [gen.s_name(r, r.choice([0, 0.3, 0.6])) for _ in range(r.randint(1, 5))]
        items = gen.decorate(r, gen.log(r, foods, layout=layout, envelope=r.random() < 0.3, notes=0.3), 0.2)
        logb = gen.render_items(r, items)
        src = r.choice(["flag", "flag", "env", "cfg"])
        c = dict(files={"log.yaml": logb}, cmd="print", **NOCOLOR)
        if src == "flag": c["f_fmt"] = layout
        elif src == "env": c["e_fmt"] = layout
        else: c["files"]["my.cfg"] = {"cfg": {"fmt": layout}}; c["f_config"] = "my.cfg"
        ctx.tally("date_format_from", src)
        if r.random() < 0.3:
            ds = [it[1] for it in items if it[0] == "heading"]
            if ds: c["g_begin"] = r.choice(ds)
        cases.append(c); metas.append((layout, items))
        ctx.nontriv(logb + layout.encode()); ctx.tally("layout", layout)
        if k < 1: ctx.sample(dict(log=logb, date_format=layout))
    # a sweep over date layouts: every order and subset of the year / month / day reference tokens with the literals the model admits between, before and
    # after them (also none at all, doubled ones, a token twice: the model then declines and only a clean exit is required)
    SPACES_IN_LAYOUTS = True       # Model/Dates.v treats a space of the layout as Go's time.skip does (a run of spaces, also an empty one at the end)
    seps = ["", "/", "-", ".", " ", ":", "//", ". ", " - ", ":/"] if SPACES_IN_LAYOUTS else ["", "/", "-", ".", ":", "//", ":/", "./"]
    for k in range(ctx.scale(250, 4000)):
        toks = r.sample(["2006", "01", "02"], r.choice([1, 2, 3, 3, 3, 3]))
        if r.random() < 0.05: toks.append(r.choice(toks))
        wide = r.random() < 0.3     # the elements without padding and the month names (layouts people write: `2 Jan 2006`, `2.1.2006`, `January 2 2006`)
        if wide: toks = [dict({"01": r.choice(["1", "Jan", "January", "01"]), "02": r.choice(["2", "_2", "02"])}).get(t, t) for t in toks]
        layout = r.choice(["", "", "", "/", "."] + ([" "] if SPACES_IN_LAYOUTS else [])) if r.random() < 0.2 else ""
        for j, t in enumerate(toks):
            sep = (r.choice(seps) if j + 1 < len(toks) else r.choice(["", "", "", ".", "/", "-"] + ([" "] if SPACES_IN_LAYOUTS else [])))
            if wide and j + 1 < len(toks) and t in ("1", "2", "_2") and sep == "": sep = r.choice(["/", ".", " ", "-"])     # a number without padding needs a separator to be read back
            layout += t + sep
        if wide and layout.startswith("_2"): layout = "02" + layout[2:]      # a layout that begins with _2 is the known finding KF4: generated in its own family below
        if wide: ctx.tally("layout_sweep_wide_elements", " ".join(sorted(t for t in toks if t in ("1", "2", "_2", "Jan", "January"))) or "none")
        ds = [(2021, r.randint(1, 12), r.randint(1, 28)) for _ in range(r.randint(1, 3))]
        items = []
        for (y, m, d) in ds:
            items.append(("heading", gen._fmt(layout, y, m, d)))
            for _ in range(r.randint(1, 2)): items.append(("entry", r.choice(["bread", "tea", "a/b"]), gen.number(r, True)))
        logb = gen.render_items(r, items, crlf=False, final_newline=True)
        c = dict(files={"log.yaml": logb}, cmd=r.choice(["print", "print", "reg", "csv-log", "stats"]), f_fmt=layout, **NOCOLOR)
        if c["cmd"] == "stats": c["files"]["food.yaml"] = b""; c["f_today"] = gen._fmt(layout, 2021, 12, 30)
        if r.random() < 0.3: c["g_begin"] = gen._fmt(layout, *r.choice(ds))
        cases.append(c); metas.append((layout, items)); ctx.tally("layout_sweep_tokens", len(toks))
        ctx.nontriv(logb + layout.encode())
    # date formats whose text begins with a blank: Go's space-padded day "_2" reads the heading `5 Jan 2021` but print writes ` 5 Jan 2021`, and a line
    # that begins with a blank is no heading (known finding KF4); a literal leading space in the layout reads no heading at all (an error, nothing to print)
    for k in range(ctx.scale(6, 40)):
        layout = r.choice([" 2006/01/02", "_2/01/2006", "_2 Jan 2006", " 02.01.2006"])
        ds = [(2021, r.randint(1, 12), r.randint(1, 9)) for _ in range(r.randint(2, 3))]
        def head(y, m, d):
            if layout == "_2/01/2006": return "%d/%02d/%04d" % (d, m, y)
            if layout == "_2 Jan 2006": return "%d %s %04d" % (d, ["Jan", "Feb", "Mar", "Apr", "May", "Jun", "Jul", "Aug", "Sep", "Oct", "Nov", "Dec"][m - 1], y)
            return gen._fmt(layout.strip(), y, m, d)
        items = []
        for (y, m, d) in ds:
            items.append(("heading", head(y, m, d))); items.append(("entry", r.choice(["bread", "tea"]), gen.number(r, True)))
        logb = gen.render_items(r, items, crlf=False, final_newline=True)
        cases.append(dict(files={"log.yaml": logb}, cmd="print", f_fmt=layout, **NOCOLOR)); metas.append((layout, items)); ctx.tally("layout_begins_with_blank", layout)
        ctx.nontriv(logb + layout.encode())
    # days whose midnight does not exist in the process time zone (daylight saving starts at 00:00): the printed day must still be the day read
    gaps = gen.midnight_gap_days()
    for k in range(min(len(gaps), ctx.scale(24, 200))):
        zone, off, gd = gaps[(k * 7) % len(gaps)] if gaps else (None, 0, None)
        layout = layouts[k % len(layouts)]
        ds = [gd + datetime.timedelta(days=o) for o in r.sample([-1, 0, 0, 1, 2], 3)]
        items = []
        for d in ds:
            items.append(("heading", gen._fmt(layout, d.year, d.month, d.day)))
            for _ in range(r.randint(1, 3)): items.append(("entry", r.choice(["bread", "tea", "a/b"]), gen.number(r, True)))
        logb = gen.render_items(r, items, crlf=False, final_newline=True)
        c = dict(files={"log.yaml": logb}, cmd="print", f_fmt=layout, tz=(zone, off), **NOCOLOR)
        if k % 3 == 0: c["g_begin"] = gen._fmt(layout, gd.year, gd.month, gd.day); c["g_end"] = c["g_begin"]
        cases.append(c); metas.append((layout, items)); ctx.tally("midnight_gap_zone", zone)
        ctx.nontriv(logb + zone.encode())
    ires = cli_diff(ctx, cases, tag="C14:", pipe_frac=0.15)
    # on the implementation alone, against the abstract log: the printed days are the days of the log (same dates, same order, within the period), and
    # every food of a day is printed once (duplicates of a day merged)
    for c, (layout, items), i in zip(cases, metas, ires):
        if c["cmd"] != "print" or i["status"] != "ok": continue
        if layout[:1] in (" ", "_"): continue       # the formatted date begins with a blank: judged in the second round (a finding of its own)
        heads = [it[1] for it in items if it[0] == "heading"]
        if any(h != h.strip(" \t:\"-") or not h for h in heads): continue       # a heading the parser would trim: outside this relation
        if c.get("g_begin") is not None or c.get("g_end") is not None:
            def key(h):
                try: return parse_layout_date(layout, h)
                except Exception: return None
            lo = key(c["g_begin"]) if c.get("g_begin") is not None else None; hi = key(c["g_end"]) if c.get("g_end") is not None else None
            if (c.get("g_begin") is not None and lo is None) or (c.get("g_end") is not None and hi is None) or any(key(h) is None for h in heads): continue
            heads = [h for h in heads if (lo is None or key(h) >= lo) and (hi is None or key(h) <= hi)]
        out = i["stdout"].decode("utf-8", "surrogateescape").split("\n")
        got_heads = [l[:-1] for l in out if l and not l[0] in " \t" and l.endswith(":")]
        rep = dict(kind="cli", case=c, impl=i)
        if got_heads != heads:
            ctx.violation("C14:printed-days-differ", "print shows the days %r, the log has %r" % (got_heads[:5], heads[:5]), rep); continue
        day = None; seen = set()
        for l in out:
            if l and l[0] not in " \t": seen = set(); continue
            mfood = re.match(r"^  - (.*): (-?[0-9.]+|NaN|[+-]Inf)$", l)
            if mfood:
                if mfood.group(1) in seen:
                    ctx.violation("C14:food-printed-twice-in-a-day", "print lists %r twice in one day (duplicates of a day are merged)" % mfood.group(1), rep); break
                seen.add(mfood.group(1))
    # second round: the tool reads its own output back under the same options
    second = []; idx = []
    for j, (c, i) in enumerate(zip(cases, ires)):
        if i["status"] != "ok" or c["cmd"] != "print": continue
        base = {k2: v for k2, v in c.items() if k2 not in ("files", "g_begin")}
        f2 = dict(c["files"], **{"log.yaml": i["stdout"]})
        second.append(dict(base, files=f2)); idx.append(j)
        second.append(dict(base, files=f2, cmd="csv-log")); idx.append(j)
        second.append(dict({k2: v for k2, v in c.items() if k2 != "files"}, files=c["files"], cmd="csv-log")); idx.append(j)
    ires2 = cli_diff(ctx, second, tag="C14:round2:")
    for t in range(0, len(second), 3):
        j = idx[t]; p1 = ires[j]; p2, c2, c1 = ires2[t], ires2[t + 1], ires2[t + 2]
        rep = dict(kind="cli", case=cases[j], impl=p1, printed_again=p2)
        blank0 = metas[j][0][:1] in (" ", "_")      # the formatted date begins with a blank: a finding of its own
        if blank0 and (p2["status"] != "ok" or p2["stdout"] != p1["stdout"]):
            ctx.violation("C14:date-format-begins-with-a-blank", "under the date format %r print writes headings that begin with a blank; read back they are not headings: %s / %r" % (metas[j][0], p2["status"][:40], first_diff(p1["stdout"], p2["stdout"])), rep); continue
        if p2["status"] != "ok":
            ctx.violation("C14:printed-log-not-readable", "the tool cannot read its own print output under the same options: %s %s" % (p2["status"][:60], p2.get("raw_err", "")[:200]), rep); continue
        if p2["stdout"] != p1["stdout"]:
            ctx.violation("C14:print-not-idempotent", "printing the printed log changes it: %r / %r" % first_diff(p1["stdout"], p2["stdout"]), rep); continue
        if c1["status"] == "ok" and c2["status"] == "ok":
            # same days, foods (merged) and quantities to two decimals: csv log of the original vs csv log of the printed log
            def rows(o):
                return [(row[0], row[1], Fraction(row[2]) if re.fullmatch(r"-?\d+\.\d+", row[2]) else row[2]) for row in pycsv.reader(io.StringIO(o.decode("utf-8", "surrogateescape"), newline=""))]
            try: ra, rb = rows(c1["stdout"]), rows(c2["stdout"])
            except Exception as e:
                ctx.violation("C14:csv-unreadable", "csv log output unreadable: %r" % (e,), rep); continue
            if [(a, b2) for a, b2, _ in ra] != [(a, b2) for a, b2, _ in rb]:
                ctx.violation("C14:days-or-foods-changed", "the printed log reads back to other days/foods: %r / %r" % (ra[:3], rb[:3]), rep); continue
            for (_, fn, qa), (_, _, qb) in zip(ra, rb):
                if isinstance(qa, Fraction) and isinstance(qb, Fraction):
                    if abs(qa - qb) > Fraction(6, 1000) + abs(qa) / 2 ** 50: ctx.violation("C14:quantity-changed", "food %r: %s became %s" % (fn, qa, qb), rep); break
                elif qa != qb and not (isinstance(qa, Fraction) or isinstance(qb, Fraction)):
                    ctx.violation("C14:quantity-changed", "food %r: %s became %s" % (fn, qa, qb), rep); break
    # notes outside the two documented forms (a value made of '#' only, a text that begins with ':', a name followed by a Unicode blank only, a text that ends in '-' ':' '"'
    # before a no-break space): the reader strips three character sets in turn and the writer has two fixed forms, so some of these change again when
    # the printed log is printed (known finding KF5; the model reads notes as the program does, the theorems of Props/C14.v speak of notes in normal form)
    odd_notes = ["# todo: #", "# rating: ###", "# :: remember the salt", "# :b: c", "# name:\u00a0", "# name: \u3000", "# text-\u00a0", "# x:\u00a0:", "# \"q\":\u00a0", "#:", "# : :", "#  #  # a"]
    oddn = []
    for k in range(ctx.scale(6, 40)):
        lines = ["2021/01/%02d:" % (k % 27 + 1)] + ["  " + nn for nn in r.sample(odd_notes, r.randint(1, 3))] + ["  # barcode: 000", "  coffee/cup: 1"]
        oddn.append(dict(files={"log.yaml": ("\n".join(lines) + "\n").encode()}, cmd="print", no_database=True, **NOCOLOR))
    o1 = impl_only(ctx, oddn)
    o2 = impl_only(ctx, [dict(c, files={"log.yaml": i["stdout"]}) for c, i in zip(oddn, o1)])
    for c, a, b2 in zip(oddn, o1, o2):
        ctx.tally("odd_notes", "stable" if (a["status"], a["stdout"]) == (b2["status"], b2["stdout"]) else "changes when printed again")
        if a["status"] == "ok" and (b2["status"] != "ok" or b2["stdout"] != a["stdout"]):
            ctx.violation("C14:odd-note-not-stable", "a note outside the documented forms changes again when the printed log is printed: %r / %r" % first_diff(a["stdout"], b2["stdout"]), dict(kind="cli", case=c, impl=a, printed_again=b2))
    return dict(rule="random logs (names with inner punctuation and non-ASCII text, every layout variant, notes of both documented forms, repeated foods, specials) x 4 date formats x "
                "optional period, a sweep over layouts built from the year / month / day tokens in every order and subset with the admitted literals, plus logs around days whose midnight does not exist in the process time zone (10 zones): print on the real binary vs the extracted Coq model; then, on the implementation alone: print of the printed log is byte-identical, and csv log of the "
                "printed log has the same (day, food) rows with quantities within the two-decimal rounding of the original's. Non-trivial = every log, distinct by (bytes, layout)")

# ---------------------------------------------------------------------------
# C15  presentation options
# ---------------------------------------------------------------------------
def check_C15(ctx):
    r = ctx.rng
    cases = []; groups = []; falses = []; olds = []
    for k in range(ctx.scale(150, 4000)):
        w = gen.world(r, envelope=r.random() < 0.5, fancy=r.choice([0, 0.3]))
        if r.random() < 0.5: w["log"].append(("heading", "2021/02/02"))      # a day without entries
        f = files_of(r, w)
        els = gen.element_names(w) or ["x"]
        g = {}
        sh = r.random() < 0.3
        if sh: g["shorten"] = True
        for tmpl in ("default", "left-aligned", "old"):
            for variant in ("full", "no_totals", "totals_only"):
                for color in (True, False):
                    c = dict(files=f, cmd="reg")
                    if tmpl == "left-aligned": c["template"] = tmpl
                    if tmpl == "old": c["old"] = True
                    if variant != "full": c[variant] = True
                    if not color: c[r.choice(["g_no_color", "l_no_color"])] = True
                    if sh: c["shorten"] = True
                    g[(tmpl, variant, color)] = len(cases); cases.append(c)
        for color in (True, False):
            for desc in (False, True):
                c = dict(files=f, cmd="quantity", desc=desc); c.update({} if color else NOCOLOR); g[("quantity", desc, color)] = len(cases); cases.append(c)
                c = dict(files=f, cmd="element-total", arg=els[0].encode(), desc=desc); c.update({} if color else NOCOLOR); g[("et", desc, color)] = len(cases); cases.append(c)
            for mode in ({}, dict(collapse=True), dict(collapse_last=True)):
                c = dict(files=f, cmd="bal", **mode); c.update({} if color else NOCOLOR); g[("bal", tuple(mode), color)] = len(cases); cases.append(c)
        # presentation flags given with the explicit value false are the same as not given
        ff = r.sample(["no_totals", "totals_only", "shorten", "old", "csv", "l_no_color", "g_no_color"], r.randint(1, 4))
        base_color = {} if ("l_no_color" in ff or "g_no_color" in ff) else NOCOLOR
        falses.append((len(cases), len(cases) + 1)); cases.append(dict(files=f, cmd="reg", false_flags=ff, **base_color)); cases.append(dict(files=f, cmd="reg", **base_color))
        fb = r.sample(["collapse", "collapse_last"], r.randint(1, 2))
        falses.append((len(cases), len(cases) + 1)); cases.append(dict(files=f, cmd="bal", false_flags=fb, **NOCOLOR)); cases.append(dict(files=f, cmd="bal", **NOCOLOR))
        falses.append((len(cases), len(cases) + 1)); cases.append(dict(files=f, cmd="quantity", false_flags=["desc"], **NOCOLOR)); cases.append(dict(files=f, cmd="quantity", **NOCOLOR))
        sel = r.choice([dict(single_element=els[0]), dict(single_element=els[0], group_food=True), dict(single_food=r.choice(["a", "e", "r"]))])
        olds.append((len(cases), len(cases) + 1)); cases.append(dict(files=f, cmd="reg", old=True, **sel, **NOCOLOR)); cases.append(dict(files=f, cmd="reg", **sel, **NOCOLOR))
        groups.append(g)
        ctx.nontriv(f["food.yaml"] + f["log.yaml"])
        if k < 1: ctx.sample(dict(book=f["food.yaml"], log=f["log.yaml"]))
    # names over arbitrary bytes: column padding and shortening count runes (an invalid byte is one rune), the old reporter and the templates must agree
    oddc = []
    for k in range(ctx.scale(60, 1500)):
        f, names, els = odd_names_files(r)
        for extra in (dict(cmd="reg"), dict(cmd="reg", shorten=True), dict(cmd="reg", template="left-aligned"), dict(cmd="reg", old=True), dict(cmd="reg", shorten=True, totals_only=True),
                      dict(cmd="reg", single_element=(els[0] if b"\x00" not in els[0] else b"kcal").decode("utf-8", "surrogateescape")), dict(cmd="reg", single_food="a"), dict(cmd="bal"), dict(cmd="bal", collapse=True),
                      dict(cmd="quantity"), dict(cmd="totals"), dict(cmd="unresolved"), dict(cmd="print"), dict(cmd="summary", arg=b"2021/01/01")):
            c = dict(files=f, **extra); c.update({} if r.random() < 0.3 else NOCOLOR); oddc.append(c)
        ctx.nontriv(f["food.yaml"] + f["log.yaml"])
    odd_res = cli_diff(ctx, oddc, tag="C15:odd-names:")
    # "a shortened name keeps a prefix and suffix of the original within the column width": byte for byte, also when the name is not valid UTF-8
    def go_runes(bs):
        return [ch.encode("utf-8", "surrogateescape") for ch in bs.decode("utf-8", "surrogateescape")]
    for c, i in zip(oddc, odd_res):
        if not (c["cmd"] == "reg" and c.get("shorten") and not c.get("old") and i["status"] == "ok"): continue
        plain = strip_sgr(i["stdout"])
        logged = {l.strip().rsplit(b": ", 1)[0] for l in c["files"]["log.yaml"].split(b"\n") if l.startswith(b"  ")}
        for nm in sorted(logged):
            rs = go_runes(nm)
            if len(rs) <= 27: continue
            delta = 27 // 2 if len(rs) % 2 == 0 else 26 // 2
            want = b"".join(rs[:delta]) + "\u2026".encode() + b"".join(rs[len(rs) - 27 + 1 + delta:])
            if c.get("totals_only"): continue
            if want not in i["stdout"] and strip_sgr(want) not in plain:      # (a name may itself hold an escape sequence: compared before and after stripping)
                valid = all(len(x) > 1 or x[0] < 0x80 for x in rs) and b"\xef\xbf\xbd" not in nm
                key = "C15:shortened-name-not-prefix-and-suffix" + ("" if valid else ":name-not-valid-utf8")
                ctx.violation(key, "the shortened form of the food name %r is not its first %d and last %d characters around an ellipsis (expected %r in the register)" % (nm, delta, 26 - delta, want),
                              dict(kind="cli", case=c, impl=i, name=nm, expected=want)); break
    # amounts that print as 0.00 / -0.00 but are not zero keep the colour of their sign; names that are path-prefixes of others in the balance
    tiny_cases = []
    for k in range(ctx.scale(12, 300)):
        tiny = [r.choice(["0.004", "-0.003", "0.0049", "-0.0049", "0.001", "-0.0001", "0.005", "-0.005", "0", "-0", "1e-9"]) for _ in range(4)]
        f = {"food.yaml": ("mix:\n  kcal: %s\n  fat: %s\n  alcohol%%vol: 2\nmilk/3.5%%/100ml:\n  fat: 3.5\n  100%%: 1\n" % (tiny[0], tiny[1])).encode(),
             "log.yaml": ("2021/01/01:\n  mix: 1\n  trace: %s\n  other: %s\n  coffee: 1\n  coffee/cup: 2\n  tea/green: 1\n  tea: 0.5\n  milk/3.5%%/100ml: 2\n  50%%off: 1\n" % (tiny[2], tiny[3])).encode()}
        for color in (True, False):
            for extra in (dict(cmd="reg"), dict(cmd="reg", template="left-aligned"), dict(cmd="reg", old=True), dict(cmd="summary", arg=b"2021/01/01"),
                          dict(cmd="bal"), dict(cmd="bal", collapse=True), dict(cmd="bal", collapse_last=True)):
                c = dict(files=f, **extra); c.update({} if color else NOCOLOR); cases.append(c)
                if color and extra["cmd"] in ("reg", "summary"): tiny_cases.append((len(cases) - 1, {b"trace": tiny[2], b"other": tiny[3]}))
        ctx.nontriv(f["log.yaml"] + f["food.yaml"])
    # shortening on its own: names longer than the columns
    for k in range(ctx.scale(40, 1000)):
        long1 = gen.name(r, 0.5) + gen.word(r, 25, 45) + r.choice(["é", "ж", "x"]) * r.randint(0, 4)
        f = {"food.yaml": ("%s:\n  %s: 2\n" % (long1, gen.word(r, 21, 30))).encode(), "log.yaml": ("2021/01/01:\n  %s: 1\n" % long1).encode()}
        cases.append(dict(files=f, cmd="reg", shorten=True, **NOCOLOR)); cases.append(dict(files=f, cmd="reg", **NOCOLOR))
    ires = cli_diff(ctx, cases, tag="C15:")
    # colour by the sign of the AMOUNT (known here from the log), not of its two printed decimals: positive red, negative green, zero (also -0) none
    for idx, known in tiny_cases:
        i = ires[idx]
        if i["status"] != "ok": continue
        lines = i["stdout"].split(b"\n")
        if cases[idx]["cmd"] == "summary":      # above the dashes the summary shows the POSITIVE column of the day's totals, below them the foods with their amounts
            cut = [k2 for k2, l in enumerate(lines) if strip_sgr(l).startswith(b"------------")]
            lines = lines[cut[0] + 1:] if cut else []
        for line in lines:
            plain = strip_sgr(line)
            if b"=" in plain or b"TOTAL" in plain: continue
            for nm, lex in known.items():
                if re.search(rb"(^|[\t :])" + nm + rb"($|[\t :])", plain) and len(re.findall(rb"-?\d+\.\d\d", plain)) == 1:
                    v = Fraction(lex); cols = set(re.findall(rb"\x1b\[(3\d)m", line))
                    want = {b"31"} if v > 0 else {b"32"} if v < 0 else set()
                    if cols != want:
                        ctx.violation("C15:colour-by-sign-of-amount", "the amount %s of %r is printed %r with colour %r (positive red 31, negative green 32, zero none)" % (lex, nm, plain.strip()[:60], sorted(cols)),
                                      dict(kind="cli", case=cases[idx], impl=i)); break
    for a, b2 in olds:
        x, y = ires[a], ires[b2]
        if (x["status"], x["stdout"]) != (y["status"], y["stdout"]):
            ctx.violation("C15:old-reporter-changes-the-selection", "reg %s with --use-old-reg-reporter differs from the same selection without it: %r / %r" % (({k2: v for k2, v in cases[a].items() if k2 in ("single_element", "single_food", "group_food")},) + first_diff(x["stdout"], y["stdout"])),
                          dict(kind="cli", case=cases[a], impl=x, other_case=cases[b2], other_impl=y))
    for a, b2 in falses:
        if (ires[a]["status"], ires[a]["stdout"]) != (ires[b2]["status"], ires[b2]["stdout"]):
            ctx.violation("C15:flag-given-as-false:" + cases[a]["cmd"], "%s with %s given as =false differs from the run without them: %r / %r" % ((cases[a]["cmd"], cases[a]["false_flags"]) + first_diff(ires[a]["stdout"], ires[b2]["stdout"])),
                          dict(kind="cli", case=cases[a], impl=ires[a], other_case=cases[b2], other_impl=ires[b2]))
    num_re = re.compile(rb"-?\d+\.\d\d|NaN|[+-]Inf")
    for g in groups:
        def o(key): return ires[g[key]]
        def rep(key, key2=None): return dict(kind="cli", case=cases[g[key]], impl=o(key), other_case=cases[g[key2]] if key2 else None, other_impl=o(key2) if key2 else None)
        for key in [k2 for k2 in g if isinstance(k2, tuple) and k2[-1] is True]:
            plain = key[:-1] + (False,)
            if o(key)["status"] != "ok" or o(plain)["status"] != "ok": continue
            if strip_sgr(o(key)["stdout"]) != o(plain)["stdout"] and b"\x1b" not in o(plain)["stdout"]:
                ctx.violation("C15:colour-changes-text:" + cases[g[key]]["cmd"], "coloured output with the escape codes removed differs from plain output: %r / %r" % first_diff(strip_sgr(o(key)["stdout"]), o(plain)["stdout"]), rep(key, plain))
            for m in re.finditer(rb"(\x1b\[(3\d)m)?( *-?\d+\.\d\d)(\x1b\[0m)?", o(key)["stdout"]) if cases[g[key]]["cmd"] == "reg" else []:
                v = Fraction(m.group(3).decode().strip()); col = m.group(2)
                want = b"31" if v > 0 else b"32" if v < 0 else None
                neg_zero = m.group(3).strip() == b"-0.00"
                if col != want and not (v == 0 and col in (b"31", b"32")) and not neg_zero:
                    ctx.violation("C15:colour-by-sign", "amount %r is coloured %r" % (m.group(3), col), rep(key)); break
        for tmpl in ("default", "left-aligned", "old"):
            full, nt, to = o((tmpl, "full", False)), o((tmpl, "no_totals", False)), o((tmpl, "totals_only", False))
            if not (full["status"] == nt["status"] == to["status"] == "ok") or g.get("shorten"): continue
            # default = per day: date line, body of no-totals, body of totals-only
            def days(out):
                blocks = []; cur = None
                for l in out.split(b"\n")[:-1]:
                    if not l.startswith((b"\t", b" ", b"-")) : cur = [l, []]; blocks.append(cur)
                    elif cur is not None: cur[1].append(l)
                return blocks
            df, dn, dt = days(full["stdout"]), days(nt["stdout"]), days(to["stdout"])
            if [d[0] for d in df] != [d[0] for d in dn] or [d[0] for d in df] != [d[0] for d in dt] or any(a[1] != b2[1] + c2[1] for a, b2, c2 in zip(df, dn, dt)):
                ctx.violation("C15:default-is-not-interleave:" + tmpl, "default register output is not the no-totals and totals-only outputs interleaved per day", rep((tmpl, "full", False), (tmpl, "no_totals", False)))
        # the three renderers show the same numbers in the same order
        seqs = {t: num_re.findall(o((t, "full", False))["stdout"]) for t in ("default", "left-aligned", "old") if o((t, "full", False))["status"] == "ok"}
        if len(seqs) == 3 and not (seqs["default"] == seqs["left-aligned"] == seqs["old"]) and not g.get("shorten"):
            # dates contain no decimals; names may: compare only when no name contains a decimal number
            names_blob = cases[g[("default", "full", False)]]["files"]["log.yaml"] + cases[g[("default", "full", False)]]["files"]["food.yaml"]
            if not re.search(rb"[A-Za-z\x80-\xff/]\S*\d+\.\d\d|\d+\.\d\d\S*[A-Za-z\x80-\xff/]", names_blob):
                ctx.violation("C15:renderers-show-different-numbers", "default / left-aligned / old reporter print different numbers", rep(("default", "full", False), ("old", "full", False)))
        for kind in ("quantity", "et"):
            a, d = o((kind, False, False)), o((kind, True, False))
            if a["status"] == d["status"] == "ok":
                la, ld = [l for l in a["stdout"].split(b"\n") if l], [l for l in d["stdout"].split(b"\n") if l]
                if sorted(la) != sorted(ld):
                    ctx.violation("C15:desc-changes-rows:" + kind, "--desc shows other rows than ascending order", rep((kind, False, False), (kind, True, False)))
                va = [l.split(b"\t")[0] for l in la]; vd = [l.split(b"\t")[0] for l in ld]
                if all(re.fullmatch(rb"-?\d+\.\d\d", v) for v in va):
                    fa, fd = [Fraction(v.decode()) for v in va], [Fraction(v.decode()) for v in vd]
                    if fa != sorted(fa) or fd != sorted(fd, reverse=True):
                        ctx.violation("C15:not-ordered:" + kind, "rows are not in ascending / descending order of the value", rep((kind, False, False), (kind, True, False)))
    # shorten keeps a prefix and a suffix within the column width
    base = len(cases) - 2 * ctx.scale(40, 1000)
    for t in range(base, len(cases), 2):
        s_, p_ = ires[t], ires[t + 1]
        if s_["status"] != "ok" or p_["status"] != "ok": continue
        for ls, lp in zip(s_["stdout"].split(b"\n"), p_["stdout"].split(b"\n")):
            if ls == lp or b" =" in lp: continue
            for width, rx in ((27, rb"^\t(.*?) +: +-?[\d.]+$"), (20, rb"^\t\t *(.*?) +-?[\d.]+$")):
                ms, mp = re.match(rx, ls), re.match(rx, lp)
                if ms and mp:
                    a, full = ms.group(1).decode("utf-8", "replace"), mp.group(1).decode("utf-8", "replace")
                    if "…" not in a or len(a) > width or not full.startswith(a.split("…")[0]) or not full.endswith(a.split("…")[-1]):
                        ctx.violation("C15:shorten", "shortened name %r is not a prefix…suffix of %r within %d columns" % (a, full, width), dict(kind="cli", case=cases[t], impl=s_)); break
    return dict(rule="random worlds x register {default, left-aligned, old} x {full, --no-totals, --totals-only} x {colour, --no-color at global or sub-command level} x --shorten; quantity "
                "and element-total ascending / --desc; balance in three collapse modes; names longer than the columns with --shorten. Every run compared byte for byte with the extracted "
                "Coq model; on the implementation alone: coloured output minus escape codes = plain output, red for > 0, green for < 0; default = no-totals + totals-only interleaved per "
                "day; the three renderers print the same numbers in the same order; --desc shows the same rows in opposite order; a shortened name is prefix + … + suffix within the "
                "column. Non-trivial = every world, distinct by file bytes")

# ---------------------------------------------------------------------------
# C16  settings precedence
# ---------------------------------------------------------------------------
def check_C16(ctx):
    r = ctx.rng
    cases = []; expect = []
    def book(tag): return ("rec:\n  %s: 1\n" % tag).encode()
    def logf(tag): return ("2021/01/02:\n  %s: 1\n" % tag).encode()
    # database path: which file is read shows in csv database; log path: csv log
    srcs = ["flag", "env", "cfg", None]
    cfg_places = ["flag", "env", "default"]
    nsets = ctx.scale(2, 8)
    for vs in range(nsets):
        names = {s: "%s_%d.yaml" % (s or "dflt", vs) for s in ("flag", "env", "cfg")}
        # odd value sets: the value given by flag / environment EQUALS the documented default (it must still win over the configuration file)
        eqd = (vs % 2 == 1)
        if eqd: names["flag"] = None; names["env"] = None
        for combo in itertools.product([False, True], repeat=3):        # (flag given, env given, config entry given)
            for place in cfg_places:
                for setting in ("db", "log", "fmt", "depth", "today"):
                    has = dict(flag=combo[0], env=combo[1], cfg=combo[2])
                    if setting == "today" and has["env"]: continue          # no environment variable for --today
                    files = {}
                    c = dict(cmd=None, **NOCOLOR)
                    cfg = {}
                    if setting == "db":
                        for s in ("flag", "env", "cfg"):
                            if names[s]: files[names[s]] = book("from_" + s)
                        files["food.yaml"] = book("from_default")
                        if has["flag"]: c["f_db"] = names["flag"] or "food.yaml"
                        if has["env"]: c["e_db"] = names["env"] or "food.yaml"
                        if has["cfg"]: cfg["db"] = names["cfg"]
                        c["cmd"] = "csv-db"
                        want = "from_" + (("flag" if names["flag"] else "default") if has["flag"] else ("env" if names["env"] else "default") if has["env"] else "cfg" if has["cfg"] else "default")
                        chk = lambda i, want=want: (want.encode() in i["stdout"], "csv database shows the book %r" % want)
                    elif setting == "log":
                        for s in ("flag", "env", "cfg"):
                            if names[s]: files[names[s]] = logf("from_" + s)
                        files["log.yaml"] = logf("from_default")
                        if has["flag"]: c["f_log"] = names["flag"] or "log.yaml"
                        if has["env"]: c["e_log"] = names["env"] or "log.yaml"
                        if has["cfg"]: cfg["log"] = names["cfg"]
                        c["cmd"] = "csv-log"
                        want = "from_" + (("flag" if names["flag"] else "default") if has["flag"] else ("env" if names["env"] else "default") if has["env"] else "cfg" if has["cfg"] else "default")
                        chk = lambda i, want=want: (want.encode() in i["stdout"], "csv log shows the log %r" % want)
                    elif setting == "fmt":
                        lay = dict(flag="02.01.2006", env="2006-01-02", cfg="01/02/2006") if not eqd else dict(flag="2006/01/02", env="2006/01/02", cfg="01/02/2006")
                        # layouts of other shapes (elements without padding, month names): every layout Go's time package reads is a legitimate value
                        if r.random() < 0.4: lay = dict(flag=r.choice(["2 Jan 2006", "2006-Jan-2"]), env=r.choice(["2.1.2006", "1/2/2006"]), cfg=r.choice(["January 2, 2006", "2006 January 02"]))
                        eff = lay["flag"] if has["flag"] else lay["env"] if has["env"] else lay["cfg"] if has["cfg"] else "2006/01/02"
                        files["log.yaml"] = (gen._fmt(eff, 2021, 3, 4) + ":\n  x: 1\n").encode()      # readable only under the effective layout
                        if has["flag"]: c["f_fmt"] = lay["flag"]
                        if has["env"]: c["e_fmt"] = lay["env"]
                        if has["cfg"]: cfg["fmt"] = lay["cfg"]
                        c["cmd"] = r.choice(["csv-log", "print", "print"])
                        if c["cmd"] == "csv-log": chk = lambda i: (i["status"] == "ok" and b"2021-03-04" in i["stdout"], "the log dated in the effective layout is readable")
                        else: chk = lambda i, eff=eff: (i["status"] == "ok" and gen._fmt(eff, 2021, 3, 4).encode() + b":" in i["stdout"], "print reads and writes the date in the effective layout %s" % eff)
                    elif setting == "depth":
                        dep = dict(flag=3, env=5, cfg=7) if not eqd else dict(flag=10, env=10, cfg=4)
                        eff = dep["flag"] if has["flag"] else dep["env"] if has["env"] else dep["cfg"] if has["cfg"] else 10
                        chain = lambda n: "".join("r%d:\n  r%d: 1\n" % (j, j + 1) for j in range(n)).encode()
                        if has["flag"]: c["f_depth"] = dep["flag"]
                        if has["env"]: c["e_depth"] = dep["env"]
                        if has["cfg"]: cfg["depth"] = dep["cfg"]
                        c["cmd"] = "csv-db-resolved"
                        # a chain of eff-1 references resolves, one of eff references does not
                        files["food.yaml"] = chain(eff - 1)
                        chk = lambda i: (i["status"] == "ok", "a chain one shorter than the effective limit resolves")
                        extra = (chain(eff), lambda i: (i["status"].startswith("fail"), "a chain as long as the effective limit fails"))
                    else:
                        files["log.yaml"] = b"2021/01/02:\n  x: 1\n"
                        files["food.yaml"] = b""
                        eff = None
                        if has["flag"]: c["f_today"] = "2021/01/12"; eff = 10
                        if has["cfg"]:
                            cfg["now"] = (2021, 1, 22) + r.choice([(0, 0), (0, 0), (82800, -18000), (3600, 0), (43200, 32400), (86399, -39600)])      # the configured instant's calendar day counts (fix F25)
                            if eff is None: eff = 20
                        c["cmd"] = "stats" if eff is not None else "csv-log"      # without any source the clock decides: nothing to compare
                        if eff is None: chk = lambda i: (i["status"] == "ok", "the command runs")
                        else: chk = lambda i, eff=eff: (("(%d days ago)" % eff).encode() in i["stdout"], "stats counts %d days from the effective current date" % eff)
                    if has["cfg"] or place != "default":
                        if place == "flag": files["my.cfg"] = {"cfg": cfg}; c["f_config"] = "my.cfg"
                        elif place == "env": files["env.cfg"] = {"cfg": cfg}; c["e_config"] = "env.cfg"
                        else: files["@default-config"] = {"cfg": cfg}
                    elif has["cfg"]: continue
                    if not has["cfg"] and place == "default": pass
                    if not has["cfg"] and place != "default" and cfg == {}:
                        pass     # an explicitly named, existing, empty configuration file
                    c["files"] = files
                    if setting == "today" and eff is None and False: continue
                    cases.append(c); expect.append((setting, has, place, chk))
                    if setting == "depth":
                        longer, chk2 = extra
                        c2 = dict(c, files=dict(c["files"], **{"food.yaml": longer}))
                        cases.append(c2); expect.append((setting, has, place, chk2))
                    ctx.nontriv(json.dumps([setting, combo, place, vs]))
                    ctx.tally("setting", setting)
    for src in ("flag", "env", "cfg", None):
        for place in cfg_places:
            lay = "02.01.2006" if src else "2006/01/02"
            files = {"food.yaml": b"", "log.yaml": (gen._fmt(lay, 2021, 1, 2) + ":\n  x: 1\n").encode()}
            c = dict(cmd="stats", f_today=gen._fmt(lay, 2021, 1, 12), **NOCOLOR)
            cfg = {}
            if src == "flag": c["f_fmt"] = lay
            elif src == "env": c["e_fmt"] = lay
            elif src == "cfg": cfg["fmt"] = lay
            if place == "flag": files["my.cfg"] = {"cfg": cfg}; c["f_config"] = "my.cfg"
            elif place == "env": files["env.cfg"] = {"cfg": cfg}; c["e_config"] = "env.cfg"
            else: files["@default-config"] = {"cfg": cfg}
            c["files"] = files
            cases.append(c); expect.append(("today-in-effective-format", dict(flag=src == "flag", env=src == "env", cfg=src == "cfg"), place,
                                           lambda i: (i["status"] == "ok" and b"(10 days ago)" in i["stdout"], "--today is read in the effective date format and stats counts 10 days")))
            ctx.nontriv(json.dumps(["today-x-fmt", src, place]))
    ctx.sample(dict(setting="db", sources=dict(flag=True, env=True, cfg=True), config_at="HR_CONFIG", argv=run.argv_env(cases[10])[0]))
    for place in ("flag", "env", "default"):
        files = {"food.yaml": b"", "log.yaml": logf("from_default"), "real.yaml": logf("from_cfg"), "real.cfg": {"cfg": {"log": "real.yaml"}}}
        c = dict(cmd="csv-log", **NOCOLOR)
        if place == "flag": files["link.cfg"] = {"symlink": "real.cfg"}; c["f_config"] = "link.cfg"
        elif place == "env": files["link.cfg"] = {"symlink": "real.cfg"}; c["e_config"] = "link.cfg"
        else: continue
        c["files"] = files
        cases.append(c); expect.append(("config-through-symlink", dict(cfg=True), place, lambda i: (b"from_cfg" in i["stdout"], "a configuration file named through a symbolic link is loaded")))
    # explicit configuration file: loaded when it exists, an error when it does not
    f0 = {"food.yaml": b"", "log.yaml": b"2021/01/02:\n  x: 1\n"}
    miss = [dict(files=f0, cmd="csv-log", f_config="nope.cfg", **NOCOLOR), dict(files=f0, cmd="csv-log", e_config="nope.cfg", **NOCOLOR), dict(files=f0, cmd="stats", f_config="nope.cfg", f_today="2021/01/03", **NOCOLOR)]
    for c in miss: cases.append(c); expect.append(("config", None, "missing", lambda i: (i["status"].startswith("fail"), "a named configuration file that does not exist is an error")))
    # a configuration path that is a directory (every way of naming it): an error; an unreadable --today: an error (model: EScan / EBadDate)
    for key in ("f_config", "e_config"):
        for cmd in ("csv-log", "reg", "stats"):
            c = dict(files=dict(f0, **{"cfgdir": "DIR"}), cmd=cmd, **{key: "cfgdir"}, **NOCOLOR)
            cases.append(c); expect.append(("config", None, "directory", lambda i: (i["status"].startswith("fail"), "a configuration path that is a directory is an error")))
    for bad in ("yesterday", "2021-01-03", "03.01.2021", "2021/13/01", "2021/02/30", "", "2021/01/03 "):
        for cmd in ("stats", "csv-log", "reg"):
            c = dict(files=f0, cmd=cmd, f_today=bad, **NOCOLOR)
            cases.append(c); expect.append(("today", None, "unreadable", lambda i: (i["status"].startswith("fail"), "a --today value that is not a date in the effective format is an error")))
    # the configuration file as TEXT (the model parses the same bytes, Model/Config.v): layout variants of a valid file must all load the same values,
    # files with an unknown section / variable, a bad number or date, broken brackets are errors; texts outside the modelled subset need a clean exit only
    def cfg_text(entries, rr):
        lines = []
        def blanks(): return rr.choice(["", "", " ", "\t", "  "])
        def case(x): return rr.choice([x, x, x.lower(), x.upper()])
        for sect, kvs in entries:
            if rr.random() < 0.3: lines.append(rr.choice(["; a comment", "# another", "", "  ; indented"]))
            lines.append(blanks() + "[" + case(sect) + "]" + blanks())
            for k2, v in kvs:
                if rr.random() < 0.2: lines.append(rr.choice(["", "; " + k2 + " = commented out", "#x"]))
                lines.append(blanks() + case(k2) + blanks() + "=" + blanks() + v + blanks())
        return ("\n".join(lines) + "\n").encode()
    for k in range(ctx.scale(80, 1500)):
        logname = r.choice(["alt.yaml", "my log.yaml", "храна.yaml", "a=b.yaml"])
        files = {"food.yaml": b"", "log.yaml": logf("from_default"), logname: logf("from_cfg")}
        kind = r.random()
        ent = [("Global", [("LogFileName", logname)] + ([("DateFormat", "2006/01/02")] if r.random() < 0.3 else [])), ("Resolver", [("MaxDepth", str(r.randint(1, 30)))] if r.random() < 0.5 else [])]
        if kind < 0.55: txt = cfg_text(ent, r); expect_chk = lambda i: (b"from_cfg" in i["stdout"], "a configuration file in any layout (comments, blank lines, blanks around '=', letter case of names) sets the log file")
        elif kind < 0.9:
            bad = r.choice([[("Global", [("LogFile", logname)])], [("Globals", [("LogFileName", logname)])], [("Resolver", [("MaxDepth", "ten")])], [("Global", [("Now", "yesterday")])],
                            [("Global", [("LogFileName", logname)]), ("Resolver", [("MaxDepth", "1.5")])], [("Resolver", [("Depth", "3")])]])
            txt = cfg_text(bad, r); expect_chk = lambda i: (i["status"].startswith("fail"), "a configuration file with an unknown section or variable, or a value its field cannot hold, is an error")
            if r.random() < 0.3: txt = b"[Global\nLogFileName=" + logname.encode() + b"\n"
        else:
            txt = cfg_text(ent, r).replace(logname.encode(), b'"' + logname.encode() + b'"'); expect_chk = None      # quoted value: outside the modelled subset
        files["t.cfg"] = txt
        c = dict(files=files, cmd="csv-log", **NOCOLOR); c[r.choice(["f_config", "e_config"])] = "t.cfg"
        cases.append(c); expect.append(("config-text", None, "text", expect_chk) if expect_chk else None)
        ctx.nontriv(txt); ctx.tally("config_text", "valid layout" if kind < 0.55 else "error" if kind < 0.9 else "outside the subset")
    # --no-database = an empty book, whatever -d / HR_DATABASE / the config say and whether or not food.yaml exists
    nd_pairs = []
    for k in range(ctx.scale(12, 200)):
        w = simple_world(r, envelope=True)
        f = files_of(r, w)
        fe = dict(f, **{"food.yaml": b"", "other.yaml": f["food.yaml"]})
        els = gen.element_names(w) or ["x"]
        for cmd, kw in [("reg", {}), ("bal", dict(single_element=els[0])), ("totals", {}), ("unresolved", {}), ("csv-db", {}), ("csv-db-resolved", {}), ("element-total", dict(arg=els[0].encode())), ("quantity", {}), ("print", {}),
                        ("stats", dict(f_today="2021/02/01")), ("summary", dict(arg=b"2021/01/20")), ("reg", dict(single_element=els[0])), ("csv-log", {})]:
            variant = r.choice(["plain", "with -d", "with env", "no food.yaml"])
            files = dict(f, **{"other.yaml": f["food.yaml"]})
            c1 = dict(files=files, cmd=cmd, no_database=True, **kw, **NOCOLOR)
            if variant == "with -d": c1["f_db"] = "other.yaml"
            if variant == "with env": c1["e_db"] = "other.yaml"
            if variant == "no food.yaml": c1["files"] = {k2: v for k2, v in files.items() if k2 != "food.yaml"}
            c2 = dict(files=fe, cmd=cmd, **kw, **NOCOLOR)
            cases += [c1, c2]; expect += [None, None]; nd_pairs.append((len(cases) - 2, len(cases) - 1, variant))
        ctx.nontriv(f["log.yaml"] + f["food.yaml"])
    # the same text as --maxdepth and as HR_MAXDEPTH means the same limit (also in the spellings of other bases that Go's integer syntax knows: outside the model)
    dchain = "".join("r%d:\n  r%d: 1\n" % (j, j + 1) for j in range(9)).encode()      # 9 references: resolves under a limit of 10 and more, not under 8 or 9
    dcases = []
    for text in ("010", "0x10", "0b1010", "0o12", "12", "9", "0x8", "1_0", "+10", "0"):
        for src in ("f_depth", "e_depth"):
            dc = dict(files={"food.yaml": dchain, "log.yaml": b""}, cmd="csv-db-resolved", raw_argv=(["--maxdepth", text] if src == "f_depth" else []) + ["--no-color", "-d", "food.yaml", "-l", "log.yaml", "csv", "database-resolved"],
                      raw_env=({"HR_MAXDEPTH": text} if src == "e_depth" else {}))
            dcases.append(dc)
    dres = impl_only(ctx, dcases)
    for j in range(0, len(dcases), 2):
        a, b2 = dres[j], dres[j + 1]
        ctx.tally("depth_limit_text", "same" if (a["status"].split(":")[0], a["stdout"]) == (b2["status"].split(":")[0], b2["stdout"]) else "differs")
        if (a["status"].split(":")[0], a["stdout"]) != (b2["status"].split(":")[0], b2["stdout"]):
            ctx.violation("C16:depth-text-read-differently", "the limit %r given as --maxdepth gives %s, given as HR_MAXDEPTH %s" % (dcases[j]["raw_argv"][1], a["status"][:40], b2["status"][:40]), dict(kind="cli", case=dcases[j], impl=a, other_case=dcases[j + 1], other_impl=b2))
    ires = cli_diff(ctx, cases, tag="C16:")
    for c, e, i in zip(cases, expect, ires):
        if e is None: continue
        setting, has, place, chk = e
        ok, what = chk(i)
        if not ok:
            ctx.violation("C16:%s:%s" % (setting, "+".join(k2 for k2, v in (has or {}).items() if v) or "none"), "%s (sources given: %r, configuration file at: %s): expected that %s; got %s %r" % (setting, has, place, what, i["status"][:60], i["stdout"][:120]),
                          dict(kind="cli", case=c, impl=i))
    for a, b2, variant in nd_pairs:
        x, y = ires[a], ires[b2]
        if cases[a]["cmd"] == "stats":       # stats names the book it was given: that line is the one place where the two runs rightly differ
            lx, ly = x["stdout"].split(b"\n"), y["stdout"].split(b"\n")
            if len(lx) == len(ly):     # whatever the label says: a line on which the two runs differ in their last word only, the empty-book run's being the name of its book
                keep = [j for j in range(len(lx)) if not (lx[j] != ly[j] and re.sub(rb"\S*$", b"", lx[j]) == re.sub(rb"\S*$", b"", ly[j]) and ly[j].rstrip().endswith(b"food.yaml"))]
                x, y = dict(x, stdout=b"\n".join(lx[j] for j in keep)), dict(y, stdout=b"\n".join(ly[j] for j in keep))
        if (x["status"], x["stdout"]) != (y["status"], y["stdout"]):
            ctx.violation("C16:no-database:" + cases[a]["cmd"], "--no-database (%s) does not behave as an empty recipe book for %s: %r / %r" % ((variant, cases[a]["cmd"]) + first_diff(x["stdout"], y["stdout"])),
                          dict(kind="cli", case=cases[a], impl=x, empty_book_case=cases[b2], empty_book_impl=y))
    ctx.notes["full_product"] = dict(sources="flag x env x config entry", config_file_at=cfg_places, settings=["db", "log", "fmt", "depth", "today"], value_sets=nsets)
    return dict(rule="for each of the five settings the full product {flag given?} x {environment variable given?} x {configuration entry given?} x {configuration file named by --config / by "
                "HR_CONFIG / at the default location (private mount namespace over the passwd home)} with distinguishable values, observed through a report (which book / log is read, "
                "whether a log dated in the effective layout parses, where the depth limit trips, how many days stats counts from the current date); a named configuration file that does "
                "not exist; --no-database against the same run on an empty book with and without -d / HR_DATABASE / food.yaml. Every run is also compared with the extracted Coq model. "
                "Non-trivial = every (setting, combination, place), distinct", extra=dict(exhaustive=True))

# ---------------------------------------------------------------------------
# C17  failing output sink
# ---------------------------------------------------------------------------
def check_C17(ctx):
    r = ctx.rng
    worlds = []
    small = {"food.yaml": b"bread:\n  kcal: 250\n  fat: 1\ntea:\n  kcal: 2\n", "log.yaml": b"2021/01/21:\n  bread: 2\n  tea: 1\n  water: 3\n2021/01/22:\n  a/b: 1\n  a/c: 2\n"}
    worlds.append(small)
    for k in range(ctx.scale(5, 60)):
        w = simple_world(r, envelope=True, pathy=0.5); worlds.append(files_of(r, w))
    # a report larger than bufio's 4096-byte buffer (flushes happen in the middle of the run)
    big = {"food.yaml": small["food.yaml"], "log.yaml": b"".join(b"2021/01/%02d:\n  bread: %d\n  tea: 1\n  item%d/x: 2\n" % (d % 28 + 1, d, d) for d in range(60))}
    # single lines longer than bufio's buffer: such a write bypasses the buffer when it is empty (the first line of a report, typically)
    longname = b"/".join(b"category%02d" % j for j in range(420)) + b"/a"          # > 4096 bytes, a legal name (lines may have 65535 bytes)
    wide = {"food.yaml": longname + b":\n  kcal: 250\n  " + longname + b"x: 1\n", "log.yaml": b"2021/01/21:\n  " + longname + b": 2\n  tea: 1\n2021/01/22:\n  " + longname + b"x: 1\n"}
    cases = []; full_idx = {}
    bad = b"# notes\n2021/01/21:\n  bread: 2\n  oops\n  tea: x1\n\n2021/01/22:\n  nosep\n  ok: 1\n  worse: 1.2.3\n"
    def forms(f):
        fs = [c for c in all_command_forms(r, f) if not (c["cmd"] == "lint" and c.get("silent"))]
        fb = dict(f, **{"bad.yaml": bad})
        fs.append(dict(files=fb, cmd="lint", arg=b"bad.yaml", **NOCOLOR))
        fs.append(dict(files=fb, cmd="lint", arg=b"bad.yaml", silent=True, **NOCOLOR))
        return fs
    for wi, f in enumerate(worlds + [big, wide]):
        fs = forms(f)
        if f is wide: fs = fs + [dict(fs[0], cmd="reg", single_food="category"), dict(fs[0], cmd="element-total", arg=longname + b"x"), dict(fs[0], cmd="bal", single_element=(longname + b"x").decode())]
        full = run.run_inproc_cases(ctx.impl, [dict(c, sink=None) for c in fs])
        for c, i in zip(fs, full):
            n = len(i["stdout"])
            if f is big or f is wide:
                ks = sorted({0, 1, 4095, 4096, 4097, n - 1, n, n + 1} | {r.randrange(n + 1) for _ in range(ctx.scale(6, 60))} | ({10, 4000, 4200, 5000, 8191, 8192, 8193} if f is wide else set()))
            else:
                ks = range(0, n + 2) if n <= 700 else sorted({r.randrange(n + 2) for _ in range(ctx.scale(40, 300))} | {0, n - 1, n, n + 1})
            if wi > 0 and f is not big and ctx.tier == "quick": ks = sorted(set(list(ks)[::7]) | {n - 1, n})
            for kk in ks:
                if kk < 0: continue
                cases.append(dict(c, sink=kk, _full=n, _fullout=i["stdout"], _fullstatus=i["status"]))
        ctx.nontriv(f["log.yaml"] + f["food.yaml"])
    ctx.sample(dict(world=small, command="reg", sink_offsets="every k in 0..len+1"))
    metas = [(c.pop("_full"), c.pop("_fullout"), c.pop("_fullstatus")) for c in cases]
    ires = cli_diff(ctx, cases, tag="C17:", inproc=True, keyf=lambda c: "corr:C17:" + c["cmd"])
    for c, (n, fullout, fullstatus), i in zip(cases, metas, ires):
        rep = dict(kind="cli", case=c, impl=i, complete_report_length=n)
        if c["sink"] < n and i["status"] == "ok":
            ctx.violation("C17:success-after-lost-output:" + c["cmd"], "%s exits with success although the sink failed at byte %d of a %d-byte report" % (c["cmd"], c["sink"], n), rep)
        if c["sink"] >= n and fullstatus == "ok" and (i["status"] != "ok" or i["stdout"] != fullout):
            ctx.violation("C17:failure-without-loss:" + c["cmd"], "%s: the sink accepts %d >= %d bytes but the run differs from the unlimited one (%s)" % (c["cmd"], c["sink"], n, i["status"]), rep)
        if not fullout.startswith(i["stdout"]):
            ctx.violation("C17:garbled-prefix:" + c["cmd"], "what the sink accepted is not a prefix of the complete report", rep)
    # the real binary: /dev/full and an early-closed pipe
    d0 = build.tempfile.mkdtemp(prefix="hv-c17.", dir="/var/tmp")
    try:
        for path, content in small.items(): open(os.path.join(d0, path), "wb").write(content)
        open(os.path.join(d0, "bad.yaml"), "wb").write(bad)
        gens = [dict(files=small, cmd="gen", raw_argv=["gen", "man"]), dict(files=small, cmd="gen", raw_argv=["gen", "markdown"])]      # outside the model: library output
        # is a private mount namespace with a tmpfs available here? (needs the privileges the default-configuration cases of C16 use as well)
        fullfs = os.path.join(d0, "fullfs"); os.makedirs(fullfs)
        probe = subprocess.run(["unshare", "-m", "sh", "-c", "mount -t tmpfs -o size=64k tmpfs %s || { echo NOMOUNT; exit 0; }; (dd if=/dev/zero of=%s/fill bs=1k count=100 2>/dev/null; echo x > %s/probe) 2>&1; echo rc=$?" % ((run.sh_quote(fullfs),) * 3)],
                               stdout=subprocess.PIPE, stderr=subprocess.STDOUT, env=dict(PATH="/usr/bin:/bin:/usr/sbin:/sbin"))
        if b"NOMOUNT" in probe.stdout or b"rc=0" in probe.stdout or b"rc=" not in probe.stdout: fullfs = None       # not available (or the file system did not fill): the sink is left out, and the evidence says so
        ctx.tally("real_binary_sink", "file-on-a-full-filesystem available" if fullfs else "file-on-a-full-filesystem NOT available")
        for c in forms(small) + gens:
            argv, env = run.argv_env(c)
            for sinkname in ("/dev/full", "closed-pipe", "read-only-descriptor", "file-on-a-full-filesystem"):
                full = subprocess.run([ctx.impl["hr"]] + argv, cwd=d0, env=dict(env, PATH="/usr/bin:/bin", HOME=d0), stdout=subprocess.PIPE, stderr=subprocess.PIPE, timeout=20)
                if full.returncode != 0 or not full.stdout: continue
                if sinkname == "file-on-a-full-filesystem" and not fullfs: continue
                ctx.tally("real_binary_sink", sinkname)
                if sinkname == "/dev/full":
                    with open("/dev/full", "wb") as out:
                        p = subprocess.run([ctx.impl["hr"]] + argv, cwd=d0, env=dict(env, PATH="/usr/bin:/bin", HOME=d0), stdout=out, stderr=subprocess.PIPE, timeout=20)
                elif sinkname == "read-only-descriptor":
                    # standard output is a regular file opened for reading (`1<file`): every write fails with EBADF, an errno that is neither "disk full" nor "broken pipe"
                    ro = os.path.join(d0, "ro.out"); open(ro, "wb").close()
                    fd = os.open(ro, os.O_RDONLY)
                    try: p = subprocess.run([ctx.impl["hr"]] + argv, cwd=d0, env=dict(env, PATH="/usr/bin:/bin", HOME=d0), stdout=fd, stderr=subprocess.PIPE, timeout=20)
                    finally: os.close(fd)
                elif sinkname == "file-on-a-full-filesystem":
                    # a regular file on a file system with no space left (a private tmpfs filled to the last byte): write fails with ENOSPC although the
                    # descriptor is a regular file (fsync on it succeeds)
                    inner = "mount -t tmpfs -o size=64k tmpfs %s && (dd if=/dev/zero of=%s/fill bs=1k count=100 2>/dev/null; : > %s/out; cd %s && exec \"$@\" > %s/out)" % ((run.sh_quote(fullfs),) * 3 + (run.sh_quote(d0), run.sh_quote(fullfs)))
                    p = subprocess.run(["unshare", "-m", "sh", "-c", inner, "sh", ctx.impl["hr"]] + argv, env=dict(env, PATH="/usr/bin:/bin:/usr/sbin:/sbin", HOME=d0), stdout=subprocess.DEVNULL, stderr=subprocess.PIPE, timeout=30)
                else:
                    rd, wr = os.pipe(); os.close(rd)
                    p = subprocess.run([ctx.impl["hr"]] + argv, cwd=d0, env=dict(env, PATH="/usr/bin:/bin", HOME=d0), stdout=wr, stderr=subprocess.PIPE, timeout=20); os.close(wr)
                ctx.count()
                if p.returncode == 0:
                    ctx.violation("C17:real-binary-success-on-%s:%s" % (sinkname, c["cmd"]), "%s exits 0 with standard output on %s" % (" ".join(argv), sinkname), dict(kind="cli", case=c, sink=sinkname, stderr=p.stderr[-300:]))
    finally:
        build.shutil.rmtree(d0, ignore_errors=True)
    return dict(rule="every command form (23) on small worlds with the report written to a sink that accepts k bytes and then fails, for EVERY k in 0..len+1 (first world; a stride of 7 plus "
                "the boundary on the others in the quick tier), a 60-day log whose reports exceed bufio's 4096-byte buffer and a world whose names make single lines longer than that buffer (k around 4096, 8192 and the end, plus random k); in-process with the "
                "production command wiring; bytes accepted and status compared with the extracted Coq model; on the implementation alone: k < length of the complete report => non-zero "
                "status, k >= length => identical to the unlimited run, accepted bytes are a prefix of the complete report; plus /dev/full, a closed pipe, a descriptor opened read-only (EBADF) and a regular file on a full tmpfs (ENOSPC on a regular file) on the real binary (there also gen man / gen markdown). "
                "Non-trivial = every world, distinct by file bytes (each stands for all its (command, k) pairs)", extra=dict(exhaustive_offsets=True))

# ---------------------------------------------------------------------------
# C18  channel parser
# ---------------------------------------------------------------------------
def check_C18(ctx):
    r = ctx.rng
    datas = [b"", b"\n", b"a\n  x 1\n", b"a\n  bad\n", b"a\n  x 1\n  bad\nb\n  y 2\n  worse x\nc\n", b"a\n  x 1\nb\n  y 2", b"  orphan 1\n"]
    for k in range(ctx.scale(300, 6000)):
        it, fn = gen.syntax_items(r, bad=r.choice([0, 0, 0.15, 0.4]), fancy=0.2)
        datas.append(gen.syntax_render(it, fn))
    reqs = []; meta = []
    S = ctx.scale(6, 60)
    for d in datas:
        ctx.nontriv(d)
        for policy in ("stop", "drain"):
            for s in range(S):
                fault = r.randrange(len(d) + 1) if d and r.random() < 0.15 else None
                reqs.append((dict(op="chan", data=d, policy=policy, fault=fault), dict(seed=s * 7919 + 1, jitter=1, chunk=r.choice([None, 1, 5])))); meta.append((d, policy, fault))
    for policy in ("stop", "drain"):
        reqs.append((dict(op="chan", policy=policy, nofile=True), dict(path="/nonexistent/verif-no-such-file")))
        meta.append((None, policy, None))
    # the same Parser value used twice (drain policy: the first run ends with Done received and the producer gone): the second run is like the first
    for d in datas[:7] + r.sample(datas[7:], min(len(datas) - 7, ctx.scale(20, 200))):
        reqs.append((dict(op="chan", data=d, policy="drain", fault=None), dict(reuse=1, seed=11, jitter=1))); meta.append((d, "drain", None)); ctx.tally("schedule", "second use of one Parser")
    # ParseFile on the empty name: a file that cannot be opened (not the current directory)
    for policy in ("stop", "drain"):
        reqs.append((dict(op="chan", policy=policy, nofile=True), dict(path=""))); meta.append((None, policy, None))
    # ParseFile on a named pipe (a journal piped into the program: readable, no size, not a regular file): the records of the bytes delivered, as from a stream
    for d in datas[:7] + r.sample(datas[7:], min(len(datas) - 7, ctx.scale(20, 200))):
        for policy in ("stop", "drain"):
            reqs.append((dict(op="chan", data=d, policy=policy, fault=None), dict(fifo=1, chunk=r.choice([None, 1, 7])))); meta.append((d, policy, None))
            ctx.tally("schedule", "ParseFile on a named pipe")
    mreq = [run.req(**a) for a, _ in reqs]
    ireq = [run.req(**{k2: v for k2, v in dict(a, **b2).items() if k2 != "nofile"}) for a, b2 in reqs]
    mres = run.run_model(mreq)
    ires = run.run_pub(ctx.impl, ireq, race=True)
    # slow consumers: they come back to the receive loop long after the producer is ready (hundreds of milliseconds)
    slow = [(d, policy) for d in datas[2:6] for policy in ("stop", "drain")]
    sres = run.run_pub(ctx.impl, [run.req(op="chan", data=d, policy=policy, pause=300) for d, policy in slow], race=True)
    smod = run.run_model([run.req(op="chan", data=d, policy=policy) for d, policy in slow])
    for (d, policy), m, i in zip(slow, smod, sres):
        ctx.count(); ctx.traces += 1; ctx.tally("schedule", "slow consumer")
        if i != m:
            ctx.violation("C18:slow-consumer:" + policy, "a consumer that returns to its receive loop after 300 ms observed %r, the callback parser's result is %r" % first_diff(m, i),
                          dict(kind="chan", data=d, policy=policy, pause=300, model=m, impl=i))
    # other parser configurations: the channel parser against the callback parser of the SAME implementation (no model in between)
    for cc in (0, ord(";"), ord("-")):
        sub = datas[:7] + datas[7::max(1, len(datas) // 40)]
        pres = run.run_pub(ctx.impl, [run.req(op="parse", data=d, cc=cc) for d in sub])
        for policy, entry in (("stop", "stream"), ("drain", "stream"), ("stop", "file"), ("drain", "file")):
            # both entry points of the channel parser: ParseStream on a reader, ParseFile on a path (here a named pipe) - the configuration given to NewParser holds for both
            cres = run.run_pub(ctx.impl, [run.req(op="chan", data=d, policy=policy, cc=cc, seed=3, jitter=1, fifo=(1 if entry == "file" else None)) for d in (sub if entry == "stream" else sub[:max(8, len(sub) // 4)])], race=True)
            for d, pr, cr in zip(sub, pres, cres):
                ctx.count(); ctx.tally("comment_char", cc); ctx.tally("entry_point_with_other_comment_char", entry)
                pl = pr.split(b"\n"); evs, ret = pl[:-1], pl[-1]
                want = []
                for e in evs:
                    want.append(e)
                    if e.startswith(b"E "): break
                else:
                    if ret != b"R ok": want.append(b"E scan:" + ret[2:])
                ended_in_error = bool(want) and want[-1].startswith(b"E ")
                if policy == "stop": want = want + ([] if ended_in_error else [b"D"])
                else: want = want + [b"D", b"X exited"]
                if cr.split(b"\n") != want:
                    ctx.violation("C18:config:" + policy, "with comment character %d the %s consumer observed %r, the callback parser reports %r" % ((cc, policy) + first_diff(b"\n".join(want), cr)),
                                  dict(kind="chan", data=d, policy=policy, cc=cc, callback_parser=pr, impl=cr))
    ctx.sample(dict(input=datas[4], policies=["stop", "drain"], schedules=S))
    for (d, policy, fault), m, i in zip(meta, mres, ires):
        ctx.count(); ctx.traces += 1
        ctx.tally("policy", policy)
        rep = dict(kind="chan", data=d if d is not None else b"", policy=policy, fault=fault, model=m, impl=i, jitter=1)
        if b"DATA RACE" in i or i.startswith(b"PANIC"):
            ctx.violation("C18:race-or-panic", "race detector / panic: %r" % i[:300], rep); continue
        if i != m:
            lines = i.split(b"\n")
            key = "C18:differs-from-model:" + policy
            if b"T timeout" in lines: key = "C18:consumer-hangs:" + policy      # (also ParseFile on a path that cannot be opened: completion follows the error since fix F23)
            elif policy == "drain" and lines.count(next((l for l in lines if l.startswith(b"E ")), b"?")) > 1: key = "C18:error-seen-twice"
            elif policy == "drain" and b"X alive" in lines: key = "C18:producer-does-not-exit"
            ctx.violation(key, "consumer (%s) observed %r, the callback parser's result is %r" % ((policy,) + first_diff(m, i)), rep)
    return dict(rule="inputs (valid, one error, several errors, empty, unterminated, plus random abstract files with malformed lines; 15%% with a reader failing at a random offset; an unreadable "
                "path through ParseFile) x both consumer policies (documented loop / drain until Done) x %d schedules each (random yields and sleeps on both sides, 1- and 5-byte reads), "
                "under the race detector; the sequence received, termination, and the producer goroutine's exit compared with what the Coq LTS's specification prescribes (run_consumer = spec, "
                "proved for every schedule). Non-trivial = every input, distinct by bytes" % S)
