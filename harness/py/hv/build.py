"""Builds the implementation under test from /repo's current working tree (a
scratch copy outside /repo and /verif, removed afterwards) and makes sure the
Coq development and the extracted model driver are built."""
import hashlib, os, shutil, subprocess, sys, tempfile, time

VERIF = os.environ.get("VERIF_ROOT") or os.path.abspath(os.path.join(os.path.dirname(os.path.abspath(__file__)), "..", "..", ".."))
REPO = os.environ.get("VERIF_REPO", "/repo")
CACHE = os.path.join(VERIF, ".cache")
GOENV = dict(os.environ, GOPROXY="off", GOSUMDB="off", GOTOOLCHAIN="local", GOFLAGS="", CGO_ENABLED=os.environ.get("CGO_ENABLED", "1"))

COVERPKG = "github.com/aquilax/hranoprovod-cli/..."

def coverage_report(covdir, anchored):
    """statement coverage of the anchored source files reached by the runs that wrote into covdir (go tool covdata)"""
    if not os.path.isdir(covdir) or not os.listdir(covdir): return None
    out = os.path.join(covdir, "cover.txt")
    p = subprocess.run(["go", "tool", "covdata", "textfmt", "-i=" + covdir, "-o=" + out], env=GOENV, stdout=subprocess.PIPE, stderr=subprocess.STDOUT)
    if p.returncode != 0 or not os.path.exists(out): return dict(error=p.stdout.decode(errors="replace")[-300:])
    per = {}
    for line in open(out):
        if line.startswith("mode:"): continue
        try:
            loc, n, cnt = line.rsplit(" ", 2)
            f = loc.split(":")[0]
        except ValueError: continue
        f = f.replace("github.com/aquilax/hranoprovod-cli/cmd/hranoprovod-cli/v3/", "cmd/hranoprovod-cli/").replace("github.com/aquilax/hranoprovod-cli/v3/", "")
        t = per.setdefault(f, [0, 0]); t[0] += int(n); t[1] += int(n) if int(cnt) > 0 else 0
    res = {}
    for f in anchored:
        if f in per: res[f] = "%d/%d statements (%.0f%%)" % (per[f][1], per[f][0], 100.0 * per[f][1] / max(1, per[f][0]))
        elif f.endswith(".go"): res[f] = "not reached (or not a compiled Go file of the binaries run)"
    return res

def tree_hash(repo=REPO):
    h = hashlib.sha256()
    for root, dirs, files in os.walk(repo):
        dirs[:] = sorted(d for d in dirs if d != ".git")
        for f in sorted(files):
            if f.endswith((".go", ".mod", ".sum", ".work")) or "testAssets" in root:
                p = os.path.join(root, f)
                h.update(os.path.relpath(p, repo).encode()); h.update(b"\0")
                with open(p, "rb") as fh: h.update(fh.read())
                h.update(b"\0")
    for root, dirs, files in os.walk(os.path.join(VERIF, "harness", "go")):
        for f in sorted(files):
            with open(os.path.join(root, f), "rb") as fh: h.update(fh.read())
    return h.hexdigest()[:20]

def build_impl(race=False, verbose=False):
    """returns dict(hr=..., hr_verif=..., pub=..., [pub_race=...], hash=...)"""
    th = tree_hash()
    d = os.path.join(CACHE, "impl", th)
    want = ["hr", "hr_verif", "pub", "hr_cover"] + (["pub_race"] if race else [])
    if all(os.path.exists(os.path.join(d, w)) for w in want):
        return dict({w: os.path.join(d, w) for w in want}, hash=th, cached=True)
    os.makedirs(d, exist_ok=True)
    # keep only the latest build
    for other in os.listdir(os.path.join(CACHE, "impl")):
        if other != th:
            shutil.rmtree(os.path.join(CACHE, "impl", other), ignore_errors=True)
    scratch = tempfile.mkdtemp(prefix="hv-build.", dir="/var/tmp")
    try:
        subprocess.run(["rsync", "-a", "--exclude", ".git", REPO + "/", scratch + "/"], check=True)
        hg = os.path.join(VERIF, "harness", "go")
        shutil.copy(os.path.join(hg, "cli", "verif_harness.go"), os.path.join(scratch, "cmd/hranoprovod-cli/verif_harness.go"))
        shutil.copy(os.path.join(hg, "lint", "verif_export.go"), os.path.join(scratch, "cmd/hranoprovod-cli/internal/lint/verif_export.go"))
        os.makedirs(os.path.join(scratch, "verifpub"), exist_ok=True)
        shutil.copy(os.path.join(hg, "pub", "main.go"), os.path.join(scratch, "verifpub/main.go"))
        jobs = [
            ("hr", ["go", "build", "-o", os.path.join(d, "hr"), "."], "cmd/hranoprovod-cli"),
            ("hr_verif", ["go", "build", "-cover", "-coverpkg=" + COVERPKG, "-tags", "verif", "-o", os.path.join(d, "hr_verif"), "."], "cmd/hranoprovod-cli"),
            ("pub", ["go", "build", "-cover", "-coverpkg=" + COVERPKG, "-tags", "verif", "-o", os.path.join(d, "pub"), "./verifpub"], "."),
            ("hr_cover", ["go", "build", "-cover", "-coverpkg=" + COVERPKG, "-o", os.path.join(d, "hr_cover"), "."], "cmd/hranoprovod-cli"),
        ]
        if race:
            jobs.append(("pub_race", ["go", "build", "-race", "-tags", "verif", "-o", os.path.join(d, "pub_race"), "./verifpub"], "."))
        procs = []
        for name, cmd, cwd in jobs:
            if os.path.exists(os.path.join(d, name)): continue
            procs.append((name, subprocess.Popen(cmd, cwd=os.path.join(scratch, cwd), env=GOENV, stdout=subprocess.PIPE, stderr=subprocess.STDOUT)))
        errs = []
        for name, p in procs:
            out, _ = p.communicate()
            if p.returncode != 0:
                errs.append((name, out.decode(errors="replace")))
        if errs:
            shutil.rmtree(d, ignore_errors=True)
            raise BuildError(errs)
    finally:
        shutil.rmtree(scratch, ignore_errors=True)
    return dict({w: os.path.join(d, w) for w in want}, hash=th, cached=False)

class BuildError(Exception):
    def __init__(self, errs):
        self.errs = errs
        super().__init__("build of the implementation failed: " + "; ".join(f"{n}: {o[:2000]}" for n, o in errs))

MODEL = os.path.join(VERIF, "coq", "extraction", "model")

def coq_sources():
    """the files the registered build depends on: what _CoqProject lists, the extraction inputs, setup.sh"""
    coq = os.path.join(VERIF, "coq")
    out = [os.path.join(coq, "_CoqProject"), os.path.join(coq, "extraction", "main.ml"), os.path.join(coq, "extraction", "Extract.v"),
           os.path.join(coq, "extraction", "build.sh"), os.path.join(VERIF, "setup.sh")]
    for line in open(os.path.join(coq, "_CoqProject")):
        line = line.strip()
        if line.endswith(".v"): out.append(os.path.join(coq, line))
    return sorted(p for p in out if os.path.exists(p))

def coq_hash():
    h = hashlib.sha256()
    for p in coq_sources():
        h.update(p.encode()); h.update(open(p, "rb").read())
    return h.hexdigest()[:20]

def ensure_coq(clean=False, timeout=3000):
    """(re)builds the Coq development and the model driver when sources changed.
    Returns dict(ok=bool, log=str, rebuilt=bool, seconds=float)."""
    stamp = os.path.join(CACHE, "coq.stamp")
    hh = coq_hash()
    if not clean and os.path.exists(stamp) and open(stamp).read().strip() == hh and os.path.exists(MODEL):
        return dict(ok=True, log="up to date", rebuilt=False, seconds=0.0)
    t0 = time.time()
    os.makedirs(CACHE, exist_ok=True)
    cmd = [os.path.join(VERIF, "setup.sh")] + (["--clean"] if clean else [])
    p = subprocess.run(cmd, stdout=subprocess.PIPE, stderr=subprocess.STDOUT, timeout=timeout)
    log = p.stdout.decode(errors="replace")
    ok = p.returncode == 0 and os.path.exists(MODEL)
    if ok:
        open(stamp, "w").write(hh)
    elif os.path.exists(stamp):
        os.remove(stamp)
    return dict(ok=ok, log=log, rebuilt=True, seconds=time.time() - t0)

def coqchk(pid, timeout=5400):
    """independent re-check (coqchk) of the compiled property files and everything they depend on (thorough tier);
    cached per state of the sources"""
    import glob, json, re
    mods = sorted("HP.Props." + os.path.basename(f)[:-3] for f in glob.glob(os.path.join(VERIF, "coq", "theories", "Props", pid + "*.vo"))
                  if re.fullmatch(re.escape(pid) + r"(_\w+)?\.vo", os.path.basename(f)))
    if not mods: return dict(ran=False, why="no compiled Props/%s*.vo" % pid)
    cache = os.path.join(CACHE, "coqchk-%s-%s.json" % (pid, coq_hash()))
    if os.path.exists(cache): return json.load(open(cache))
    t0 = time.time()
    try:
        p = subprocess.run(["coqchk", "-silent", "-o", "-Q", "theories", "HP"] + mods, cwd=os.path.join(VERIF, "coq"),
                           stdout=subprocess.PIPE, stderr=subprocess.STDOUT, timeout=timeout)
        out = p.stdout.decode(errors="replace"); ok = p.returncode == 0
    except subprocess.TimeoutExpired:
        out = "coqchk did not finish within %d s" % timeout; ok = None
    res = dict(ran=True, ok=ok, modules=mods, seconds=round(time.time() - t0, 1), output_tail=out[-3000:])
    os.makedirs(CACHE, exist_ok=True)
    json.dump(res, open(cache, "w"))
    return res

def clean_build_done():
    """a from-clean build of exactly these sources has already succeeded (thorough tier does one per state of the sources)"""
    f = os.path.join(CACHE, "coq.clean")
    return os.path.exists(f) and open(f).read().strip() == coq_hash()

def mark_clean_build():
    open(os.path.join(CACHE, "coq.clean"), "w").write(coq_hash())

GOLDEN_PROPS = {"balance": ["C03"], "csv": ["C13"], "print": ["C14"], "summary": ["C02", "C07"], "register": ["C02"], "report": ["C07"]}

def golden():
    """T3: the repository's own expected-output files, checked against the model inside Coq (vm_compute); regenerated from
    /repo on every run. Returns dict(results={asset: bool}, ok=bool, log=str)."""
    import re, importlib.util
    spec = importlib.util.spec_from_file_location("gen_golden", os.path.join(VERIF, "tools", "gen_golden.py"))
    gg = importlib.util.module_from_spec(spec); spec.loader.exec_module(gg)
    out = os.path.join(VERIF, "coq", "theories", "Gen", "Golden.v")
    os.makedirs(os.path.dirname(out), exist_ok=True)
    gg.main(out)
    h = hashlib.sha256(open(out, "rb").read() + coq_hash().encode()).hexdigest()[:20]
    cache = os.path.join(CACHE, "golden-%s.json" % h)
    import json
    if os.path.exists(cache): return json.load(open(cache))
    p = subprocess.run(["coqc", "-Q", "theories", "HP", "-w", "-notation-overridden", "theories/Gen/Golden.v"], cwd=os.path.join(VERIF, "coq"),
                       stdout=subprocess.PIPE, stderr=subprocess.STDOUT, timeout=900)
    txt = p.stdout.decode(errors="replace")
    vals = re.findall(r"=\s*(true|false)\s*:\s*bool", txt)
    names = [a for a, _, _ in gg.CASES if os.path.exists(os.path.join(gg.ASSETS, a))]
    res = dict(results={a: (v == "true") for a, v in zip(names, vals)}, ok=(p.returncode == 0 and len(vals) == len(names)), log=txt[-1500:] if p.returncode else "")
    for f in os.listdir(CACHE):
        if f.startswith("golden-"): os.remove(os.path.join(CACHE, f))
    json.dump(res, open(cache, "w"))
    return res


def source_facts():
    """T2: constants read from the Go sources, compared with the model's inside Coq. Returns dict(results={name: bool}, missing=[...], props={name: [...]})."""
    import re, importlib.util, json
    spec = importlib.util.spec_from_file_location("gen_sourcefacts", os.path.join(VERIF, "tools", "gen_sourcefacts.py"))
    gs = importlib.util.module_from_spec(spec); spec.loader.exec_module(gs)
    out = os.path.join(VERIF, "coq", "theories", "Gen", "SourceFacts.v")
    os.makedirs(os.path.dirname(out), exist_ok=True)
    found = gs.main(out)
    h = hashlib.sha256(open(out, "rb").read() + coq_hash().encode()).hexdigest()[:20]
    cache = os.path.join(CACHE, "facts-%s.json" % h)
    if os.path.exists(cache): return json.load(open(cache))
    p = subprocess.run(["coqc", "-Q", "theories", "HP", "-w", "-notation-overridden", "theories/Gen/SourceFacts.v"], cwd=os.path.join(VERIF, "coq"),
                       stdout=subprocess.PIPE, stderr=subprocess.STDOUT, timeout=600)
    vals = re.findall(r"=\s*(true|false)\s*:\s*bool", p.stdout.decode(errors="replace"))
    res = dict(results={n: (v == "true") for n, v in zip(found, vals)}, missing=[f[0] for f in gs.FACTS if f[0] not in found],
               props={f[0]: f[3] for f in gs.FACTS}, ok=(p.returncode == 0 and len(vals) == len(found)))
    for f in os.listdir(CACHE):
        if f.startswith("facts-"): os.remove(os.path.join(CACHE, f))
    json.dump(res, open(cache, "w"))
    return res


def templates():
    """T4: the three text/template constants read from the Go sources, parsed by the model's template parser inside Coq and compared with the syntax
    trees the theorems of Props/C15_templates.v are about (exec_default / exec_left / exec_summary: their evaluation IS the model's renderer).
    Returns dict(results={name: bool}, missing=[...], props={name: [...]}, ok=bool)."""
    import re, importlib.util, json
    spec = importlib.util.spec_from_file_location("gen_templates", os.path.join(VERIF, "tools", "gen_templates.py"))
    gt = importlib.util.module_from_spec(spec); spec.loader.exec_module(gt)
    out = os.path.join(VERIF, "coq", "theories", "Gen", "Templates.v")
    os.makedirs(os.path.dirname(out), exist_ok=True)
    found = gt.main(out)
    h = hashlib.sha256(open(out, "rb").read() + coq_hash().encode()).hexdigest()[:20]
    cache = os.path.join(CACHE, "templates-%s.json" % h)
    if os.path.exists(cache): return json.load(open(cache))
    p = subprocess.run(["coqc", "-Q", "theories", "HP", "-w", "-notation-overridden", "theories/Gen/Templates.v"], cwd=os.path.join(VERIF, "coq"),
                       stdout=subprocess.PIPE, stderr=subprocess.STDOUT, timeout=600)
    vals = re.findall(r"=\s*(true|false)\s*:\s*bool", p.stdout.decode(errors="replace"))
    res = dict(results={n: (v == "true") for n, v in zip(found, vals)}, missing=list(gt.main.missing),
               props={f[0]: f[3] for f in gt.FACTS}, ok=(p.returncode == 0 and len(vals) == len(found)))
    for f in os.listdir(CACHE):
        if f.startswith("templates-"): os.remove(os.path.join(CACHE, f))
    json.dump(res, open(cache, "w"))
    return res
