import json, os, sys, time, traceback
from . import build, run, core, props

ASSUME = {
 "default": ["the hand-written model is the code: tied by the correspondence streams of this run only (inputs generated here); a behaviour no generated case reaches can differ unnoticed",
             "Go runtime / library behaviour is modelled, not verified (see trusted_base)"],
}

def main(argv):
    if len(argv) == 2 and argv[0] == "replay":
        return replay(argv[1])
    if len(argv) != 2 or argv[0] not in ("quick", "thorough") or not hasattr(props, "check_" + argv[1]):
        print(__doc__ or "usage: check {quick|thorough} Cxx | check replay <file>"); return 2
    tier = os.environ.get("VERIF_TIER", argv[0]); pid = argv[1]
    if tier not in ("quick", "thorough"): tier = argv[0]
    seed = int(os.environ.get("VERIF_SEED", "1") or 1)
    ctx = core.Ctx(pid, tier, seed)
    # 1. the proof side: the development must build (every proof re-checked when sources changed; thorough: from clean)
    want_clean = tier == "thorough" and os.environ.get("VERIF_NO_CLEAN") is None and not build.clean_build_done()
    coq = build.ensure_coq(clean=want_clean)
    if want_clean and coq["ok"]: build.mark_clean_build()
    proof = core.proof_evidence(pid, coq["ok"], coq["log"])
    ctx.notes["coq_build"] = dict(rebuilt=coq["rebuilt"], seconds=round(coq["seconds"], 1), ok=coq["ok"])
    if tier == "thorough" and coq["ok"]:
        ctx.notes["coqchk"] = build.coqchk(pid)
        if ctx.notes["coqchk"].get("ran") and ctx.notes["coqchk"].get("ok") is False:
            ctx.violation("coqchk", "coqchk rejects the compiled development: %s" % ctx.notes["coqchk"]["output_tail"][-300:], dict(kind="proof", coqchk=ctx.notes["coqchk"]), found_input=False)
    if coq["ok"]:
        try:
            g = build.golden()
            ctx.notes["golden_assets_checked_in_coq"] = g["results"] if g["ok"] else dict(error=g["log"][-500:])
            for asset, ok in (g["results"] if g["ok"] else {}).items():
                if not ok and pid in build.GOLDEN_PROPS.get(asset.split("-")[0].split(".")[0], []):
                    ctx.violation("golden:" + asset, "the repository's expected output %s is not what the model computes (Gen/Golden.v, evaluated by Coq)" % asset,
                                  dict(kind="golden", asset=asset), found_input=False)
        except Exception as e:
            ctx.notes["golden_assets_checked_in_coq"] = dict(error=repr(e))
        try:
            sf = build.source_facts()
            ctx.notes["source_constants_vs_model"] = dict(equal=sorted(n for n, v in sf["results"].items() if v), differ=sorted(n for n, v in sf["results"].items() if not v), not_found=sf["missing"])
            ctx.changed_constants = [n for n, v in sf["results"].items() if not v and pid in sf["props"].get(n, [])]
        except Exception as e:
            ctx.notes["source_constants_vs_model"] = dict(error=repr(e))
        try:
            tp = build.templates()
            ctx.notes["template_texts_parsed_in_coq"] = dict(equal_to_the_model_ast=sorted(n for n, v in tp["results"].items() if v), differ=sorted(n for n, v in tp["results"].items() if not v), not_found=tp["missing"])
            ctx.changed_templates = [n for n, v in tp["results"].items() if not v and pid in tp["props"].get(n, [])]
        except Exception as e:
            ctx.notes["template_texts_parsed_in_coq"] = dict(error=repr(e))
    rule = dict(rule="")
    # 2. the implementation, built from /repo's current working tree
    try:
        ctx.impl = build.build_impl(race=(pid == "C18"))
    except build.BuildError as e:
        print("the implementation does not build:", str(e)[:3000])
        ctx.violation("build", "the working tree does not build", dict(kind="build", log=str(e)[:5000]), found_input=False)
        return ctx.finish(proof, "none: build failed", ASSUME["default"])
    # 3. correspondence + property-level checks (the harness binaries and a sample of the real-binary runs write Go coverage counters)
    import tempfile, shutil
    covdir = tempfile.mkdtemp(prefix="hv-cov.", dir="/var/tmp")
    run.COVDIR = covdir
    if coq["ok"]:
        try:
            rule = getattr(props, "check_" + pid)(ctx) or rule
        except Exception as e:
            traceback.print_exc()
            ctx.violation("harness-error", "the check itself failed: %r" % (e,), dict(kind="harness", trace=traceback.format_exc()), found_input=False)
    try:
        anchored = [a for a in core.anchored_files(pid)]
        cov = build.coverage_report(covdir, anchored)
        if cov is not None: ctx.notes["go_statement_coverage_of_anchored_files"] = cov
    except Exception as e:
        ctx.notes["go_statement_coverage_of_anchored_files"] = dict(error=repr(e))
    finally:
        run.COVDIR = None; shutil.rmtree(covdir, ignore_errors=True)
    if getattr(ctx, "changed_constants", None) and not ctx.violations:
        # a constant the theorems of this property are stated about no longer has the value the model (and hence the proofs) use,
        # and the correspondence above found no input on which the behaviour differs
        ctx.violation("constant-changed:" + ",".join(ctx.changed_constants), "source constant(s) %s differ from the model's: the theorems are about other values" % ctx.changed_constants,
                      dict(kind="constants", constants=ctx.changed_constants), found_input=False)
    if getattr(ctx, "changed_templates", None) and not ctx.violations:
        # the text of a template no longer parses to the syntax tree whose evaluation is proved equal to the model's renderer (template_tie*), and the
        # correspondence above found no input on which the printed register differs
        ctx.violation("template-changed:" + ",".join(ctx.changed_templates), "template text(s) %s no longer parse to the syntax tree the renderer theorems are about" % ctx.changed_templates,
                      dict(kind="templates", templates=ctx.changed_templates, theorem="Props/C15_templates.v: template_tie / template_tie_left / template_tie_summary"), found_input=False)
    if not coq["ok"] or (proof["obligations"] and proof["discharged"] != proof["obligations"]):
        # a proof obligation no longer checks: the property is no longer shown to hold. The property-level checks above were the
        # search for a failing input; if they found none, say so.
        if not ctx.violations:
            ctx.violation("proof-broken", "the Coq development no longer checks (%s)" % proof["status"][:300],
                          dict(kind="proof", status=proof["status"], log=coq["log"][-4000:]), found_input=False)
    return ctx.finish(proof, rule.get("rule", ""), ASSUME["default"] + rule.get("assumptions", []), rule.get("extra"))

def replay(path):
    rep = json.load(open(path))
    kind = rep.get("kind")
    impl = build.build_impl(race=(rep.get("property") == "C18"))
    build.ensure_coq()
    print("property:", rep.get("property"), "key:", rep.get("key")); print("summary:", rep.get("summary"))
    if kind == "cli":
        case = core.case_from_json(rep["case"])
        m = run.run_model([run.model_request(case)])[0]
        i = run.run_inproc_cases(impl, [case])[0] if case.get("sink") is not None else run.run_cli_cases(impl, [case])[0]
        argv, env = run.argv_env(case)
        print("argv:", argv, "env:", env)
        for p, c in case.get("files", {}).items(): print("--- file", p); print(c if not isinstance(c, bytes) else c.decode("utf-8", "replace"))
        mst, mout = run.parse_model_outcome(m)
        print("=== model:", mst); print(mout.decode("utf-8", "replace"))
        print("=== implementation:", i["status"], i.get("raw_err", "")); print(i["stdout"].decode("utf-8", "replace"))
        d = run.compare_cli(m, i, case)
        print("=== agree" if d is None else "=== DIFFER: " + d)
        return 0 if d is None else 1
    if kind in ("resolve", "parse", "chan"):
        data = core.unjson(rep["book"] if "book" in rep else rep.get("data"))
        if isinstance(data, str): data = data.encode()
        kw = dict(op=kind, data=data)
        for k in ("depth", "repeat", "fault", "chunk", "policy", "seed", "jitter"):
            if rep.get(k) is not None: kw[k] = rep[k]
        i = run.run_pub(impl, [run.req(**kw)])[0]
        kw.pop("repeat", None); kw.pop("chunk", None); kw.pop("seed", None); kw.pop("jitter", None)
        m = run.run_model([run.req(**kw)])[0]
        print("--- input"); print(data.decode("utf-8", "replace"))
        print("=== model"); print(m.decode()); print("=== implementation"); print(i.decode())
        print("=== agree" if i == m else "=== DIFFER")
        return 0 if i == m else 1
    print(json.dumps(rep, indent=1)[:5000])
    return 1
