"""Per-property checks: generators, correspondence (model vs implementation on projected observables) and
property-level relations evaluated on the implementation's own outputs."""
import csv as pycsv, io, itertools, json, os, re, subprocess, tempfile, shutil
from fractions import Fraction
from . import build, run, gen
from .core import Ctx

NOCOLOR = dict(g_no_color=True)

def files_of(r, w):
    return {"food.yaml": gen.render_items(r, w["book"]), "log.yaml": gen.render_items(r, w["log"])}

def short(case):
    return {k: v for k, v in case.items() if k != "files"}

# ---------------------------------------------------------------------------
# generic differential run of command-line cases
# ---------------------------------------------------------------------------
def ws_norm(out):
    """projection: lines with runs of blanks collapsed (insensitive to column widths / padding)"""
    return b"\n".join(re.sub(rb"[ \t]+", b" ", l).strip() for l in out.split(b"\n"))

PIPE_CMDS = ("print", "csv-log", "csv-db", "csv-db-resolved", "reg", "bal", "quantity", "totals", "unresolved", "summary", "element-total", "stats")     # each opens each of its files once

def cli_diff(ctx, cases, project=None, tag="", inproc=False, keyf=None, pipe_frac=0.0):
    """runs the cases through the model and the implementation; records a violation for each class of mismatch.
    Returns the implementation results.  pipe_frac: that fraction of the real-binary cases gets its log and / or its book through a named pipe
    (readable, no size, not a regular file, delivered in pieces) - the model sees the same bytes."""
    if not cases: return []
    # a third of the cases in another spelling of the same command line (the model parses the vector: Model/Argv.v)
    for c in cases:
        if c.get("raw_argv") is None and "spell" not in c and ctx.rng.random() < 0.3:
            c["spell"] = ctx.rng.randrange(1 << 30); ctx.tally("command_line_spelling", "varied")
    if pipe_frac and not inproc:
        for c in cases:
            if c.get("fifo") or c.get("sink") is not None or c["cmd"] not in PIPE_CMDS or ctx.rng.random() >= pipe_frac: continue
            names = [n for n in ("log.yaml", "food.yaml") if isinstance(c.get("files", {}).get(n), (bytes, bytearray))]
            if not names: continue
            c["fifo"] = ctx.rng.choice([names, names[:1], names[-1:]]); c["fifo_piece"] = ctx.rng.choice([None, None, 1, 2, 5, 4096])
            ctx.tally("delivery", "named pipe: " + "+".join(c["fifo"]) + (" in pieces of %d" % c["fifo_piece"] if c["fifo_piece"] else ""))
    mres = run.run_model([run.model_request(c) for c in cases])
    ires = run.run_inproc_cases(ctx.impl, cases) if inproc else run.run_cli_cases(ctx.impl, cases)
    for c, m, i in zip(cases, mres, ires):
        ctx.count()
        mst, mout = run.parse_model_outcome(m)
        if run.framework_intercepts(c): mst = "fail:unmodelled:help-alias"
        if mst.startswith("fail:unmodelled"):
            ctx.tally("model", "unmodelled")
            if i["status"].startswith("crash") or i["status"] == "timeout":
                ctx.violation("crash:" + c["cmd"], "implementation %s on %s" % (i["status"], c["cmd"]), dict(kind="cli", case=c, impl=i, model=mst))
            continue
        ctx.traces += 1
        ctx.tally("outcome", mst.split(":")[0] + (":" + mst.split(":")[1] if ":" in mst else ""))
        d = None
        if i["status"].startswith("crash") or i["status"] == "timeout": d = "implementation " + i["status"]
        elif mst != i["status"]: d = "status: model %s / implementation %s" % (mst, i["status"])
        elif c["cmd"] in ("quantity", "element-total") and i["stdout"].count(b"\n") > 20 and re.search(rb"^NaN\t", i["stdout"], re.M):
            # more than 20 rows with a NaN among the values: Go's stable sort switches from insertion sort to block merging and
            # "less" is not an order on NaN; the row order is outside the model (DESIGN §7). Same rows required, order not compared.
            ctx.tally("model", "unmodelled: NaN in a sort of more than 20 rows")
            if sorted(mout.split(b"\n")) != sorted(i["stdout"].split(b"\n")): d = "rows differ from the model (order not compared: NaN among more than 20 sorted values)"
        else:
            a, b = (mout, i["stdout"]) if project is None else (project(mout), project(i["stdout"]))
            if a != b: d = "output differs from the model: model %r / implementation %r" % (first_diff(a, b))
        if d:
            key = (keyf(c) if keyf else "corr:%s%s" % (tag, c["cmd"]))
            # a disagreement with the model is not by itself a failing input of the property: the property-level relations of the check decide that
            crash = i["status"].startswith("crash") or i["status"] == "timeout"
            ctx.violation(key, d, dict(kind="cli", case=c, model=dict(status=mst, stdout=mout), impl=i, projection=project.__name__ if project else "exact",
                                       correspondence="S-CLI (extracted Coq model vs implementation)"), found_input=crash)
    return ires

def first_diff(a, b):
    la, lb = a.split(b"\n"), b.split(b"\n")
    for i, (x, y) in enumerate(itertools.zip_longest(la, lb)):
        if x != y: return (b"line %d: " % (i + 1) + (x or b"<none>"))[:300], (b"line %d: " % (i + 1) + (y or b"<none>"))[:300]
    return a[:200], b[:200]

def impl_only(ctx, cases, inproc=False):
    res = run.run_inproc_cases(ctx.impl, cases) if inproc else run.run_cli_cases(ctx.impl, cases)
    ctx.count(len(cases))
    return res

# ---------------------------------------------------------------------------
# C01 / C11 : resolver
# ---------------------------------------------------------------------------
def parse_resolved(text):
    """pub/model canonical text -> ('ok', {recipe: [(name, bits)]}) | ('err', kind) | ('NONDET', text)"""
    t = text.decode()
    if t.startswith("NONDET"): return ("NONDET", t)
    if t.startswith("err"): return ("err", t[4:])
    if t == "parse-error": return ("parse-error", None)
    d = {}
    for line in t.split("\n")[1:]:
        if not line: continue
        k, _, els = line.partition(" ")
        d[bytes.fromhex(k)] = [(bytes.fromhex(e.split(":")[0]), e.split(":")[1]) for e in els.split(",") if e]
    return ("ok", d)

def longest_chain(items):
    """number of references on the longest chain of ingredient references starting at a recipe (the last reference, to a name the book does not define,
    counts); None when the recipes are cyclic. The later of two equal headings replaces the earlier one."""
    book = {}; cur = None
    for it in items:
        if it[0] == "heading": cur = it[1]; book[cur] = []
        elif it[0] == "entry" and cur is not None: book[cur].append(it[1])
    memo = {}; onstack = set()
    def go(rn):
        if rn in memo: return memo[rn]
        if rn in onstack: raise RecursionError
        onstack.add(rn)
        best = 0
        for x in book[rn]:
            best = max(best, 1 + (go(x) if x in book else 0))
        onstack.discard(rn); memo[rn] = best
        return best
    try:
        import sys
        sys.setrecursionlimit(max(sys.getrecursionlimit(), 10000))
        return max([go(rn) for rn in book] or [0])
    except RecursionError:
        return None

def expected_resolution(items, magnitude=False):
    """the property's right-hand side, computed from the abstract book with exact rationals: for every recipe the sum over all
    ingredient paths of the product of the coefficients, per undefined name reached. None when a coefficient is not a plain decimal.
    magnitude=True: the same sums over the ABSOLUTE values of the path products (the scale against which a binary64 result may be off by
    rounding: a sum whose terms cancel is as inaccurate as its largest terms)."""
    from fractions import Fraction
    book = {}
    cur = None
    for it in items:
        if it[0] == "heading": cur = it[1]; book[cur] = []
        elif it[0] == "entry" and cur is not None:
            try: book[cur].append((it[1], abs(Fraction(it[2])) if magnitude else Fraction(it[2])))
            except (ValueError, ZeroDivisionError): return None
    memo = {}
    def res(r, depth=0):
        if r in memo: return memo[r]
        if depth > 40: raise RecursionError
        acc = {}
        for ing, c in book[r]:
            if ing in book:
                for x, v in res(ing, depth + 1).items(): acc[x] = acc.get(x, 0) + v * c
            else: acc[ing] = acc.get(ing, 0) + c
        memo[r] = acc
        return acc
    try: return {r: res(r) for r in book}
    except RecursionError: return None

def bits_to_fraction(b):
    import struct
    from fractions import Fraction
    if b == "nan": return None
    x = struct.unpack(">d", int(b).to_bytes(8, "big"))[0]
    if x != x or x in (float("inf"), float("-inf")): return None
    return Fraction(x)

def resolve_stream(ctx, books, depths, repeat, tagkey):
    """books: list of (bytes, meta-ish dict); compares the implementation (both entry points, `repeat` fresh maps each) with the model
    under three different visiting orders; checks the property's clauses on the implementation's result"""
    reqs_i = [run.req(op="resolve", data=b, depth=d, repeat=repeat) for (b, _), d in zip(books, depths)]
    ires = run.run_pub(ctx.impl, reqs_i)
    mres = {}
    for perm in (0, 1, 3):
        mres[perm] = run.run_model([run.req(op="resolve", data=b, depth=d, perm=perm) for (b, _), d in zip(books, depths)])
    for idx, ((b, meta), d) in enumerate(zip(books, depths)):
        ctx.count(); ctx.traces += 1
        i, m = ires[idx], mres[0][idx]
        rep = dict(kind="resolve", book=b, depth=d, repeat=repeat, impl=i, model=m)
        if mres[1][idx] != m or mres[3][idx] != m:
            ctx.violation("model-order-dependence", "the MODEL's result depends on the visiting order (theorem resolve_order_indep contradicted?)", rep)
        pi = parse_resolved(i)
        ctx.tally("resolve_outcome", pi[0] + (":" + str(pi[1]) if pi[0] == "err" else ""))
        if pi[0] == "NONDET":
            ctx.violation(tagkey + ":nondeterministic", "resolution outcome differs between runs / entry points (map visiting order)", rep); continue
        if i != m:
            ctx.violation(tagkey + ":differs-from-model", "resolve differs from the model: %r vs %r" % first_diff(m, i), dict(rep, correspondence="S-RESOLVE (extracted Coq model vs resolver.Resolve)"), found_input=False)
        # the property's own clauses, evaluated on the implementation's result (whether or not it agrees with the model)
        if ctx.pid == "C11" and meta.get("items") and pi[0] in ("ok", "err"):
            longest = longest_chain(meta["items"])
            must_fail = longest is None or longest >= d
            ctx.tally("chain_oracle", "must fail" if must_fail else "must succeed")
            if must_fail and pi[0] == "ok":
                ctx.violation("C11:accepted-chain-at-or-over-limit", "resolution succeeds with limit %d although %s" % (d, "the recipes are cyclic" if longest is None else "a chain of %d references exists" % longest), rep)
            if not must_fail and pi[0] == "err":
                ctx.violation("C11:rejected-legitimate-nesting", "resolution fails (%s) with limit %d although the longest chain has %d references" % (pi[1], d, longest), rep)
        if pi[0] == "ok" and ctx.pid == "C01":
            book_names = set(pi[1].keys())
            for rname, els in pi[1].items():
                names = [n for n, _ in els]
                if names != sorted(set(names)): ctx.violation("C01:unsorted-or-duplicate", "resolved list of %r not strictly sorted" % rname, rep)
                if any(n in book_names for n in names): ctx.violation("C01:recipe-left-unexpanded", "resolved list of %r still names a recipe" % rname, rep)
            exp = expected_resolution(meta["items"]) if meta.get("items") else None
            mag = expected_resolution(meta["items"], magnitude=True) if exp is not None else None
            if exp is not None and mag is not None:
                ctx.tally("sum_of_paths_oracle", "applied")
                for rname, els in pi[1].items():
                    want = exp.get(rname.decode("utf-8", "surrogateescape"))
                    if want is None: continue
                    got = {n.decode("utf-8", "surrogateescape"): bits_to_fraction(b2) for n, b2 in els}
                    if set(got) != set(want):
                        ctx.violation("C01:wrong-elements", "recipe %r resolves to the elements %r, the basic elements reachable from it are %r" % (rname, sorted(got)[:6], sorted(want)[:6]), rep); break
                    scale = mag.get(rname.decode("utf-8", "surrogateescape"), {})
                    bad = [(x, got[x], want[x]) for x in want if got[x] is not None and abs(got[x] - want[x]) > scale.get(x, abs(want[x])) / 10 ** 9 + Fraction(1, 10 ** 12)]
                    if bad:
                        ctx.violation("C01:not-sum-of-path-products", "recipe %r, element %r: resolved amount %s, sum over ingredient paths of the products %s" % (rname, bad[0][0], float(bad[0][1]), float(bad[0][2])), rep); break
    return ires

def check_C01(ctx):
    r = ctx.rng
    n = ctx.scale(4000, 80000)
    books, depths = [], []
    for k in range(n):
        items, meta = gen.book(r, depth=r.randint(1, 5), fancy=0.15, envelope=r.random() < 0.4)
        b = gen.render_items(r, gen.decorate(r, items, 0.1))
        meta["items"] = items
        books.append((b, meta)); depths.append(r.choice([10, 10, 10, 6, 7, 12]))
        nest = max(meta["layer"].values()) if meta["layer"] else 0
        shared = any(sum(1 for x in meta["defs"].values() for (y, _) in x if y == z) > 1 for z in meta["recipes"])
        rep_ing = any(len({y for y, _ in ings}) < len(ings) for ings in meta["defs"].values())
        ctx.tally("nesting", nest); ctx.tally("sharing", shared); ctx.tally("repeated_ingredient", rep_ing)
        if nest >= 2 or shared or rep_ing: ctx.nontriv(b)
        if k < 2: ctx.sample(dict(book=b, depth=depths[-1]))
    resolve_stream(ctx, books, depths, ctx.scale(8, 16), "C01")
    # deep chains just below the limit (depth N-1 for N <= 12), any declaration order
    books, depths = [], []
    for N in range(2, 13):
        for _ in range(ctx.scale(4, 40)):
            b = gen.render_items(r, gen.chain_book(r, N - 1)); books.append((b, {})); depths.append(N); ctx.nontriv(b)
    resolve_stream(ctx, books, depths, ctx.scale(8, 16), "C01")
    # a refused book (too deep, cyclic) and then, in the same process, a good book with the same recipe names: nothing of the first call is left over for the second
    books, depths = [], []
    for _ in range(ctx.scale(40, 400)):
        bad = gen.render_items(r, gen.chain_book(r, r.randint(4, 7), cyc=r.choice([None, 0, 1]), leaf=False)); books.append((bad, {})); depths.append(r.choice([2, 3]))
        good = gen.render_items(r, gen.chain_book(r, r.randint(1, 5))); books.append((good, {})); depths.append(10); ctx.nontriv(bad + good)
    resolve_stream(ctx, books, depths, 1, "C01")
    # through the command line: resolved export, element-total, register ingredient lines
    cases = []
    for k in range(ctx.scale(400, 4000)):
        w = gen.world(r, fancy=0.15, envelope=r.random() < 0.5)
        f = files_of(r, w)
        els = gen.element_names(w) or ["x"]
        cases.append(dict(files=f, cmd="csv-db-resolved", **NOCOLOR))
        cases.append(dict(files=f, cmd="element-total", arg=r.choice(els).encode(), **NOCOLOR))
        cases.append(dict(files=f, cmd="reg", **NOCOLOR))
    # nesting deeper than the default limit, allowed by an explicit limit (flag / environment / configuration file), for every command that resolves
    for N in (11, 12, 14, 16):
        b = gen.render_items(r, gen.chain_book(r, N - 1))
        f = {"food.yaml": b, "log.yaml": b"2021/01/01:\n  r0: 2\n  r3: 1\n"}
        for cmd, kw in (("csv-db-resolved", {}), ("element-total", dict(arg=b"salt")), ("reg", {}), ("bal", dict(single_element="salt")), ("totals", {}), ("unresolved", {}), ("summary", dict(arg=b"2021/01/01"))):
            how = r.choice(["f_depth", "e_depth", "cfg"])
            c = dict(files=dict(f), cmd=cmd, **kw, **NOCOLOR)
            if how == "cfg": c["files"]["d.cfg"] = {"cfg": {"depth": N}}; c["f_config"] = "d.cfg"
            else: c[how] = N
            cases.append(c)
    cli_diff(ctx, cases, project=ws_norm, tag="C01:")
    return dict(rule="random layered recipe DAGs (sharing, diamonds, repeated ingredients, empty recipes, duplicate headings, any declaration order; "
                "special float lexemes) resolved through both public entry points, %d fresh maps each, compared bit-exactly with the extracted Coq model under 3 "
                "visiting orders, plus chains of N-1 references for N in 2..12, plus csv database-resolved / report element-total / reg on the real binary; "
                "non-trivial = nesting >= 2 or a shared sub-recipe or a repeated ingredient, distinct by book bytes" % ctx.scale(8, 16))

def check_C11(ctx):
    r = ctx.rng
    books, depths = [], []
    for N in range(1, 13):
        for L in range(max(0, N - 2), N + 3):
            for _ in range(ctx.scale(2, 12)):
                its = gen.chain_book(r, L); b = gen.render_items(r, its); books.append((b, {"items": its})); depths.append(N); ctx.nontriv(b + bytes([N]))
    for N in list(range(1, 13)) + [13, 15, 20, 30]:
        for cyc in range(1, 5):                       # cycles of length 1..4, alone or reached through a chain of 0, 1, N-1, N references
            for lead in sorted({0, 1, max(0, N - 1), N}):
                for extra in (False, True):
                    its = gen.cycle_book(r, lead, cyc, extra); b = gen.render_items(r, its); books.append((b, {"items": its})); depths.append(N); ctx.nontriv(b + bytes([N]))
    ctx.sample(dict(book=books[40][0], depth=depths[40])); ctx.sample(dict(book=books[-1][0], depth=depths[-1]))
    for k in range(ctx.scale(1500, 30000)):
        items, meta = gen.book(r, depth=r.randint(1, 6), fancy=0.05, envelope=True, cycles=r.choice([0, 0, 0.1, 0.3]))
        meta["items"] = items
        b = gen.render_items(r, items); books.append((b, meta)); depths.append(r.randint(1, 12))
        if meta["recipes"]: ctx.nontriv(b + bytes([depths[-1]]))
    resolve_stream(ctx, books, depths, ctx.scale(16, 64), "C11")
    # the limit as the program is given it: --maxdepth, HR_MAXDEPTH, [Resolver] MaxDepth
    cases = []
    for N in (1, 2, 3, 5, 10, 12):
        for L in (N - 1, N, N + 1):
            if L < 0: continue
            b = gen.render_items(r, gen.chain_book(r, L))
            f = {"food.yaml": b, "log.yaml": b"2021/01/01:\n  r0: 1\n"}
            # every command that resolves the book x every source of the limit (rotated so that each pair occurs)
            forms = [dict(cmd="reg"), dict(cmd="reg", old=True), dict(cmd="reg", single_element="salt"), dict(cmd="reg", single_element="salt", group_food=True), dict(cmd="reg", single_food="r"),
                     dict(cmd="bal"), dict(cmd="bal", single_element="salt"), dict(cmd="totals"), dict(cmd="unresolved"), dict(cmd="element-total", arg=b"salt"),
                     dict(cmd="csv-db-resolved"), dict(cmd="summary", arg=b"2021/01/01"), dict(cmd="quantity"), dict(cmd="csv-log"), dict(cmd="print")]
            for j, form in enumerate(forms):
                src = (j + N + L) % 3
                c = dict(files=f, **form, **NOCOLOR)
                c["_expect_fail"] = (L >= N) and form["cmd"] not in ("quantity", "csv-log", "print")     # these three never resolve the book
                if src == 0: c["f_depth"] = N
                elif src == 1: c["e_depth"] = N
                else: c["files"] = dict(f, **{"cfg.ini": {"cfg": {"depth": N}}}); c["f_config"] = "cfg.ini"
                cases.append(c)
    # "in particular whenever recipes are cyclic", whatever the limit: a cycle under a huge limit is recognised as a cycle, the recursion does not go
    # round it until the limit (or the stack: the harness process runs with an 8 MB goroutine stack so that going round shows within a second)
    for cyc in (b"a:\n  a: 1\n", b"a:\n  b: 1\nb:\n  a: 2\n", b"x:\n  salt: 1\n  y: 1\ny:\n  z: 2\nz:\n  w: 1\nw:\n  y: 1\n"):
        for src in ("f_depth", "e_depth"):
            cc = dict(files={"food.yaml": cyc, "log.yaml": b"2021/01/01:\n  a: 1\n  x: 1\n"}, cmd=ctx.rng.choice(["csv-db-resolved", "reg", "totals", "bal"]), **NOCOLOR); cc[src] = 100000000
            i = run.run_inproc_single(ctx.impl, cc, env_extra={"HR_VERIF_MAXSTACK": str(8 << 20)}, timeout=60)
            ctx.count(); ctx.tally("cycle_under_huge_limit", i["status"].split(":")[0] + ":" + (i["status"].split(":") + [""])[1])
            if i["status"] != "fail:maxdepth":
                ctx.violation("C11:cycle-under-huge-limit:" + cc["cmd"], "%s on a cyclic book with the depth limit 100000000 (%s): %s %s - expected the maximum-depth error" % (cc["cmd"], src, i["status"][:60], i.get("raw_err", "")[:200].replace("\n", " ")),
                              dict(kind="cli", case=cc, impl=i, stack_limit_bytes=8 << 20))
    expects = [c.pop("_expect_fail", None) for c in cases]
    ires = cli_diff(ctx, cases, project=ws_norm, tag="C11:")
    for c, e, i in zip(cases, expects, ires):
        if e is None: continue
        if e and i["status"] == "ok":
            ctx.violation("C11:command-accepts-chain-at-limit:" + c["cmd"], "%s succeeds although the book has a chain as long as the configured limit" % c["cmd"], dict(kind="cli", case=c, impl=i))
        if not e and i["status"].startswith("fail"):
            ctx.violation("C11:command-rejects-legitimate-nesting:" + c["cmd"], "%s fails (%s) although every chain of the book is shorter than the configured limit" % (c["cmd"], i["status"][:40]), dict(kind="cli", case=c, impl=i))
    return dict(rule="chains of N-2..N+2 references for N in 1..12 (shuffled declaration order), cycles of length 1..4 reached at depth 0, 1, N-1, N, random DAGs with "
                "and without cycles; both entry points, %d fresh maps each; the success/failure outcome (and the resolved book) compared with the extracted Coq model "
                "under 3 visiting orders; --maxdepth / HR_MAXDEPTH / config MaxDepth on the real binary for every command that resolves the book (register forms, balance, summary, report totals / unresolved / element-total, csv database-resolved) and three that do not; distinct by (book bytes, N)" % ctx.scale(16, 64))

# ---------------------------------------------------------------------------
# C04 / C09 / C10 : parser
# ---------------------------------------------------------------------------
TOKENS = [b"a", "é".encode(), b"1", b".", b"-", b":", b"\"", b"#", b" ", b"\t", b"\n", b"\r"]

def parse_stream_diff(ctx, datas, key, faults=None, chunks=None):
    """S-PARSE / S-SCAN: the exact callback sequence (and returned error) of parser.ParseStreamCallback vs the model"""
    faults = faults or [None] * len(datas)
    mres = run.run_model([run.req(op="parse", data=d, fault=f) for d, f in zip(datas, faults)])
    for ch in (chunks or [0]):
        ires = run.run_pub(ctx.impl, [run.req(op="parse", data=d, fault=f, chunk=ch or None) for d, f in zip(datas, faults)])
        for d, f, m, i in zip(datas, faults, mres, ires):
            ctx.count(); ctx.traces += 1
            if m != i:
                ctx.violation(key, "callback sequence differs from the model: %r vs %r" % first_diff(m, i),
                              dict(kind="parse", data=d, fault=f, chunk=ch, model=m, impl=i, correspondence="S-PARSE (extracted Coq model vs parser.ParseStreamCallback)"), found_input=False)
    return mres

def syntax_files(ctx, n, bad=0.0, fancy=0.35):
    r = ctx.rng
    files = [gen.syntax_items(r, bad=bad, fancy=fancy) for _ in range(n)]
    reqs = [run.req(pairs=[("op", "syntax")] + gen.syntax_pairs(it, fn)) for it, fn in files]
    out = []
    for (it, fn), mm in zip(files, run.run_model(reqs)):
        wf, match, hd, want = mm.decode().split(" ")
        out.append(dict(items=it, final_newline=fn, wf=(wf == "wf"), match=(match == "match"), data=bytes.fromhex(hd), want=bytes.fromhex(want)))
    return out

def swap_bytes(bs, a, b):
    return bytes(b if c == a else a if c == b else c for c in bs)

def swap_in_parse_output(out, a, b):
    """the canonical output of the `parse` operation with the bytes a and b exchanged inside every name, note and message (amounts stay)"""
    def hxs(h): return swap_bytes(bytes.fromhex(h.decode()), a, b).hex().encode()
    lines = []
    for l in out.split(b"\n"):
        if l.startswith(b"E "): lines.append(b"E " + hxs(l[2:]))
        elif l.startswith(b"N ") and l != b"N <nil>":
            m = re.match(rb"^N ([0-9a-f]*) \[(.*)\] (-|\{.*\})$", l)
            if not m: lines.append(l); continue
            els = b",".join(hxs(e.split(b":")[0]) + b":" + e.split(b":")[1] for e in m.group(2).split(b",") if e)
            meta = m.group(3) if m.group(3) == b"-" else b"{" + b",".join(hxs(x.split(b":")[0]) + b":" + hxs(x.split(b":")[1]) for x in m.group(3)[1:-1].split(b",") if x) + b"}"
            lines.append(b"N " + hxs(m.group(1)) + b" [" + els + b"] " + meta)
        else: lines.append(l)
    return b"\n".join(lines)

def comment_char_relation(ctx, datas, tag):
    """the parser with another comment character (parser.Config{CommentChar: c}) reads a file in which c and '#' have changed places exactly as the default parser
    reads the original - names, notes, amounts, error messages and line numbers, with the two bytes exchanged (implementation against itself)"""
    base = run.run_pub(ctx.impl, [run.req(op="parse", data=d) for d in datas])
    for cc in (ord(";"), ord("%"), ord("!")):
        other = run.run_pub(ctx.impl, [run.req(op="parse", data=swap_bytes(d, 35, cc), cc=cc) for d in datas])
        for d, x, y in zip(datas, base, other):
            ctx.count(); ctx.tally("comment_char", chr(cc))
            # the TEXT of a note is left out of the comparison: getMetadataPair strips the literal '#' whatever the configured character is, so under another
            # character a note keeps its marker (a quirk of the unchanged code that no property speaks about); records, entries, amounts and errors are compared
            drop_meta = lambda o: re.sub(rb"\] \{[^}\n]*\}$", b"] {..}", o, flags=re.M)
            if drop_meta(swap_in_parse_output(x, 35, cc)) != drop_meta(y):
                ctx.violation(tag, "with comment character %r the parser reads the file with '#' and %r exchanged differently from how the default parser reads the original: %r / %r"
                              % ((chr(cc), chr(cc)) + first_diff(swap_in_parse_output(x, 35, cc), y)), dict(kind="parse", data=swap_bytes(d, 35, cc), cc=cc, original=d, default_result=x, impl=y))

def check_C04(ctx):
    r = ctx.rng
    # exhaustive short inputs over a 12-token alphabet
    L = ctx.scale(4, 5)
    datas = [b"".join(t) for n in range(0, L + 1) for t in itertools.product(TOKENS, repeat=n)]
    parse_stream_diff(ctx, datas, "C04:parse-differs-short-input")
    ctx.notes["exhaustive_short_inputs"] = dict(alphabet=[t.decode() for t in TOKENS], max_len=L, count=len(datas))
    # rendered abstract files (every layout variant): the theorem's statement evaluated by the model, and the implementation against it
    fs = syntax_files(ctx, ctx.scale(10000, 150000))
    wf = [f for f in fs if f["wf"]]
    for f in wf:
        if not f["match"]:
            ctx.violation("model-theorem-fails", "parse_render_roundtrip fails in the MODEL on a well-formed file", dict(kind="parse", data=f["data"], items=f["items"]))
    ires = run.run_pub(ctx.impl, [run.req(op="parse", data=f["data"]) for f in wf])
    for f, i in zip(wf, ires):
        ctx.count(); ctx.traces += 1
        kinds = {k for k, _, _ in f["items"]}
        ctx.tally("records", sum(1 for k, _, _ in f["items"] if k == "heading")); 
        if "entry" in kinds and "heading" in kinds: ctx.nontriv(f["data"])
        got = b"\n".join(i.split(b"\n")[:-1])
        if got != f["want"] or not i.endswith(b"R ok"):
            ctx.violation("C04:records-differ-from-file", "the parser's records differ from the file's records: expected %r got %r" % first_diff(f["want"], got),
                          dict(kind="parse", data=f["data"], items=f["items"], expected=f["want"], impl=i))
    comment_char_relation(ctx, [f["data"] for f in wf[:ctx.scale(1500, 20000)]], "C04:other-comment-character")
    for f in wf[:2]: ctx.sample(dict(file=f["data"]))
    ctx.tally("files", "well-formed", len(wf)); ctx.tally("files", "generator produced ill-formed (skipped)", len(fs) - len(wf))
    # values: long decimals, ties, subnormals (correct rounding is what strconv does; the model's parse_float is compared bit for bit)
    nums = [gen.number(r, special=0.3) for _ in range(ctx.scale(8000, 100000))]
    nums += ["%d.%s" % (r.randint(0, 99), "".join(r.choice("0123456789") for _ in range(r.randint(14, 19)))) for _ in range(ctx.scale(3000, 100000))]
    # the whole grammar of strconv.ParseFloat: every sign x decimal / hexadecimal mantissa x exponent, underscores, the spellings of infinity and NaN,
    # near-misses of all of them, and single-character mutations (accepted or rejected, and the bits when accepted, must agree with the model)
    wide = [gen.number_wide(r) for _ in range(ctx.scale(6000, 80000))] + list(gen.BAD_NUMBERS)
    for _ in range(ctx.scale(2000, 30000)):
        x = list(r.choice(wide)); j = r.randrange(len(x) + 1)
        op = r.random()
        if op < 0.4 and x: x[min(j, len(x) - 1)] = r.choice("0123456789abcdefxXpPeE._+-nNiI")
        elif op < 0.7: x.insert(j, r.choice("0123456789abcdefxXpPeE._+-"))
        elif x: del x[min(j, len(x) - 1)]
        if x and not any(ch in " \t\n\r" for ch in x): wide.append("".join(x))
    nums += wide
    for x in wide[:4000]: ctx.tally("number_shape", "hex" if "x" in x.lower()[:3] else "special" if x.lower().lstrip("+-")[:1] in ("i", "n") else "decimal")
    datas = [("h\n  x %s\n" % x).encode() for x in nums]
    parse_stream_diff(ctx, datas, "C04:value-differs")
    # through the command line (raw export keeps file order)
    cases = []
    for f in wf[:ctx.scale(150, 3000)]:
        cases.append(dict(files={"food.yaml": f["data"]}, cmd="csv-db", **NOCOLOR))
    # the same through a named pipe (a third of them), and files that begin with a byte order mark: the parser has no notion of one - it is part of the first line
    BOM = b"\xef\xbb\xbf"
    for f in wf[:ctx.scale(60, 1000)]:
        cases.append(dict(files={"food.yaml": BOM + f["data"]}, cmd="csv-db", **NOCOLOR))
    # the file entry points of the parser (ParseFileCallback: stats reads its two files through it), on regular files and through pipes
    for f in wf[:ctx.scale(60, 1000)]:
        cases.append(dict(files={"food.yaml": f["data"], "log.yaml": b"2011/07/17:\n  a: 1\n2011/07/18:\n  b: 2\n"}, cmd="stats", f_today="2011/08/01", **NOCOLOR))
    cli_diff(ctx, cases, tag="C04:", pipe_frac=0.34)
    parse_stream_diff(ctx, [BOM + f["data"] for f in wf[:ctx.scale(300, 5000)]] + [BOM, BOM + b"\n", BOM[:2] + b"a:\n  x 1\n"], "C04:byte-order-mark")
    return dict(rule="(1) every string of <= %d tokens over a 12-token alphabet (letters incl. non-ASCII, digit, '.', '-', ':', quote, '#', space, tab, LF, CR) through "
                "parser.ParseStreamCallback vs the model, exact callback sequence; (2) random abstract files in the shape of Model/Syntax.v rendered with every layout variant: "
                "the implementation's records must equal the file's records (the right-hand side of theorem parse_render_roundtrip); (3) number lexemes incl. 15-20 digit decimals, "
                "ties, subnormals, specials, and the whole ParseFloat grammar (signs x decimal / hexadecimal mantissa x exponent, underscores, inf / nan spellings) with near-misses and "
                "single-character mutations, compared bit for bit; (4) csv database on the binary, a third of the files delivered through a named pipe in pieces, and files that begin with a byte order mark. Non-trivial = a rendered file with at least one heading and one entry, distinct by bytes" % L,
                extra=dict(exhaustive=False))

def check_C09(ctx):
    r = ctx.rng
    fs = [f for f in syntax_files(ctx, ctx.scale(2500, 60000), bad=0.2) if f["wf"]]
    cases, meta = [], []
    for f in fs:
        nbad = sum(1 for k, _, _ in f["items"] if k in ("badnosep", "badnum"))
        ctx.tally("planted_lines", min(nbad, 5))
        if nbad: ctx.nontriv(f["data"])
        cases.append(dict(files={"f.yaml": f["data"]}, cmd="lint", arg=b"f.yaml", silent=r.random() < 0.3, **NOCOLOR))
        if cases[-1]["silent"] is False and r.random() < 0.3: cases[-1]["false_flags"] = ["silent"]       # --silent=false: the same as not silent
    # physical lines longer than common read buffers (4096 bytes ... just under the 65536-byte limit) before a malformed entry: still ONE line each
    longc = []
    for k in range(ctx.scale(30, 400)):
        n = r.choice([4095, 4096, 4097, 5000, 8192, 9000, 12000] + ([30000, 65000, 65535 - 5] if ctx.tier == "thorough" or k == 0 else []))
        kind = r.choice(["comment", "note", "name", "heading-comment"])
        if kind in ("note", "heading-comment"): n = min(n, 9000)      # the extracted model splits a note in quadratic time
        longline = {"comment": b"#" + b"c" * n, "note": b"  # " + b"n" * n, "name": b"  " + b"x" * n + b": 1", "heading-comment": b"# k: " + b"v" * n}[kind]
        pre = [b"rec:", b"  a: 1"] if kind != "heading-comment" else []
        bad1 = r.choice([b"  oops", b"  b: 1.2.3", b"  c:1", b"\tbad: x1"])
        lines = pre + [longline] + ([b"rec:"] if kind == "heading-comment" else []) + [b"  ok: 2", bad1, b"  fine: 3", b"  worse: ++1"]
        data = b"\n".join(lines) + b"\n"
        nline = lines.index(bad1) + 1
        longc.append((dict(files={"f.yaml": data}, cmd="lint", arg=b"f.yaml", **NOCOLOR), nline, bad1))
        ctx.nontriv(kind.encode() + bytes(str(n), "ascii") + bad1)
    prec = []
    for k in range(ctx.scale(6, 40)):
        junk = b"".join(r.choice([b"  oops\n", b"  x: 1.2.3\n", b"\tnosep\n", b"  y:1\n", b"  fine: 2\n", b"  # note\n"]) for _ in range(r.randint(1, 3)))
        body = b"2021/01/01:\n  a: 1\n  b: 2\n"
        for cmd, files in (("lint", {"f.yaml": junk + body}), ("print", {"log.yaml": junk + body, "food.yaml": b""}), ("csv-db", {"food.yaml": junk + b"rec:\n  k: 1\n"}), ("reg", {"log.yaml": junk + body, "food.yaml": junk + b"a:\n  k: 1\n"})):
            c = dict(files=files, cmd=cmd, **NOCOLOR)
            if cmd == "lint": c["arg"] = b"f.yaml"
            prec.append(c)
    pres_ = cli_diff(ctx, prec, tag="C09:before-first-heading:")
    for c, i in zip(prec, pres_):
        ctx.tally("malformed_lines_before_the_first_heading", i["status"].split(":")[0])
        if i["status"] != "ok" or (c["cmd"] == "lint" and i["stdout"].strip() != b"No errors found"):
            ctx.violation("C09:line-before-first-heading-reported:" + c["cmd"], "%s on a file whose only odd lines stand before the first heading (they belong to no record): %s %r" % (c["cmd"], i["status"][:40], i["stdout"][:100]), dict(kind="cli", case=c, impl=i))
    tailc = []
    for k in range(ctx.scale(6, 40)):
        nbad = r.choice([1, 2, 3, 24, 25, 26, 40])
        bads = [r.choice([b"  oops%d" % j, b"  b%d: 1.2.3" % j, b"  c%d:1" % j]) for j in range(nbad)]
        lines = [b"rec:", b"  a: 1"] + bads + [b"  ok: 2", b"  " + b"x" * 70000 + b": 1", b"  after: 1"]
        tailc.append((dict(files={"f.yaml": b"\n".join(lines) + b"\n"}, cmd="lint", arg=b"f.yaml", silent=r.random() < 0.3, **NOCOLOR), bads))
    tres = cli_diff(ctx, [c for c, _ in tailc], tag="C09:lint-unreadable-tail:")
    for (c, bads), i in zip(tailc, tres):
        ctx.tally("lint_malformed_lines_before_an_unreadable_line", len(bads))
        shown = [bd for bd in bads if bd in i["stdout"]]
        if i["status"] == "ok" or len(shown) != len(bads):
            ctx.violation("C09:lint-before-unreadable-line", "lint on %d malformed lines followed by a line of 70000 bytes: status %s, %d of them reported" % (len(bads), i["status"][:30], len(shown)), dict(kind="cli", case=c, impl=dict(i, stdout=i["stdout"][:2000])))
    lres = cli_diff(ctx, [c for c, _, _ in longc], tag="C09:lint-long-line:")
    for (c, nline, bad1), i in zip(longc, lres):
        first = i["stdout"].split(b"\n")[0] if i["stdout"] else b""
        if i["status"] == "ok" and not (b"line %d" % nline in first and bad1 in first):
            ctx.violation("C09:line-number-after-long-line", "lint quotes %r for the malformed line %d %r that follows a line of more than 4096 bytes" % (first[:120], nline, bad1), dict(kind="cli", case=c, impl=i))
    ires = cli_diff(ctx, cases, tag="C09:lint:")
    # property-level relations on the implementation's own output
    for f, c, i in zip(fs, cases, ires):
        want_errs = [bytes.fromhex(l[2:].decode()) for l in f["want"].split(b"\n") if l.startswith(b"E ")]
        out_lines = i["stdout"].split(b"\n")[:-1] if i["stdout"] else []
        expect = want_errs + ([b"No errors found"] if not want_errs and not c.get("silent") else [])
        if i["status"] == "ok" and out_lines != expect:
            ctx.violation("C09:lint-output", "lint output is not the list of malformed lines in file order: expected %r got %r" % (expect[:3], out_lines[:3]),
                          dict(kind="cli", case=c, impl=i, expected=expect))
    comment_char_relation(ctx, [f["data"] for f in fs[:ctx.scale(1000, 15000)]], "C09:other-comment-character")
    for f in fs[:2]: ctx.sample(dict(file=f["data"]))
    # every file-reading command fails with the first malformed line
    cases = []
    good_book = b"bread:\n  kcal: 250\n"
    good_log = b"2021/01/01:\n  bread: 2\n"
    for f in [f for f in fs if b"\nE " in b"\n" + f["want"]][:ctx.scale(250, 5000)]:
        first = bytes.fromhex([l for l in f["want"].split(b"\n") if l.startswith(b"E ")][0][2:].decode())
        bad = f["data"]
        for cmd, files in [("reg", {"food.yaml": bad, "log.yaml": good_log}), ("csv-db", {"food.yaml": bad}), ("csv-db-resolved", {"food.yaml": bad}),
                           ("element-total", {"food.yaml": bad}), ("stats", {"food.yaml": bad, "log.yaml": good_log}), ("bal", {"food.yaml": bad, "log.yaml": good_log}),
                           ("totals", {"food.yaml": bad, "log.yaml": good_log}), ("unresolved", {"food.yaml": bad, "log.yaml": good_log}),
                           ("summary", {"food.yaml": bad, "log.yaml": good_log})]:
            if r.random() < 0.35:
                c = dict(files=files, cmd=cmd, f_today="2021/01/02", **NOCOLOR)
                if cmd == "element-total": c["arg"] = b"kcal"
                if cmd == "summary": c["arg"] = b"2021/01/01"
                c["_first"] = first; cases.append(c)
    # malformed line in the log: rendered with date headings
    for _ in range(ctx.scale(300, 6000)):
        days = gen.day_list(r, 4, sorted_=True)
        it, fn = gen.syntax_items(r, n_records=len(days), bad=0.25, fancy=0.2, heading=lambda rr, i: gen._fmt("2006/01/02", *days[i]), pre_heading_junk=0.3)
        mm = run.run_model([run.req(pairs=[("op", "syntax")] + gen.syntax_pairs(it, fn))])[0].decode().split(" ")
        if mm[0] != "wf": continue
        data, want = bytes.fromhex(mm[2]), bytes.fromhex(mm[3])
        errs = [bytes.fromhex(l[2:].decode()) for l in want.split(b"\n") if l.startswith(b"E ")]
        if not errs: continue
        for cmd in r.sample(["reg", "bal", "csv-log", "print", "quantity", "totals", "unresolved", "stats"], 3):
            c = dict(files={"food.yaml": good_book, "log.yaml": data}, cmd=cmd, f_today="2021/02/01", **NOCOLOR); c["_first"] = errs[0]
            if cmd != "stats" and r.random() < 0.5:
                # a period that ends (or begins) somewhere inside the file: the whole file is still read, the first malformed line still reported
                d0 = r.choice(days)
                c[r.choice(["g_end", "g_begin"])] = "%04d/%02d/%02d" % d0
            cases.append(c)
    # malformed lines that hold characters with a meaning for a formatter (%, %d, %s, %!): the line is quoted as it stands
    for bl, msg in ((b"  fat 3.5%", None), (b"  100%: x%d", None), (b"  %s%s%s", None), (b"  a%20b: 1.2.3", None), (b"  50%!: y", None)):
        logb2 = b"2021/01/01:\n  bread: 2\n" + bl + b"\n  tea: 1\n"
        mm2 = run.run_pub(ctx.impl, [run.req(op="parse", data=logb2)])[0].split(b"\n")
        e2 = [bytes.fromhex(l[2:].decode()) for l in mm2 if l.startswith(b"E ")]
        if not e2: continue
        for cmd in ("reg", "print", "csv-log", "bal", "stats"):
            c = dict(files={"food.yaml": good_book, "log.yaml": logb2}, cmd=cmd, f_today="2021/02/01", **NOCOLOR); c["_first"] = e2[0]; cases.append(c)
    firsts = [c.pop("_first") for c in cases]
    ires = cli_diff(ctx, cases, project=ws_norm, tag="C09:cmd:")
    for c, first, i in zip(cases, firsts, ires):
        want = "fail:parse:" + first.hex()
        ctx.nontriv(json.dumps(short(c), default=str) + first.hex())
        # the property: a non-zero status and an error that QUOTES the first malformed line (as it stands in the file) and its 1-based line number;
        # the wording around them is not part of it (the exact message is compared with the model above)
        mm = re.match(rb'(?:bad syntax on line (\d+), "(.*)"\.|error converting ".*?" to float on line (\d+) "(.*)"\.)$', first, re.S)
        n, raw = (int(mm.group(1) or mm.group(3)), mm.group(2) if mm.group(1) else mm.group(4)) if mm else (None, None)
        err = i.get("raw_err", "").encode("utf-8", "surrogateescape")
        quoted = mm is not None and re.search(rb"line %d(?!\d)" % n, err) is not None and raw in err
        if not i["status"].startswith("fail") or not quoted:
            ctx.violation("C09:first-error:" + c["cmd"], "%s did not fail with an error quoting the first malformed line %r and its number %s: got %s %r" % (c["cmd"], raw, n, i["status"][:40], i.get("raw_err", "")[:200]),
                          dict(kind="cli", case=c, impl=i, expected=want))
    # ... also when standard output fails as well (a full disk, a closed pipe): the malformed line is still what the error quotes - a failed write of the
    # part of the report that precedes it must not hide it
    sinkc = []
    for c, first in zip(cases, firsts):
        if c["files"].get("food.yaml") == good_book and c["cmd"] in ("reg", "bal", "csv-log", "print", "quantity", "totals", "unresolved") and len(sinkc) < ctx.scale(80, 600):      # the malformed line is in the LOG, records may precede it
            sinkc.append((dict(c, sink=r.choice([0, 0, 1, 7, 40])), first))
    sres = cli_diff(ctx, [c for c, _ in sinkc], project=ws_norm, tag="C09:cmd-failing-sink:", inproc=True)
    for (c, first), i in zip(sinkc, sres):
        mm = re.match(rb'(?:bad syntax on line (\d+), "(.*)"\.|error converting ".*?" to float on line (\d+) "(.*)"\.)$', first, re.S)
        if not mm: continue
        n, raw = (int(mm.group(1) or mm.group(3)), mm.group(2) if mm.group(1) else mm.group(4))
        err = i.get("raw_err", "").encode("utf-8", "surrogateescape")
        ctx.tally("failing_sink_and_malformed_line", i["status"].split(":")[0] + ":" + (i["status"].split(":") + [""])[1])
        if not i["status"].startswith("fail") or not (re.search(rb"line %d(?!\d)" % n, err) is not None and raw in err):
            ctx.violation("C09:first-error-under-failing-sink:" + c["cmd"], "%s with standard output failing after %d bytes did not fail with an error quoting the first malformed line %r and its number %s: got %s %r" % (c["cmd"], c["sink"], raw, n, i["status"][:40], i.get("raw_err", "")[:200]),
                          dict(kind="cli", case=c, impl=i))
    return dict(rule="abstract files with k >= 0 malformed lines (no blank before the value / value not a number) planted at random positions among blank lines, comments, notes, CRLF; "
                "lint and lint --silent output must be exactly the planted lines' messages in file order ('No errors found' iff none), every file-reading command must fail with the first "
                "one (exact message incl. 1-based physical line number); all compared with the model as well. Non-trivial = a file with at least one planted line, distinct by bytes / (command, message)")

def check_C10(ctx):
    r = ctx.rng
    # every offset of small files, three read chunkings
    datas, faults = [], []
    nfiles = ctx.scale(120, 800)
    for k in range(nfiles):
        it, fn = gen.syntax_items(r, n_records=r.randint(1, 3), bad=0.1 if r.random() < 0.3 else 0, fancy=0.2)
        d = gen.syntax_render(it, fn)[:220]
        for off in range(len(d) + 2):
            datas.append(d); faults.append(off); 
        ctx.nontriv(d)
        if k < 2: ctx.sample(dict(file=d, fault_offsets="0..%d" % (len(d) + 1)))
    mres = parse_stream_diff(ctx, datas, "C10:fault-differs-from-model", faults=faults, chunks=[1, 3, 4096])
    for d, f, m in zip(datas, faults, mres):
        if not m.endswith(b"R readerr"):
            ctx.violation("model-theorem-fails", "read_fault_is_error fails in the MODEL", dict(kind="parse", data=d, fault=f, model=m))
    # impl-level statement: with a failing reader the returned error is never nil (checked on the implementation's own answer)
    ires = run.run_pub(ctx.impl, [run.req(op="parse", data=d, fault=f, chunk=7) for d, f in zip(datas[::3], faults[::3])])
    for d, f, i in zip(datas[::3], faults[::3], ires):
        ctx.count()
        if i.endswith(b"R ok"):
            ctx.violation("C10:read-fault-reported-as-success", "ParseStreamCallback returned nil although the reader failed at offset %d" % f, dict(kind="parse", data=d, fault=f, chunk=7, impl=i))
    # the channel form of the parser (library API): a reader that fails is reported on the Errors channel, never as plain completion
    sub = list(zip(datas, faults))[:: max(1, len(datas) // ctx.scale(150, 2000))]
    cres = run.run_pub(ctx.impl, [run.req(op="chan", data=d, fault=f, policy="drain") for d, f in sub])
    for (d, f), o in zip(sub, cres):
        ctx.count()
        if not any(l.startswith(b"E ") for l in o.split(b"\n")):
            ctx.violation("C10:channel-parser-read-fault-as-completion", "Parser.ParseStream delivered %r although the reader failed at offset %d" % (o[-60:], f), dict(kind="chan", data=d, fault=f, policy="drain", impl=o))
    # long lines: 65535 passes, 65536 and more is an error; first / middle / last position, terminated or not, CRLF
    datas = []
    for n in (65535, 65536, 70000):
        for pos in ("first", "middle", "last"):
            for term in (b"\n", b"\r\n", b""):
                longline = b"#" + b"x" * (n - 1)
                pre = b"2021/01/01:\n  a: 1\n" if pos != "first" else b""
                post = b"2021/01/02:\n  b: 2\n" if pos != "last" else b""
                if pos != "last" and term == b"": continue
                datas.append(pre + longline + term + post)
    parse_stream_diff(ctx, datas, "C10:long-line-differs-from-model", chunks=[0, 1000])
    cases = []
    for d in datas:
        for cmd, files in [("csv-log", {"log.yaml": d}), ("reg", {"food.yaml": b"a:\n  x: 1\n", "log.yaml": d}), ("lint", {"log.yaml": d}), ("csv-db", {"food.yaml": d}), ("stats", {"food.yaml": d, "log.yaml": b"2021/01/01:\n  a: 1\n"})]:
            if r.random() < ctx.scale(0.35, 1.0):
                c = dict(files=files, cmd=cmd, f_today="2021/01/05", **NOCOLOR)
                if cmd == "lint": c["arg"] = b"log.yaml"
                cases.append(c)
    # the unreadable part lies in days outside the requested period: still an error (the file could not be read completely)
    for n in (65536, 70000):
        longline = b"  " + b"x" * n + b": 1\n"
        for end, body in [("2021/01/01", b"2021/01/01:\n  a: 1\n2021/01/05:\n  b: 2\n2021/01/06:\n  b: 3\n" + longline + b"2021/01/01:\n  c: 3\n"),
                          ("2021/01/02", b"2021/01/01:\n  a: 1\n2021/01/09:\n  b: 1\n2021/01/10:\n" + b"#" + b"y" * n + b"\n  b: 2\n")]:
            for cmd in ("reg", "bal", "csv-log", "print", "totals", "quantity", "unresolved"):
                c = dict(files={"food.yaml": b"a:\n  x: 1\n", "log.yaml": body}, cmd=cmd, f_today="2021/01/05", g_end=end, **NOCOLOR)
                if cmd in ("reg", "bal", "csv-log", "print") and r.random() < 0.5: c["l_end"] = c.pop("g_end")
                cases.append(c)
    # a file that is readable but has no size (a FIFO): complete when readable, an error when it carries an over-long line
    for cmd in ("reg", "csv-log", "totals", "csv-db", "csv-db-resolved", "lint", "stats", "print"):
        for which in ("log.yaml", "food.yaml"):
            for body in (b"2021/01/01:\n  a: 1\n  b: 2\n2021/01/02:\n  a: 3\n", b"2021/01/01:\n  a: 1\n" + b"#" + b"z" * 70000 + b"\n2021/01/02:\n  a: 3\n"):
                files = {"food.yaml": b"a:\n  x: 1\n", "log.yaml": b"2021/01/01:\n  a: 1\n"}
                files[which] = body if which == "log.yaml" else body.replace(b"2021/01/0", b"rec")
                c = dict(files=files, cmd=cmd, f_today="2021/01/05", fifo=[which], **NOCOLOR)
                if cmd == "lint": c["arg"] = which.encode()
                if which not in (["log.yaml", "food.yaml"] if cmd in ("reg", "totals", "stats") else ["log.yaml"] if cmd in ("csv-log", "print") else ["food.yaml"] if cmd != "lint" else [which]): continue
                cases.append(c)
    # a directory given as a file
    for cmd in ("reg", "bal", "csv-log", "print", "quantity", "totals", "unresolved", "summary", "stats", "lint", "csv-db", "csv-db-resolved", "element-total"):
        for which in ("log.yaml", "food.yaml"):
            files = {"food.yaml": b"a:\n  x: 1\n", "log.yaml": b"2021/01/01:\n  a: 1\n"}; files[which] = "DIR"
            c = dict(files=files, cmd=cmd, f_today="2021/01/05", **NOCOLOR)
            if cmd == "lint": c["arg"] = which.encode()
            if cmd == "element-total": c["arg"] = b"x"
            if cmd == "summary": c["arg"] = b"2021/01/01"
            cases.append(c)
    ires = cli_diff(ctx, cases, tag="C10:cmd:")
    READS = {"reg": ["food.yaml", "log.yaml"], "bal": ["food.yaml", "log.yaml"], "totals": ["food.yaml", "log.yaml"], "unresolved": ["food.yaml", "log.yaml"],
             "summary": ["food.yaml", "log.yaml"], "stats": ["log.yaml", "food.yaml"], "csv-log": ["log.yaml"], "print": ["log.yaml"], "quantity": ["log.yaml"],
             "csv-db": ["food.yaml"], "csv-db-resolved": ["food.yaml"], "element-total": ["food.yaml"]}
    for c, i in zip(cases, ires):
        ctx.nontriv(json.dumps(short(c), default=str) + str(len(c["files"].get("log.yaml", b""))))
        read = [c["arg"].decode()] if c["cmd"] == "lint" else READS[c["cmd"]]
        unreadable = [p for p in read if c["files"].get(p) == "DIR" or (isinstance(c["files"].get(p), bytes) and any(len(l) >= 65536 for l in c["files"][p].split(b"\n")))]
        if unreadable and i["status"] == "ok":
            ctx.violation("C10:success-on-unreadable-file:" + c["cmd"], "%s reports success although %s cannot be read completely (line of 65536+ bytes, or a directory)" % (c["cmd"], unreadable),
                          dict(kind="cli", case=c, impl=i))
    # the same at the level of the commands: the reader of the log / of the book fails from byte k on, for EVERY k, through every command that opens its
    # files with the shared opener (in-process: the production opener's readers are wrapped); also with the failure behind the end of the period
    book0 = b"bread:\n  kcal: 250\n  fat: 1\ntea:\n  kcal: 2\n"
    log0 = b"2021/01/01:\n  bread: 2\n  tea: 1\n2021/01/03:\n  water: 3\n  a/b: 1\n2021/01/02:\n  bread: 1\n"
    fcases = []
    forms = [dict(cmd="reg"), dict(cmd="reg", old=True), dict(cmd="reg", single_element="kcal"), dict(cmd="reg", single_element="kcal", group_food=True), dict(cmd="reg", single_food="ea"),
             dict(cmd="bal"), dict(cmd="bal", single_element="kcal"), dict(cmd="totals"), dict(cmd="quantity"), dict(cmd="unresolved"), dict(cmd="element-total", arg=b"kcal"),
             dict(cmd="csv-log"), dict(cmd="csv-db"), dict(cmd="csv-db-resolved"), dict(cmd="summary", arg=b"2021/01/01"), dict(cmd="print")]
    for wi in range(ctx.scale(2, 12)):
        if wi == 0: bookb, logb = book0, log0
        else:
            w = gen.world(r, envelope=True, fancy=0.1, cycles=0)
            f = files_of(r, w); bookb, logb = f["food.yaml"][:160], f["log.yaml"][:200]
        for form in forms:
            for which, data in (("log.yaml", logb), ("food.yaml", bookb)):
                if which not in READS[form["cmd"]]: continue
                ks = range(len(data) + 2) if wi == 0 else sorted(set(r.sample(range(len(data) + 2), min(len(data) + 2, 12))) | {0, len(data)})
                for k in ks:
                    c = dict(files={"food.yaml": bookb, "log.yaml": logb}, f_today="2021/01/05", read_faults={which: k}, sink=None, **form, **NOCOLOR)
                    if which == "log.yaml" and form["cmd"] in ("reg", "bal", "csv-log", "print", "totals", "quantity", "unresolved") and k % 3 == 0: c["g_end"] = "2021/01/01"
                    fcases.append(c)
        ctx.nontriv(bookb + b"|" + logb)
    fres = cli_diff(ctx, fcases, tag="C10:cmd-fault:", inproc=True)
    for c, i in zip(fcases, fres):
        if i["status"] == "ok":
            ctx.violation("C10:success-on-read-fault:" + c["cmd"], "%s reports success although reading %s failed at byte %d" % ((c["cmd"],) + list(c["read_faults"].items())[0]), dict(kind="cli", case=c, impl=i))
    ctx.notes["command_level_read_faults"] = dict(cases=len(fcases), commands=len(forms))
    # lint on a file that cannot be read to its end (a line of 70000 bytes, a directory entry behind it does not matter) AFTER many malformed lines: however many
    # errors it has already listed, the run fails - it never ends "successfully" on a prefix
    lcases = []
    for nbad in (0, 1, 24, 25, 26, 60, 200):
        lines = [b"rec:", b"  a: 1"] + [b"  bad%d" % j for j in range(nbad)] + [b"  " + b"y" * 70000 + b": 1", b"  after: 1"]
        for silent in (False, True):
            lcases.append(dict(files={"f.yaml": b"\n".join(lines) + b"\n"}, cmd="lint", arg=b"f.yaml", silent=silent, **NOCOLOR))
    lres2 = cli_diff(ctx, lcases, tag="C10:lint-unreadable-tail:")
    for c, i in zip(lcases, lres2):
        if i["status"] == "ok":
            ctx.violation("C10:lint-success-on-a-prefix", "lint exits with success on a file whose line %d has 70000 bytes" % (c["files"]["f.yaml"].count(b"\n", 0, c["files"]["f.yaml"].find(b"y" * 100)) + 1), dict(kind="cli", case=dict(c, files={"f.yaml": c["files"]["f.yaml"][:600] + b"..."}), impl=dict(i, stdout=i["stdout"][:600])))
    # a file that does not exist, through every command and every way of naming it
    mcases = []
    for form in forms + [dict(cmd="stats"), dict(cmd="lint", arg=b"nowhere.yaml")]:
        for key in ("f_log", "e_log", "f_db", "e_db", "cfg_log", "cfg_db"):
            c = dict(files={"food.yaml": book0, "log.yaml": log0}, f_today="2021/01/05", **form, **NOCOLOR)
            if key.startswith("cfg_"): c["files"] = dict(c["files"], **{"my.cfg": {"cfg": {key[4:]: "nowhere.yaml"}}}); c["f_config"] = "my.cfg"
            else: c[key] = "nowhere.yaml"
            mcases.append(c)
            # an EMPTY name given by flag or environment (`-l "$LOG"` with LOG unset): a file that cannot be opened, not "nothing to read"
            if not key.startswith("cfg_"):
                c2 = dict(files={"food.yaml": book0, "log.yaml": log0}, f_today="2021/01/05", **form, **NOCOLOR); c2[key] = ""; c2["_empty_name"] = True
                mcases.append(c2)
    mres = cli_diff(ctx, [{k2: v for k2, v in c.items() if k2 != "_empty_name"} for c in mcases], tag="C10:missing-file:")
    for c, i in zip(mcases, mres):
        reads = READS.get(c["cmd"], [])
        named = "log.yaml" if any(k2 in c for k2 in ("f_log", "e_log")) or "log" in (c["files"].get("my.cfg") or {}).get("cfg", {}) else "food.yaml"
        if c["cmd"] != "lint" and named in reads and i["status"] == "ok":
            ctx.violation("C10:success-on-%s:%s" % ("empty-file-name" if c.get("_empty_name") else "missing-file", c["cmd"]), "%s reports success although its %s %s" % (c["cmd"], named, "was given an empty name" if c.get("_empty_name") else "does not exist"), dict(kind="cli", case=c, impl=i))
    return dict(rule="S-SCAN: for %d small files every byte offset 0..len+1 at which the reader starts failing, with reads of 1, 3 and 4096 bytes, exact callback sequence and returned "
                "error vs the model (and the returned error must be non-nil); lines of 65535 / 65536 / 70000 bytes at first, middle, last position, LF / CRLF / unterminated; the same "
                "files and a directory given as log or book through every command on the real binary; a reader that fails from byte k on for EVERY k of a small log / book through 16 command "
                "forms in-process (outcome and the bytes written so far vs the model; success is a violation), also with the failure behind the end of the period; a file that does not exist "
                "named by flag, environment or configuration file, and an empty name given by flag or environment. Non-trivial = distinct file (all offsets) / distinct (command, file shape)" % nfiles,
                extra=dict(exhaustive_offsets=True))

from .props2 import *     # noqa: E402,F401  (part 2 of the per-property checks; imports the helpers above)
