"""Check context: seeds, budgets, violation/replay bookkeeping, evidence, known findings."""
import hashlib, json, os, random, re, subprocess, sys, time
from . import build, run

VERIF = build.VERIF

def jsonable(x):
    if isinstance(x, bytes):
        try: return x.decode("utf-8")
        except UnicodeDecodeError: return {"hex": x.hex()}
    if isinstance(x, dict): return {str(k): jsonable(v) for k, v in x.items()}
    if isinstance(x, (list, tuple)): return [jsonable(v) for v in x]
    if isinstance(x, set): return sorted(jsonable(v) for v in x)
    return x

def unjson(x):
    if isinstance(x, dict):
        if set(x.keys()) == {"hex"}: return bytes.fromhex(x["hex"])
        return {k: unjson(v) for k, v in x.items()}
    if isinstance(x, list): return [unjson(v) for v in x]
    return x

def case_from_json(c):
    """replay files store file contents as text or {"hex":..}; turn them back into bytes"""
    c = unjson(c)
    files = {}
    for p, v in c.get("files", {}).items():
        if isinstance(v, str) and v != "DIR": v = v.encode("utf-8")
        files[p] = v
    c["files"] = files
    if isinstance(c.get("arg"), str): c["arg"] = c["arg"].encode("utf-8")
    if c.get("tz"): c["tz"] = tuple(c["tz"])
    return c

class Ctx:
    def __init__(self, pid, tier, seed):
        self.pid, self.tier, self.seed = pid, tier, seed
        self.rng = random.Random(seed * 1000003 + int(pid[1:]))
        self.t0 = time.time()
        self.evaluations = 0
        self.nontrivial = set()
        self.samples = []
        self.violations = []        # (key, replay path, summary)
        self.notes = {}
        self.traces = 0
        self.impl = None
        self.known = load_known()
        self.known_printed = []
        self.dist = {}

    def scale(self, quick, thorough):
        return thorough if self.tier == "thorough" else quick

    def count(self, n=1): self.evaluations += n

    def nontriv(self, key):
        """count a DISTINCT non-trivial case; key is hashed"""
        if not isinstance(key, (bytes, str)): key = json.dumps(jsonable(key), sort_keys=True)
        if isinstance(key, str): key = key.encode("utf-8", "surrogateescape")
        self.nontrivial.add(hashlib.sha1(key).digest()[:8])

    def sample(self, s, limit=4):
        if len(self.samples) < limit: self.samples.append(jsonable(s))

    def tally(self, name, key, n=1):
        d = self.dist.setdefault(name, {})
        d[key] = d.get(key, 0) + n

    def violation(self, key, summary, replay, found_input=True):
        """records a violation of the property; `key` identifies the failing call site / input class so that
        a listed known finding suppresses only itself"""
        for k in self.known:
            if k["property"] == self.pid and k["status"] == "known" and k["key"] == key:
                if key not in self.known_printed:
                    self.known_printed.append(key)
                    print(f"KNOWN-FINDING: property={self.pid} {k['what']}")
                return
        if any(v[0] == key for v in self.violations): return
        if sum(1 for v in self.violations if v[3] == found_input) >= (5 if found_input else 3): return
        os.makedirs(os.path.join(VERIF, "replays"), exist_ok=True)
        body = json.dumps(jsonable(dict(property=self.pid, key=key, summary=summary, seed=self.seed, tier=self.tier,
                                        found_failing_input=found_input, **replay)), indent=1, sort_keys=True)
        h = hashlib.sha1(body.encode()).hexdigest()[:10]
        path = os.path.join(VERIF, "replays", f"{self.pid}-{h}.json")
        open(path, "w").write(body)
        self.violations.append((key, path, summary, found_input))

    def finish(self, proof, rule, assumptions, extra=None):
        wall = time.time() - self.t0
        cov = dict(evaluations=self.evaluations, distinct_nontrivial=len(self.nontrivial), rule=rule,
                   samples=self.samples or ["(no case was generated)"], traces_validated_against_impl=self.traces,
                   obligations=proof["obligations"], discharged=proof["discharged"], checker_cmd=proof["checker_cmd"],
                   trusted_base=proof["trusted_base"], theorems=proof["theorems"], props_files=proof.get("props_files", []), proof_status=proof["status"],
                   axioms=proof["axioms"], input_distribution=self.dist, known_findings_printed=self.known_printed,
                   implementation_tree=self.impl["hash"] if self.impl else None)
        if not proof["obligations"]:
            for k in ("obligations", "discharged"): cov.pop(k)
        if extra: cov.update(extra)
        cov.update(self.notes)
        ev = dict(property_id=self.pid, tier=self.tier, seed=self.seed, level="proof", coverage=jsonable(cov),
                  assumptions=assumptions, wall_s=round(wall, 2), violations=len(self.violations))
        os.makedirs(os.path.join(VERIF, "evidence"), exist_ok=True)
        open(os.path.join(VERIF, "evidence", self.pid + ".json"), "w").write(json.dumps(ev, indent=1))
        # violations with a failing input of the property first; a disagreement with the model alone (or a proof that no longer checks) is
        # reported as well - the property is no longer shown to hold - and says that no failing input was found
        for key, path, summary, found in sorted(self.violations, key=lambda v: not v[3]):
            print(f"VIOLATION property={self.pid} replay={path} {summary[:300]}" + ("" if found else " no-failing-input-found"))
        return 1 if self.violations else 0

def anchored_files(pid):
    for l in open(os.path.join(VERIF, "properties.jsonl")):
        p = json.loads(l)
        if p["id"] == pid: return p.get("anchors", {}).get("files", [])
    return []

def load_known():
    p = os.path.join(VERIF, "known_findings.json")
    if not os.path.exists(p): return []
    return json.load(open(p)).get("findings", [])

# ---------------------------------------------------------------------------
# the proof side: what the kernel checked for this property
# ---------------------------------------------------------------------------
TRUSTED_BASE = [
    "Coq 8.16.1 kernel (coqc, full .vo build; vm_compute used by computational examples and lemmas; no native_compute)",
    "hand-written Gallina model coq/theories/{Base,Model}/*.v of the Go code (what is modelled, not verified: Go runtime and library behaviour - bufio, strings, strconv.ParseFloat, fmt, text/template, encoding/csv, time, sort, map iteration, goroutines/channels, os files; urfave/cli flag semantics; gcfg; aquilax/truncate)",
    "correspondence check: extraction (ExtrOcamlBasic, plus one Extract Constant of ours: List.rev => Stdlib.List.rev), OCaml 4.13.1, coq/extraction/main.ml glue (line protocol, hex), Go harnesses under harness/go (build tag verif, add-only), Python orchestrator (generators, projections, comparison)",
]

STDLIB_AXIOMS = {"ClassicalDedekindReals.sig_forall_dec", "ClassicalDedekindReals.sig_not_dec", "FunctionalExtensionality.functional_extensionality_dep",
                 "Classical_Prop.classic"}

def proof_evidence(pid, coq_ok, coq_log):
    """obligations = statements (Theorem/Lemma/Corollary/Example/Fact/Remark) in Props/<pid>.v and the files it depends on
    inside this development (coqdep cone); discharged = the same number when the build succeeded and the gate found no
    Admitted/admit/Axiom/Parameter/Conjecture and no disabled check."""
    coq = os.path.join(VERIF, "coq")
    import glob
    props_files = sorted(f for f in glob.glob(os.path.join(coq, "theories", "Props", pid + "*.v")) if re.fullmatch(re.escape(pid) + r"(_\w+)?\.v", os.path.basename(f)))
    ignored = [os.path.relpath(f, VERIF) for f in props_files if f not in set(build.coq_sources())]
    props_files = [f for f in props_files if f in set(build.coq_sources())]      # only what the registered build compiles
    props = props_files[0] if props_files else os.path.join(coq, "theories", "Props", pid + ".v")
    res = dict(obligations=0, discharged=0, checker_cmd="cd /verif/coq && coq_makefile -f _CoqProject -o Makefile && make -j16 (coqc 8.16.1); thorough adds coqchk -silent -o",
               trusted_base=TRUSTED_BASE, theorems=[], status="", axioms=[])
    if not os.path.exists(props):
        res["status"] = "no Props/%s.v in the development yet: the property is decided by the correspondence with the model only" % pid
        return res
    cone = sorted(set(f for pf in props_files for f in dep_cone(pf)))
    listed = set(build.coq_sources())
    unlisted = [os.path.relpath(f, VERIF) for f in cone if f not in listed]
    stmt = re.compile(r"^\s*(?:Local\s+|Global\s+|#\[[^\]]*\]\s*)*(Theorem|Lemma|Corollary|Example|Fact|Remark|Proposition)\s+([A-Za-z0-9_']+)", re.M)
    n = 0
    for f in cone:
        n += len(stmt.findall(open(f).read()))
    res["obligations"] = n
    res["theorems"] = [m[1] for pf in props_files for m in stmt.findall(open(pf).read()) if m[0] == "Theorem"]
    res["props_files"] = [os.path.relpath(f, VERIF) for f in props_files] + ["(not in _CoqProject, ignored: %s)" % f for f in ignored]
    gate = gate_scan(cone) + ["%s is not listed in _CoqProject (not compiled by the build)" % u for u in unlisted]
    res["axioms"] = assumptions_of(pid)
    nclosed = sum(int(m.group(1)) for a in res["axioms"] for m in [re.match(r"(\d+) theorem", a)] if m)
    if coq_ok and nclosed < len(res["theorems"]):
        gate = gate + ["only %d of %d property theorems reported by Print Assumptions" % (nclosed, len(res["theorems"]))]
    # axioms the standard library itself declares may appear (they come in with Flocq's real numbers) and are named in the evidence;
    # anything else is refused
    for a in res["axioms"]:
        if a.startswith("axioms:"):
            other = [x.strip() for x in a[len("axioms:"):].split(",") if x.strip() and x.strip() not in STDLIB_AXIOMS]
            if other: gate = gate + ["a property theorem depends on an axiom that is not one of the standard library's: " + ", ".join(other)]
    if len(res["axioms"]) > 1:
        res["trusted_base"] = TRUSTED_BASE + ["axioms declared by Coq's standard library (they enter with the real numbers through Flocq's BinarySingleNaN.binary_round_aux_correct; none is declared by this development): " + "; ".join(res["axioms"][1:])]
    if coq_ok and not gate:
        res["discharged"] = n
        res["status"] = "all %d statements in the dependency cone of %s (%d files) compiled by coqc; gate clean; %s" % (n, ", ".join(os.path.basename(f) for f in props_files), len(cone),
            "every property theorem Closed under the global context" if len(res["axioms"]) == 1 else "; ".join(res["axioms"]) + " (axioms declared by the standard library itself, named here and in the trusted base)")
    else:
        res["status"] = "NOT discharged: " + ("; ".join(gate) if gate else "coq build failed: " + coq_log[-1500:])
    return res

def dep_cone(vfile):
    coq = os.path.join(VERIF, "coq")
    seen, todo = set(), [vfile]
    while todo:
        f = todo.pop()
        if f in seen or not os.path.exists(f): continue
        seen.add(f)
        for m in re.finditer(r"From\s+HP\s+Require\s+(?:Import|Export)?\s*([^.]*(?:\.[A-Za-z_][^.\s]*)*)\s*\.\s", open(f).read() + " "):
            pass
        txt = open(f).read()
        for m in re.finditer(r"From\s+HP\s+Require\s+(?:Import\s+|Export\s+)?((?:[A-Za-z0-9_]+(?:\.[A-Za-z0-9_]+)*\s*)+)\.", txt):
            for mod in m.group(1).split():
                todo.append(os.path.join(coq, "theories", *mod.split(".")) + ".v")
        for m in re.finditer(r"Require\s+(?:Import\s+|Export\s+)?((?:HP\.[A-Za-z0-9_.]+\s*)+)\.", txt):
            for mod in m.group(1).split():
                todo.append(os.path.join(coq, "theories", *mod.split(".")[1:]) + ".v")
    return sorted(seen)

FORBIDDEN = re.compile(r"\b(Admitted|admit|Axiom|Axioms|Parameter|Parameters|Conjecture|Abort All|Unset\s+Guard\s+Checking|Unset\s+Positivity\s+Checking|Unset\s+Universe\s+Checking|bypass_check|Admit\s+Obligations)\b")

def strip_comments(txt):
    out, depth, i = [], 0, 0
    while i < len(txt):
        if txt.startswith("(*", i): depth += 1; i += 2
        elif txt.startswith("*)", i) and depth: depth -= 1; i += 2
        else:
            if not depth: out.append(txt[i])
            i += 1
    return "".join(out)

def gate_scan(files):
    bad = []
    for f in files:
        for m in FORBIDDEN.finditer(strip_comments(open(f).read())):
            bad.append("%s: %s" % (os.path.relpath(f, VERIF), m.group(1)))
    return bad

def assumptions_of(pid):
    """what Print Assumptions printed under the theorems of Props/<pid>*.v during the last build:
    ["<n> theorem(s): Closed under the global context", "axioms: a, b", "<m> theorem(s) depend on them"]"""
    import glob
    logs = [f for f in glob.glob(os.path.join(VERIF, "coq", "assumptions", pid + "*.log")) if re.fullmatch(re.escape(pid) + r"(_\w+)?\.log", os.path.basename(f))]
    if not logs: return ["(no Print Assumptions output recorded)"]
    txt = "\n".join(open(l).read() for l in logs)
    closed = txt.count("Closed under the global context")
    ax, nax, inblk = set(), 0, False
    for line in txt.split("\n"):
        if line.startswith("Axioms:"): inblk = True; nax += 1; continue
        if line.startswith("Closed under the global context"): inblk = False; continue
        if inblk:
            m = re.match(r"^([A-Za-z_][A-Za-z0-9_.']*)\s*(:|$)", line)
            if m: ax.add(m.group(1))
            elif line and not line[0].isspace(): inblk = False
    out = ["%d theorem(s): Closed under the global context" % closed]
    if nax:
        out.append("axioms: " + ", ".join(sorted(ax)))
        out.append("%d theorem(s) depend on them" % nax)
    return out
