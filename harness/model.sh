#!/bin/bash
# the extracted model with a raised stack limit (extracted list functions are not tail recursive)
ulimit -s 1000000 2>/dev/null || ulimit -s unlimited 2>/dev/null
exec "$(dirname "$0")/../coq/extraction/model"
