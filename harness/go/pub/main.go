//go:build verif

// Verification harness (add-only, build tag "verif"): copied by /verif's checks
// into a scratch copy of the tree as verifpub/main.go (root module). Serves
// cases from stdin against the public API of the parser and resolver packages.
// One request per line, tokens key=hexvalue; the reply is the hexadecimal of a
// canonical text rendering, the same one the Coq model's driver produces.
package main

import (
	"bufio"
	"bytes"
	"encoding/hex"
	"errors"
	"fmt"
	"io"
	"math"
	"math/rand"
	"os"
	"runtime"
	"sort"
	"strconv"
	"strings"
	"syscall"
	"time"

	shared "github.com/aquilax/hranoprovod-cli/v3"
	"github.com/aquilax/hranoprovod-cli/v3/parser"
	"github.com/aquilax/hranoprovod-cli/v3/resolver"
)

var errInjected = errors.New("verif: injected read error")

// faultReader delivers data[:fault] in reads of at most chunk bytes, then fails
// (fault < 0: delivers everything, then io.EOF). jitter > 0 yields between reads.
type faultReader struct {
	data   []byte
	pos    int
	fault  int
	chunk  int
	jitter *rand.Rand
}

func (r *faultReader) Read(p []byte) (int, error) {
	if r.jitter != nil {
		switch r.jitter.Intn(4) {
		case 0:
			runtime.Gosched()
		case 1:
			time.Sleep(time.Duration(r.jitter.Intn(50)) * time.Microsecond)
		}
	}
	end := len(r.data)
	if r.fault >= 0 && r.fault < end {
		end = r.fault
	}
	if r.pos >= end {
		if r.fault >= 0 {
			return 0, errInjected
		}
		return 0, io.EOF
	}
	n := end - r.pos
	if n > len(p) {
		n = len(p)
	}
	if r.chunk > 0 && n > r.chunk {
		n = r.chunk
	}
	copy(p, r.data[r.pos:r.pos+n])
	r.pos += n
	return n, nil
}

func showF(v float64) string {
	if math.IsNaN(v) {
		return "nan"
	}
	return strconv.FormatUint(math.Float64bits(v), 10)
}

func hx(s string) string { return hex.EncodeToString([]byte(s)) }

func showElements(els shared.Elements) string {
	parts := make([]string, len(els))
	for i, e := range els {
		parts[i] = hx(e.Name) + ":" + showF(e.Value)
	}
	return strings.Join(parts, ",")
}

func showNode(n *shared.ParserNode) string {
	if n == nil {
		return "N <nil>"
	}
	meta := "-"
	if n.Metadata != nil {
		parts := make([]string, len(*n.Metadata))
		for i, m := range *n.Metadata {
			parts[i] = hx(m.Name) + ":" + hx(m.Value)
		}
		meta = "{" + strings.Join(parts, ",") + "}"
	}
	return "N " + hx(n.Header) + " [" + showElements(n.Elements) + "] " + meta
}

func showScanErr(err error) string {
	switch {
	case err == nil:
		return "ok"
	case errors.Is(err, errInjected):
		return "readerr"
	case errors.Is(err, bufio.ErrTooLong):
		return "toolong"
	default:
		return "other:" + hx(err.Error())
	}
}

func geti(kv map[string]string, k string, d int) int {
	if v, ok := kv[k]; ok {
		n, err := strconv.Atoi(v)
		if err == nil {
			return n
		}
	}
	return d
}

// the parser configuration of a request: the default one, or Config{CommentChar: cc} when cc is given (cc=0 is the zero Config)
func cfgOf(kv map[string]string) parser.Config {
	if _, ok := kv["cc"]; ok {
		return parser.Config{CommentChar: uint8(geti(kv, "cc", 0))}
	}
	return parser.NewDefaultConfig()
}

func doParse(kv map[string]string) string {
	r := &faultReader{data: []byte(kv["data"]), fault: geti(kv, "fault", -1), chunk: geti(kv, "chunk", 0)}
	var lines []string
	err := parser.ParseStreamCallback(r, cfgOf(kv), func(n *shared.ParserNode, err error) (bool, error) {
		if err != nil {
			if n != nil {
				lines = append(lines, "X node-with-error")
			}
			lines = append(lines, "E "+hx(err.Error()))
		} else {
			lines = append(lines, showNode(n))
		}
		return false, nil
	})
	lines = append(lines, "R "+showScanErr(err))
	return strings.Join(lines, "\n")
}

func loadDB(data []byte) (shared.DBNodeMap, error) {
	db := shared.NewDBNodeMap()
	err := parser.ParseStreamCallback(bytes.NewReader(data), parser.NewDefaultConfig(), func(n *shared.ParserNode, err error) (bool, error) {
		if err != nil {
			return true, err
		}
		db.Push(shared.NewDBNodeFromNode(n))
		return false, nil
	})
	return db, err
}

func showDB(db shared.DBNodeMap) string {
	keys := make([]string, 0, len(db))
	for k := range db {
		keys = append(keys, k)
	}
	sort.Strings(keys)
	lines := []string{}
	for _, k := range keys {
		lines = append(lines, hx(k)+" "+showElements(db[k].Elements))
	}
	return "ok\n" + strings.Join(lines, "\n")
}

// resolve with both public entry points, `repeat` times each on freshly built
// maps; reports every distinct observation (one if the code is deterministic)
func doResolve(kv map[string]string) string {
	data := []byte(kv["data"])
	depth := geti(kv, "depth", 10)
	repeat := geti(kv, "repeat", 1)
	seen := map[string]bool{}
	var order []string
	for i := 0; i < repeat; i++ {
		for api := 0; api < 2; api++ {
			db, err := loadDB(data)
			if err != nil {
				return "parse-error"
			}
			var out string
			if api == 0 {
				res, rerr := resolver.Resolve(resolver.Config{MaxDepth: depth}, db)
				if rerr != nil {
					out = "err " + classifyResolveErr(rerr)
				} else {
					out = showDB(res)
				}
			} else {
				r := resolver.NewResolver(db, resolver.Config{MaxDepth: depth})
				if rerr := r.Resolve(); rerr != nil {
					out = "err " + classifyResolveErr(rerr)
				} else {
					out = showDB(db)
				}
			}
			if !seen[out] {
				seen[out] = true
				order = append(order, out)
			}
		}
	}
	if len(order) == 1 {
		return order[0]
	}
	sort.Strings(order)
	return "NONDET\n" + strings.Join(order, "\n--\n")
}

func classifyResolveErr(err error) string {
	if err.Error() == "maximum resolution depth reached" {
		return "maxdepth"
	}
	return "other:" + hx(err.Error())
}

// channel API: policy "stop" follows the documented receive loop (return at the
// first error or at Done); policy "drain" keeps receiving until Done. Reports
// what was received, in order, and whether the producer goroutine exited.
func doChan(kv map[string]string) string {
	p := parser.NewParser(cfgOf(kv))
	res := chanRound(kv, p)
	if kv["reuse"] == "1" {
		// the same Parser value used for a second parse (as the package's own benchmark does): the second run is what is reported
		res = chanRound(kv, p)
	}
	return res
}

func chanRound(kv map[string]string, p parser.Parser) string {
	policy := kv["policy"]
	seed := int64(geti(kv, "seed", 0))
	rng := rand.New(rand.NewSource(seed))
	var prodJitter *rand.Rand
	if geti(kv, "jitter", 0) > 0 {
		prodJitter = rand.New(rand.NewSource(seed + 7919))
	}
	pause := time.Duration(geti(kv, "pause", 0)) * time.Millisecond
	fifoDir := ""
	if kv["fifo"] == "1" {
		d, err := os.MkdirTemp(os.Getenv("HV_TMP"), "hv-fifo")
		if err != nil {
			panic(err)
		}
		fifoDir = d
		defer os.RemoveAll(d)
	}
	exited := make(chan struct{})
	go func() {
		defer close(exited)
		defer func() { recover() }()
		if path, ok := kv["path"]; ok {
			p.ParseFile(path)
		} else if kv["fifo"] == "1" {
			// the file is a named pipe fed by a writer: readable, but without a size and not a regular file
			// (its directory was made by the caller and is removed when the round is over, whether or not this goroutine ever returns)
			dir := fifoDir
			path := dir + "/log.fifo"
			if err := syscall.Mkfifo(path, 0600); err != nil {
				panic(err)
			}
			go func() {
				f, err := os.OpenFile(path, os.O_WRONLY, 0)
				if err != nil {
					return
				}
				defer f.Close()
				data := []byte(kv["data"])
				piece := geti(kv, "chunk", 0)
				if piece <= 0 {
					piece = len(data) + 1
				}
				for len(data) > 0 {
					n := piece
					if n > len(data) {
						n = len(data)
					}
					if _, err := f.Write(data[:n]); err != nil {
						return
					}
					data = data[n:]
				}
			}()
			p.ParseFile(path)
		} else {
			p.ParseStream(&faultReader{data: []byte(kv["data"]), fault: geti(kv, "fault", -1), chunk: geti(kv, "chunk", 0), jitter: prodJitter})
		}
	}()
	var lines []string
	timeout := time.After(5*time.Second + 40*pause)
	done := false
	for !done {
		if pause > 0 {
			time.Sleep(pause) // a slow consumer: it comes back to its receive loop late
		}
		if geti(kv, "jitter", 0) > 0 {
			switch rng.Intn(4) {
			case 0:
				runtime.Gosched()
			case 1:
				time.Sleep(time.Duration(rng.Intn(80)) * time.Microsecond)
			}
		}
		select {
		case n := <-p.Nodes:
			lines = append(lines, showNode(n))
		case err := <-p.Errors:
			if errors.Is(err, errInjected) || errors.Is(err, bufio.ErrTooLong) {
				lines = append(lines, "E scan:"+showScanErr(err))
			} else if _, isIO := err.(*parser.ErrorIO); isIO {
				lines = append(lines, "E io")
			} else {
				lines = append(lines, "E "+hx(err.Error()))
			}
			if policy == "stop" {
				done = true
			}
		case <-p.Done:
			lines = append(lines, "D")
			done = true
		case <-timeout:
			lines = append(lines, "T timeout")
			done = true
		}
	}
	// liveness of the producer: after a drain it must exit by itself
	if policy == "drain" {
		select {
		case <-exited:
			lines = append(lines, "X exited")
		case <-time.After(2 * time.Second):
			lines = append(lines, "X alive")
		}
	}
	return strings.Join(lines, "\n")
}

func main() {
	in := bufio.NewReaderSize(os.Stdin, 1<<22)
	out := bufio.NewWriter(os.Stdout)
	defer out.Flush()
	for {
		line, err := in.ReadString('\n')
		line = strings.TrimSpace(line)
		if line != "" {
			kv := map[string]string{}
			for _, tok := range strings.Fields(line) {
				if i := strings.IndexByte(tok, '='); i >= 0 {
					v, _ := hex.DecodeString(tok[i+1:])
					kv[tok[:i]] = string(v)
				} else {
					kv[tok] = ""
				}
			}
			var res string
			func() {
				defer func() {
					if r := recover(); r != nil {
						res = fmt.Sprintf("PANIC %v", r)
					}
				}()
				switch kv["op"] {
				case "parse":
					res = doParse(kv)
				case "resolve":
					res = doResolve(kv)
				case "chan":
					res = doChan(kv)
				default:
					res = "bad-request"
				}
			}()
			out.WriteString(hex.EncodeToString([]byte(res)))
			out.WriteByte('\n')
			out.Flush()
		}
		if err != nil {
			break
		}
	}
}
