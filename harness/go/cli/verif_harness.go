//go:build verif

// Verification harness (add-only, build tag "verif"): copied by /verif's checks
// into a scratch copy of the tree as cmd/hranoprovod-cli/verif_harness.go.
// When HR_VERIF_SERVE is set the binary serves cases from stdin instead of
// running main(): each case is one JSON line {args, env, cwd, sink}; the real
// commands (production flag table, production command constructors) run
// in-process with the report written to a sink that accepts the first `sink`
// bytes and fails afterwards (sink < 0: never fails). Panics are recovered and
// reported.
package main

import (
	"bufio"
	"encoding/hex"
	"encoding/json"
	"errors"
	"fmt"
	"io"
	"os"
	"runtime/coverage"
	"runtime/debug"

	"github.com/aquilax/hranoprovod-cli/cmd/hranoprovod-cli/v3/internal/balance"
	"github.com/aquilax/hranoprovod-cli/cmd/hranoprovod-cli/v3/internal/csv"
	"github.com/aquilax/hranoprovod-cli/cmd/hranoprovod-cli/v3/internal/lint"
	"github.com/aquilax/hranoprovod-cli/cmd/hranoprovod-cli/v3/internal/options"
	"github.com/aquilax/hranoprovod-cli/cmd/hranoprovod-cli/v3/internal/print"
	"github.com/aquilax/hranoprovod-cli/cmd/hranoprovod-cli/v3/internal/register"
	"github.com/aquilax/hranoprovod-cli/cmd/hranoprovod-cli/v3/internal/report"
	"github.com/aquilax/hranoprovod-cli/cmd/hranoprovod-cli/v3/internal/stats"
	"github.com/aquilax/hranoprovod-cli/cmd/hranoprovod-cli/v3/internal/summary"
	"github.com/aquilax/hranoprovod-cli/cmd/hranoprovod-cli/v3/internal/utils"
	"github.com/urfave/cli/v2"
)

type verifCase struct {
	Args []string          `json:"args"`
	Env  map[string]string `json:"env"`
	Cwd  string            `json:"cwd"`
	Sink int               `json:"sink"`
	// file name (as the command opens it) -> byte offset from which reading it fails
	Faults map[string]int `json:"faults"`
}

var errVerifRead = errors.New("verif: injected read error")

// verifFaultyReader delivers the first `left` bytes of r, then fails
type verifFaultyReader struct {
	r    io.Reader
	left int
}

func (f *verifFaultyReader) Read(p []byte) (int, error) {
	if f.left <= 0 {
		return 0, errVerifRead
	}
	if len(p) > f.left {
		p = p[:f.left]
	}
	n, err := f.r.Read(p)
	f.left -= n
	if err == io.EOF {
		// the file is shorter than the fault offset: the fault hits where the data ends
		return n, errVerifRead
	}
	return n, err
}

type verifResult struct {
	Out   string `json:"out"`   // hex of the bytes the sink accepted
	Err   string `json:"err"`   // hex of the text of the error returned by App.Run ("" = nil)
	Panic string `json:"panic"` // recovered panic + stack ("" = none)
}

var errSinkFull = errors.New("verif sink: no space left")

type verifSink struct {
	limit int
	got   []byte
}

func (s *verifSink) Write(p []byte) (int, error) {
	if s.limit < 0 {
		s.got = append(s.got, p...)
		return len(p), nil
	}
	room := s.limit - len(s.got)
	if len(p) <= room {
		s.got = append(s.got, p...)
		return len(p), nil
	}
	if room < 0 {
		room = 0
	}
	s.got = append(s.got, p[:room]...)
	return room, errSinkFull
}

func verifApp(out io.Writer, faults map[string]int) *cli.App {
	a := GetApp()
	cu := utils.NewCmdUtils()
	if len(faults) > 0 {
		// the production opener, with the readers of the named files failing from the given offset
		prod := cu.WithFileReaders
		cu.WithFileReaders = func(fileNames []string, cb func([]io.Reader) error) error {
			return prod(fileNames, func(rs []io.Reader) error {
				for i, name := range fileNames {
					if k, ok := faults[name]; ok && i < len(rs) {
						rs[i] = &verifFaultyReader{r: rs[i], left: k}
					}
				}
				return cb(rs)
			})
		}
	}
	cu.WithOptions = func(c *cli.Context, cb func(*options.Options) error) error {
		o := options.New()
		o.ReporterConfig.Output = out
		if err := o.Load(c, true); err != nil {
			return err
		}
		return cb(o)
	}
	a.Commands = []*cli.Command{
		register.NewRegisterCommand(cu, register.Register),
		balance.NewBalanceCommand(cu, balance.Balance),
		lint.NewLintCommandVerif(cu),
		report.NewReportCommand(cu),
		csv.NewCSVCommand(cu),
		stats.NewStatsCommand(cu, stats.Stats),
		summary.NewSummaryCommand(cu, summary.Summary),
		print.NewPrintCommand(cu, print.Print),
	}
	a.ExitErrHandler = func(*cli.Context, error) {}
	a.Writer = io.Discard
	a.ErrWriter = io.Discard
	return a
}

func verifRun(c verifCase) (res verifResult) {
	sink := &verifSink{limit: c.Sink}
	defer func() {
		res.Out = hex.EncodeToString(sink.got)
		if r := recover(); r != nil {
			res.Panic = fmt.Sprintf("%v\n%s", r, debug.Stack())
		}
	}()
	for k, v := range c.Env {
		os.Setenv(k, v)
		defer os.Unsetenv(k)
	}
	if c.Cwd != "" {
		if err := os.Chdir(c.Cwd); err != nil {
			res.Err = hex.EncodeToString([]byte("chdir: " + err.Error()))
			return
		}
	}
	if err := verifApp(sink, c.Faults).Run(append([]string{"hranoprovod-cli"}, c.Args...)); err != nil {
		msg := err.Error()
		if msg == "" {
			msg = "(empty error)"
		}
		res.Err = hex.EncodeToString([]byte(msg))
	}
	return
}

func init() {
	if os.Getenv("HR_VERIF_SERVE") == "" {
		return
	}
	// a smaller goroutine stack limit than the default 1 GB: the depth of a recursion is then reached with inputs of megabytes instead of hundreds of
	// megabytes (used to reproduce the stack overflow of a very long recipe chain under a huge --maxdepth at a fraction of the size)
	if v := os.Getenv("HR_VERIF_MAXSTACK"); v != "" {
		var n int
		if _, err := fmt.Sscanf(v, "%d", &n); err == nil && n > 0 {
			debug.SetMaxStack(n)
		}
	}
	in := bufio.NewReaderSize(os.Stdin, 1<<20)
	out := bufio.NewWriter(os.Stdout)
	for {
		line, err := in.ReadBytes('\n')
		if len(line) > 1 {
			var c verifCase
			if jerr := json.Unmarshal(line, &c); jerr != nil {
				fmt.Fprintf(out, "{\"err\":\"bad case: %s\"}\n", jerr)
			} else {
				b, _ := json.Marshal(verifRun(c))
				out.Write(b)
				out.WriteByte('\n')
			}
			out.Flush()
		}
		if err != nil {
			break
		}
	}
	// the process ends inside init(): write the coverage counters of an instrumented build ourselves (errors ignored: not instrumented)
	if dir := os.Getenv("GOCOVERDIR"); dir != "" {
		_ = coverage.WriteMetaDir(dir)
		_ = coverage.WriteCountersDir(dir)
	}
	os.Exit(0)
}
