//go:build verif

// Verification harness (add-only, build tag "verif"): exports the lint command
// constructor so that the in-process harness can give it its own CmdUtils.
package lint

import (
	"github.com/aquilax/hranoprovod-cli/cmd/hranoprovod-cli/v3/internal/utils"
	"github.com/urfave/cli/v2"
)

func NewLintCommandVerif(cu utils.CmdUtils) *cli.Command {
	return newLintCommand(cu, Lint)
}
