(* Extraction of the date-layout part of the model for the comparison with Go's time package. *)
From Coq Require Import extraction.Extraction extraction.ExtrOcamlBasic.
From HP Require Import Model.Dates.
Extraction Language OCaml.
Separate Extraction Dates.tokenize Dates.tokenize_fuel Dates.parse_date Dates.format_date.
