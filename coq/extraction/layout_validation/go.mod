module layoutgen

go 1.23
