// Generates (layout, text) pairs and Go's answers for the comparison with the Coq model of date layouts.
//   P <layout> <text> <y-m-d | ERR>      time.Parse(layout, text)
//   F <layout> <y> <m> <d> <text>        time.Date(y,m,d).Format(layout)
// Layouts: the eight modelled elements, the literals, and near-misses the model must decline.
// Texts: formatted dates (also under a sibling layout: other spellings of the same elements),
// mutations (case, blanks, digits, deletions, insertions, truncation, other month names), hand-made edge cases.
package main

import (
	"bufio"
	"fmt"
	"math/rand"
	"os"
	"strconv"
	"strings"
	"time"
)

var elems = []string{"2006", "01", "02", "2", "_2", "1", "Jan", "January"}
var yearE = []string{"2006"}
var monthE = []string{"01", "1", "Jan", "January"}
var dayE = []string{"02", "2", "_2"}
var lits = []string{"/", "-", ".", " ", ":", ",", "  ", ", ", " - ", ""}
var near = []string{"_2006", "15", "Janu", "Januar", "Mon", "Monday", "MST", "06", "03", "04", "05", "002", "__2", "PM", "pm",
	"Z07", "Z0700", "-07", "-0700", ".000", ",000", ".999", ",999", ".0", ".00", "3", "4", "5", "T", "x", "_", "0", "9", "JAN", "jan", "Feb",
	"20060", "200", "20", "006", "J", "Ja", "JanX", "Jan_", "January1", "Januaryx", "12", "21", "22", "11", "_", "__", "_1", "7", "8", "6", "Z", "M", "P", "%", "\"", "#", "*"}

var rng = rand.New(rand.NewSource(20261002))

func pick(l []string) string { return l[rng.Intn(len(l))] }

type piece struct {
	s    string
	kind int // 0 literal/near, 1 year, 2 month, 3 day
}

func genLayout() []piece {
	var ps []piece
	mode := rng.Intn(10)
	switch {
	case mode < 5: // a permutation of year / month / day with separators
		order := rng.Perm(3)
		n := 3
		if rng.Intn(5) == 0 {
			n = 1 + rng.Intn(3)
		}
		if rng.Intn(6) == 0 {
			ps = append(ps, piece{pick(lits), 0})
		}
		for i := 0; i < n; i++ {
			switch order[i] {
			case 0:
				ps = append(ps, piece{"2006", 1})
			case 1:
				ps = append(ps, piece{pick(monthE), 2})
			case 2:
				ps = append(ps, piece{pick(dayE), 3})
			}
			if i+1 < n || rng.Intn(5) == 0 {
				ps = append(ps, piece{pick(lits), 0})
			}
		}
		if rng.Intn(8) == 0 { // one near-miss somewhere
			k := rng.Intn(len(ps) + 1)
			ps = append(ps[:k], append([]piece{{pick(near), 0}}, ps[k:]...)...)
		}
	default: // free concatenation
		n := 1 + rng.Intn(7)
		for i := 0; i < n; i++ {
			r := rng.Intn(20)
			switch {
			case r < 9:
				e := pick(elems)
				k := 3
				if e == "2006" {
					k = 1
				} else if e == "01" || e == "1" || e == "Jan" || e == "January" {
					k = 2
				}
				ps = append(ps, piece{e, k})
			case r < 17:
				ps = append(ps, piece{pick(lits), 0})
			default:
				ps = append(ps, piece{pick(near), 0})
			}
		}
	}
	return ps
}

func join(ps []piece) string {
	var sb strings.Builder
	for _, p := range ps {
		sb.WriteString(p.s)
	}
	return sb.String()
}

func sibling(ps []piece) string {
	var sb strings.Builder
	for _, p := range ps {
		switch p.kind {
		case 2:
			sb.WriteString(pick(monthE))
		case 3:
			sb.WriteString(pick(dayE))
		default:
			sb.WriteString(p.s)
		}
	}
	return sb.String()
}

func genDate() time.Time {
	var y int
	switch rng.Intn(6) {
	case 0:
		y = rng.Intn(10000)
	case 1:
		y = []int{0, 1, 9, 99, 100, 999, 1000, 1900, 2000, 2024, 9999, 1970, 400, 4}[rng.Intn(14)]
	default:
		y = 1990 + rng.Intn(50)
	}
	m := 1 + rng.Intn(12)
	d := 1 + rng.Intn(31)
	if rng.Intn(3) == 0 {
		d = 1 + rng.Intn(9)
	}
	if rng.Intn(10) == 0 {
		d = 28 + rng.Intn(4)
	}
	t := time.Date(y, time.Month(m), 1, 0, 0, 0, 0, time.UTC)
	last := t.AddDate(0, 1, -1).Day()
	if d > last {
		d = last
	}
	return time.Date(y, time.Month(m), d, 0, 0, 0, 0, time.UTC)
}

var names = []string{"January", "February", "March", "April", "May", "June", "July", "August", "September", "October", "November", "December",
	"Jan", "Feb", "Mar", "Apr", "Jun", "Jul", "Aug", "Sep", "Sept", "Oct", "Nov", "Dec", "Ma", "Marc", "Mayy", "Janu", "J", "Juni", "Mai", "Decembe"}

func flipCase(s string) string {
	bs := []byte(s)
	for i, c := range bs {
		if (c >= 'a' && c <= 'z') || (c >= 'A' && c <= 'Z') {
			if rng.Intn(2) == 0 {
				bs[i] = c ^ 0x20
			}
		}
	}
	return string(bs)
}

const junk = "0123456789 /-.:,_abJMzZ@[`{0 1 2"

func mutate(s string) string {
	bs := []byte(s)
	switch rng.Intn(14) {
	case 0:
		return flipCase(s)
	case 1: // upper / lower
		if rng.Intn(2) == 0 {
			return strings.ToUpper(s)
		}
		return strings.ToLower(s)
	case 2: // extra blank(s)
		k := rng.Intn(len(bs) + 1)
		return string(bs[:k]) + strings.Repeat(" ", 1+rng.Intn(2)) + string(bs[k:])
	case 3: // delete a byte
		if len(bs) == 0 {
			return s
		}
		k := rng.Intn(len(bs))
		return string(bs[:k]) + string(bs[k+1:])
	case 4: // replace a byte
		if len(bs) == 0 {
			return s
		}
		k := rng.Intn(len(bs))
		bs[k] = junk[rng.Intn(len(junk))]
		return string(bs)
	case 5: // replace a digit by a digit
		var idx []int
		for i, c := range bs {
			if c >= '0' && c <= '9' {
				idx = append(idx, i)
			}
		}
		if len(idx) == 0 {
			return s
		}
		bs[idx[rng.Intn(len(idx))]] = byte('0' + rng.Intn(10))
		return string(bs)
	case 6: // insert a byte
		k := rng.Intn(len(bs) + 1)
		return string(bs[:k]) + string(junk[rng.Intn(len(junk))]) + string(bs[k:])
	case 7: // truncate
		if len(bs) == 0 {
			return s
		}
		return string(bs[:rng.Intn(len(bs))])
	case 8: // append
		return s + string(junk[rng.Intn(len(junk))])
	case 9: // another month name in place of the first run of letters
		i := 0
		for i < len(bs) && !((bs[i] >= 'a' && bs[i] <= 'z') || (bs[i] >= 'A' && bs[i] <= 'Z')) {
			i++
		}
		j := i
		for j < len(bs) && ((bs[j] >= 'a' && bs[j] <= 'z') || (bs[j] >= 'A' && bs[j] <= 'Z')) {
			j++
		}
		if i == j {
			return s
		}
		return string(bs[:i]) + pick(names) + string(bs[j:])
	case 10: // drop a zero
		k := strings.IndexByte(s, '0')
		if k < 0 {
			return s
		}
		return s[:k] + s[k+1:]
	case 11: // a blank becomes nothing / a separator becomes a blank
		k := strings.IndexAny(s, " /-.,:")
		if k < 0 {
			return s
		}
		if s[k] == ' ' {
			return s[:k] + s[k+1:]
		}
		return s[:k] + " " + s[k+1:]
	case 12: // blank in front / at the end
		if rng.Intn(2) == 0 {
			return " " + s
		}
		return s + " "
	default: // case flip of one letter to a neighbour of the alphabet range
		for i, c := range bs {
			if c >= 'A' && c <= 'z' && rng.Intn(3) == 0 {
				bs[i] = []byte{'@', '[', '`', '{', c | 0x20, c &^ 0x20, c ^ 0x20}[rng.Intn(7)]
				break
			}
		}
		return string(bs)
	}
}

var w = bufio.NewWriterSize(os.Stdout, 1<<20)
var nP, nF int

func clean(s string) bool { return !strings.ContainsAny(s, "\t\n\r") }

func emitP(layout, text string) {
	if !clean(layout) || !clean(text) {
		return
	}
	t, err := time.Parse(layout, text)
	res := "ERR"
	if err == nil {
		if t.Hour() != 0 || t.Minute() != 0 || t.Second() != 0 || t.Nanosecond() != 0 || t.Location() != time.UTC {
			res = "OTHER" // only layouts outside the model can produce this
		} else {
			res = strconv.Itoa(t.Year()) + "-" + strconv.Itoa(int(t.Month())) + "-" + strconv.Itoa(t.Day())
		}
	}
	fmt.Fprintf(w, "P\t%s\t%s\t%s\n", layout, text, res)
	nP++
}

func emitF(layout string, t time.Time) {
	if !clean(layout) {
		return
	}
	fmt.Fprintf(w, "F\t%s\t%d\t%d\t%d\t%s\n", layout, t.Year(), int(t.Month()), t.Day(), t.Format(layout))
	nF++
}

// every concatenation of up to three pieces of a small alphabet, a fixed family of texts for each
func exhaustive() {
	alphabet := []piece{{"2006", 1}, {"01", 2}, {"02", 3}, {"2", 3}, {"_2", 3}, {"1", 2}, {"Jan", 2}, {"January", 2},
		{"/", 0}, {" ", 0}, {",", 0}, {".", 0}, {"-", 0}, {":", 0},
		{"_2006", 0}, {"15", 0}, {"Janu", 0}, {"Mon", 0}, {"_", 0}, {"0", 0}, {"3", 0}, {"x", 0}, {"06", 0}, {"002", 0}}
	dates := []time.Time{time.Date(2021, 1, 5, 0, 0, 0, 0, time.UTC), time.Date(1999, 11, 23, 0, 0, 0, 0, time.UTC),
		time.Date(2024, 2, 29, 0, 0, 0, 0, time.UTC), time.Date(7, 5, 10, 0, 0, 0, 0, time.UTC)}
	var rec func(ps []piece, depth int)
	rec = func(ps []piece, depth int) {
		if len(ps) > 0 {
			layout := join(ps)
			for _, t := range dates {
				emitF(layout, t)
				text := t.Format(layout)
				emitP(layout, text)
				emitP(layout, strings.ToLower(text))
				emitP(layout, strings.ToUpper(text))
				emitP(layout, text+" ")
				emitP(layout, " "+text)
				emitP(layout, strings.Replace(text, " ", "  ", 1))
				emitP(layout, strings.Replace(text, " ", "", 1))
				emitP(layout, strings.Replace(text, "0", "", 1))
				for _, alt := range []struct{ from, to string }{{"02", "2"}, {"2", "02"}, {"_2", "2"}, {"2", "_2"}, {"01", "1"}, {"1", "01"},
					{"Jan", "January"}, {"January", "Jan"}, {"Jan", "1"}, {"1", "Jan"}} {
					var sb strings.Builder
					changed := false
					for _, p := range ps {
						if p.s == alt.from && p.kind != 0 {
							sb.WriteString(alt.to)
							changed = true
						} else {
							sb.WriteString(p.s)
						}
					}
					if changed {
						emitP(layout, t.Format(sb.String()))
					}
				}
			}
			emitP(layout, "")
		}
		if depth == 0 {
			return
		}
		for _, p := range alphabet {
			rec(append(append([]piece{}, ps...), p), depth-1)
		}
	}
	rec(nil, 3)
	w.Flush()
	fmt.Fprintf(os.Stderr, "exhaustive: parse pairs %d, format pairs %d\n", nP, nF)
}

func main() {
	nLayouts := 6000
	if len(os.Args) > 1 && os.Args[1] == "exh" {
		exhaustive()
		return
	}
	if len(os.Args) > 1 {
		nLayouts, _ = strconv.Atoi(os.Args[1])
	}
	if len(os.Args) > 2 {
		seed, _ := strconv.Atoi(os.Args[2])
		rng = rand.New(rand.NewSource(int64(seed)))
	}
	fixed := []string{"2006/01/02", "2006-01-02", "02.01.2006", "2 Jan 2006", "January 2, 2006", "2.1.2006", "02/Jan/2006", "_2/01/2006",
		"Jan _2", "Jan _2 2006", "_2 Jan 2006", "Jan  _2", "2006 Jan _2", "22006", "1/2/2006", "2006-1-2", "102", "12006", "2January2006", "January2",
		"Jan2", "2Jan", "JanJanuary", "_2_2", "2 2 2006", "01 Jan", "Jan 01", "2006,01,02", "2006, 01, 02", "2006.01.02", "02,01", "2,1", "1,2",
		"2006 ", " 2006", "January", "Jan", "2", "1", "_2", "", " ", "2006_2", "2006_2006", "_2006", "2006 _2", "2006:01:02", "Jan-02-2006", "2-Jan-2006",
		"Jan. 2, 2006", "2006January02", "January 02, 2006", "02 January 2006", "2. January 2006", "_2. January 2006", "_2.01.2006", "_2.1.2006", "2/1", "1/2", "01/2", "1/02"}
	var layouts [][]piece
	for _, f := range fixed {
		layouts = append(layouts, []piece{{f, 0}})
	}
	// fixed layouts again with pieces known, so that siblings are generated
	layouts = append(layouts,
		[]piece{{"2", 3}, {" ", 0}, {"Jan", 2}, {" ", 0}, {"2006", 1}},
		[]piece{{"January", 2}, {" ", 0}, {"2", 3}, {", ", 0}, {"2006", 1}},
		[]piece{{"2", 3}, {".", 0}, {"1", 2}, {".", 0}, {"2006", 1}},
		[]piece{{"02", 3}, {"/", 0}, {"Jan", 2}, {"/", 0}, {"2006", 1}},
		[]piece{{"_2", 3}, {"/", 0}, {"01", 2}, {"/", 0}, {"2006", 1}},
		[]piece{{"Jan", 2}, {" ", 0}, {"_2", 3}},
		[]piece{{"2006", 1}, {"/", 0}, {"01", 2}, {"/", 0}, {"02", 3}})
	for len(layouts) < nLayouts {
		layouts = append(layouts, genLayout())
	}
	edgeTexts := []string{"", " ", "  ", "5", " 5", "  5", "15", " 15", "05", "0", "00", "32", "99", "1", "12", "13", "012", "Jan", "jan", "JAN", "jAN", "May", "MAY",
		"June", "Jun", "Sept", "September", "Jan  5", "Jan 15", "Jan 5", "Jan5", "Jan   5", "Jan15", "5 Jan 2021", " 5 Jan 2021", "15 Jan 2021", "2021", "02021", "20210"}
	for _, ps := range layouts {
		layout := join(ps)
		for k := 0; k < 3; k++ {
			emitF(layout, genDate())
		}
		for k := 0; k < 4; k++ {
			t := genDate()
			text := t.Format(layout)
			emitP(layout, text)
			emitP(layout, mutate(text))
			if rng.Intn(2) == 0 {
				emitP(layout, mutate(mutate(text)))
			}
			sib := t.Format(sibling(ps))
			emitP(layout, sib)
			emitP(layout, mutate(sib))
		}
		for k := 0; k < 2; k++ {
			emitP(layout, pick(edgeTexts))
		}
	}
	w.Flush()
	fmt.Fprintf(os.Stderr, "layouts %d, parse pairs %d, format pairs %d\n", len(layouts), nP, nF)
}
