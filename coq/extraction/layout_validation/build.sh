#!/bin/bash
# Extracts Model/Dates.v (coqc Extract.v) and builds ./layoutcheck.  ROOT = the Coq development (default: ../..)
set -e
cd "$(dirname "$0")"
ROOT=${ROOT:-$(cd ../.. && pwd)}
find . -maxdepth 1 \( -name '*.ml' -o -name '*.mli' \) ! -name main.ml -delete
rm -f *.cmi *.cmx *.o layoutcheck
coqc -Q $ROOT/theories HP Extract.v > extract.log 2>&1 || { cat extract.log; exit 1; }
ORDER=$(ocamlfind ocamldep -sort *.ml *.mli)
ocamlfind ocamlopt -O3 -w -a -o layoutcheck $ORDER 2> build.log || ocamlfind ocamlopt -w -a -o layoutcheck $ORDER 2> build.log || { cat build.log; exit 1; }
rm -f *.cmi *.cmx *.o *.glob *.vo *.vok *.vos .*.aux
echo built $(pwd)/layoutcheck
