#!/usr/bin/env python3
"""Sanity of the comparison: seeded defects in a copy of Model/Dates.v must each show up as discrepancies.
usage: mutcheck.py <coq root> <pairs file>..."""
import sys, os, subprocess, tempfile, shutil
root = sys.argv[1]; pairs = sys.argv[2:]
here = os.path.dirname(os.path.abspath(__file__))
ml = here
MUTS = [
 ("case-sensitive month names", "((c1 =? c2) || ((lower c1 =? lower c2) && (97 <=? lower c1) && (lower c1 <=? 122)))%N", "(c1 =? c2)%N"),
 ("_2 reads no blank", "get_num (drop_one_space s)", "get_num s"),
 ("15 taken as 1 and 5", 'else if is_prefix (b "15") l then None', 'else if is_prefix (b "15") l then Some (M1, 1%nat)'),
 ("Janu taken as Jan", "(if starts_lower (skipn 3 l) then None else Some (MonS, 3%nat))", "Some (MonS, 3%nat)"),
 ("_2006 taken as _2 and 006", 'else if is_prefix (b "_2006") l then None', 'else if is_prefix (b "_2006") l then Some (DU, 2%nat)'),
 ("2 reads one digit only", "| c2 :: r2 => match digit_val c2 with Some d2 => Some (d1 * 10 + d2, r2) | None => Some (d1, r1) end", "| c2 :: r2 => Some (d1, r1)"),
 ("_2 pads with zero", "(if d <? 10 then [32%N] else [])", "(if d <? 10 then [48%N] else [])"),
 ("May spelled Mai in the short table", 'b "Apr"; b "May"; b "Jun"', 'b "Apr"; b "Mai"; b "Jun"'),
 ("June before January in the long table", '[b "January"; b "February"; b "March"; b "April"; b "May"; b "June";', '[b "June"; b "February"; b "March"; b "April"; b "May"; b "January";'),
 ("month 0 accepted by 1", "| M1 :: r => match get_num s with\n               | Some (v, s') => if (1 <=? v)", "| M1 :: r => match get_num s with\n               | Some (v, s') => if (0 <=? v)"),
 ("day of 02 limited to 31 on the spot", "| D2 :: r => match take_digits 2 s 0 with Some (v, s') => parse_tokens r s' y m v | None => None end",
  "| D2 :: r => match take_digits 2 s 0 with Some (v, s') => if v <=? 31 then parse_tokens r s' y m v else None | None => None end"),
 ("comma not a literal", "|| (c =? 58) || (c =? 44))%N", "|| (c =? 58))%N"),
 ("a blank of the layout matches exactly one blank", "parse_tokens (drop_space_lits r) (drop_spaces s) y m d else None", "parse_tokens r (tl s) y m d else None"),
]
# changes that cannot show: the explicit refusals of next_elem are redundant (the byte that follows is not a
# safe literal, so the layout is declined anyway), and declining more layouts is always acceptable
EQUIVALENT = {
 "15 taken as 1 and 5": "the 5 that follows is not a safe literal",
 "Janu taken as Jan": "the lower-case letter that follows is not a safe literal",
 "_2006 taken as _2 and 006": "006 is declined",
 "comma not a literal": "declines more layouts, which is allowed",
}
src = open(os.path.join(root, 'theories/Model/Dates.v')).read()
w = tempfile.mkdtemp(prefix='WP31mut.', dir='/var/tmp')
data = b''.join(open(p, 'rb').read() for p in pairs)
bad = 0
for i, (name, frm, to) in enumerate(MUTS):
    if frm not in src:
        print(f"{name}: PATTERN NOT FOUND"); bad += 1; continue
    d = os.path.join(w, f'm{i}')
    os.makedirs(d + '/theories/Base'); os.makedirs(d + '/theories/Model'); os.makedirs(d + '/ml')
    for f in ('Bytes.v', 'Bytes.vo'):
        shutil.copy(os.path.join(root, 'theories/Base', f), d + '/theories/Base/')
    open(d + '/theories/Model/Dates.v', 'w').write(src.replace(frm, to, 1))
    r = subprocess.run(['coqc', '-Q', 'theories', 'HP', '-w', '-notation-overridden', 'theories/Model/Dates.v'], cwd=d, capture_output=True, text=True)
    if r.returncode != 0:
        print(f"{name}: does not compile\n{r.stderr[-400:]}"); bad += 1; continue
    for f in ('Extract.v', 'main.ml', 'build.sh'):
        shutil.copy(os.path.join(ml, f), d + '/ml/')
    r = subprocess.run([d + '/ml/build.sh'], env=dict(os.environ, ROOT=d), capture_output=True, text=True)
    if r.returncode != 0:
        print(f"{name}: build failed\n{r.stdout[-400:]}"); bad += 1; continue
    out = subprocess.run([d + '/ml/layoutcheck'], input=data, capture_output=True).stdout.decode('latin1').strip().split('\n')
    n = int(out[-1].split(':')[1])
    if name in EQUIVALENT:
        print(f"{name}: {out[-1]}   (expected 0: {EQUIVALENT[name]})")
        if n != 0: bad += 1
        continue
    print(f"{name}: {out[-1]}" + ("" if n > 0 else "   <-- NOT DETECTED"))
    if n == 0: bad += 1
shutil.rmtree(w)
print("all seeded defects behave as expected" if bad == 0 else f"{bad} seeded defects NOT detected")
