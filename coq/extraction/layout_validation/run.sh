#!/bin/bash
# Comparison of the date-layout model (Model/Dates.v: tokenize, parse_date, format_date) with Go's time package.
#   ./run.sh [work dir]      (default work dir: a fresh directory under /var/tmp)
# 1. gen.go writes (layout, text) pairs with the answers of time.Parse / Time.Format:
#      random layouts (two seeds) and every concatenation of up to three pieces of a 24-piece alphabet;
# 2. layoutcheck (extracted model + main.ml) recomputes every answer for the layouts the model tokenizes;
#    a layout the model declines (None) is always acceptable;
# 3. mutcheck.py seeds defects into a copy of Dates.v and checks that the comparison reports each of them.
set -e
HERE=$(cd "$(dirname "$0")" && pwd)
W=${1:-$(mktemp -d /var/tmp/layoutval.XXXX)}
mkdir -p "$W"
export GOPROXY=off GOSUMDB=off GOTOOLCHAIN=local GOFLAGS=
"$HERE/build.sh"
(cd "$HERE" && go run gen.go 12000 20261002 > "$W/random1.txt" && go run gen.go 12000 7 > "$W/random2.txt" && go run gen.go exh > "$W/exhaustive.txt")
for f in random1 random2 exhaustive; do
  echo "== $f"; "$HERE/layoutcheck" < "$W/$f.txt" | tail -4
done
echo "== seeded defects"
python3 "$HERE/mutcheck.py" "$(cd "$HERE/../.." && pwd)" "$W/random1.txt" "$W/exhaustive.txt"
