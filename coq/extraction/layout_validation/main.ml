(* Glue only.  Input lines (tab separated, produced by gen.go):
     P <layout> <text> <go result: y-m-d | ERR>
     F <layout> <y> <m> <d> <go text>
   For every line: tokenize the layout with the extracted [Dates.tokenize] (guarded) and
   [Dates.tokenize_fuel] (unguarded: repeated fields allowed); when the layout tokenizes compare
   [Dates.parse_date] / [Dates.format_date] with Go's answer.  Prints every discrepancy and a summary. *)
module S = Stdlib.String
module L = Stdlib.List
let rec pos_of_int n = if n = 1 then BinNums.Coq_xH
  else if n land 1 = 0 then BinNums.Coq_xO (pos_of_int (n lsr 1)) else BinNums.Coq_xI (pos_of_int (n lsr 1))
let n_of_int n = if n = 0 then BinNums.N0 else BinNums.Npos (pos_of_int n)
let z_of_int n = if n = 0 then BinNums.Z0 else if n > 0 then BinNums.Zpos (pos_of_int n) else BinNums.Zneg (pos_of_int (-n))
let rec int_of_pos = function BinNums.Coq_xH -> 1 | BinNums.Coq_xO p -> 2 * int_of_pos p | BinNums.Coq_xI p -> 2 * int_of_pos p + 1
let int_of_n = function BinNums.N0 -> 0 | BinNums.Npos p -> int_of_pos p
let int_of_z = function BinNums.Z0 -> 0 | BinNums.Zpos p -> int_of_pos p | BinNums.Zneg p -> - (int_of_pos p)
let bytes_of_plain s = L.init (S.length s) (fun i -> n_of_int (Char.code (S.get s i)))
let plain_of_bytes l = let b = Buffer.create 32 in L.iter (fun c -> Buffer.add_char b (Char.chr (int_of_n c))) l; Buffer.contents b
let rec nat_of_int n = if n = 0 then Datatypes.O else Datatypes.S (nat_of_int (n - 1))
let () =
  let np = ref 0 and np_tok = ref 0 and np_tokg = ref 0 and np_ok = ref 0 and np_date = ref 0 in
  let nf = ref 0 and nf_tok = ref 0 and nf_tokg = ref 0 and nf_ok = ref 0 and bad = ref 0 in
  let layouts_some = Hashtbl.create 1000 and layouts_all = Hashtbl.create 1000 in
  (try
    while true do
      let line = input_line stdin in
      match S.split_on_char '\t' line with
      | ["P"; layout; text; res] ->
          incr np; Hashtbl.replace layouts_all layout ();
          let lb = bytes_of_plain layout in
          let guarded = Dates.tokenize lb in
          (match guarded with
           | Some _ -> incr np_tokg
           | None -> ());
          (match Dates.tokenize_fuel (nat_of_int (S.length layout)) lb with
           | None -> (match guarded with Some _ -> (incr bad; Printf.printf "GUARD-INCONSISTENT %S\n" layout) | None -> ())
           | Some toks ->
               incr np_tok; Hashtbl.replace layouts_some layout ();
               (match guarded with Some t' when t' <> toks -> (incr bad; Printf.printf "GUARD-DIFFERENT %S\n" layout) | _ -> ());
               let m = match Dates.parse_date toks (bytes_of_plain text) with
                 | None -> "ERR"
                 | Some ((y, mo), d) -> Printf.sprintf "%d-%d-%d" (int_of_z y) (int_of_z mo) (int_of_z d) in
               if m = res then (incr np_ok; if res <> "ERR" then incr np_date)
               else (incr bad; Printf.printf "PARSE layout=%S text=%S go=%s model=%s\n" layout text res m))
      | ["F"; layout; y; mo; d; text] ->
          incr nf;
          let lb = bytes_of_plain layout in
          (match Dates.tokenize lb with Some _ -> incr nf_tokg | None -> ());
          (match Dates.tokenize_fuel (nat_of_int (S.length layout)) lb with
           | None -> ()
           | Some toks ->
               incr nf_tok;
               let civ = ((z_of_int (int_of_string y), z_of_int (int_of_string mo)), z_of_int (int_of_string d)) in
               let m = plain_of_bytes (Dates.format_date toks civ) in
               if m = text then incr nf_ok
               else (incr bad; Printf.printf "FORMAT layout=%S date=%s-%s-%s go=%S model=%S\n" layout y mo d text m))
      | _ -> (incr bad; Printf.printf "BADLINE %S\n" line)
    done
  with End_of_file -> ());
  Printf.printf "parse pairs: %d; layout tokenizes (unguarded tokenize_fuel): %d, of these agree: %d (Go gives a date in %d); tokenizes with the guard: %d\n"
    !np !np_tok !np_ok !np_date !np_tokg;
  Printf.printf "format pairs: %d; layout tokenizes (unguarded): %d, of these agree: %d; tokenizes with the guard: %d\n" !nf !nf_tok !nf_ok !nf_tokg;
  Printf.printf "distinct layouts: %d, tokenized: %d\n" (Hashtbl.length layouts_all) (Hashtbl.length layouts_some);
  Printf.printf "discrepancies: %d\n" !bad
