(* Extraction of the executable model.  ExtrOcamlBasic only: numbers stay the
   extracted inductives (positive / N / Z), byte strings stay N lists.
   One Extract Constant of ours: Coq's [List.rev] (quadratic: [rev l ++ [x]])
   is replaced by OCaml's linear [Stdlib.List.rev], the same function on
   finite lists; without it a 65535-byte line costs minutes in the driver. *)
From Coq Require Import extraction.Extraction extraction.ExtrOcamlBasic.
From Coq Require Import List.
From HP Require Import Model.Driver.
Extraction Language OCaml.
Extract Constant List.rev => "(fun l -> Stdlib.List.rev l)".
Separate Extraction Driver.handle.
