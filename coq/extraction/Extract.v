(* Extraction of the executable model.  ExtrOcamlBasic only: numbers stay the
   extracted inductives (positive / N / Z), byte strings stay N lists. *)
From Coq Require Import extraction.Extraction extraction.ExtrOcamlBasic.
From HP Require Import Model.Driver.
Extraction Language OCaml.
Separate Extraction Driver.handle.
