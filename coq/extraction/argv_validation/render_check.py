#!/usr/bin/env python3
"""render_argv (Coq) against argv_env (the test harness, harness/py/hv/run.py), and the round trip, on random cases.
   usage: render_check.py HARNESS_PY_DIR N SEED
   Every case is a dictionary as the harness uses them; its model request line (hv.run.model_request) is decoded by the
   extracted Driver.decode_invocation, rendered by the extracted render_argv and compared with argv_env(case) (TZ, which belongs
   to the world, left out).  Half of the cases respect the command's flag table (renderable): for those the extracted
   parse_argv must give the invocation back."""
import sys, os, random, subprocess
sys.path.insert(0, sys.argv[1])
from hv import run as hv
HERE = os.path.dirname(os.path.abspath(__file__))
N, SEED = int(sys.argv[2]), int(sys.argv[3])
r = random.Random(SEED)
CMDS = list(hv.CMD_ARGV)
LOCAL = {"reg": ["l_begin", "l_end", "l_no_color", "single_food", "single_element", "group_food", "csv", "no_totals", "totals_only", "shorten", "old", "template"],
         "bal": ["l_begin", "l_end", "collapse", "collapse_last", "single_element"], "lint": ["silent"], "element-total": ["desc"], "quantity": ["desc"],
         "csv-log": ["l_begin", "l_end"], "print": ["l_begin", "l_end"]}
STR = [b"x", b"", b"-x", b"--", b"2021/01/02", b"today", b"a b", b"\xc3\xa9", b"\xff", b"h", b"help", b"-", b"=", b"a=b", b"food.yaml"]
def sval(): return r.choice(STR)
def case():
    c = {"cmd": r.choice(CMDS)}
    renderable = r.random() < 0.5
    if c["cmd"] in ("lint", "element-total", "summary") and r.random() < 0.85:
        c["arg"] = r.choice([a for a in STR if not renderable or a not in (b"h", b"help")])
    for k in ["f_db", "e_db", "f_log", "e_log", "f_fmt", "e_fmt", "f_today", "f_config", "e_config", "g_begin", "g_end"]:
        if r.random() < 0.3: c[k] = sval()
    for k in ["f_depth", "e_depth"]:
        if r.random() < 0.3: c[k] = r.choice([0, 1, 5, -3, 10, 2**63 - 1, -2**63, 123456789])
    for k in ["no_database", "g_no_color"]:
        if r.random() < 0.3: c[k] = True
    loc = LOCAL.get(c["cmd"], []) if renderable else sum(LOCAL.values(), [])
    for k in set(loc):
        if r.random() < 0.35: c[k] = sval() if k in hv.SETTING_KEYS else True
    return c, renderable
cases = [case() for _ in range(N)]
lines = []
for c, _ in cases:
    q = hv.model_request(c)
    lines += ["R\t" + q, "Q\t" + q]
p = subprocess.run([HERE + "/argvcheck"], input=("\n".join(lines) + "\n").encode(), stdout=subprocess.PIPE, check=True)
out = p.stdout.decode().split("\n")
bad = rt = rt_ok = 0
for k, (c, renderable) in enumerate(cases):
    # the record does not tell an empty argument from a missing one (Driver.decode_invocation: both []): the harness is asked for the missing one
    argv, env = hv.argv_env({k: v for k, v in c.items() if not (k == "arg" and v == b"")})
    env.pop("TZ", None)
    want = "ARGV\t" + ",".join("x" + a.encode("utf-8", "surrogateescape").hex() for a in argv) + "\t" + ",".join("%s:x%s" % (n, v.encode("utf-8", "surrogateescape").hex()) for n, v in env.items())
    if out[2 * k] != want:
        bad += 1
        if bad < 6: print("RENDER DIFFERS", c, "\n  harness:", want, "\n  model:  ", out[2 * k])
    if renderable:
        rt += 1
        if out[2 * k + 1] == "ROUNDTRIP ok": rt_ok += 1
        elif rt - rt_ok < 6: print("ROUNDTRIP FAILS", c)
print("cases %d: rendering differs in %d; renderable %d, parse (render i) = i in %d" % (N, bad, rt, rt_ok))
sys.exit(1 if bad or rt != rt_ok else 0)
