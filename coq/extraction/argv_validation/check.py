#!/usr/bin/env python3
"""Compares the extracted parse_argv (./argvcheck) with the real program (the argv harness binary) on a case file.
   usage: check.py CASES HARNESS_BINARY [max discrepancies shown]
   Agreement:  model UNMODELLED            - always accepted (counted)
               model HELP                  - the program printed help / the version, no error
               model USAGE                 - the program ended with urfave's own error
               model BEFORE m              - the program's Before check refused with m
               model OK ... LOADUNM        - same command / argument / silent / desc / config, the loaded options are not compared
               model OK ...                - the very same line (command path, argument, loaded options)
   The model's Cli.load is that of the Coq tree this directory belongs to.  A repository that is newer than the model may load
   differently; one such change is known and probed for (the vector "--no-database reg"): since the repository's commit faebed3
   options.Load puts the null device where it put the empty name for --no-database.  When the probe shows it, "db=/dev/null"
   and "db=" are identified on both sides (reported in the summary); nothing about the argument vector depends on it."""
import subprocess, sys, os, collections

HERE = os.path.dirname(os.path.abspath(__file__))


def run(cmd, lines, env=None):
    p = subprocess.run(cmd, input=("\n".join(lines) + "\n").encode(), stdout=subprocess.PIPE, env=env, check=True)
    out = p.stdout.decode("utf-8", "replace").split("\n")
    if out and out[-1] == "": out.pop()
    assert len(out) == len(lines), (len(out), len(lines))
    return out


def show(case):
    a, e = case.split("\t")
    args = [bytes.fromhex(x[1:]) for x in a.split(",")] if a else []
    env = {x.split(":")[0]: bytes.fromhex(x.split(":")[1][1:]) for x in e.split(",")} if e else {}
    return "argv=%r env=%r" % (args, env)


def agree(m, g):
    if m == "UNMODELLED": return True
    if m == "HELP": return g in ("HELP", "HELP version")
    if m == "USAGE": return g.startswith("USAGE\t")
    if m.startswith("BEFORE "): return g == m
    if m.endswith(" LOADUNM"):
        return g.startswith(m[:-len("LOADUNM")]) and g.startswith("OK ")
    return m == g


def main():
    cases = [l.rstrip("\n") for l in open(sys.argv[1])]
    harness = sys.argv[2]
    limit = int(sys.argv[3]) if len(sys.argv) > 3 else 20
    model = run(["bash", "-c", "ulimit -s 1000000 2>/dev/null; exec %s/argvcheck" % HERE], ["P\t" + c for c in cases])
    env = dict(os.environ, HR_ARGV_SERVE="1", HOME="/root")     # the default configuration file: /root/.hranoprovod/config (main.ml)
    for k in ("HR_DATABASE", "HR_LOGFILE", "HR_CONFIG", "HR_DATE_FORMAT", "HR_MAXDEPTH"): env.pop(k, None)
    real = run([harness], cases, env=env)
    NULLDEV = " db=2f6465762f6e756c6c "
    probe = run([harness], ["x2d2d6e6f2d6461746162617365,x726567\t"], env=env)[0]
    nulldev = NULLDEV in probe
    if nulldev:
        model = [m.replace(NULLDEV, " db= ") for m in model]; real = [g.replace(NULLDEV, " db= ") for g in real]
    kinds = collections.Counter(); bad = 0; exits = collections.Counter(); loadkinds = collections.Counter()
    for c, m, g in zip(cases, model, real):
        k = m.split(" ")[0].split("\t")[0]
        kinds[k] += 1
        if k == "OK": loadkinds["unmodelled options" if m.endswith("LOADUNM") else ("load error" if "LOADERR" in m else "options compared")] += 1
        if g.startswith("USAGE\t"): exits[g.split("\t")[1]] += 1
        if g.startswith(("PANIC", "CONFUSED", "NOTHING")) or not agree(m, g):
            bad += 1
            if bad <= limit: print("DISCREPANCY %s\n   model: %s\n   real:  %s" % (show(c), m, g))
    print("cases %d  distinct %d  model: %s" % (len(cases), len(set(cases)), " ".join("%s=%d" % kv for kv in sorted(kinds.items()))))
    print("   OK cases: %s;  exit statuses of urfave's errors: %s" % (dict(loadkinds), dict(exits)))
    if nulldev: print("   (this repository loads the null device for --no-database, the model the empty name: identified)")
    print("discrepancies %d" % bad)
    return 1 if bad else 0


if __name__ == "__main__":
    sys.exit(main())
