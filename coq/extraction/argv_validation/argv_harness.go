//go:build verif

// Validation harness for Model/Argv.v (add-only, build tag "verif"): copied into a scratch copy of the
// tree as cmd/hranoprovod-cli/argv_harness.go.  With HR_ARGV_SERVE set the binary serves requests from
// stdin instead of running main(): every line "<args>\t<env>" (args: "x<hex>" items joined by ',', env:
// "NAME:x<hex>" items joined by ',') is run through the production GetApp() - the production flag tables
// and command tree, urfave/cli itself - with every command's Action replaced by one that calls the
// production options.Load (without the configuration file, with a fixed clock) and reports what it loaded.
// The reply is one line:
//   HELP | HELP version                     urfave printed help / the version, no error
//   USAGE\t<exit status>\t<message>          urfave's own error (the status main() would end with)
//   BEFORE <message>                         the program's own Before check refused (lint, report element-total)
//   OK <command path> arg=.. silent=.. desc=.. cfgset=.. cfg=.. <loaded options | LOADERR ..>
package main

import (
	"bufio"
	"encoding/hex"
	"fmt"
	"io"
	"os"
	"strings"
	"time"

	"github.com/aquilax/hranoprovod-cli/cmd/hranoprovod-cli/v3/internal/options"
	"github.com/urfave/cli/v2"
)

var argvClock = time.Date(2021, 3, 4, 0, 0, 0, 0, time.UTC)

func argvBit(b bool) string {
	if b {
		return "1"
	}
	return "0"
}

func argvTime(t *time.Time) string {
	if t == nil {
		return "-"
	}
	return fmt.Sprint(t.Unix())
}

func argvHex(s string) string { return hex.EncodeToString([]byte(s)) }

func argvRun(args []string) string {
	reached := ""
	helped, versioned := false, false
	exitCode := 1
	a := GetApp()
	rec := func(c *cli.Context) error {
		var path []string
		lin := c.Lineage()
		for i := len(lin) - 1; i >= 0; i-- {
			if lin[i].Command != nil && lin[i].Command.Name != "" && lin[i].Command.Name != a.Name {
				path = append(path, lin[i].Command.Name)
			}
		}
		p := strings.Join(path, "/")
		arg := ""
		if p == "lint" || p == "report/element-total" || p == "summary" {
			arg = c.Args().First()
		}
		head := fmt.Sprintf("OK %s arg=%s silent=%s desc=%s cfgset=%s cfg=%s", p, argvHex(arg), argvBit(c.Bool("silent")), argvBit(c.Bool("desc")),
			argvBit(c.IsSet("config")), argvHex(c.String("config")))
		o := options.New()
		o.GlobalConfig.Now = argvClock
		if err := o.Load(c, false); err != nil {
			msg := err.Error()
			if strings.HasPrefix(msg, "parsing time ") {
				reached = head + " LOADERR baddate"
			} else {
				reached = head + " LOADERR other:" + argvHex(msg)
			}
			return nil
		}
		rc := o.ReporterConfig
		reached = head + fmt.Sprintf(" db=%s log=%s fmt=%s depth=%d now=%d begin=%s end=%s csv=%s color=%s totalsonly=%s totals=%s clast=%s collapse=%s group=%s shorten=%s old=%s se=%s sf=%s tpl=%s",
			argvHex(o.GlobalConfig.DbFileName), argvHex(o.GlobalConfig.LogFileName), argvHex(o.GlobalConfig.DateFormat), o.ResolverConfig.MaxDepth,
			o.GlobalConfig.Now.Unix(), argvTime(o.FilterConfig.BeginningTime), argvTime(o.FilterConfig.EndTime),
			argvBit(rc.CSV), argvBit(rc.Color), argvBit(rc.TotalsOnly), argvBit(rc.Totals), argvBit(rc.CollapseLast), argvBit(rc.Collapse),
			argvBit(rc.ElementGroupByFood), argvBit(rc.ShortenStrings), argvBit(rc.UseOldRegReporter),
			argvHex(rc.SingleElement), argvHex(rc.SingleFood), argvHex(rc.InternalTemplateName))
		return nil
	}
	var walk func(cs []*cli.Command)
	walk = func(cs []*cli.Command) {
		for _, c := range cs {
			if c.Action != nil {
				c.Action = rec
			}
			walk(c.Subcommands)
		}
	}
	walk(a.Commands)
	a.Writer = io.Discard
	a.ErrWriter = io.Discard
	cli.ErrWriter = io.Discard
	cli.OsExiter = func(code int) { exitCode = code }
	cli.HelpPrinter = func(w io.Writer, templ string, data interface{}) { helped = true }
	cli.VersionPrinter = func(c *cli.Context) { versioned = true }
	err := a.Run(append([]string{"hranoprovod-cli"}, args...))
	switch {
	case err != nil && reached != "":
		return "CONFUSED action and error: " + err.Error()
	case err != nil:
		msg := err.Error()
		if msg == "no file provided" || msg == "no element name" {
			return "BEFORE " + msg
		}
		return fmt.Sprintf("USAGE\t%d\t%s", exitCode, strings.ReplaceAll(msg, "\n", " "))
	case reached != "":
		return reached
	case versioned:
		return "HELP version"
	case helped:
		return "HELP"
	}
	return "NOTHING"
}

func argvUnx(s string) string {
	v, err := hex.DecodeString(s[1:])
	if err != nil {
		panic(err)
	}
	return string(v)
}

func init() {
	if os.Getenv("HR_ARGV_SERVE") == "" {
		return
	}
	in := bufio.NewReaderSize(os.Stdin, 1<<20)
	out := bufio.NewWriter(os.Stdout)
	names := []string{"HR_DATABASE", "HR_LOGFILE", "HR_CONFIG", "HR_DATE_FORMAT", "HR_MAXDEPTH"}
	for {
		line, err := in.ReadString('\n')
		line = strings.TrimRight(line, "\n")
		if line != "" || err == nil {
			parts := strings.Split(line, "\t")
			for len(parts) < 2 {
				parts = append(parts, "")
			}
			var args []string
			if parts[0] != "" {
				for _, it := range strings.Split(parts[0], ",") {
					args = append(args, argvUnx(it))
				}
			}
			for _, n := range names {
				os.Unsetenv(n)
			}
			if parts[1] != "" {
				for _, it := range strings.Split(parts[1], ",") {
					k := strings.IndexByte(it, ':')
					if e := os.Setenv(it[:k], argvUnx(it[k+1:])); e != nil {
						panic(e)
					}
				}
			}
			func() {
				defer func() {
					if r := recover(); r != nil {
						fmt.Fprintf(out, "PANIC %v\n", r)
					}
				}()
				fmt.Fprintln(out, argvRun(args))
			}()
		}
		if err != nil {
			break
		}
	}
	out.Flush()
	os.Exit(0)
}
