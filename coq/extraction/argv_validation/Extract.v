(* Extraction of the argument-vector model for the comparison with the real program. *)
From Coq Require Import extraction.Extraction extraction.ExtrOcamlBasic.
From Coq Require Import List.
From HP Require Import Model.Cli Model.Argv Model.Driver.
Extraction Language OCaml.
Extract Constant List.rev => "(fun l -> Stdlib.List.rev l)".
Separate Extraction Argv.parse_argv Argv.render_argv Cli.load Cli.no_cfg Driver.decode_command Driver.decode_invocation Dates.time_of_civil.
