#!/bin/bash
# Extracts Model/Argv.v (+ Cli.load, Driver.decode_invocation) and builds ./argvcheck
set -e
cd "$(dirname "$0")"
find . -maxdepth 1 \( -name '*.ml' -o -name '*.mli' \) ! -name main.ml -delete
rm -f *.cmi *.cmx *.o argvcheck Extract.vo Extract.vos Extract.vok Extract.glob .Extract.aux
coqc -Q ../../theories HP Extract.v > extract.log 2>&1 || { cat extract.log; exit 1; }
ORDER=$(ocamlfind ocamldep -sort $(ls *.ml *.mli | grep -v '^main.ml$'))
ocamlfind ocamlopt -O3 -w -a -o argvcheck $ORDER main.ml 2> build.log || ocamlfind ocamlopt -w -a -o argvcheck $ORDER main.ml 2> build.log || { cat build.log; exit 1; }
rm -f *.cmi *.cmx *.o
echo built $(pwd)/argvcheck
