#!/usr/bin/env python3
"""The result classes of parse_argv against the REAL binary (process exit status and output), on a sample of a case file.
   usage: binary_check.py CASES BINARY N SEED
     model HELP   -> exit status 0, standard output starts with "NAME:" (help) or is the version line, nothing on standard error
     model USAGE  -> exit status 1 with "Incorrect Usage:" on standard output, or "No help topic for" on standard error with exit status 3
                     (the action of a command without one) or 1 (--help / -h followed by a word: the error comes back through main's log.Fatal)
     model BEFORE -> exit status 1, the message on standard error
     model OK     -> an action ran: none of the above (whatever the action then does in an empty directory)"""
import sys, os, random, subprocess, tempfile, shutil, collections, concurrent.futures as cf
HERE = os.path.dirname(os.path.abspath(__file__))
cases = [l.rstrip("\n") for l in open(sys.argv[1])]
binary, n, seed = os.path.abspath(sys.argv[2]), int(sys.argv[3]), int(sys.argv[4])
cases = random.Random(seed).sample(cases, n)
p = subprocess.run([HERE + "/argvcheck"], input=("\n".join("P\t" + c for c in cases) + "\n").encode(), stdout=subprocess.PIPE, check=True)
model = p.stdout.decode().split("\n")
work = tempfile.mkdtemp(prefix="WP32bin.", dir="/var/tmp")
def real(c):
    a, e = c.split("\t")
    args = [bytes.fromhex(x[1:]) for x in a.split(",")] if a else []
    env = {b"PATH": b"/usr/bin:/bin", b"TZ": b"UTC", b"HOME": work.encode()}
    for x in (e.split(",") if e else []): env[x.split(":")[0].encode()] = bytes.fromhex(x.split(":")[1][1:])
    q = subprocess.run([binary.encode()] + args, cwd=work, env=env, stdout=subprocess.PIPE, stderr=subprocess.PIPE, timeout=30)
    usage = (q.returncode == 1 and q.stdout.startswith(b"Incorrect Usage:")) or (q.returncode in (1, 3) and b"No help topic for" in q.stderr)
    helped = q.returncode == 0 and q.stderr == b"" and (q.stdout.startswith(b"NAME:") or q.stdout.startswith(b"hranoprovod-cli version "))
    before = q.returncode == 1 and (q.stderr.rstrip().endswith(b"no file provided") or q.stderr.rstrip().endswith(b"no element name")) and q.stdout == b""
    return "USAGE" if usage else "HELP" if helped else "BEFORE" if before else "OK", q.returncode
with cf.ThreadPoolExecutor(max_workers=12) as ex: res = list(ex.map(real, cases))
shutil.rmtree(work)
bad = 0; kinds = collections.Counter(); rcs = collections.Counter()
for c, m, (g, rc) in zip(cases, model, res):
    k = m.split(" ")[0]
    kinds[k] += 1; rcs[(k, rc)] += 1
    if k != "UNMODELLED" and k != g:
        bad += 1
        if bad < 10: print("DISCREPANCY", c, "model", k, "binary", g, rc)
print("binary: cases %d  model: %s  discrepancies %d" % (n, dict(kinds), bad))
print("   (class, exit status): %s" % dict(sorted(rcs.items())))
sys.exit(1 if bad else 0)
