#!/usr/bin/env python3
"""Generator of argument vectors x environments for the comparison of Model/Argv.v with the real program.
   usage: gen.py N SEED > cases.txt        one case per line: "<args>\t<env>"
   args: "x<hex>" items joined by ',';  env: "NAME:x<hex>" items joined by ','.
   Families (mixed by the seed):
     valid    - every flag of the right level in every syntactic form (-n v, --n v, -n=v, --n=v, aliases, boolean spellings)
     near     - a valid vector with one mutation (drop / duplicate / swap / insert / truncate / split off a value)
     level    - flags of another level, global flags after the command, local flags before it
     soup     - random tokens from the whole vocabulary
     helpish  - help / h as command words at every depth, --help / -h, words after them
     colour   - --no-color at both levels in every spelling
     boolword - a boolean flag followed by a word that spells a boolean
   No NUL byte anywhere (the operating system cannot pass one)."""
import random, sys

ROOT = [(["begin", "b"], "date"), (["end", "e"], "date"), (["today"], "date"), (["database", "d"], "str"), (["logfile", "l"], "str"),
        (["config", "c"], "str"), (["date-format"], "fmt"), (["maxdepth"], "int"), (["no-color"], "bool"), (["no-database"], "bool"),
        (["help", "h"], "bool"), (["version", "v"], "bool")]
HELP = (["help", "h"], "bool")
PERIOD = [(["begin", "b"], "date"), (["end", "e"], "date")]
LEAF = {
    ("register",): PERIOD + [(["single-food", "f"], "str"), (["single-element", "s"], "str"), (["group-food", "g"], "bool"), (["csv"], "bool"),
                             (["no-color"], "bool"), (["no-totals"], "bool"), (["totals-only"], "bool"), (["shorten"], "bool"),
                             (["use-old-reg-reporter"], "bool"), (["internal-template-name"], "str"), HELP],
    ("balance",): PERIOD + [(["collapse-last"], "bool"), (["collapse", "c"], "bool"), (["single-element", "s"], "str"), HELP],
    ("lint",): [(["silent", "s"], "bool"), HELP],
    ("report", "element-total"): [(["desc"], "bool"), HELP],
    ("report", "unresolved"): [HELP],
    ("report", "quantity"): [(["desc"], "bool"), HELP],
    ("report", "totals"): [HELP],
    ("csv", "log"): PERIOD + [HELP],
    ("csv", "database"): [HELP],
    ("csv", "database-resolved"): [HELP],
    ("stats",): [HELP],
    ("summary",): [HELP],
    ("print",): PERIOD + [HELP],
}
ALIASES = {"register": ["register", "reg"], "balance": ["balance", "bal"]}
TAKES_ARG = {("lint",), ("report", "element-total"), ("summary",)}

DATES = [b"2021/01/02", b"today", b"yesterday", b"last7", b"last30", b"2020/02/29", b"2021-01-02", b"2021/13/01", b"garbage", b"", b"1999/12/31", b"0001/01/01"]
STRS = [b"x", b"", b"-x", b"--", b"-", b"a=b", b"=", b"food.yaml", b"h", b"help", b"reg", b"my log.yaml", b"\xc3\xa9t\xc3\xa9", b"\xff\xfe", b"--csv", b"-b", b"true", b"false", b"cal", b"default", b"left-aligned"]
FMTS = [b"2006/01/02", b"2006-01-02", b"02.01.2006", b"", b"Jan 2 2006", b"2006/01/02", b"x", b"2006/1/2"]
INTS = [b"5", b"0", b"-3", b"+7", b"007", b"0x10", b"1_0", b"abc", b"", b"99999999999999999999", b"-9223372036854775808", b"9223372036854775807",
        b"9223372036854775808", b"-9223372036854775809", b" 5", b"5 ", b"1", b"10", b"-0", b"+", b"-", b"1e3", b"0b1", b"0o7", b"12a", b"1_", b"_1", b"00", b"--5"]
TRUE = [b"true", b"1", b"t", b"T", b"TRUE", b"True"]
FALSE = [b"false", b"0", b"f", b"F", b"FALSE", b"False"]
BADBOOL = [b"", b"yes", b"no", b"2", b"TrUe", b"tRUE", b"on", b"true ", b"=true", b"fALSE", b"01"]
WORDS = [b"register", b"reg", b"balance", b"bal", b"lint", b"report", b"csv", b"stats", b"summary", b"print", b"gen", b"help", b"h", b"element-total", b"unresolved",
         b"quantity", b"totals", b"log", b"database", b"database-resolved", b"man", b"markdown", b"", b"foo", b"regi", b"REG", b"-", b"--"]
POSITIONALS = [b"file.yaml", b"cal", b"today", b"2021/01/02", b"h", b"help", b"", b"-", b"-x", b"--", b"--csv", b"a b", b"\xc3\xa9", b"yesterday", b"nonsense", b"hel", b"H"]
ENVS = {"HR_DATABASE": STRS, "HR_LOGFILE": STRS, "HR_CONFIG": STRS, "HR_DATE_FORMAT": FMTS, "HR_MAXDEPTH": INTS}


def value(r, kind, good):
    if kind == "date": return r.choice(DATES[:6] if good else DATES)
    if kind == "str": return r.choice(STRS)
    if kind == "fmt": return r.choice(FMTS[:2] if good else FMTS)
    if kind == "int": return r.choice(INTS[:4] if good else INTS)
    raise ValueError(kind)


def occurrence(r, spec, good=True):
    """one occurrence of a flag in a random syntactic form"""
    names, kind = spec
    n = r.choice(names).encode()
    dash = r.choice([b"-", b"--"])
    if kind == "bool":
        form = r.random()
        if form < 0.45: return [dash + n]
        if form < 0.65: return [dash + n + b"=" + r.choice(TRUE)]
        if form < 0.92 or good: return [dash + n + b"=" + r.choice(FALSE)]
        return [dash + n + b"=" + r.choice(BADBOOL)]
    v = value(r, kind, good)
    if r.random() < 0.5: return [dash + n, v]
    return [dash + n + b"=" + v]


def flags(r, table, good=True, most=4):
    out = []
    for _ in range(r.choice([0, 0, 1, 1, 2, 2, 3, most])):
        spec = r.choice(table)
        if spec is HELP and r.random() < 0.8: continue       # keep most vectors away from the help text
        if spec[0][0] == "version" and r.random() < 0.8: continue
        out += occurrence(r, spec, good)
    return out


def command(r):
    path = r.choice(list(LEAF))
    words = [r.choice(ALIASES.get(path[0], [path[0]])).encode()] + [w.encode() for w in path[1:]]
    return path, words


def positional(r, path):
    out = []
    if path in TAKES_ARG:
        if r.random() < 0.9:
            a = r.choice(POSITIONALS)
            out = ([b"--"] if (a.startswith(b"-") and r.random() < 0.7) else []) + [a]
    elif r.random() < 0.1:
        out = [r.choice(POSITIONALS)]
    if r.random() < 0.08: out += [r.choice(POSITIONALS + WORDS)]
    return out


def valid(r, good=True):
    path, words = command(r)
    return flags(r, ROOT, good) + words + flags(r, LEAF[path], good, most=6) + positional(r, path)


def near(r):
    v = valid(r, good=r.random() < 0.5)
    k = r.random()
    if not v: return v
    i = r.randrange(len(v))
    if k < 0.15: del v[i]
    elif k < 0.3: v.insert(i, v[i])
    elif k < 0.4 and len(v) > 1:
        j = min(i + 1, len(v) - 1); v[i], v[j] = v[j], v[i]
    elif k < 0.6: v.insert(i, r.choice(soup_vocab(r)))
    elif k < 0.7: v = v[:i]
    elif k < 0.8: v.insert(i, b"--")
    elif k < 0.9: v.insert(i, r.choice([b"help", b"h", b"-h", b"--help", b"-help", b"--h", b"--help=false", b"-h=0", b"-v", b"--version", b"--version=false"]))
    else:
        s = v[i]; c = r.randrange(len(s) + 1); v[i:i + 1] = [s[:c], s[c:]]
    return v


def level(r):
    path, words = command(r)
    other = LEAF[r.choice(list(LEAF))]
    k = r.random()
    if k < 0.35: return flags(r, ROOT) + words + flags(r, ROOT + LEAF[path]) + positional(r, path)
    if k < 0.7: return flags(r, ROOT + other) + words + flags(r, LEAF[path]) + positional(r, path)
    if k < 0.85: return flags(r, ROOT) + words[:1] + flags(r, LEAF[path] + [HELP]) + words[1:] + flags(r, other) + positional(r, path)
    return flags(r, ROOT) + words + flags(r, other) + positional(r, path)


def soup_vocab(r):
    toks = list(WORDS) + list(POSITIONALS)
    for table in [ROOT] + list(LEAF.values()):
        for spec in table:
            toks += occurrence(r, spec, good=False)
    toks += [b"-=x", b"---x", b"--=", b"-", b"--", b"--nonsense", b"-z", b"--no-color=", b"--csv=true=1", b"-d", b"--maxdepth", b"-bx", b"-b=", b"--b", b"-begin"]
    return toks


def soup(r):
    voc = soup_vocab(r)
    return [r.choice(voc) for _ in range(r.choice([0, 1, 1, 2, 2, 3, 3, 4, 5, 7]))]


def helpish(r):
    """the help machinery: help/h as command words at every depth, --help/-h, words after them"""
    base = r.choice([[], [b"reg"], [b"report"], [b"report", b"totals"], [b"csv"], [b"csv", b"log"], [b"lint"], [b"summary"], [b"gen"], [b"bal"], [b"stats"]])
    tail = [r.choice([b"help", b"h", b"-h", b"--help", b"--help=false", b"-h=1", b"foo", b"reg", b"report", b"totals", b"", b"--", b"help", b"h", b"-x", b"log", b"-v"])
            for _ in range(r.choice([0, 1, 1, 2, 2, 3, 4]))]
    return (flags(r, ROOT) if r.random() < 0.3 else []) + base + tail


def colour(r):
    """--no-color at both levels in every spelling (the command-level value overrides the global one when it is SET)"""
    def nc():
        k = r.random()
        if k < 0.25: return []
        if k < 0.5: return [r.choice([b"-", b"--"]) + b"no-color"]
        return [r.choice([b"-", b"--"]) + b"no-color=" + r.choice(TRUE + FALSE + FALSE)]
    cmd = r.choice([b"reg", b"register", b"reg", b"bal", b"print"])
    return nc() + (flags(r, ROOT, most=2) if r.random() < 0.3 else []) + nc() + [cmd] + nc() + (flags(r, LEAF[("register",)], most=2) if cmd.startswith(b"reg") and r.random() < 0.4 else []) + nc()


def boolword(r):
    """a boolean flag followed by a word that spells a boolean: the word is NOT its value"""
    path, words = command(r)
    g = [s for s in ROOT if s[1] == "bool" and s[0][0] not in ("help", "version")]
    l = [s for s in LEAF[path] if s[1] == "bool" and s is not HELP]
    out = []
    for table, n in ((g, r.choice([0, 1, 1])), (None, 0), (l, r.choice([0, 1, 1, 2]))):
        if table is None: out += words; continue
        for _ in range(n):
            if not table: continue
            spec = r.choice(table)
            out += [r.choice([b"-", b"--"]) + r.choice(spec[0]).encode(), r.choice(TRUE + FALSE + BADBOOL)]
    return out + positional(r, path)


def environment(r):
    env = {}
    if r.random() < 0.55: return env
    for name, pool in ENVS.items():
        k = r.random()
        if k < 0.7: continue
        env[name] = r.choice(pool if r.random() < 0.7 else STRS + INTS)
    return env


def enc(args, env):
    assert all(b"\0" not in a for a in args)
    return ",".join("x" + a.hex() for a in args) + "\t" + ",".join("%s:x%s" % (k, v.hex()) for k, v in env.items())


def main():
    n, seed = int(sys.argv[1]), int(sys.argv[2])
    r = random.Random(seed)
    fams = [(valid, 0.36), (near, 0.24), (level, 0.11), (soup, 0.12), (helpish, 0.09), (colour, 0.04), (boolword, 0.04)]
    for _ in range(n):
        k, acc = r.random(), 0.0
        for f, w in fams:
            acc += w
            if k < acc: break
        print(enc(f(r), environment(r)))


if __name__ == "__main__":
    main()
