#!/usr/bin/env python3
"""Sanity of the comparison: seeded defects in a copy of Model/Argv.v must each show up as discrepancies.
usage: mutcheck.py <coq root> <cases file> <harness binary>"""
import sys, os, subprocess, tempfile, shutil, concurrent.futures as cf
root, cases, harness = os.path.abspath(sys.argv[1]), os.path.abspath(sys.argv[2]), os.path.abspath(sys.argv[3])
here = os.path.dirname(os.path.abspath(__file__))
GET_LAST = """match get names r with
              | Some v => Some v
              | None => if mem (fst e) names then Some (snd e) else None
              end"""
MUTS = [
 ("boolean spelling T not accepted", 'b "1"; b "t"; b "T"; b "TRUE"', 'b "1"; b "t"; b "TRUE"'),
 ("--flag=false counts as given (F22)", "| Some x => parse_bool x end", "| Some x => match parse_bool x with Some _ => Some true | None => None end end"),
 ("first occurrence wins", GET_LAST, "if mem (fst e) names then Some (snd e) else get names r"),
 ("two forms of a flag accepted", "if conflict tbl a then ArgvUsage", "if false then ArgvUsage"),
 ("two forms of a flag accepted at the root only", "guard tbl_root ga children_root rest", "guard [] ga children_root rest"),
 ("-- stays among the arguments", "| TTerm => FOk [] r", "| TTerm => FOk [] (s :: r)"),
 ("empty HR_MAXDEPTH is an error", "| Some [] => Val None", "| Some [] => Err"),
 ("empty HR_DATABASE counts as not set", 'i_e_db := lookup (b "HR_DATABASE") e', 'i_e_db := match lookup (b "HR_DATABASE") e with Some [] => None | o => o end'),
 ("command-level --no-color=false does not switch the colour on", " && negb (match get n_no_color la with Some (VB false) => true | _ => false end)", ""),
 ("global -b read from the command level", "i_g_begin := get_str n_begin ga", "i_g_begin := get_str n_begin la"),
 ("alias -l missing", 'fl KStr [b "logfile"; b "l"]', 'fl KStr [b "logfile"]'),
 ("balance -c missing", 'fl KBool [b "collapse"; b "c"]', 'fl KBool [b "collapse"]'),
 ("h is not a help word", "Definition is_help_word (x : bytes) : bool := mem x n_help.", 'Definition is_help_word (x : bytes) : bool := beq x (b "help").'),
 ("a value that looks like a flag is refused", "| x :: r' => set_value k n x (parse_flags tbl r')", "| x :: r' => match classify x with TNonFlag => set_value k n x (parse_flags tbl r') | _ => FUsage end"),
 ("-=x is a flag", "if (c =? 45) || (c =? 61) then TBad", "if (c =? 45) then TBad"),
 ("+7 is not an integer", "else if c =? 43 then (false, r) else (false, v)", "else if c =? 43 then (false, v) else (false, v)"),
 ("no int64 range check", "if ((min_int64 <=? z) && (z <=? max_int64))%Z then Val z else Err", "if true then Val z else Err"),
 ("a bad HR_MAXDEPTH is ignored", "| Some v => match go_parse_int v with Val z => Val (Some z) | Err => Err | Unm => Unm end", "| Some v => match go_parse_int v with Val z => Val (Some z) | Err => Val None | Unm => Unm end"),
 ("no version flag", "(if get_bool n_version ga then ArgvHelp else root_args ga e edepth rest)", "(root_args ga e edepth rest)"),
 ("any help topic is fine", "| _ :: _ => if mem x children then ArgvHelp else ArgvUsage", "| _ :: _ => ArgvHelp"),
 ("a boolean takes the next argument when it is a boolean word", "| Some bv => cons_asg (n, VB bv) (parse_flags tbl r)",
  "| Some bv => match v, r with None, x :: r' => (match parse_bool x with Some bv' => cons_asg (n, VB bv') (parse_flags tbl r') | None => cons_asg (n, VB bv) (parse_flags tbl r) end) | _, _ => cons_asg (n, VB bv) (parse_flags tbl r) end"),
 ("lint -s is single-element", 'i_silent := get_bool [b "silent"; b "s"] la', 'i_silent := get_bool [b "silent"] la'),
 ("the flag beats nothing: environment first", 'i_f_log := get_str [b "logfile"; b "l"] ga; i_e_log := lookup (b "HR_LOGFILE") e', 'i_e_log := get_str [b "logfile"; b "l"] ga; i_f_log := lookup (b "HR_LOGFILE") e'),
 ("report without sub-command is an error", "| [] => ArgvHelp\n  | x :: r =>\n      match sub x with", "| [] => ArgvUsage\n  | x :: r =>\n      match sub x with"),
 ("an empty first word is an unknown command", "| [] => ArgvHelp\n              | _ :: _ => if mem x children", "| [] => ArgvUsage\n              | _ :: _ => if mem x children"),
]
# changes that cannot show
EQUIVALENT = {
 "-=x is a flag": "the name =x is in no table: 'bad flag syntax' and 'flag provided but not defined' are both urfave's usage error",
}
src = open(os.path.join(root, 'theories/Model/Argv.v')).read()
w = tempfile.mkdtemp(prefix='WP32mut.', dir='/var/tmp')

def one(im):
    i, (name, frm, to) = im
    if src.count(frm) != 1: return name, "PATTERN FOUND %d TIMES" % src.count(frm), False
    d = os.path.join(w, 'm%d' % i)
    os.makedirs(d + '/theories/Model'); os.makedirs(d + '/extraction/argv_validation')
    os.symlink(os.path.join(root, 'theories/Base'), d + '/theories/Base')
    for f in os.listdir(os.path.join(root, 'theories/Model')):
        if not f.startswith('Argv.') and not f.startswith('.Argv'):
            os.symlink(os.path.join(root, 'theories/Model', f), os.path.join(d, 'theories/Model', f))
    open(d + '/theories/Model/Argv.v', 'w').write(src.replace(frm, to, 1))
    r = subprocess.run(['coqc', '-Q', 'theories', 'HP', '-w', '-notation-overridden', 'theories/Model/Argv.v'], cwd=d, capture_output=True, text=True)
    if r.returncode != 0: return name, "does not compile: " + r.stderr[-300:], False
    for f in ('Extract.v', 'main.ml', 'build.sh', 'check.py'):
        shutil.copy(os.path.join(here, f), d + '/extraction/argv_validation/')
    r = subprocess.run([d + '/extraction/argv_validation/build.sh'], capture_output=True, text=True)
    if r.returncode != 0: return name, "build failed: " + r.stdout[-300:], False
    r = subprocess.run(['python3', d + '/extraction/argv_validation/check.py', cases, harness, '1'], capture_output=True, text=True)
    last = r.stdout.strip().split('\n')
    n = int(last[-1].split()[1])
    first = next((l for l in last if l.startswith('DISCREPANCY')), '')
    if name in EQUIVALENT: return name, "discrepancies %d   (expected 0: %s)" % (n, EQUIVALENT[name]), n == 0
    return name, "discrepancies %d   %s" % (n, first[:150]), n > 0

with cf.ThreadPoolExecutor(max_workers=6) as ex:
    res = list(ex.map(one, enumerate(MUTS)))
bad = 0
for name, msg, ok in res:
    print("%s: %s%s" % (name, msg, "" if ok else "   <-- NOT DETECTED"))
    bad += 0 if ok else 1
shutil.rmtree(w)
print("all %d seeded defects behave as expected (%d equivalent)" % (len(MUTS), len(EQUIVALENT)) if bad == 0 else "%d seeded defects NOT detected" % bad)
sys.exit(1 if bad else 0)
