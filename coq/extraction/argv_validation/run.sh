#!/bin/bash
# Comparison of Model/Argv.v (parse_argv, render_argv) with the real program.
#   ./run.sh [repository] [harness/py directory] [work dir]      defaults: /repo  /verif/harness/py  a fresh directory under /var/tmp
# 1. a scratch copy of the repository is built twice: the plain binary, and with argv_harness.go (build tag verif) which serves
#    argument vectors through the production GetApp() / urfave/cli / options.Load and reports what an action would be given;
# 2. gen.py writes argument vectors x environments (3 seeds x 100000); check.py compares the extracted parse_argv (+ Cli.load on a
#    world whose configuration file is empty) with the harness, line by line; ArgvUnmodelled is always accepted;
# 3. binary_check.py: the result classes against exit status and output of the real binary on a sample;
# 4. render_check.py: render_argv against the test harness's argv_env, and parse (render i) = i, on random cases;
# 5. mutcheck.py: seeded defects in a copy of Argv.v must show up in step 2.
set -e
HERE=$(cd "$(dirname "$0")" && pwd)
REPO=${1:-/repo}; HPY=${2:-/verif/harness/py}
W=${3:-$(mktemp -d /var/tmp/argvval.XXXX)}
mkdir -p "$W"
export GOPROXY=off GOSUMDB=off GOTOOLCHAIN=local GOFLAGS=
rsync -a --exclude .git "$REPO/" "$W/repo/"
(cd "$W/repo/cmd/hranoprovod-cli" && go build -o "$W/hr" . && cp "$HERE/argv_harness.go" . && go build -tags verif -o "$W/hr_argv" .)
"$HERE/build.sh"
for s in 1 2 3; do
  python3 "$HERE/gen.py" 100000 $s > "$W/cases$s.txt"
  echo "== generated cases, seed $s"; python3 "$HERE/check.py" "$W/cases$s.txt" "$W/hr_argv"
  python3 "$HERE/binary_check.py" "$W/cases$s.txt" "$W/hr" 6000 $s
done
echo "== render_argv against argv_env, round trip"
python3 "$HERE/render_check.py" "$HPY" 40000 1
python3 "$HERE/render_check.py" "$HPY" 40000 2
echo "== seeded defects"
head -40000 "$W/cases1.txt" > "$W/mutcases.txt"
python3 "$HERE/mutcheck.py" "$(cd "$HERE/../.." && pwd)" "$W/mutcases.txt" "$W/hr_argv"
echo "work directory: $W"
