(* Glue only.  One request per line, tab separated:
     P <args> <env>     args: "x<hex>" items joined by ','  (empty: no arguments)
                         env:  "NAME:x<hex>" items joined by ','
        -> HELP | USAGE | UNMODELLED | BEFORE <message> |
           OK <command path> arg=<hex> silent=.. desc=.. cfgset=.. cfg=<hex> <what [Cli.load] answers in a world whose configuration file is empty>
     R <key=hex tokens of the model driver (Driver.decode_invocation)>
        -> ARGV <args> <env>       the extracted [render_argv]
     Q <key=hex tokens>
        -> ROUNDTRIP ok | ROUNDTRIP differs   [parse_argv (render_argv i) = ArgvOk i], by structural equality
   (The extracted modules List, String, Bytes shadow OCaml's: use Stdlib.*.) *)
module S = Stdlib.String
module L = Stdlib.List
open BinNums
let rec pos_of_int n = if n = 1 then Coq_xH
  else if n land 1 = 0 then Coq_xO (pos_of_int (n lsr 1)) else Coq_xI (pos_of_int (n lsr 1))
let n_of_int n = if n = 0 then N0 else Npos (pos_of_int n)
let z_of_int n = if n = 0 then Z0 else if n > 0 then Zpos (pos_of_int n) else Zneg (pos_of_int (-n))
let rec int_of_pos = function Coq_xH -> 1 | Coq_xO p -> 2 * int_of_pos p | Coq_xI p -> 2 * int_of_pos p + 1
let int_of_n = function N0 -> 0 | Npos p -> int_of_pos p
(* decimal text of a positive of any size: digits little-endian, doubled bit by bit *)
let rec dec_double carry = function
  | [] -> if carry = 0 then [] else [carry]
  | d :: r -> let v = 2 * d + carry in (v mod 10) :: dec_double (v / 10) r
let rec dec_of_pos = function
  | Coq_xH -> [1]
  | Coq_xO p -> dec_double 0 (dec_of_pos p)
  | Coq_xI p -> dec_double 1 (dec_of_pos p)
let string_of_pos p = S.concat "" (L.rev_map string_of_int (dec_of_pos p))
let string_of_z = function Z0 -> "0" | Zpos p -> string_of_pos p | Zneg p -> "-" ^ string_of_pos p
let bytes_of_plain s = L.init (S.length s) (fun i -> n_of_int (Char.code (S.get s i)))
let hexval c = match c with '0'..'9' -> Char.code c - 48 | 'a'..'f' -> Char.code c - 87 | 'A'..'F' -> Char.code c - 55 | _ -> failwith "hex"
let bytes_of_hex s =
  let n = S.length s / 2 in
  let rec go i acc = if i < 0 then acc else go (i - 1) (n_of_int (hexval (S.get s (2*i)) * 16 + hexval (S.get s (2*i+1))) :: acc) in
  go (n - 1) []
let hex_of_bytes l =
  let b = Buffer.create 64 in
  L.iter (fun c -> Buffer.add_string b (Printf.sprintf "%02x" (int_of_n c))) l; Buffer.contents b
let unx s = bytes_of_hex (S.sub s 1 (S.length s - 1))
let items s = if s = "" then [] else S.split_on_char ',' s
let bit v = if v then "1" else "0"

let default_config = bytes_of_plain "/root/.hranoprovod/config"
let clock = Dates.time_of_civil ((z_of_int 2021, z_of_int 3), z_of_int 4)
let ident l = l

let secs (t : Dates.time) = string_of_z (BinInt.Z.div t.Dates.inst Dates.ns_per_sec)
let show_opt_time = function None -> "-" | Some t -> secs t

let command_path (c : Cli.command) = match c with
  | Cli.CReg -> "register" | Cli.CBal -> "balance" | Cli.CLint _ -> "lint"
  | Cli.CElementTotal _ -> "report/element-total" | Cli.CUnresolved -> "report/unresolved"
  | Cli.CQuantity -> "report/quantity" | Cli.CTotals -> "report/totals"
  | Cli.CCsvLog -> "csv/log" | Cli.CCsvDb -> "csv/database" | Cli.CCsvDbResolved -> "csv/database-resolved"
  | Cli.CStats -> "stats" | Cli.CSummary _ -> "summary" | Cli.CPrint -> "print"
let command_arg (c : Cli.command) = match c with
  | Cli.CLint a | Cli.CElementTotal a | Cli.CSummary a -> a | _ -> []

let first_some l = L.fold_right (fun x acc -> match x with Some _ -> x | None -> acc) l None

let show_ok (i : Cli.invocation) =
  let open Cli in
  match i.i_cmd with
  | CLint [] -> "BEFORE no file provided"
  | CElementTotal [] -> "BEFORE no element name"
  | _ ->
    let cfg = first_some [i.i_f_config; i.i_e_config] in
    let path = match cfg with Some p -> p | None -> default_config in
    let w = { w_fs = [(path, FConfig no_cfg)]; w_default_config = default_config; w_tz = Z0; w_clock = clock;
              w_or = { o_resolve = ident; o_day = (fun _ -> ident); o_flush = ident }; w_sink = None; w_read_fault = [] } in
    let head = Printf.sprintf "OK %s arg=%s silent=%s desc=%s cfgset=%s cfg=%s" (command_path i.i_cmd) (hex_of_bytes (command_arg i.i_cmd))
                 (bit i.i_silent) (bit i.i_desc) (bit (cfg <> None)) (hex_of_bytes path) in
    let tail = match load w i with
      | Datatypes.Coq_inl Reporters.EBadDate -> "LOADERR baddate"
      | Datatypes.Coq_inl (Reporters.EUnmodelled _) -> "LOADUNM"
      | Datatypes.Coq_inl _ -> "LOADERR other"
      | Datatypes.Coq_inr o ->
          let rc = o.op_rc in
          Printf.sprintf "db=%s log=%s fmt=%s depth=%s now=%s begin=%s end=%s csv=%s color=%s totalsonly=%s totals=%s clast=%s collapse=%s group=%s shorten=%s old=%s se=%s sf=%s tpl=%s"
            (hex_of_bytes o.op_db) (hex_of_bytes o.op_log) (hex_of_bytes o.op_fmt) (string_of_z o.op_depth) (secs o.op_now)
            (show_opt_time o.op_begin) (show_opt_time o.op_end)
            (bit rc.Reporters.rc_csv) (bit rc.Reporters.rc_color) (bit rc.Reporters.rc_totals_only) (bit rc.Reporters.rc_totals)
            (bit rc.Reporters.rc_collapse_last) (bit rc.Reporters.rc_collapse) (bit rc.Reporters.rc_group_food) (bit rc.Reporters.rc_shorten)
            (bit rc.Reporters.rc_old) (hex_of_bytes rc.Reporters.rc_single_element) (hex_of_bytes rc.Reporters.rc_single_food)
            (hex_of_bytes rc.Reporters.rc_template) in
    head ^ " " ^ tail

let parse_env s = L.map (fun it -> match S.index_opt it ':' with
  | Some k -> (bytes_of_plain (S.sub it 0 k), unx (S.sub it (k + 1) (S.length it - k - 1)))
  | None -> failwith "env") (items s)

let kvs_of line =
  let toks = L.filter (fun t -> t <> "") (S.split_on_char ' ' line) in
  L.map (fun t -> match S.index_opt t '=' with
    | Some i -> (bytes_of_plain (S.sub t 0 i), bytes_of_hex (S.sub t (i+1) (S.length t - i - 1)))
    | None -> (bytes_of_plain t, [])) toks

let show_args l = S.concat "," (L.map (fun a -> "x" ^ hex_of_bytes a) l)
let plain_of_bytes l = let b = Buffer.create 32 in L.iter (fun c -> Buffer.add_char b (Char.chr (int_of_n c))) l; Buffer.contents b
let show_env l = S.concat "," (L.map (fun (k, v) -> plain_of_bytes k ^ ":x" ^ hex_of_bytes v) l)

let () =
  try
    while true do
      let line = input_line stdin in
      let out =
        match S.split_on_char '\t' line with
        | ["P"; a; e] ->
            (match Argv.parse_argv (L.map unx (items a)) (parse_env e) with
             | Argv.ArgvHelp -> "HELP" | Argv.ArgvUsage -> "USAGE" | Argv.ArgvUnmodelled -> "UNMODELLED"
             | Argv.ArgvOk i -> show_ok i)
        | ["R"; kv] ->
            let l = kvs_of kv in
            (match Driver.decode_command l with
             | None -> "NOCOMMAND"
             | Some c -> let (a, e) = Argv.render_argv (Driver.decode_invocation l c) in "ARGV\t" ^ show_args a ^ "\t" ^ show_env e)
        | ["Q"; kv] ->
            let l = kvs_of kv in
            (match Driver.decode_command l with
             | None -> "NOCOMMAND"
             | Some c -> let i = Driver.decode_invocation l c in
                         let (a, e) = Argv.render_argv i in
                         if Argv.parse_argv a e = Argv.ArgvOk i then "ROUNDTRIP ok" else "ROUNDTRIP differs")
        | _ -> "BADREQUEST" in
      print_string out; print_newline ()
    done
  with End_of_file -> ()
