#!/bin/bash
# Extracts the model (coqc Extract.v) and builds the driver binary ./model
set -e
cd "$(dirname "$0")"
rm -f *.ml.tmp; find . -maxdepth 1 \( -name '*.ml' -o -name '*.mli' \) ! -name main.ml -delete
rm -f *.cmi *.cmx *.o model
coqc -Q ../theories HP Extract.v > extract.log 2>&1 || { cat extract.log; exit 1; }
ORDER=$(ocamlfind ocamldep -sort *.ml *.mli)
ocamlfind ocamlopt -O3 -w -a -o model $ORDER 2> build.log || ocamlfind ocamlopt -w -a -o model $ORDER 2> build.log || { cat build.log; exit 1; }
rm -f *.cmi *.cmx *.o
echo built $(pwd)/model
