theories/Base/Bytes.vo theories/Base/Bytes.glob theories/Base/Bytes.v.beautified theories/Base/Bytes.required_vo: theories/Base/Bytes.v 
theories/Base/Bytes.vio: theories/Base/Bytes.v 
theories/Base/Bytes.vos theories/Base/Bytes.vok theories/Base/Bytes.required_vos: theories/Base/Bytes.v 
theories/Base/Utf8.vo theories/Base/Utf8.glob theories/Base/Utf8.v.beautified theories/Base/Utf8.required_vo: theories/Base/Utf8.v theories/Base/Bytes.vo
theories/Base/Utf8.vio: theories/Base/Utf8.v theories/Base/Bytes.vio
theories/Base/Utf8.vos theories/Base/Utf8.vok theories/Base/Utf8.required_vos: theories/Base/Utf8.v theories/Base/Bytes.vos
theories/Base/Num.vo theories/Base/Num.glob theories/Base/Num.v.beautified theories/Base/Num.required_vo: theories/Base/Num.v theories/Base/Bytes.vo
theories/Base/Num.vio: theories/Base/Num.v theories/Base/Bytes.vio
theories/Base/Num.vos theories/Base/Num.vok theories/Base/Num.required_vos: theories/Base/Num.v theories/Base/Bytes.vos
theories/Base/GoFloat.vo theories/Base/GoFloat.glob theories/Base/GoFloat.v.beautified theories/Base/GoFloat.required_vo: theories/Base/GoFloat.v theories/Base/Bytes.vo theories/Base/Num.vo
theories/Base/GoFloat.vio: theories/Base/GoFloat.v theories/Base/Bytes.vio theories/Base/Num.vio
theories/Base/GoFloat.vos theories/Base/GoFloat.vok theories/Base/GoFloat.required_vos: theories/Base/GoFloat.v theories/Base/Bytes.vos theories/Base/Num.vos
theories/Model/Scanner.vo theories/Model/Scanner.glob theories/Model/Scanner.v.beautified theories/Model/Scanner.required_vo: theories/Model/Scanner.v theories/Base/Bytes.vo
theories/Model/Scanner.vio: theories/Model/Scanner.v theories/Base/Bytes.vio
theories/Model/Scanner.vos theories/Model/Scanner.vok theories/Model/Scanner.required_vos: theories/Model/Scanner.v theories/Base/Bytes.vos
theories/Model/Parser.vo theories/Model/Parser.glob theories/Model/Parser.v.beautified theories/Model/Parser.required_vo: theories/Model/Parser.v theories/Base/Bytes.vo theories/Base/Utf8.vo theories/Base/Num.vo theories/Model/Scanner.vo
theories/Model/Parser.vio: theories/Model/Parser.v theories/Base/Bytes.vio theories/Base/Utf8.vio theories/Base/Num.vio theories/Model/Scanner.vio
theories/Model/Parser.vos theories/Model/Parser.vok theories/Model/Parser.required_vos: theories/Model/Parser.v theories/Base/Bytes.vos theories/Base/Utf8.vos theories/Base/Num.vos theories/Model/Scanner.vos
theories/Model/Elements.vo theories/Model/Elements.glob theories/Model/Elements.v.beautified theories/Model/Elements.required_vo: theories/Model/Elements.v theories/Base/Bytes.vo theories/Base/Num.vo
theories/Model/Elements.vio: theories/Model/Elements.v theories/Base/Bytes.vio theories/Base/Num.vio
theories/Model/Elements.vos theories/Model/Elements.vok theories/Model/Elements.required_vos: theories/Model/Elements.v theories/Base/Bytes.vos theories/Base/Num.vos
theories/Model/Resolver.vo theories/Model/Resolver.glob theories/Model/Resolver.v.beautified theories/Model/Resolver.required_vo: theories/Model/Resolver.v theories/Base/Bytes.vo theories/Base/Num.vo theories/Model/Elements.vo
theories/Model/Resolver.vio: theories/Model/Resolver.v theories/Base/Bytes.vio theories/Base/Num.vio theories/Model/Elements.vio
theories/Model/Resolver.vos theories/Model/Resolver.vok theories/Model/Resolver.required_vos: theories/Model/Resolver.v theories/Base/Bytes.vos theories/Base/Num.vos theories/Model/Elements.vos
theories/Model/Dates.vo theories/Model/Dates.glob theories/Model/Dates.v.beautified theories/Model/Dates.required_vo: theories/Model/Dates.v theories/Base/Bytes.vo
theories/Model/Dates.vio: theories/Model/Dates.v theories/Base/Bytes.vio
theories/Model/Dates.vos theories/Model/Dates.vok theories/Model/Dates.required_vos: theories/Model/Dates.v theories/Base/Bytes.vos
theories/Model/Writer.vo theories/Model/Writer.glob theories/Model/Writer.v.beautified theories/Model/Writer.required_vo: theories/Model/Writer.v theories/Base/Bytes.vo
theories/Model/Writer.vio: theories/Model/Writer.v theories/Base/Bytes.vio
theories/Model/Writer.vos theories/Model/Writer.vok theories/Model/Writer.required_vos: theories/Model/Writer.v theories/Base/Bytes.vos
theories/Model/Tree.vo theories/Model/Tree.glob theories/Model/Tree.v.beautified theories/Model/Tree.required_vo: theories/Model/Tree.v theories/Base/Bytes.vo theories/Base/Num.vo theories/Model/Elements.vo
theories/Model/Tree.vio: theories/Model/Tree.v theories/Base/Bytes.vio theories/Base/Num.vio theories/Model/Elements.vio
theories/Model/Tree.vos theories/Model/Tree.vok theories/Model/Tree.required_vos: theories/Model/Tree.v theories/Base/Bytes.vos theories/Base/Num.vos theories/Model/Elements.vos
theories/Model/Reporters.vo theories/Model/Reporters.glob theories/Model/Reporters.v.beautified theories/Model/Reporters.required_vo: theories/Model/Reporters.v theories/Base/Bytes.vo theories/Base/Utf8.vo theories/Base/Num.vo theories/Model/Elements.vo theories/Model/Dates.vo theories/Model/Tree.vo theories/Model/Writer.vo
theories/Model/Reporters.vio: theories/Model/Reporters.v theories/Base/Bytes.vio theories/Base/Utf8.vio theories/Base/Num.vio theories/Model/Elements.vio theories/Model/Dates.vio theories/Model/Tree.vio theories/Model/Writer.vio
theories/Model/Reporters.vos theories/Model/Reporters.vok theories/Model/Reporters.required_vos: theories/Model/Reporters.v theories/Base/Bytes.vos theories/Base/Utf8.vos theories/Base/Num.vos theories/Model/Elements.vos theories/Model/Dates.vos theories/Model/Tree.vos theories/Model/Writer.vos
theories/Model/Cli.vo theories/Model/Cli.glob theories/Model/Cli.v.beautified theories/Model/Cli.required_vo: theories/Model/Cli.v theories/Base/Bytes.vo theories/Base/Utf8.vo theories/Base/Num.vo theories/Model/Scanner.vo theories/Model/Parser.vo theories/Model/Elements.vo theories/Model/Resolver.vo theories/Model/Dates.vo theories/Model/Tree.vo theories/Model/Writer.vo theories/Model/Reporters.vo
theories/Model/Cli.vio: theories/Model/Cli.v theories/Base/Bytes.vio theories/Base/Utf8.vio theories/Base/Num.vio theories/Model/Scanner.vio theories/Model/Parser.vio theories/Model/Elements.vio theories/Model/Resolver.vio theories/Model/Dates.vio theories/Model/Tree.vio theories/Model/Writer.vio theories/Model/Reporters.vio
theories/Model/Cli.vos theories/Model/Cli.vok theories/Model/Cli.required_vos: theories/Model/Cli.v theories/Base/Bytes.vos theories/Base/Utf8.vos theories/Base/Num.vos theories/Model/Scanner.vos theories/Model/Parser.vos theories/Model/Elements.vos theories/Model/Resolver.vos theories/Model/Dates.vos theories/Model/Tree.vos theories/Model/Writer.vos theories/Model/Reporters.vos
theories/Model/Driver.vo theories/Model/Driver.glob theories/Model/Driver.v.beautified theories/Model/Driver.required_vo: theories/Model/Driver.v theories/Base/Bytes.vo theories/Base/Utf8.vo theories/Base/Num.vo theories/Base/GoFloat.vo theories/Model/Scanner.vo theories/Model/Parser.vo theories/Model/Elements.vo theories/Model/Resolver.vo theories/Model/Dates.vo theories/Model/Tree.vo theories/Model/Writer.vo theories/Model/Reporters.vo theories/Model/Cli.vo theories/Model/Syntax.vo theories/Model/Csv.vo theories/Model/Channel.vo
theories/Model/Driver.vio: theories/Model/Driver.v theories/Base/Bytes.vio theories/Base/Utf8.vio theories/Base/Num.vio theories/Base/GoFloat.vio theories/Model/Scanner.vio theories/Model/Parser.vio theories/Model/Elements.vio theories/Model/Resolver.vio theories/Model/Dates.vio theories/Model/Tree.vio theories/Model/Writer.vio theories/Model/Reporters.vio theories/Model/Cli.vio theories/Model/Syntax.vio theories/Model/Csv.vio theories/Model/Channel.vio
theories/Model/Driver.vos theories/Model/Driver.vok theories/Model/Driver.required_vos: theories/Model/Driver.v theories/Base/Bytes.vos theories/Base/Utf8.vos theories/Base/Num.vos theories/Base/GoFloat.vos theories/Model/Scanner.vos theories/Model/Parser.vos theories/Model/Elements.vos theories/Model/Resolver.vos theories/Model/Dates.vos theories/Model/Tree.vos theories/Model/Writer.vos theories/Model/Reporters.vos theories/Model/Cli.vos theories/Model/Syntax.vos theories/Model/Csv.vos theories/Model/Channel.vos
theories/Model/Syntax.vo theories/Model/Syntax.glob theories/Model/Syntax.v.beautified theories/Model/Syntax.required_vo: theories/Model/Syntax.v theories/Base/Bytes.vo theories/Base/Utf8.vo theories/Base/Num.vo theories/Model/Scanner.vo theories/Model/Parser.vo
theories/Model/Syntax.vio: theories/Model/Syntax.v theories/Base/Bytes.vio theories/Base/Utf8.vio theories/Base/Num.vio theories/Model/Scanner.vio theories/Model/Parser.vio
theories/Model/Syntax.vos theories/Model/Syntax.vok theories/Model/Syntax.required_vos: theories/Model/Syntax.v theories/Base/Bytes.vos theories/Base/Utf8.vos theories/Base/Num.vos theories/Model/Scanner.vos theories/Model/Parser.vos
theories/Model/Csv.vo theories/Model/Csv.glob theories/Model/Csv.v.beautified theories/Model/Csv.required_vo: theories/Model/Csv.v theories/Base/Bytes.vo
theories/Model/Csv.vio: theories/Model/Csv.v theories/Base/Bytes.vio
theories/Model/Csv.vos theories/Model/Csv.vok theories/Model/Csv.required_vos: theories/Model/Csv.v theories/Base/Bytes.vos
theories/Model/Channel.vo theories/Model/Channel.glob theories/Model/Channel.v.beautified theories/Model/Channel.required_vo: theories/Model/Channel.v theories/Base/Bytes.vo theories/Base/Num.vo theories/Model/Scanner.vo theories/Model/Parser.vo
theories/Model/Channel.vio: theories/Model/Channel.v theories/Base/Bytes.vio theories/Base/Num.vio theories/Model/Scanner.vio theories/Model/Parser.vio
theories/Model/Channel.vos theories/Model/Channel.vok theories/Model/Channel.required_vos: theories/Model/Channel.v theories/Base/Bytes.vos theories/Base/Num.vos theories/Model/Scanner.vos theories/Model/Parser.vos
