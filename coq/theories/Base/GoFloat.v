(** binary64 as Go computes it: the standard library's [SpecFloat] operations
    (prec 53, emax 1024), [strconv.ParseFloat]'s grammar with correct rounding
    of the exact decimal / hexadecimal value, and fmt's [%.Nf] (round half even
    on the exact binary value).  Model only. *)
From Coq Require Import Floats.SpecFloat.
From HP Require Import Base.Bytes Base.Num.
Open Scope Z_scope.

Definition prec := 53.
Definition emax := 1024.
Definition f64 := spec_float.

Definition f_zero : f64 := S754_zero false.
Definition f_add := SFadd prec emax.
Definition f_mul := SFmul prec emax.
Definition f_ltb := SFltb.
Definition f_of_Z (z : Z) : f64 := binary_normalize prec emax z 0 false.
Definition f_is_nan (x : f64) : bool := match x with S754_nan => true | _ => false end.

(** *** strconv.ParseFloat *)

Definition hex_val (c : N) : option N :=
  let l := lower c in
  if is_digit c then Some (c - 48)%N
  else if ((97 <=? l) && (l <=? 102))%N then Some (l - 87)%N
  else None.

Record mant_state := {
  ms_mant : N;        (* all significant digits, as an integer *)
  ms_nd : Z;          (* number of digits counted in [ms_mant] (after leading zeros) *)
  ms_dp : Z;          (* position of the point *)
  ms_sawdot : bool;
  ms_sawdigits : bool;
  ms_under : bool
}.

(** the mantissa loop of [readFloat]; returns the state and the unread rest *)
Fixpoint read_mant (hex : bool) (s : bytes) (st : mant_state) : mant_state * bytes :=
  match s with
  | [] => (st, [])
  | c :: r =>
      if (c =? 95)%N then
        read_mant hex r {| ms_mant := ms_mant st; ms_nd := ms_nd st; ms_dp := ms_dp st;
                           ms_sawdot := ms_sawdot st; ms_sawdigits := ms_sawdigits st; ms_under := true |}
      else if (c =? 46)%N then
        if ms_sawdot st then (st, s)
        else read_mant hex r {| ms_mant := ms_mant st; ms_nd := ms_nd st; ms_dp := ms_nd st;
                                ms_sawdot := true; ms_sawdigits := ms_sawdigits st; ms_under := ms_under st |}
      else if is_digit c then
        if ((c =? 48)%N && (ms_nd st =? 0))%bool then
          read_mant hex r {| ms_mant := ms_mant st; ms_nd := 0; ms_dp := ms_dp st - 1;
                             ms_sawdot := ms_sawdot st; ms_sawdigits := true; ms_under := ms_under st |}
        else
          read_mant hex r {| ms_mant := (ms_mant st * (if hex then 16 else 10) + (c - 48))%N;
                             ms_nd := ms_nd st + 1; ms_dp := ms_dp st;
                             ms_sawdot := ms_sawdot st; ms_sawdigits := true; ms_under := ms_under st |}
      else
        match (if hex then hex_val c else None) with
        | Some v =>
            read_mant hex r {| ms_mant := (ms_mant st * 16 + v)%N;
                               ms_nd := ms_nd st + 1; ms_dp := ms_dp st;
                               ms_sawdot := ms_sawdot st; ms_sawdigits := true; ms_under := ms_under st |}
        | None => (st, s)
        end
  end.

(** exponent digits: value capped the way the Go loop caps it, underscore flag, rest *)
Fixpoint read_exp_digits (s : bytes) (e : Z) (under : bool) : Z * bool * bytes :=
  match s with
  | c :: r =>
      if (c =? 95)%N then read_exp_digits r e true
      else if is_digit c then read_exp_digits r (if e <? 10000 then e * 10 + Z.of_N (c - 48) else e) under
      else (e, under, s)
  | [] => (e, under, [])
  end.

(** [underscoreOK] *)
Fixpoint underscore_scan (hex : bool) (s : bytes) (saw : N) : bool :=
  (* saw: 48 = digit, 95 = underscore, 33 = other, 94 = start *)
  match s with
  | [] => negb (saw =? 95)%N
  | c :: r =>
      if (is_digit c || (hex && match hex_val c with Some _ => true | None => false end))%bool
      then underscore_scan hex r 48%N
      else if (c =? 95)%N then (if (saw =? 48)%N then underscore_scan hex r 95%N else false)
      else if (saw =? 95)%N then false
      else underscore_scan hex r 33%N
  end.

Definition underscore_ok (s : bytes) : bool :=
  let s1 := match s with c :: r => if ((c =? 45) || (c =? 43))%N then r else s | [] => s end in
  match s1 with
  | c0 :: c1 :: r =>
      if ((c0 =? 48)%N && ((lower c1 =? 98) || (lower c1 =? 111) || (lower c1 =? 120))%N)%bool
      then underscore_scan (lower c1 =? 120)%N r 48%N
      else underscore_scan false s1 94%N
  | _ => underscore_scan false s1 94%N
  end.

Definition ieq (x y : bytes) : bool := beq (map lower x) y.

(** the [special] values: optional sign + inf / infinity, or unsigned nan *)
Definition special (s : bytes) : option f64 :=
  let '(neg, signed, r) :=
    match s with
    | c :: r => if (c =? 43)%N then (false, true, r) else if (c =? 45)%N then (true, true, r) else (false, false, s)
    | [] => (false, false, s)
    end in
  if (ieq r (b "inf") || ieq r (b "infinity"))%bool then Some (S754_infinity neg)
  else if (negb signed && ieq r (b "nan"))%bool then Some S754_nan
  else None.

(** correctly rounded binary64 of [m * 10^e10 * 2^e2] ([m > 0]) *)
Definition round_scaled (neg : bool) (m : positive) (e10 e2 : Z) : f64 :=
  if 0 <=? e10 then
    binary_round prec emax neg (m * Z.to_pos (10 ^ e10))%positive e2
  else
    let den := 10 ^ (- e10) in
    let s := Z.max 0 (70 + Z.log2 den - Z.log2 (Zpos m)) in
    let num := Zpos m * 2 ^ s in
    let q := num / den in
    let r := num mod den in
    let loc := if r =? 0 then loc_Exact else loc_Inexact (Z.compare (2 * r) den) in
    binary_round_aux prec emax neg q (e2 - s) loc.

Definition clamp (lo hi x : Z) : Z := Z.max lo (Z.min hi x).

(** [strconv.ParseFloat s 64]; [None] = syntax or range error *)
Definition parse_float (s : bytes) : option f64 :=
  match special s with
  | Some v => Some v
  | None =>
      match s with
      | [] => None
      | c :: r0 =>
          let '(neg, s1) := if (c =? 43)%N then (false, r0) else if (c =? 45)%N then (true, r0) else (false, s) in
          let '(hex, s2) :=
            match s1 with
            | c0 :: c1 :: (_ :: _) as r => if ((c0 =? 48) && (lower c1 =? 120))%N then (true, r) else (false, s1)
            | _ => (false, s1)
            end in
          let '(st, rest) := read_mant hex s2 {| ms_mant := 0; ms_nd := 0; ms_dp := 0; ms_sawdot := false;
                                                 ms_sawdigits := false; ms_under := false |} in
          if negb (ms_sawdigits st) then None else
          let dp := if ms_sawdot st then ms_dp st else ms_nd st in
          let exp_char := if hex then 112%N else 101%N in
          let after_exp : option (Z * bool * bytes) :=
            match rest with
            | ce :: r1 =>
                if (lower ce =? exp_char)%N then
                  match r1 with
                  | [] => None
                  | cs :: r2 =>
                      let '(esign, r3) := if (cs =? 43)%N then (1, r2) else if (cs =? 45)%N then (-1, r2) else (1, r1) in
                      match r3 with
                      | d :: _ => if is_digit d then
                                    let '(e, u, r4) := read_exp_digits r3 0 false in Some (e * esign, u, r4)
                                  else None
                      | [] => None
                      end
                  end
                else if hex then None else Some (0, false, rest)
            | [] => if hex then None else Some (0, false, rest)
            end in
          match after_exp with
          | None => None
          | Some (e, under2, rest2) =>
              match rest2 with
              | _ :: _ => None            (* the whole string must be consumed *)
              | [] =>
                  if ((ms_under st || under2) && negb (underscore_ok s))%bool then None else
                  match ms_mant st with
                  | N0 => Some (S754_zero neg)
                  | Npos m =>
                      let v :=
                        if hex then
                          (* value = m * 2^(4*(dp - nd) + e) *)
                          let e2 := clamp (-3000) 3000 (4 * (dp - ms_nd st) + e) in
                          (if e2 <? -2000 then S754_zero neg else
                           if 2000 <? e2 then S754_infinity neg else
                           binary_round prec emax neg m e2)
                        else
                          (* value = m * 10^(dp - nd + e) *)
                          let e10 := dp - ms_nd st + e in
                          let nd := ms_nd st in
                          if 400 <? e10 then S754_infinity neg
                          else if e10 + nd <? -400 then S754_zero neg
                          else round_scaled neg m e10 0 in
                      match v with
                      | S754_infinity _ => None     (* ErrRange *)
                      | _ => Some v
                      end
                  end
              end
          end
      end
  end.

(** *** fmt %.Nf *)

Definition round_half_even_div (num den : Z) : Z :=
  let q := num / den in
  let r := num mod den in
  match Z.compare (2 * r) den with
  | Lt => q
  | Gt => q + 1
  | Eq => if Z.even q then q else q + 1
  end.

Fixpoint pad_zeros_aux (k : nat) (s : bytes) : bytes :=
  match k with O => s | S k' => 48%N :: pad_zeros_aux k' s end.

Definition fixed_of_scaled (neg : bool) (p : nat) (n : Z) : bytes :=
  let ds := pad_zeros_aux (S p - length (dec_of_N (Z.to_N n))) (dec_of_N (Z.to_N n)) in
  let ip := firstn (length ds - p) ds in
  let fp := skipn (length ds - p) ds in
  (if neg then [45%N] else []) ++ ip ++ (match p with O => [] | _ => 46%N :: fp end).

Definition format_fixed (p : nat) (x : f64) : bytes :=
  match x with
  | S754_nan => b "NaN"
  | S754_infinity false => b "+Inf"
  | S754_infinity true => b "-Inf"
  | S754_zero s => fixed_of_scaled s p 0
  | S754_finite s m e =>
      let scale := 10 ^ Z.of_nat p in
      let n := if 0 <=? e then Zpos m * 2 ^ e * scale
               else round_half_even_div (Zpos m * scale) (2 ^ (- e)) in
      fixed_of_scaled s p n
  end.

Definition B64 : Num := {|
  T := f64;
  zero := f_zero;
  one := f_of_Z 1;
  neg_one := f_of_Z (-1);
  add := f_add;
  mul := f_mul;
  ltb := f_ltb;
  is_nan := f_is_nan;
  of_lexeme := parse_float;
  fmt_fixed := format_fixed
|}.

(** raw bit pattern (IEEE 754 binary64), used to compare values with Go exactly *)
Definition bits_of (x : f64) : Z :=
  match x with
  | S754_zero s => if s then 2 ^ 63 else 0
  | S754_infinity s => (if s then 2 ^ 63 else 0) + 2047 * 2 ^ 52
  | S754_nan => 2047 * 2 ^ 52 + 2 ^ 51
  | S754_finite s m e =>
      let sgn := if s then 2 ^ 63 else 0 in
      if Zpos m <? 2 ^ 52 then sgn + Zpos m          (* subnormal: e = -1074 *)
      else sgn + (e + 1075) * 2 ^ 52 + (Zpos m - 2 ^ 52)
  end.
