(** UTF-8 decoding as Go's [unicode/utf8] does it (invalid bytes decode to
    RuneError U+FFFD of width 1), [unicode.IsSpace], [strings.TrimSpace],
    rune counting (used by [fmt]'s width padding) and re-encoding (used by the
    middle truncation of long names).  Model only. *)
From HP Require Import Base.Bytes.
Open Scope N_scope.

Definition rune_error : N := 65533.

Definition is_cont (c : N) : bool := (128 <=? c) && (c <=? 191).

(** first rune of [s] and the bytes after it; [None] on the empty string *)
Definition decode_rune (s : bytes) : option (N * bytes) :=
  match s with
  | [] => None
  | c0 :: r0 =>
      if c0 <? 128 then Some (c0, r0)
      else if (194 <=? c0) && (c0 <=? 223) then
        match r0 with
        | c1 :: r1 => if is_cont c1 then Some ((c0 - 192) * 64 + (c1 - 128), r1) else Some (rune_error, r0)
        | [] => Some (rune_error, r0)
        end
      else if (224 <=? c0) && (c0 <=? 239) then
        let lo := if c0 =? 224 then 160 else 128 in
        let hi := if c0 =? 237 then 159 else 191 in
        match r0 with
        | c1 :: c2 :: r2 =>
            if (lo <=? c1) && (c1 <=? hi) && is_cont c2
            then Some ((c0 - 224) * 4096 + (c1 - 128) * 64 + (c2 - 128), r2)
            else Some (rune_error, r0)
        | _ => Some (rune_error, r0)
        end
      else if (240 <=? c0) && (c0 <=? 244) then
        let lo := if c0 =? 240 then 144 else 128 in
        let hi := if c0 =? 244 then 143 else 191 in
        match r0 with
        | c1 :: c2 :: c3 :: r3 =>
            if (lo <=? c1) && (c1 <=? hi) && is_cont c2 && is_cont c3
            then Some ((c0 - 240) * 262144 + (c1 - 128) * 4096 + (c2 - 128) * 64 + (c3 - 128), r3)
            else Some (rune_error, r0)
        | _ => Some (rune_error, r0)
        end
      else Some (rune_error, r0)
  end.

(** all runes of [s], each with the bytes it was decoded from *)
Fixpoint runes_fuel (fuel : nat) (s : bytes) : list (N * bytes) :=
  match fuel with
  | O => []
  | S f =>
      match decode_rune s with
      | None => []
      | Some (r, rest) =>
          (r, firstn (length s - length rest) s) :: runes_fuel f rest
      end
  end.
Definition runes (s : bytes) : list (N * bytes) := runes_fuel (length s) s.

Definition rune_count (s : bytes) : nat := length (runes s).

(** [unicode.IsSpace] *)
Definition is_space_rune (r : N) : bool :=
  ((9 <=? r) && (r <=? 13)) || (r =? 32) || (r =? 133) || (r =? 160) || (r =? 5760)
  || ((8192 <=? r) && (r <=? 8202)) || (r =? 8232) || (r =? 8233) || (r =? 8239)
  || (r =? 8287) || (r =? 12288).

Fixpoint drop_space_runes (l : list (N * bytes)) : list (N * bytes) :=
  match l with
  | (r, bs) :: t => if is_space_rune r then drop_space_runes t else l
  | [] => []
  end.

(** [strings.TrimSpace] *)
Definition trim_space (s : bytes) : bytes :=
  let l := drop_space_runes (runes s) in
  let l' := rev (drop_space_runes (rev l)) in
  concat (map snd l').

Definition encode_rune (r : N) : bytes :=
  if r <? 128 then [r]
  else if r <? 2048 then [192 + r / 64; 128 + r mod 64]
  else if (55296 <=? r) && (r <=? 57343) then [239; 191; 189]
  else if r <? 65536 then [224 + r / 4096; 128 + (r / 64) mod 64; 128 + r mod 64]
  else if r <? 1114112 then [240 + r / 262144; 128 + (r / 4096) mod 64; 128 + (r / 64) mod 64; 128 + r mod 64]
  else [239; 191; 189].

(** [string([]rune(s))]: invalid bytes become U+FFFD *)
Definition rune_values (s : bytes) : list N := map fst (runes s).
Definition encode_runes (l : list N) : bytes := concat (map encode_rune l).
