(** Byte strings as lists of [N] (each element < 256 by convention; no
    function depends on the bound) and the [strings.*] operations of Go that
    the parser and the reporters use.  Model only: no proofs here. *)
From Coq Require Export Ascii String.
From Coq Require Export List NArith ZArith Bool.
Export ListNotations.
Open Scope N_scope.
Open Scope list_scope.
(* [String] shadows these two; the model only ever means the list versions *)
Notation length := Datatypes.length (only parsing).
Notation concat := List.concat (only parsing).

Definition byte := N.
Definition bytes := list N.

(** literals: [b "text"] *)
Fixpoint bytes_of_string (s : string) : bytes :=
  match s with
  | EmptyString => []
  | String a r => N_of_ascii a :: bytes_of_string r
  end.
Notation b := bytes_of_string.

Definition c_tab : N := 9.
Definition c_lf : N := 10.
Definition c_cr : N := 13.
Definition c_space : N := 32.
Definition c_quote : N := 34.
Definition c_hash : N := 35.
Definition c_dash : N := 45.
Definition c_slash : N := 47.
Definition c_colon : N := 58.

Fixpoint beq (x y : bytes) : bool :=
  match x, y with
  | [], [] => true
  | a :: x', c :: y' => N.eqb a c && beq x' y'
  | _, _ => false
  end.

(** Go's [<] on strings: bytewise lexicographic *)
Fixpoint bltb (x y : bytes) : bool :=
  match x, y with
  | [], [] => false
  | [], _ :: _ => true
  | _ :: _, [] => false
  | a :: x', c :: y' => if N.ltb a c then true else if N.ltb c a then false else bltb x' y'
  end.

Definition bleb (x y : bytes) : bool := negb (bltb y x).

Definition memb (c : N) (set : bytes) : bool := existsb (N.eqb c) set.

Fixpoint trim_left (set s : bytes) : bytes :=
  match s with
  | c :: r => if memb c set then trim_left set r else s
  | [] => []
  end.

Definition trim_right (set s : bytes) : bytes := rev (trim_left set (rev s)).

(** [strings.Trim s cutset] for an ASCII cutset (bytewise in Go as well) *)
Definition trim (set s : bytes) : bytes := trim_right set (trim_left set s).

(** index of the first occurrence of byte [c] *)
Fixpoint index_byte (c : N) (s : bytes) : option nat :=
  match s with
  | [] => None
  | x :: r => if N.eqb x c then Some O else option_map S (index_byte c r)
  end.

(** [strings.LastIndexAny s set] for an ASCII set *)
Fixpoint last_index_any (set s : bytes) : option nat :=
  match s with
  | [] => None
  | x :: r =>
      match last_index_any set r with
      | Some i => Some (S i)
      | None => if memb x set then Some O else None
      end
  end.

(** [strings.Split s sep] for a one-byte separator: never returns [[]] *)
Fixpoint split_on (c : N) (s : bytes) : list bytes :=
  match s with
  | [] => [[]]
  | x :: r =>
      if N.eqb x c then [] :: split_on c r
      else match split_on c r with
           | h :: t => (x :: h) :: t
           | [] => [[x]]
           end
  end.

Fixpoint join (sep : bytes) (l : list bytes) : bytes :=
  match l with
  | [] => []
  | [x] => x
  | x :: r => x ++ sep ++ join sep r
  end.

Fixpoint brepeat (s : bytes) (n : nat) : bytes :=
  match n with O => [] | S k => s ++ brepeat s k end.

(** does [p] occur in [s] as a contiguous substring *)
Fixpoint is_prefix (p s : bytes) : bool :=
  match p, s with
  | [], _ => true
  | a :: p', c :: s' => N.eqb a c && is_prefix p' s'
  | _ :: _, [] => false
  end.

Fixpoint contains (p s : bytes) : bool :=
  is_prefix p s || match s with [] => false | _ :: r => contains p r end.

Fixpoint lengthN {A} (l : list A) : N :=
  match l with [] => 0 | _ :: r => N.succ (lengthN r) end.

(** decimal rendering of a natural number *)
Fixpoint dec_digits_fuel (fuel : nat) (n : N) (acc : bytes) : bytes :=
  match fuel with
  | O => acc
  | S f =>
      let d := (48 + n mod 10) in
      let q := n / 10 in
      if N.eqb q 0 then d :: acc else dec_digits_fuel f q (d :: acc)
  end.
Definition dec_of_N (n : N) : bytes := dec_digits_fuel (S (N.to_nat (N.size n))) n [].
Definition dec_of_Z (z : Z) : bytes :=
  match z with
  | Z0 => b "0"
  | Zpos p => dec_of_N (Npos p)
  | Zneg p => c_dash :: dec_of_N (Npos p)
  end.

Definition is_digit (c : N) : bool := (48 <=? c) && (c <=? 57).
Definition lower (c : N) : N := if (65 <=? c) && (c <=? 90) then c + 32 else c.

(** insertion sort on an arbitrary boolean "less or equal" – stable *)
Section Sort.
  Context {A : Type} (leb : A -> A -> bool).
  Fixpoint insert_sorted (x : A) (l : list A) : list A :=
    match l with
    | [] => [x]
    | y :: r => if leb x y then x :: l else y :: insert_sorted x r
    end.
  Fixpoint isort (l : list A) : list A :=
    match l with
    | [] => []
    | x :: r => insert_sorted x (isort r)
    end.
End Sort.

Definition sort_bytes (l : list bytes) : list bytes := isort bleb l.
