(** The arithmetic the model is parametric in.  The Go code computes in
    float64; the model is written once over a [Num] and used at the binary64
    instance (GoFloat.v, bit-exact, what the correspondence check runs) and at
    lawful instances ([ZNum] below) for the algebraic theorems. *)
From HP Require Import Base.Bytes.

Record Num := {
  T : Type;
  zero : T;
  one : T;
  neg_one : T;
  add : T -> T -> T;
  mul : T -> T -> T;
  ltb : T -> T -> bool;                 (* Go's [<] *)
  is_nan : T -> bool;                   (* values on which [<] is not a weak order *)
  of_lexeme : bytes -> option T;        (* strconv.ParseFloat(s, 64), [None] = error *)
  fmt_fixed : nat -> T -> bytes         (* fmt's %.Nf *)
}.

(** Laws used by the algebraic theorems (commutative semiring, Leibniz equality). *)
Record CSemiring (NM : Num) : Prop := {
  add_comm : forall x y : T NM, add NM x y = add NM y x;
  add_assoc : forall x y z : T NM, add NM x (add NM y z) = add NM (add NM x y) z;
  add_0_l : forall x : T NM, add NM (zero NM) x = x;
  mul_comm : forall x y : T NM, mul NM x y = mul NM y x;
  mul_assoc : forall x y z : T NM, mul NM x (mul NM y z) = mul NM (mul NM x y) z;
  mul_1_l : forall x : T NM, mul NM (one NM) x = x;
  mul_0_l : forall x : T NM, mul NM (zero NM) x = zero NM;
  mul_add_distr_l : forall x y z : T NM, mul NM x (add NM y z) = add NM (mul NM x y) (mul NM x z)
}.

(** additive part only *)
Record AddMonoid (NM : Num) : Prop := {
  am_comm : forall x y : T NM, add NM x y = add NM y x;
  am_assoc : forall x y z : T NM, add NM x (add NM y z) = add NM (add NM x y) z;
  am_0_l : forall x : T NM, add NM (zero NM) x = x
}.

(** Exact integers: a lawful instance (lexemes are optional-sign digit strings,
    formatting is the decimal numeral – enough to run examples). *)
Fixpoint digits_val (s : bytes) (acc : N) : option N :=
  match s with
  | [] => Some acc
  | c :: r => if is_digit c then digits_val r (acc * 10 + (c - 48))%N else None
  end.

Definition Z_of_lexeme (s : bytes) : option Z :=
  match s with
  | [] => None
  | c :: r =>
      if N.eqb c 45 then match r with [] => None | _ => option_map (fun n => Z.opp (Z.of_N n)) (digits_val r 0%N) end
      else if N.eqb c 43 then match r with [] => None | _ => option_map Z.of_N (digits_val r 0%N) end
      else option_map Z.of_N (digits_val s 0%N)
  end.

Definition ZNum : Num := {|
  T := Z; zero := 0%Z; one := 1%Z; neg_one := (-1)%Z;
  add := Z.add; mul := Z.mul; ltb := Z.ltb; is_nan := fun _ => false;
  of_lexeme := Z_of_lexeme;
  fmt_fixed := fun _ z => dec_of_Z z
|}.
