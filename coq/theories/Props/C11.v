(** Property C11.
    "For every recipe book and depth limit N >= 1, resolution terminates; it
     fails with the maximum-depth error exactly when some chain of ingredient
     references starting at a recipe is N or more references long - in
     particular whenever recipes are cyclic - and succeeds otherwise.  The
     outcome is the same on every run and does not depend on the order in which
     recipes are declared or visited."

    Termination: [resolve], [resolve_all], [resolve_node] and [ingredients_loop]
    (Model/Resolver.v) are Gallina [Fixpoint]s, structurally recursive on the fuel
    [maxDepth - level], on the visiting order and on the ingredient list; they are
    total functions by construction, so "terminates" and "the same on every run"
    need no theorem.  The randomness of Go's map iteration is the explicit
    argument [perm]; the theorems below quantify over it.

    All statements hold for every [Num] instance (no arithmetic law is used),
    every book, every limit N (N = 0 included). *)
From Coq Require Import Permutation.
From HP Require Import Base.Bytes Base.Num Model.Elements Model.Resolver Spec.ResolverSpec.
From HP Require Import Proofs.ResolverAssoc Proofs.ResolverRef Proofs.ResolverRefine.

(** "fails with the maximum-depth error exactly when some chain of ingredient
    references starting at a recipe is N or more references long ... and
    succeeds otherwise" ([None] is the maximum-depth error, the only error). *)
Theorem resolve_fails_iff_chain :
  forall (NM : Num) (B : db NM) (N : nat) (perm : list bytes -> list bytes),
    NoDup (keys B) -> Permutation (perm (keys B)) (keys B) ->
    (resolve NM N perm B = None <-> exists r, In r (keys B) /\ reach NM B N r).
Proof. exact HP.Proofs.ResolverRefine.resolve_fails_iff_chain. Qed.
Print Assumptions resolve_fails_iff_chain.

(** the same without any hypothesis on the book or on the order: the names
    that count are the ones the loop visits *)
Theorem resolve_fails_iff_chain_order :
  forall (NM : Num) (B : db NM) (N : nat) (perm : list bytes -> list bytes),
    resolve NM N perm B = None <-> exists r, In r (perm (keys B)) /\ reach NM B N r.
Proof. exact HP.Proofs.ResolverRefine.resolve_fails_iff_chain_order. Qed.
Print Assumptions resolve_fails_iff_chain_order.

(** "in particular whenever recipes are cyclic": a recipe on a cycle starts
    chains of every length, hence resolution fails for every limit *)
Theorem cyclic_fails :
  forall (NM : Num) (B : db NM) (r : bytes),
    on_cycle NM B r -> In r (keys B) -> forall n, reach NM B n r.
Proof. exact HP.Proofs.ResolverRefine.cyclic_fails. Qed.
Print Assumptions cyclic_fails.

Theorem cyclic_resolve_fails :
  forall (NM : Num) (B : db NM) (r : bytes) (N : nat) (perm : list bytes -> list bytes),
    on_cycle NM B r -> Permutation (perm (keys B)) (keys B) -> resolve NM N perm B = None.
Proof. exact HP.Proofs.ResolverRefine.cyclic_resolve_fails. Qed.
Print Assumptions cyclic_resolve_fails.

(** "does not depend on the order in which recipes are declared or visited":
    outcome (error or not) and resolved book are the same for any two orders *)
Theorem resolve_order_indep :
  forall (NM : Num) (B : db NM) (N : nat) (perm1 perm2 : list bytes -> list bytes),
    NoDup (keys B) ->
    Permutation (perm1 (keys B)) (keys B) -> Permutation (perm2 (keys B)) (keys B) ->
    resolve NM N perm1 B = resolve NM N perm2 B.
Proof. exact HP.Proofs.ResolverRefine.resolve_order_indep. Qed.
Print Assumptions resolve_order_indep.

(** the same for arbitrary books: uniqueness of the keys is not needed *)
Theorem resolve_order_indep_gen :
  forall (NM : Num) (B : db NM) (N : nat) (perm1 perm2 : list bytes -> list bytes),
    Permutation (perm1 (keys B)) (keys B) -> Permutation (perm2 (keys B)) (keys B) ->
    resolve NM N perm1 B = resolve NM N perm2 B.
Proof. exact HP.Proofs.ResolverRefine.resolve_order_indep_gen. Qed.
Print Assumptions resolve_order_indep_gen.

(** converse of "whenever recipes are cyclic" (pigeonhole): above the number of
    recipes the limit is hit ONLY because of a cycle; acyclic books resolve *)
Theorem resolve_fails_iff_cyclic :
  forall (NM : Num) (B : db NM) (N : nat) (perm : list bytes -> list bytes),
    Permutation (perm (keys B)) (keys B) -> (length (keys B) < N)%nat ->
    (resolve NM N perm B = None <-> exists c, on_cycle NM B c).
Proof. exact HP.Proofs.ResolverRefine.resolve_fails_iff_cyclic. Qed.
Print Assumptions resolve_fails_iff_cyclic.

(** the outcome written without the order: a decidable test on the unmodified
    book, and the reference book *)
Theorem resolve_outcome :
  forall (NM : Num) (B : db NM) (N : nat) (perm : list bytes -> list bytes),
    NoDup (keys B) -> Permutation (perm (keys B)) (keys B) ->
    resolve NM N perm B = if depth_ltb NM B N then Some (ref_db NM B N) else None.
Proof. exact HP.Proofs.ResolverRefine.resolve_outcome. Qed.
Print Assumptions resolve_outcome.

(** the reference evaluator and the boolean test mean what they say *)
Theorem ref_node_fails_iff_reach :
  forall (NM : Num) (B : db NM) (f : nat) (r : bytes),
    ref_node NM B f r = None <-> reach NM B f r.
Proof. exact HP.Proofs.ResolverRef.ref_node_fails_iff_reach. Qed.
Print Assumptions ref_node_fails_iff_reach.

Theorem reachb_spec :
  forall (NM : Num) (B : db NM) (n : nat) (r : bytes),
    reachb NM B n r = true <-> reach NM B n r.
Proof. exact HP.Proofs.ResolverRef.reachb_spec. Qed.
Print Assumptions reachb_spec.

Theorem depth_ltb_spec :
  forall (NM : Num) (B : db NM) (N : nat), depth_ltb NM B N = true <-> depth_lt NM B N.
Proof. exact HP.Proofs.ResolverRef.depth_ltb_spec. Qed.
Print Assumptions depth_ltb_spec.

(** books are built with [db_push] = [set], which keeps the keys unique: the
    hypothesis [NoDup (keys B)] holds of every book the program builds *)
Theorem keys_set_nodup :
  forall (V : Type) (l : list (bytes * V)) (k : bytes) (v : V),
    NoDup (keys l) -> NoDup (keys (set k v l)).
Proof. exact (@HP.Proofs.ResolverAssoc.keys_set_nodup). Qed.
Print Assumptions keys_set_nodup.
