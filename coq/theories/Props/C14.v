(** Property C14: "For every readable log and every date format, print writes a
    log that the tool itself reads back under the same options to the same
    days, foods (duplicates of a day merged), quantities (rounded to two
    decimals) and notes of the documented [# name: value] / [# text] forms.
    Printing the printed log reproduces it byte for byte."

    Vocabulary (Spec/PrintSpec.v): [print_output NM c L] are the bytes print
    writes for the days [L]; [read_log NM toks data] are the days the walk
    builds from a log file (None when the scanner, the parser or a date
    fails); [day_ok] is the normal form of a day; [reread_day] rounds the
    quantities through their two-decimal rendering; [FmtStable NM] is the
    number law (proved for exact integers below, validated by the
    correspondence check for binary64). *)
From HP Require Import Base.Bytes Base.Utf8 Base.Num Model.Scanner Model.Parser Model.Elements Model.Dates
     Model.Writer Model.Reporters Spec.PrintSpec
     Proofs.PrintDates Proofs.PrintNormal Proofs.PrintMain Proofs.PrintZNum Proofs.PrintExamples Proofs.PrintRun Proofs.PrintLong.
From HP Require Import Model.Cli.

(** "foods": every entry name the parser delivers, for ANY input, is in the normal form print relies on *)
Theorem parsed_names_normal :
  forall (NM : Num) (data : bytes) (n : pnode NM) (name : bytes) (v : T NM),
    In (ENode n) (events NM data) -> In (name, v) (elems n) -> normal_name name = true.
Proof. exact PrintNormal.parsed_names_normal. Qed.
Print Assumptions parsed_names_normal.

(** "every date format ... same days": parsing the formatted date gives the date back.  [sep_ok]: an
    element of variable width ([2], [_2], [1]) is not directly followed by a digit (Go reads two digits
    when it can: under the layout [22006] the text [52021] is not the 5th of 2021, see
    [variable_width_needs_separator_refuted] in Props/C14_layouts.v); layouts made of [2006], [01],
    [02], [Jan], [January] and literals satisfy it trivially *)
Theorem format_parse_date :
  forall (toks : list ltoken) (y m d : Z),
    sep_ok toks = true -> full_layout toks -> valid_civil (y, m, d) ->
    parse_date toks (format_date toks (y, m, d)) = Some (y, m, d).
Proof. exact PrintDates.format_parse_date. Qed.
Print Assumptions format_parse_date.

(** the same for layouts that leave fields out (the date then carries Go's defaults), and what
    [parse_date] returns always is such a date *)
Theorem format_parse_date_fits :
  forall (toks : list ltoken) (cv : Z * Z * Z),
    sep_ok toks = true -> civil_fits toks cv -> parse_date toks (format_date toks cv) = Some cv.
Proof. exact PrintDates.format_parse_date_fits. Qed.
Print Assumptions format_parse_date_fits.

Theorem parse_date_fits :
  forall (toks : list ltoken) (s : bytes) (cv : Z * Z * Z), parse_date toks s = Some cv -> civil_fits toks cv.
Proof. exact PrintDates.parse_date_fits. Qed.
Print Assumptions parse_date_fits.

(** a space in the layout is Go's [time.skip]: it matches any run of spaces of the value, the space
    literals that follow it are consumed with it, at the end of the value it matches the empty run, and
    it does not match anything else (layout ["02/01//2006 "] reads ["06/10//2021"]) *)
Theorem parse_date_space_runs :
  (forall (r : list ltoken) (s : bytes) (y m d : Z),
     parse_tokens (Lit 32 :: r) (32%N :: s) y m d = parse_tokens (drop_space_lits r) (drop_spaces s) y m d)
  /\ (forall (r : list ltoken) (y m d : Z),
       parse_tokens (Lit 32 :: r) [] y m d = parse_tokens (drop_space_lits r) [] y m d)
  /\ (forall (r : list ltoken) (c : N) (s : bytes) (y m d : Z),
       c <> 32%N -> parse_tokens (Lit 32 :: r) (c :: s) y m d = None)
  /\ parse_date [D2; Lit 32; M2] (b "05   07") = Some (0, 7, 5)%Z
  /\ parse_date [D2; Lit 47; M2; Lit 47; Lit 47; Y4; Lit 32] (b "06/10//2021") = Some (2021, 10, 6)%Z.
Proof. exact PrintDates.parse_date_space_runs. Qed.
Print Assumptions parse_date_space_runs.

(** "print writes a log that the tool itself reads back ... to the same days, foods, quantities
    (rounded to two decimals) and notes": one record per day, in order; the walk gives the same days
    with each quantity replaced by what its two-decimal rendering reads back to *)
Theorem print_reads_back :
  forall (NM : Num), FmtStable NM ->
  forall (c : rconfig) (L : list (lognode NM)),
    heading_layout (rc_date c) = true -> Forall (day_ok NM c) L ->
    events NM (print_output NM c L) = map (fun d => ENode (reread_node NM c d)) L
    /\ read_log NM (rc_date c) (print_output NM c L) = Some (map (reread_day NM) L)
    /\ Forall (fun d => Forall (fun nv => of_lexeme NM (fmt_fixed NM 2 (snd nv)) = Some (reread NM (snd nv))
                                          /\ fmt_fixed NM 2 (reread NM (snd nv)) = fmt_fixed NM 2 (snd nv))
                               (ln_elems NM d)) L.
Proof. exact PrintMain.print_reads_back. Qed.
Print Assumptions print_reads_back.

(** "Printing the printed log reproduces it byte for byte" *)
Theorem print_idempotent :
  forall (NM : Num), FmtStable NM ->
  forall (c : rconfig) (L L' : list (lognode NM)),
    heading_layout (rc_date c) = true -> Forall (day_ok NM c) L ->
    read_log NM (rc_date c) (print_output NM c L) = Some L' ->
    print_output NM c L' = print_output NM c L.
Proof. exact PrintMain.print_idempotent. Qed.
Print Assumptions print_idempotent.

(** "For every readable log": the days of ANY log the tool reads have the normal shape (dates the
    layout can express, normal pairwise distinct names), and the layout of a non-empty readable log,
    when it reads back what it writes ([stable_layout]: variable-width elements separated, no [_2] at
    the front), is a heading layout up to the spaces at its end ([layout_core]: a space of the layout
    matches the empty run at the end of a heading, so the layout ["2006/01/02 "] reads the heading
    [2021/01/01]) *)
Theorem read_log_shape :
  forall (NM : Num) (toks : list ltoken) (data : bytes) (L : list (lognode NM)),
    read_log NM toks data = Some L ->
    Forall (day_shape NM toks) L
    /\ (L <> [] -> forallb safe_tok toks = true -> stable_layout toks = true ->
        heading_layout (layout_core toks) = true).
Proof. exact PrintMain.read_log_shape. Qed.
Print Assumptions read_log_shape.

(** hence C14 for every readable log; the hypotheses left are the documented note forms, that no
    printed line reaches the scanner's 65536-byte limit, and [stable_layout]: the layout reads back
    what it writes (false for [22006], and for a layout that begins with [_2], whose headings of the
    days 1..9 begin with a blank and are taken for entries: finding KF4,
    [underday_leading_blank_refuted] in Props/C14_layouts.v) *)
Theorem print_reads_back_log :
  forall (NM : Num), FmtStable NM ->
  forall (c : rconfig) (data : bytes) (L : list (lognode NM)),
    forallb safe_tok (rc_date c) = true -> stable_layout (rc_date c) = true ->
    read_log NM (rc_date c) data = Some L ->
    Forall (fun d => Forall (fun mp => documented_note mp = true) (notes_of NM d)) L ->
    Forall (fun d => Forall (fun l => (lengthN l < max_token)%N) (day_lines NM c d)) L ->
    read_log NM (rc_date c) (print_output NM c L) = Some (map (reread_day NM) L)
    /\ print_output NM c (map (reread_day NM) L) = print_output NM c L.
Proof. exact PrintMain.print_reads_back_log. Qed.
Print Assumptions print_reads_back_log.

(** the vocabulary above is the command's: with standard output that never fails, [print] on a log
    file read as the days [L] writes exactly [print_output c] of the days of the period and exits Ok *)
Theorem run_print_output :
  forall (NM : Num) (w : world) (op : options) (c : rconfig) (data : bytes) (toks : list ltoken)
         (L : list (lognode NM)),
    print_setting w op data toks -> read_log NM toks data = Some L ->
    run_log NM w op (rep_print NM c)
    = {| out_stdout := print_output NM c (filter (in_period NM op) L); out_status := Ok |}.
Proof. exact PrintRun.run_print_output. Qed.
Print Assumptions run_print_output.

(** and a log file that [read_log] rejects makes the command fail: [read_log] is exactly "readable" *)
Theorem run_print_fails :
  forall (NM : Num) (w : world) (op : options) (c : rconfig) (data : bytes) (toks : list ltoken),
    print_setting w op data toks -> read_log NM toks data = None ->
    exists e, out_status (run_log NM w op (rep_print NM c)) = Failed e.
Proof. exact PrintRun.run_print_fails. Qed.
Print Assumptions run_print_fails.

(** C14 as a statement about two runs of the command, any period: feed the standard output of the
    first run back as the log file, under the same options; the second run succeeds and writes the
    same bytes *)
Theorem run_print_twice_log :
  forall (NM : Num), FmtStable NM ->
  forall (w1 w2 : world) (op : options) (c : rconfig) (data : bytes) (toks : list ltoken) (L : list (lognode NM)),
    rc_date c = toks -> stable_layout toks = true ->
    print_setting w1 op data toks -> read_log NM toks data = Some L ->
    Forall (fun d => Forall (fun mp => documented_note mp = true) (notes_of NM d)) (filter (in_period NM op) L) ->
    Forall (fun d => Forall (fun l => (lengthN l < max_token)%N) (day_lines NM c d)) (filter (in_period NM op) L) ->
    print_setting w2 op (out_stdout (run_log NM w1 op (rep_print NM c))) toks ->
    run_log NM w2 op (rep_print NM c) = run_log NM w1 op (rep_print NM c)
    /\ out_status (run_log NM w1 op (rep_print NM c)) = Ok.
Proof. exact PrintRun.run_print_twice_log. Qed.
Print Assumptions run_print_twice_log.

(** layouts accepted by [tokenize] have safe literals only *)
Theorem tokenize_safe :
  forall (layout : bytes) (toks : list ltoken), tokenize layout = Some toks -> forallb safe_tok toks = true.
Proof. exact PrintDates.tokenize_safe. Qed.
Print Assumptions tokenize_safe.

(** the number law holds for exact integers *)
Theorem FmtStable_ZNum : FmtStable ZNum.
Proof. exact PrintZNum.FmtStable_ZNum. Qed.
Print Assumptions FmtStable_ZNum.

(** FALSE without the note hypothesis: a readable log whose second print differs from the first *)
Theorem print_idempotent_refuted_note :
  exists data out1 out2 : bytes,
    print_of ZNum toks0 data = Some out1 /\ print_of ZNum toks0 out1 = Some out2 /\ out2 <> out1.
Proof. exact PrintExamples.print_idempotent_refuted_note. Qed.
Print Assumptions print_idempotent_refuted_note.

(** FALSE without the layout hypothesis: under the layout [-2006-01-02] the printed log reads back as empty *)
Theorem print_reads_back_refuted_layout :
  exists (toks : list ltoken) (L : list (lognode ZNum)),
    tokenize (b "-2006-01-02") = Some toks /\ Forall (day_ok ZNum (cfg toks)) L /\ L <> []
    /\ events ZNum (print_output ZNum (cfg toks) L) = []
    /\ read_log ZNum toks (print_output ZNum (cfg toks) L) = Some [].
Proof. exact PrintExamples.print_reads_back_refuted_layout. Qed.
Print Assumptions print_reads_back_refuted_layout.

(** FALSE without the line-length hypothesis: a readable log without notes (the same 65528-byte food
    twice in a day) whose printed form (the two lines merged, one byte longer) the tool cannot read *)
Theorem print_reads_back_refuted_long_line :
  exists (data : bytes) (L : list (lognode ZNum)),
    read_log ZNum toks0 data = Some L
    /\ Forall (fun d => Forall (fun mp => documented_note mp = true) (notes_of ZNum d)) L
    /\ read_log ZNum toks0 (print_output ZNum (cfg toks0) L) = None.
Proof. exact PrintLong.print_reads_back_refuted_long_line. Qed.
Print Assumptions print_reads_back_refuted_long_line.
