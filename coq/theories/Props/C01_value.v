(** Property C01 – what the reference value of the resolver is.

    "For every acyclic recipe book nested less deeply than the depth limit, each
    recipe resolves to exactly one amount per basic (undefined) element reachable
    from it, equal to the sum over all ingredient paths of the product of the
    quantities along the path, with no recipe name left unexpanded and regardless
    of the order in which recipes are declared or used.  Names the book does not
    define stand for themselves, each resolved list is sorted by element name
    without duplicates, and resolving an already resolved book changes nothing."

    [ref_node NM B f r = Some (h, Some v)]: with [f] levels left below the depth
    limit, recipe [r] of book [B] resolves to the list [v] ([h] = longest chain of
    references below [r]).  WP01 proves that the in-place algorithm computes
    exactly [ref_db]; here: what [ref_node]/[ref_db] are.
    None of the theorems needs [NoDup (keys B)]. *)
From Coq Require Import Sorted Permutation.
From HP Require Import Base.Bytes Base.Num Model.Elements Model.Resolver Spec.ResolverSpec.
From HP Require Import Proofs.ResolverValueBytes Proofs.ResolverValueStruct Proofs.ResolverValueSum
  Proofs.ResolverValueIdem Proofs.ResolverValueOrder Proofs.ResolverValuePaths.

(** "each resolved list is sorted by element name without duplicates" / "exactly
    one amount per basic element".  Every [Num], no law. *)
Theorem ref_value_sorted :
  forall (NM : Num) (B : db NM) (f : nat) (r : bytes) (h : nat) (v : elements NM),
    ref_node NM B f r = Some (h, Some v) ->
    StronglySorted (fun x y => bltb (fst x) (fst y) = true) v /\ NoDup (map fst v).
Proof. exact ref_value_sorted_lemma. Qed.
Print Assumptions ref_value_sorted.

(** "with no recipe name left unexpanded".  Every [Num], no law. *)
Theorem ref_value_leaves_undefined :
  forall (NM : Num) (B : db NM) (f : nat) (r : bytes) (h : nat) (v : elements NM) (x : bytes) (a : T NM),
    ref_node NM B f r = Some (h, Some v) -> In (x, a) v -> lookup x B = None.
Proof. exact ref_value_leaves_undefined_lemma. Qed.
Print Assumptions ref_value_leaves_undefined.

(** "per basic (undefined) element reachable from it": the names of the value are
    exactly the ends of the ingredient paths.  Every [Num], no law. *)
Theorem ref_value_names_are_path_ends :
  forall (NM : Num) (B : db NM) (f : nat) (r : bytes) (h : nat) (v : elements NM) (x : bytes),
    ref_node NM B f r = Some (h, Some v) ->
    (In x (map fst v) <-> occurs NM x (paths NM B f r) = true).
Proof. exact ref_value_names_are_path_ends_lemma. Qed.
Print Assumptions ref_value_names_are_path_ends.

(** "equal to the sum over all ingredient paths of the product of the quantities
    along the path".  Commutative semiring. *)
Theorem ref_value_sum_of_paths :
  forall (NM : Num), CSemiring NM ->
  forall (B : db NM) (f : nat) (r : bytes) (h : nat) (v : elements NM) (x : bytes) (a : T NM),
    ref_node NM B f r = Some (h, Some v) -> lookup x v = Some a -> a = sum_of NM x (paths NM B f r).
Proof. exact ref_value_sum_of_paths_lemma. Qed.
Print Assumptions ref_value_sum_of_paths.

(** "Names the book does not define stand for themselves".  Every [Num]. *)
Theorem undefined_is_itself :
  forall (NM : Num) (B : db NM) (f : nat) (x : bytes),
    lookup x B = None ->
    paths NM B (S f) x = [(x, one NM)] /\ ref_node NM B (S f) x = Some (O, None).
Proof. exact undefined_is_itself_lemma. Qed.
Print Assumptions undefined_is_itself.

(** "resolving an already resolved book changes nothing".  Only law: [x * 1 = x].
    No lower bound on [N] is needed: [depth_lt NM B N] already forces every
    non-empty recipe to need [2 <= N]. *)
Theorem ref_db_idempotent :
  forall (NM : Num), (forall x : T NM, mul NM x (one NM) = x) ->
  forall (B : db NM) (N : nat),
    depth_lt NM B N ->
    keys (ref_db NM B N) = keys B /\
    (forall r v x a, In (r, v) (ref_db NM B N) -> In (x, a) v -> lookup x (ref_db NM B N) = None) /\
    ref_db NM (ref_db NM B N) N = ref_db NM B N.
Proof. exact ref_db_idempotent_lemma. Qed.
Print Assumptions ref_db_idempotent.

(** * Further theorems that complete the reading of C01 (beyond the six above) *)

(** "For every acyclic recipe book nested less deeply than the depth limit, each
    recipe resolves": under [depth_lt] (which excludes cycles: a recipe on a cycle
    starts chains of every length) every recipe of the book has a value. *)
Theorem ref_node_recipe_resolves :
  forall (NM : Num) (B : db NM) (N : nat) (r : bytes),
    depth_lt NM B N -> In r (keys B) -> exists h v, ref_node NM B N r = Some (h, Some v).
Proof. exact ref_node_recipe_defined. Qed.
Print Assumptions ref_node_recipe_resolves.

(** the only failure is the depth limit: a chain of [f] references starts at [r] *)
Theorem ref_node_fails_iff_reach :
  forall (NM : Num) (B : db NM) (f : nat) (r : bytes),
    ref_node NM B f r = None <-> reach NM B f r.
Proof. exact ref_node_None_iff_reach. Qed.
Print Assumptions ref_node_fails_iff_reach.

(** fuel independence of the value and of the path enumeration *)
Theorem ref_node_fuel_independent :
  forall (NM : Num) (B : db NM) (f : nat) (r : bytes) (h : nat) (res : option (elements NM)),
    ref_node NM B f r = Some (h, res) ->
    (h < f)%nat /\ forall g, (h < g)%nat -> ref_node NM B g r = Some (h, res).
Proof.
  exact (fun NM B f r h res H =>
           conj (ref_node_height_lt NM B f r h res H) (ref_node_fuel_indep NM B f r h res H)).
Qed.
Print Assumptions ref_node_fuel_independent.

Theorem paths_fuel_independent :
  forall (NM : Num) (B : db NM) (f : nat) (r : bytes),
    ~ reach NM B f r -> forall g, (f <= g)%nat -> paths NM B g r = paths NM B f r.
Proof. exact paths_fuel_indep. Qed.
Print Assumptions paths_fuel_independent.

(** "per basic (undefined) element reachable from it", without [paths]:
    [leads_to NM B r x] (Proofs/ResolverValuePaths.v) = a chain of ingredient
    references leads from [r] to the name [x], which the book does not define. *)
Theorem ref_value_names_reachable :
  forall (NM : Num) (B : db NM) (f : nat) (r : bytes) (h : nat) (v : elements NM) (x : bytes),
    ref_node NM B f r = Some (h, Some v) -> (In x (map fst v) <-> leads_to NM B r x).
Proof. exact ref_value_names_reachable_lemma. Qed.
Print Assumptions ref_value_names_reachable.

(** the amount of every name, present or not (absent = zero = empty sum) *)
Theorem ref_value_amount_total :
  forall (NM : Num), CSemiring NM ->
  forall (B : db NM) (f : nat) (r : bytes) (h : nat) (v : elements NM) (x : bytes),
    ref_node NM B f r = Some (h, Some v) ->
    match lookup x v with Some a => a | None => zero NM end = sum_of NM x (paths NM B f r).
Proof. exact ref_value_total_sum_of_paths. Qed.
Print Assumptions ref_value_amount_total.

(** "regardless of the order in which recipes are declared": no law. *)
Theorem ref_node_declaration_order :
  forall (NM : Num) (B1 B2 : db NM) (f : nat) (r : bytes),
    NoDup (keys B1) -> Permutation B1 B2 -> ref_node NM B1 f r = ref_node NM B2 f r.
Proof. exact ref_node_declaration_order_lemma. Qed.
Print Assumptions ref_node_declaration_order.

(** ... and of the order of the ingredients inside the recipes (commutative
    semiring; false for binary64, see Proofs/ResolverValueExamples.v). *)
Theorem ref_value_order_independent :
  forall (NM : Num), CSemiring NM ->
  forall B1 B2 : db NM,
    (forall k, match lookup k B1, lookup k B2 with
               | Some e1, Some e2 => Permutation e1 e2
               | None, None => True
               | _, _ => False
               end) ->
    forall f r, ref_node NM B1 f r = ref_node NM B2 f r.
Proof. exact ref_value_order_independent_lemma. Qed.
Print Assumptions ref_value_order_independent.

(** the resolved book is again nested less deeply than the limit (no law) *)
Theorem ref_db_resolved_depth :
  forall (NM : Num) (B : db NM) (N : nat), depth_lt NM B N -> depth_lt NM (ref_db NM B N) N.
Proof. exact ref_db_depth_lt_nolaw. Qed.
Print Assumptions ref_db_resolved_depth.

(** idempotence needs [x * 1 = x] only for amounts that are themselves a product
    or a sum ([computed], Proofs/ResolverValueIdem.v): this form can be
    instantiated at binary64, where [x * 1 = x] fails on non-canonical [x]. *)
Theorem ref_db_idempotent_computed :
  forall (NM : Num) (B : db NM) (N : nat),
    depth_lt NM B N ->
    (forall x : T NM, (exists y z, x = mul NM y z \/ x = add NM y z) -> mul NM x (one NM) = x) ->
    keys (ref_db NM B N) = keys B /\
    (forall r v x a, In (r, v) (ref_db NM B N) -> In (x, a) v -> lookup x (ref_db NM B N) = None) /\
    ref_db NM (ref_db NM B N) N = ref_db NM B N.
Proof. exact ref_db_idempotent_computed_lemma. Qed.
Print Assumptions ref_db_idempotent_computed.
