(** Property C05, closed form (assembly of two work packages).
    "Running any command again with the same files, flags, environment and
     --today date produces byte-identical output and the same success or
     failure, on every run of the program.  In particular neither the order of
     output rows nor whether an error occurs depends on hash-map iteration
     order."

    [Props/C05.v] states these theorems with the order independence of the
    resolver as an explicit premise; [Props/C11.v] ([resolve_order_indep],
    work package WP01) proves that premise for every [Num].  Here the premise
    is discharged: the only hypothesis left is "the oracles return
    permutations of the key lists they are given", which is what Go's [range]
    over a map guarantees.  Every [Num] instance, every file content, every
    read fault, every sink fault, every command and flag combination. *)
From Coq Require Import Permutation.
From HP Require Import Base.Bytes Base.Num Model.Elements Model.Resolver Model.Cli.
From HP Require Import Proofs.OrderSites Proofs.OrderRun Proofs.AssemblyOrder.

(** the premise of Props/C05.v, [resolver_order_independent NM], is a theorem *)
Theorem resolver_order_independent_holds :
  forall NM : Num,
    forall N (B : Resolver.db NM) π1 π2, NoDup (keys B) -> Permutation (π1 (keys B)) (keys B) ->
      Permutation (π2 (keys B)) (keys B) -> resolve NM N π1 B = resolve NM N π2 B.
Proof. exact HP.Proofs.AssemblyOrder.resolver_order_independent_holds. Qed.
Print Assumptions resolver_order_independent_holds.

(** "neither the order of output rows nor whether an error occurs depends on
    hash-map iteration order": the whole program, every command, no premise
    beside [oracles_ok] *)
Theorem run_order_independent_closed :
  forall NM : Num,
    forall w i o1 o2, oracles_ok o1 -> oracles_ok o2 ->
      run NM (with_or w o1) i = run NM (with_or w o2) i.
Proof. exact HP.Proofs.AssemblyOrder.run_order_independent_closed. Qed.
Print Assumptions run_order_independent_closed.

(** "on every run of the program": a run under any admissible oracles equals
    THE run under the identity oracles *)
Theorem run_is_a_function_of_its_inputs_closed :
  forall NM : Num,
    forall w i, oracles_ok (w_or w) -> run NM w i = run NM (with_or w id_oracles) i.
Proof. exact HP.Proofs.AssemblyOrder.run_is_a_function_of_its_inputs_closed. Qed.
Print Assumptions run_is_a_function_of_its_inputs_closed.

(** the first sentence of C05 as one statement: same files, same flags and
    environment (the invocation [i], the default configuration path, the time
    zone), same sink and read faults, --today given; the clock and the map
    orders of the two executions are unrelated.  Same bytes, same status. *)
Theorem run_deterministic_closed :
  forall NM : Num,
    forall w1 w2 i s,
      w_fs w1 = w_fs w2 -> w_default_config w1 = w_default_config w2 -> w_tz w1 = w_tz w2 ->
      w_sink w1 = w_sink w2 -> w_read_fault w1 = w_read_fault w2 ->
      i_f_today i = Some s ->
      oracles_ok (w_or w1) -> oracles_ok (w_or w2) ->
      run NM w1 i = run NM w2 i.
Proof. exact HP.Proofs.AssemblyOrder.run_deterministic_closed. Qed.
Print Assumptions run_deterministic_closed.
