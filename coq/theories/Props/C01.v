(** Property C01, as statements about the ALGORITHM (assembly of WP01 and WP02).

    "For every acyclic recipe book nested less deeply than the depth limit, each
    recipe resolves to exactly one amount per basic (undefined) element reachable
    from it, equal to the sum over all ingredient paths of the product of the
    quantities along the path, with no recipe name left unexpanded and regardless
    of the order in which recipes are declared or used.  Names the book does not
    define stand for themselves, each resolved list is sorted by element name
    without duplicates, and resolving an already resolved book changes nothing."

    [resolve NM N perm B] (Model/Resolver.v) is the in-place, memoising resolver
    of the program: [N] the depth limit, [perm] the order in which Go's [range]
    delivers the recipes of the map, [None] the maximum-depth error.
    Props/C01_refine.v and Props/C11.v relate it to the reference evaluator,
    Props/C01_value.v says what the reference evaluator computes; here the two
    are joined so that no theorem mentions the reference evaluator.
    [paths NM B N r], [sum_of], [occurs], [depth_lt]: Spec/ResolverSpec.v.

    The hypotheses are the ones every run satisfies: books built by the parser
    have pairwise different keys (Props/C05.v [load_db_NoDup]) and a [range]
    delivers a permutation of the keys.  [resolved_db_end_to_end] below states
    the main theorem with both discharged, for the book loaded from any file. *)
From Coq Require Import ZArith Sorted Permutation.
From HP Require Import Base.Bytes Base.Num Model.Elements Model.Resolver Model.Parser Model.Reporters Model.Cli
  Spec.ResolverSpec.
From HP Require Import Proofs.ResolverValuePaths Proofs.OrderSites
  Proofs.AssemblyResolver Proofs.AssemblyResolverCli.

(** "For every ... book nested less deeply than the depth limit, each recipe
    resolves": the algorithm succeeds exactly on those books (cycles excluded:
    a recipe on a cycle starts chains of every length, Props/C11.v) *)
Theorem resolve_succeeds_when_shallow :
  forall (NM : Num) (B : db NM) (N : nat) (perm : list bytes -> list bytes),
    NoDup (keys B) -> Permutation (perm (keys B)) (keys B) ->
    depth_lt NM B N -> exists B', resolve NM N perm B = Some B'.
Proof. exact HP.Proofs.AssemblyResolver.resolve_succeeds_when_shallow. Qed.
Print Assumptions resolve_succeeds_when_shallow.

Theorem resolve_succeeds_iff_shallow :
  forall (NM : Num) (B : db NM) (N : nat) (perm : list bytes -> list bytes),
    NoDup (keys B) -> Permutation (perm (keys B)) (keys B) ->
    ((exists B', resolve NM N perm B = Some B') <-> depth_lt NM B N).
Proof. exact HP.Proofs.AssemblyResolver.resolve_succeeds_iff_shallow. Qed.
Print Assumptions resolve_succeeds_iff_shallow.

(** the property in one statement.  The book keeps its recipes, in the declared
    order; each resolved list is sorted by name, without duplicates ("exactly
    one amount per ... element"); every name in it is undefined in the book
    ("no recipe name left unexpanded"); the names are exactly the ends of the
    ingredient paths from the recipe ("per basic element reachable from it");
    each amount is the sum over those paths of the products along them.
    [perm] occurs only in the hypotheses: "regardless of the order in which
    recipes are ... used".  Commutative semiring (the sum clause needs it:
    false for binary64, Proofs/ResolverValueExamples.v). *)
Theorem resolve_end_to_end :
  forall (NM : Num), CSemiring NM ->
  forall (B : db NM) (N : nat) (perm : list bytes -> list bytes) (B' : db NM),
    NoDup (keys B) -> Permutation (perm (keys B)) (keys B) ->
    resolve NM N perm B = Some B' ->
    keys B' = keys B /\
    forall r v, lookup r B' = Some v ->
      StronglySorted (fun x y => bltb (fst x) (fst y) = true) v /\ NoDup (map fst v) /\
      (forall x a, In (x, a) v -> lookup x B = None) /\
      (forall x, In x (map fst v) <-> occurs NM x (paths NM B N r) = true) /\
      (forall x a, lookup x v = Some a -> a = sum_of NM x (paths NM B N r)).
Proof. exact HP.Proofs.AssemblyResolver.resolve_end_to_end. Qed.
Print Assumptions resolve_end_to_end.

(** the structural clauses need no law: every [Num] (binary64 with NaN and
    infinities included) *)
Theorem resolve_end_to_end_structure :
  forall (NM : Num) (B : db NM) (N : nat) (perm : list bytes -> list bytes) (B' : db NM),
    NoDup (keys B) -> Permutation (perm (keys B)) (keys B) ->
    resolve NM N perm B = Some B' ->
    keys B' = keys B /\
    forall r v, lookup r B' = Some v ->
      StronglySorted (fun x y => bltb (fst x) (fst y) = true) v /\ NoDup (map fst v) /\
      (forall x a, In (x, a) v -> lookup x B = None) /\
      (forall x, In x (map fst v) <-> occurs NM x (paths NM B N r) = true).
Proof. exact HP.Proofs.AssemblyResolver.resolve_end_to_end_structure. Qed.
Print Assumptions resolve_end_to_end_structure.

(** the same two clauses read on the resolved book and without [paths]: no
    ingredient of the resolved book is a recipe of the resolved book, and the
    names are the undefined names some chain of references leads to
    ([leads_to], Proofs/ResolverValuePaths.v).  Every [Num]. *)
Theorem resolve_end_to_end_reachable :
  forall (NM : Num) (B : db NM) (N : nat) (perm : list bytes -> list bytes) (B' : db NM),
    NoDup (keys B) -> Permutation (perm (keys B)) (keys B) ->
    resolve NM N perm B = Some B' ->
    forall r v, lookup r B' = Some v ->
      (forall x a, In (x, a) v -> lookup x B' = None) /\
      (forall x, In x (map fst v) <-> leads_to NM B r x).
Proof. exact HP.Proofs.AssemblyResolver.resolve_end_to_end_reachable. Qed.
Print Assumptions resolve_end_to_end_reachable.

(** "each recipe resolves": none is dropped.  Every [Num]. *)
Theorem resolve_every_recipe_resolved :
  forall (NM : Num) (B : db NM) (N : nat) (perm : list bytes -> list bytes) (B' : db NM),
    NoDup (keys B) -> Permutation (perm (keys B)) (keys B) ->
    resolve NM N perm B = Some B' ->
    forall r, In r (keys B) -> exists v, lookup r B' = Some v.
Proof. exact HP.Proofs.AssemblyResolver.resolve_every_recipe_resolved. Qed.
Print Assumptions resolve_every_recipe_resolved.

(** the amount of every name, listed or not (not listed = zero = empty sum) *)
Theorem resolve_amount_total :
  forall (NM : Num), CSemiring NM ->
  forall (B : db NM) (N : nat) (perm : list bytes -> list bytes) (B' : db NM),
    NoDup (keys B) -> Permutation (perm (keys B)) (keys B) ->
    resolve NM N perm B = Some B' ->
    forall r v x, lookup r B' = Some v ->
      match lookup x v with Some a => a | None => zero NM end = sum_of NM x (paths NM B N r).
Proof. exact HP.Proofs.AssemblyResolver.resolve_amount_total. Qed.
Print Assumptions resolve_amount_total.

(** "resolving an already resolved book changes nothing": running the
    algorithm on its own output, under any visiting order, succeeds and returns
    the same book.  Only law: [x * 1 = x]. *)
Theorem resolve_idempotent :
  forall (NM : Num), (forall x : T NM, mul NM x (one NM) = x) ->
  forall (B : db NM) (N : nat) (perm perm' : list bytes -> list bytes) (B' : db NM),
    NoDup (keys B) -> Permutation (perm (keys B)) (keys B) -> Permutation (perm' (keys B)) (keys B) ->
    resolve NM N perm B = Some B' -> resolve NM N perm' B' = Some B'.
Proof. exact HP.Proofs.AssemblyResolver.resolve_idempotent. Qed.
Print Assumptions resolve_idempotent.

(** ... with the law restricted to amounts that are themselves a product or a
    sum, so that it can be instantiated at binary64 *)
Theorem resolve_idempotent_computed :
  forall (NM : Num),
  (forall x : T NM, (exists y z, x = mul NM y z \/ x = add NM y z) -> mul NM x (one NM) = x) ->
  forall (B : db NM) (N : nat) (perm perm' : list bytes -> list bytes) (B' : db NM),
    NoDup (keys B) -> Permutation (perm (keys B)) (keys B) -> Permutation (perm' (keys B)) (keys B) ->
    resolve NM N perm B = Some B' -> resolve NM N perm' B' = Some B'.
Proof. exact HP.Proofs.AssemblyResolver.resolve_idempotent_computed. Qed.
Print Assumptions resolve_idempotent_computed.

(** * at the place where the program resolves its book

    [resolved_db NM w op o] (Model/Cli.v, WithResolvedDatabase): load the book
    from the opened database file [o] (any bytes, any read fault), resolve it
    with limit [op_depth op] in the order [o_resolve (w_or w)].  The hypotheses
    on the book and on the order are discharged. *)
Theorem resolved_db_outcome :
  forall (NM : Num) (w : world) (op : options) (o : opened),
    oracles_ok (w_or w) ->
    resolved_db NM w op o =
      match load_db NM o with
      | (_, Some e) => inl e
      | (B, None) => if depth_ltb NM B (Z.to_nat (op_depth op))
                     then inr (ref_db NM B (Z.to_nat (op_depth op))) else inl EMaxDepth
      end.
Proof. exact HP.Proofs.AssemblyResolverCli.resolved_db_outcome. Qed.
Print Assumptions resolved_db_outcome.

Theorem resolved_db_end_to_end :
  forall (NM : Num), CSemiring NM ->
  forall (w : world) (op : options) (o : opened) (B' : db NM),
    oracles_ok (w_or w) ->
    resolved_db NM w op o = inr B' ->
    exists B, load_db NM o = (B, None) /\ NoDup (keys B) /\ depth_lt NM B (Z.to_nat (op_depth op)) /\
      keys B' = keys B /\
      forall r v, lookup r B' = Some v ->
        StronglySorted (fun x y => bltb (fst x) (fst y) = true) v /\ NoDup (map fst v) /\
        (forall x a, In (x, a) v -> lookup x B = None) /\
        (forall x, In x (map fst v) <-> occurs NM x (paths NM B (Z.to_nat (op_depth op)) r) = true) /\
        (forall x a, lookup x v = Some a -> a = sum_of NM x (paths NM B (Z.to_nat (op_depth op)) r)).
Proof. exact HP.Proofs.AssemblyResolverCli.resolved_db_end_to_end. Qed.
Print Assumptions resolved_db_end_to_end.
