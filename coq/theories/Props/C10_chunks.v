(** Property C10, the quantifier "the underlying read fails at ANY byte offset, or a
    line is longer than the line buffer": how the operating system delivers the
    bytes to [bufio.Scanner] (sizes of the reads, empty reads, position of the
    data in the scanner's buffer, the buffer's capacity steps) never matters.

    [Model/ScannerBuf.v] transliterates [Scanner.Scan] + [ScanLines] (Go 1.23.5)
    on a reader given as a list of read results ([RChunk bs]: bytes ready,
    [RErr]: the error, the end of the list: io.EOF; and [RLast bs failing]: the
    last bytes returned TOGETHER with the error / io.EOF in one call, which the
    io.Reader contract allows and os.File - what the program reads - never does):

      scan_chunks_full : list read_result -> list bytes * chunk_end    (chunk_end = CEnd scan_end | CNoProgress)
      scan_chunks      : list read_result -> list bytes * scan_end     (io.ErrNoProgress counted as a read error)

    Definitions used in the statements (Proofs/ScannerBuf.v, Proofs/ScannerBufChunks.v):

      delivered data f := match f with NoFault => data | FailAt k => firstn k data end
      fault_end f      := match f with NoFault => ScanEOF | FailAt _ => ScanReadErr end
      reader_tail f tl := match f with NoFault => tl = [] | FailAt _ => exists junk, tl = RErr :: junk end
      chunks_of data f cs := exists pieces tl, cs = map RChunk pieces ++ tl /\ reader_tail f tl /\
                             concat pieces = delivered data f /\ Forall (fun p => p <> []) pieces
      empty_runs_le m pieces := forall pre run post, pieces = pre ++ run ++ post ->
                                Forall (fun p => p = []) run -> length run <= m
      chunks_of_gen    : as [chunks_of] with [empty_runs_le 100 pieces] instead of "all pieces non-empty"
      stream_of k rd   : (the bytes [rd] can deliver, how the reading side ends, whether the last bytes come
                          together with that ending) when [k] empty reads were just seen;
      stream_data, stream_end, stream_glued rd := the three components of [stream_of 0 rd]
      is_rlast r := match r with RLast _ _ => true | _ => false end
      spec_result seen e := let '(ls, tl) := take_lines (raw_lines [] seen) in (ls, if tl then CEnd ScanTooLong else e)
                           (the body of [Model/Scanner.scan])
      spec_result_x glued seen e : the same with [take_lines_x glued], which differs from [take_lines] in one case:
                           when [glued], a final unterminated raw line of EXACTLY 65536 bytes is a line, not "too long"
      chunks_glued data f cs := exists pieces last junk, cs = map RChunk pieces ++ RLast last (failing_of f) :: junk /\
                           concat pieces ++ last = delivered data f /\ last <> [] /\ empty_runs_le 100 pieces
      ends_in_exact_line seen := exists pre l, seen = pre ++ l /\ (pre = [] \/ exists p, pre = p ++ [c_lf]) /\
                           ~ In c_lf l /\ lengthN l = max_token
      terminated ls := concat (map (fun l => l ++ [c_lf]) ls)
      short_line l  := ~ In c_lf l /\ lengthN l < max_token
      parse_stream_chunks NM cb cs s : [Parser.parse_stream] with [scan data fault] replaced by [scan_chunks cs] *)
From Coq Require Import List NArith.
From HP Require Import Base.Bytes Base.Num Model.Scanner Model.ScannerBuf Model.Parser.
From HP Require Import Proofs.ScannerBuf Proofs.ScannerBufChunks Proofs.ScannerBufExamples.
Import ListNotations.
Open Scope N_scope.

(** the master statement: for EVERY list of read results (no hypothesis at all)
    the buffer-level scanner returns what the whole-input abstraction, with its
    one exception, says about the bytes the reader delivers before it stops *)
Theorem scan_chunks_full_spec_x :
  forall rd : list read_result,
  scan_chunks_full rd = spec_result_x (stream_glued rd) (stream_data rd) (stream_end rd).
Proof. exact ScannerBuf.scan_chunks_full_spec_x. Qed.
Print Assumptions scan_chunks_full_spec_x.

(** a reader that never returns data together with its error (os.File; every
    list without [RLast]): the whole-input abstraction, no exception *)
Theorem scan_chunks_full_spec :
  forall rd : list read_result,
  stream_glued rd = false ->
  scan_chunks_full rd = spec_result (stream_data rd) (stream_end rd).
Proof. exact ScannerBuf.scan_chunks_full_spec. Qed.
Print Assumptions scan_chunks_full_spec.

(** in particular for every list made of [RChunk] and [RErr] only *)
Theorem scan_chunks_full_spec_plain :
  forall rd : list read_result,
  forallb (fun r => negb (is_rlast r)) rd = true ->
  scan_chunks_full rd = spec_result (stream_data rd) (stream_end rd).
Proof. exact ScannerBuf.scan_chunks_full_spec_plain. Qed.
Print Assumptions scan_chunks_full_spec_plain.

(** the fuel of [scan_chunks_full] always suffices: its out-of-fuel branch is dead *)
Theorem scan_loop_enough_fuel :
  forall rd : list read_result,
  scan_loop (fuel_of rd) 0 0 [] None rd =
  Some (spec_result_x (stream_glued rd) (stream_data rd) (stream_end rd)).
Proof. exact ScannerBuf.scan_loop_enough_fuel. Qed.
Print Assumptions scan_loop_enough_fuel.

(** lines AND ending, for every chunking, every fault offset, every input *)
Theorem scan_chunking_independent :
  forall (data : bytes) (fault : read_fault) (cs : list read_result),
  chunks_of data fault cs -> scan_chunks cs = scan data fault.
Proof. exact ScannerBufChunks.scan_chunking_independent. Qed.
Print Assumptions scan_chunking_independent.

(** the same with empty reads among the chunks, at most 100 in a row *)
Theorem scan_chunking_independent_gen :
  forall (data : bytes) (fault : read_fault) (cs : list read_result),
  chunks_of_gen data fault cs -> scan_chunks cs = scan data fault.
Proof. exact ScannerBufChunks.scan_chunking_independent_gen. Qed.
Print Assumptions scan_chunking_independent_gen.

(** ... and then [io.ErrNoProgress] does not occur *)
Theorem scan_chunks_full_independent_gen :
  forall (data : bytes) (fault : read_fault) (cs : list read_result),
  chunks_of_gen data fault cs ->
  scan_chunks_full cs = (fst (scan data fault), CEnd (snd (scan data fault))).
Proof. exact ScannerBufChunks.scan_chunks_full_independent_gen. Qed.
Print Assumptions scan_chunks_full_independent_gen.

Theorem scan_chunks_deterministic_in_chunking :
  forall (data : bytes) (fault : read_fault) (cs1 cs2 : list read_result),
  chunks_of data fault cs1 -> chunks_of data fault cs2 -> scan_chunks cs1 = scan_chunks cs2.
Proof. exact ScannerBufChunks.scan_chunks_deterministic_in_chunking. Qed.
Print Assumptions scan_chunks_deterministic_in_chunking.

(** "a line is longer than the line buffer": a raw line of 65536 bytes or more
    (only its first 65536 bytes need to arrive) gives ScanTooLong with exactly
    the lines before it, however it arrives *)
Theorem long_line_any_chunking :
  forall (ls : list bytes) (long rest data : bytes) (fault : read_fault) (cs : list read_result),
  Forall short_line ls ->
  ~ In c_lf long -> max_token <= lengthN long ->
  delivered data fault = terminated ls ++ long ++ rest ->
  chunks_of data fault cs ->
  scan_chunks cs = (map drop_cr ls, ScanTooLong).
Proof. exact ScannerBufChunks.long_line_any_chunking. Qed.
Print Assumptions long_line_any_chunking.

(** no such line: every line, the unterminated last piece included, and the
    ending of the reader *)
Theorem short_lines_any_chunking :
  forall (ls : list bytes) (last data : bytes) (fault : read_fault) (cs : list read_result),
  Forall short_line ls -> short_line last ->
  delivered data fault = terminated ls ++ last ->
  chunks_of data fault cs ->
  scan_chunks cs = (map drop_cr ls ++ match last with [] => [] | _ => [drop_cr last] end, fault_end fault).
Proof. exact ScannerBufChunks.short_lines_any_chunking. Qed.
Print Assumptions short_lines_any_chunking.

(** "the underlying read fails at any byte offset": the lines of the first [k]
    bytes as if the file ended there, and never ScanEOF *)
Theorem read_error_any_chunking :
  forall (data : bytes) (k : nat) (cs : list read_result),
  chunks_of data (FailAt k) cs ->
  scan_chunks cs =
    (fst (scan (firstn k data) NoFault),
     match snd (scan (firstn k data) NoFault) with ScanTooLong => ScanTooLong | _ => ScanReadErr end)
  /\ snd (scan_chunks cs) <> ScanEOF.
Proof. exact ScannerBufChunks.read_error_any_chunking. Qed.
Print Assumptions read_error_any_chunking.

(** more than 100 empty reads in a row after [k] bytes: io.ErrNoProgress, with
    the lines of the first [k] bytes - a read error at offset [k] *)
Theorem no_progress_any_chunking :
  forall (pieces : list bytes) (x : list read_result),
  empty_runs_le 100 pieces ->
  scan_chunks_full (map RChunk pieces ++ repeat (RChunk []) 101 ++ x) =
  spec_result (concat pieces) CNoProgress.
Proof. exact ScannerBufChunks.no_progress_any_chunking. Qed.
Print Assumptions no_progress_any_chunking.

Theorem no_progress_is_read_error :
  forall (data : bytes) (k : nat) (pieces : list bytes) (x : list read_result),
  empty_runs_le 100 pieces -> concat pieces = firstn k data ->
  scan_chunks (map RChunk pieces ++ repeat (RChunk []) 101 ++ x) = scan data (FailAt k).
Proof. exact ScannerBufChunks.no_progress_is_read_error. Qed.
Print Assumptions no_progress_is_read_error.

(** the parser on the chunk-level reader is the parser of [Model/Parser.v]: every
    theorem of Props/C10.v about [parse_stream] holds for every chunking *)
Theorem parse_stream_chunking_independent :
  forall (NM : Num) (S E : Type) (cb : S -> event NM -> S * bool * option E)
         (data : bytes) (fault : read_fault) (cs : list read_result) (s : S),
  chunks_of data fault cs -> parse_stream_chunks NM cb cs s = parse_stream NM cb data fault s.
Proof. exact ScannerBufChunks.parse_stream_chunking_independent. Qed.
Print Assumptions parse_stream_chunking_independent.

(** C10 on chunks, self-contained: the read fails at any byte offset, the bytes
    before it arriving in any chunking - [ParseStreamCallback] returns an error
    (for a callback that never stops without an error, as all commands' do) *)
Theorem read_fault_is_error_any_chunking :
  forall (NM : Num) (S E : Type) (cb : S -> event NM -> S * bool * option E),
  (forall s ev s' e, cb s ev = (s', true, e) -> e <> None) ->
  forall (data : bytes) (k : nat) (cs : list read_result) (s : S),
  chunks_of data (FailAt k) cs -> snd (parse_stream_chunks NM cb cs s) <> None.
Proof. exact ScannerBufChunks.read_fault_is_error_any_chunking. Qed.
Print Assumptions read_fault_is_error_any_chunking.

Theorem long_line_is_error_any_chunking :
  forall (NM : Num) (S E : Type) (cb : S -> event NM -> S * bool * option E),
  (forall s ev s' e, cb s ev = (s', true, e) -> e <> None) ->
  forall (ls : list bytes) (long rest data : bytes) (fault : read_fault) (cs : list read_result) (s : S),
  Forall short_line ls -> ~ In c_lf long -> max_token <= lengthN long ->
  delivered data fault = terminated ls ++ long ++ rest ->
  chunks_of data fault cs -> snd (parse_stream_chunks NM cb cs s) <> None.
Proof. exact ScannerBufChunks.long_line_is_error_any_chunking. Qed.
Print Assumptions long_line_is_error_any_chunking.

(** the boundary is exact, in every chunking: 65535 bytes are a line ... *)
Theorem line_65535_any_chunking :
  forall (l : bytes) (cs : list read_result),
  ~ In c_lf l -> ~ In c_cr l ->
  lengthN l = 65535 -> chunks_of (l ++ [c_lf]) NoFault cs -> scan_chunks cs = ([l], ScanEOF).
Proof. exact ScannerBufExamples.line_65535_any_chunking. Qed.
Print Assumptions line_65535_any_chunking.

(** ... 65536 are not (terminated or not, whatever follows) ... *)
Theorem line_65536_any_chunking :
  forall (l : bytes) (cs : list read_result),
  ~ In c_lf l -> forall rest : bytes,
  lengthN l = 65536 -> chunks_of (l ++ rest) NoFault cs -> scan_chunks cs = ([], ScanTooLong).
Proof. exact ScannerBufExamples.line_65536_any_chunking. Qed.
Print Assumptions line_65536_any_chunking.

(** ... and the CR of a CR LF counts: 65535 bytes + CR + LF is too long although
    the line without its CR would fit *)
Theorem line_65535_cr_any_chunking :
  forall (l : bytes) (cs : list read_result),
  ~ In c_lf l ->
  lengthN l = 65535 -> chunks_of (l ++ [c_cr; c_lf]) NoFault cs -> scan_chunks cs = ([], ScanTooLong).
Proof. exact ScannerBufExamples.line_65535_cr_any_chunking. Qed.
Print Assumptions line_65535_cr_any_chunking.

(** * Readers that return their last bytes together with the error / io.EOF
      (not the program's: a property of bufio.Scanner worth knowing)

    [scan_chunking_independent] does NOT extend to them: 65536 LF-free bytes whose
    last piece arrives together with io.EOF are ONE LINE and the scan ends without
    error, whereas [scan] (and Go, when io.EOF comes in a call of its own) says
    ErrTooLong *)
Theorem glued_chunking_refuted :
  exists (data : bytes) (cs : list read_result),
  chunks_glued data NoFault cs /\ scan_chunks cs <> scan data NoFault.
Proof. exact ScannerBufExamples.glued_chunking_refuted. Qed.
Print Assumptions glued_chunking_refuted.

(** the strongest true variant: that is the only exception *)
Theorem glued_chunking_independent :
  forall (data : bytes) (fault : read_fault) (cs : list read_result),
  chunks_glued data fault cs -> ~ ends_in_exact_line (delivered data fault) ->
  scan_chunks cs = scan data fault.
Proof. exact ScannerBufChunks.glued_chunking_independent. Qed.
Print Assumptions glued_chunking_independent.

(** and what happens in the exceptional case *)
Theorem glued_exact_line :
  forall (ls : list bytes) (l data : bytes) (fault : read_fault) (cs : list read_result),
  Forall short_line ls -> ~ In c_lf l -> lengthN l = max_token ->
  delivered data fault = terminated ls ++ l ->
  chunks_glued data fault cs ->
  scan_chunks cs = (map drop_cr ls ++ [drop_cr l], fault_end fault) /\
  scan data fault = (map drop_cr ls, ScanTooLong).
Proof. exact ScannerBufChunks.glued_exact_line. Qed.
Print Assumptions glued_exact_line.

(** C10 is not affected: a failing reader of this kind never ends in ScanEOF either *)
Theorem glued_read_error_not_eof :
  forall (data : bytes) (k : nat) (cs : list read_result),
  chunks_glued data (FailAt k) cs -> snd (scan_chunks cs) <> ScanEOF.
Proof. exact ScannerBufChunks.glued_read_error_not_eof. Qed.
Print Assumptions glued_read_error_not_eof.
