(** Property C06.  "For every log (days in any order, dates possibly repeated) and every
    begin/end pair, each command that accepts a period reports exactly the days d with
    begin <= d <= end: its output equals what it prints for the same file with the other days
    deleted and no period given.  The keywords today, yesterday, last7 and last30 are resolved
    against --today, a period given on the sub-command overrides the global one, `summary DATE`
    selects exactly that calendar day, and none of this depends on the process time zone." *)
From HP Require Import Base.Bytes Base.Num Model.Scanner Model.Parser Model.Dates Model.Writer Model.Reporters Model.Cli
  Spec.PeriodSpec
  Proofs.PeriodInterval Proofs.PeriodFilter Proofs.PeriodPick Proofs.PeriodSummary Proofs.PeriodCivil
  Proofs.PeriodDays Proofs.PeriodTz Proofs.PeriodRun.
Open Scope Z_scope.

(** "exactly the days d with begin <= d <= end": the filter is the closed interval of instants *)
Theorem bounds_inclusive : forall bt et t,
  in_interval bt et t = true <->
  (forall x, bt = Some x -> inst x <= inst t) /\ (forall x, et = Some x -> inst t <= inst x).
Proof. exact PeriodInterval.bounds_inclusive. Qed.
Print Assumptions bounds_inclusive.

(** ... and on dates (headings, --today and period values are valid civil dates at UTC midnight)
    the order of instants is the calendar order *)
Theorem period_dates_calendar_order : forall cb ce d, valid_civil cb -> valid_civil ce -> valid_civil d ->
  (in_interval (Some (time_of_civil cb)) (Some (time_of_civil ce)) (time_of_civil d) = true
   <-> civil_le cb d /\ civil_le d ce).
Proof. exact PeriodDays.period_dates_calendar_order. Qed.
Print Assumptions period_dates_calendar_order.

(** "its output equals what it prints for the same file with the other days deleted and no
    period given", on the events of the loop: same reporter state, day counter, writer, and
    stop/error.  No hypothesis: records whose heading is not a date are kept by [keep_ev]
    (the walk reports them before it consults the filter), parser errors too. *)
Theorem period_is_filter : forall NM (R : reporter NM) pd toks bt et evs st,
  drive_loop NM (walk_cb NM R pd toks bt et) evs st =
  drive_loop NM (walk_cb NM R pd toks None None) (filter (keep_ev NM toks bt et) evs) st.
Proof. exact PeriodFilter.period_is_filter_loop. Qed.
Print Assumptions period_is_filter.

(** the same with the literal reading "delete every record whose date is not in the period",
    which needs every heading to be a date *)
Theorem period_is_filter_strict : forall NM (R : reporter NM) pd toks bt et evs st,
  headings_parse NM toks evs ->
  drive_loop NM (walk_cb NM R pd toks bt et) evs st =
  drive_loop NM (walk_cb NM R pd toks None None) (filter (keep_ev_strict NM toks bt et) evs) st.
Proof. exact PeriodFilter.period_is_filter_strict. Qed.
Print Assumptions period_is_filter_strict.

(** the whole callback protocol, the record pending at the end of the file included *)
Theorem period_is_filter_drive : forall NM (R : reporter NM) pd toks bt et evs last fin st,
  drive NM (walk_cb NM R pd toks bt et) evs last fin st =
  drive NM (walk_cb NM R pd toks None None) (filter (keep_ev NM toks bt et) evs) (keep_last NM toks bt et last) fin st.
Proof. exact PeriodFilter.period_is_filter_drive. Qed.
Print Assumptions period_is_filter_drive.

(** hence the same report, for the two shapes of commands that accept a period *)
Theorem period_is_filter_run_db_log : forall NM w w' op mk bt et odb olog olog',
  same_but_files w w' ->
  open_all w [op_db op; op_log op] = Some [odb; olog] ->
  open_all w' [op_db op; op_log op] = Some [odb; olog'] ->
  (forall toks, tokenize (op_fmt op) = Some toks -> log_restricted NM toks bt et olog olog') ->
  run_db_log NM w op mk bt et = run_db_log NM w' op mk None None.
Proof. exact PeriodRun.period_is_filter_run_db_log. Qed.
Print Assumptions period_is_filter_run_db_log.

Theorem period_is_filter_run_log : forall NM w w' op R olog olog',
  same_but_files w w' ->
  open_all w [op_log op] = Some [olog] ->
  open_all w' [op_log op] = Some [olog'] ->
  (forall toks, tokenize (op_fmt op) = Some toks -> log_restricted NM toks (op_begin op) (op_end op) olog olog') ->
  run_log NM w op R = run_log NM w' (without_period op) R.
Proof. exact PeriodRun.period_is_filter_run_log. Qed.
Print Assumptions period_is_filter_run_log.

(** "a period given on the sub-command overrides the global one": exactly what populateFilter does *)
Theorem innermost_flag_wins : forall w now toks g l,
  pick_period w now toks g l =
  match g, l with
  | None, None => inr None
  | None, Some ls => lift_some (time_from_string w now toks ls)
  | Some gs, None => lift_some (time_from_string w now toks gs)
  | Some gs, Some ls =>
      match time_from_string w now toks gs with
      | inl e => inl e
      | inr _ => lift_some (time_from_string w now toks ls)
      end
  end.
Proof. exact PeriodPick.innermost_flag_wins. Qed.
Print Assumptions innermost_flag_wins.

Theorem pick_period_global_overridden : forall w now toks gs ls r,
  pick_period w now toks (Some gs) (Some ls) = inr r -> pick_period w now toks None (Some ls) = inr r.
Proof. exact PeriodPick.pick_period_global_overridden. Qed.
Print Assumptions pick_period_global_overridden.

Theorem pick_period_outer_error : forall w now toks gs l e,
  time_from_string w now toks gs = inl e -> pick_period w now toks (Some gs) l = inl e.
Proof. exact PeriodPick.pick_period_outer_error. Qed.
Print Assumptions pick_period_outer_error.

(** begin and end are resolved separately, against the layout and against "now"; --today sets "now" *)
Theorem load_period : forall w i op, load w i = inr op ->
  tokenize (op_fmt op) = Some (rc_date (op_rc op)) /\
  pick_period w (op_now op) (rc_date (op_rc op)) (i_g_begin i) (i_l_begin i) = inr (op_begin op) /\
  pick_period w (op_now op) (rc_date (op_rc op)) (i_g_end i) (i_l_end i) = inr (op_end op) /\
  match i_f_today i with
  | Some s => exists c, parse_date (rc_date (op_rc op)) s = Some c /\ op_now op = time_of_civil c
  | None => True
  end.
Proof. exact PeriodPick.load_period. Qed.
Print Assumptions load_period.

(** "the keywords today, yesterday, last7 and last30 are resolved against --today"
    ([today] is "now" itself, unchanged: no conversion to the process zone, fix 4fa5d57) *)
Theorem keywords_spec : forall w now toks,
  time_from_string w now toks (b "today") = inr now /\
  (exists t, time_from_string w now toks (b "yesterday") = inr t /\ inst t = inst now - 1 * ns_per_day) /\
  (exists t, time_from_string w now toks (b "last7") = inr t /\ inst t = inst now - 7 * ns_per_day) /\
  (exists t, time_from_string w now toks (b "last30") = inr t /\ inst t = inst now - 30 * ns_per_day) /\
  (forall fmt s c, tokenize fmt = Some toks -> parse_date toks s = Some c ->
                   time_from_string w now toks s = inr (time_of_civil c)) /\
  (forall s, is_keyword s = false -> parse_date toks s = None ->
             time_from_string w now toks s = inl (EUnmodelled (b "naturaldate"))).
Proof. exact PeriodPick.keywords_spec. Qed.
Print Assumptions keywords_spec.

(** "`summary DATE` selects exactly that calendar day", whatever the zone, under --today D:
    for EVERY zone offset, no bound (the keyword is the date as given, the zone does not enter) *)
Theorem summary_selects_day_any_tz : forall w tz toks D d,
  exists t, time_from_string (with_tz w tz) (time_of_civil D) toks (b "today") = inr t /\
            (day_begin t <= inst (time_of_civil d) <= day_end t <-> day_number d = day_number D).
Proof. exact PeriodSummary.summary_selects_day_any_tz. Qed.
Print Assumptions summary_selects_day_any_tz.

Theorem summary_selects_explicit_day : forall D d,
  let t := time_of_civil D in
  (day_begin t <= inst (time_of_civil d) <= day_end t <-> day_number d = day_number D).
Proof. exact PeriodSummary.summary_selects_explicit_day. Qed.
Print Assumptions summary_selects_explicit_day.

Theorem summary_selects_yesterday : forall D d,
  let t := add_days (time_of_civil D) (-1) in
  (day_begin t <= inst (time_of_civil d) <= day_end t <-> day_number d = day_number D - 1).
Proof. exact PeriodSummary.summary_selects_yesterday. Qed.
Print Assumptions summary_selects_yesterday.

(** on valid dates, "the same day number" is "the same date" *)
Theorem summary_selects_calendar_day : forall w tz toks D d, valid_civil D -> valid_civil d ->
  exists t, time_from_string (with_tz w tz) (time_of_civil D) toks (b "today") = inr t /\
            (in_interval (Some (summary_begin t)) (Some (summary_end t)) (time_of_civil d) = true <-> d = D).
Proof. exact PeriodDays.summary_selects_calendar_day. Qed.
Print Assumptions summary_selects_calendar_day.

(** the whole command: with --today s, in every process zone (any offset whatsoever) and whatever
    the wall clock says, [summary today] is the walk over the window of the day D that [s] denotes,
    and that window keeps exactly the records dated D *)
Theorem summary_today_exact_any_zone : forall NM w tz clock i s op,
  i_f_today i = Some s -> i_cmd i = CSummary (b "today") -> load (with_zone w tz clock) i = inr op ->
  exists D, parse_date (rc_date (op_rc op)) s = Some D /\ valid_civil D /\
    let bt := Some (summary_begin (time_of_civil D)) in
    let et := Some (summary_end (time_of_civil D)) in
    run NM (with_zone w tz clock) i = run_db_log NM w op (rep_summary NM (op_rc op)) bt et /\
    (forall d, valid_civil d -> (in_interval bt et (time_of_civil d) = true <-> d = D)) /\
    (forall (n : pnode NM) c, parse_date (rc_date (op_rc op)) (header n) = Some c ->
                              (sel NM (rc_date (op_rc op)) bt et n = true <-> c = D)).
Proof. exact PeriodRun.summary_today_exact_any_zone. Qed.
Print Assumptions summary_today_exact_any_zone.

(** general lemma about windows, kept: a UTC midnight re-labelled with any fixed zone offset (what
    [today] was under --today D before fix 4fa5d57) has the midnight of D and no other in its window *)
Theorem window_of_midnight_in_zone : forall D tz d,
  let t := to_local (time_of_civil D) tz in
  (day_begin t <= inst (time_of_civil d) <= day_end t <-> day_number d = day_number D).
Proof. exact PeriodSummary.window_of_midnight_in_zone. Qed.
Print Assumptions window_of_midnight_in_zone.

(** the general fact behind it, for ANY resolved argument [t] (wall clock included): the one UTC
    midnight selected is that of [t]'s local day in zones at or east of UTC and that of the
    NEXT day in zones west of UTC *)
Theorem summary_day_general : forall t k, tz_ok (off t) ->
  (day_begin t <= k * ns_per_day <= day_end t <-> k = local_day t + (if off t <? 0 then 1 else 0)).
Proof. exact PeriodSummary.summary_day_general. Qed.
Print Assumptions summary_day_general.

(** supporting: dates the program reads are valid, and valid dates are determined by their day number *)
Theorem parse_date_valid : forall toks s c, parse_date toks s = Some c -> valid_civil c.
Proof. exact PeriodCivil.parse_date_valid. Qed.
Print Assumptions parse_date_valid.

Theorem days_from_civil_injective : forall c1 c2, valid_civil c1 -> valid_civil c2 ->
  day_number c1 = day_number c2 -> c1 = c2.
Proof. exact PeriodCivil.days_from_civil_injective. Qed.
Print Assumptions days_from_civil_injective.

(** "none of this depends on the process time zone": the whole program, every command, with --today,
    for every pair of offsets whatsoever *)
Theorem tz_independent : forall NM w i s tz1 tz2,
  i_f_today i = Some s ->
  run NM (with_tz w tz1) i = run NM (with_tz w tz2) i.
Proof. exact PeriodTz.tz_independent. Qed.
Print Assumptions tz_independent.

(** ... also when the wall clock is read in the other zone (the only way the zone reaches the program
    since fix 4fa5d57: [time.Now()] is local), and at whatever instant: with --today the clock is not consulted *)
Theorem tz_independent_clock : forall NM w i s tz1 tz2 c1 c2,
  i_f_today i = Some s ->
  run NM (with_zone w tz1 c1) i = run NM (with_zone w tz2 c2) i.
Proof. exact PeriodTz.tz_independent_clock. Qed.
Print Assumptions tz_independent_clock.

(** the field [w_tz] alone is consulted by no command, with or without --today *)
Theorem run_ignores_process_zone : forall NM w i tz1 tz2,
  run NM (with_tz w tz1) i = run NM (with_tz w tz2) i.
Proof. exact PeriodTz.run_ignores_process_zone. Qed.
Print Assumptions run_ignores_process_zone.

(** without --today too, for every command except [summary today] *)
Theorem tz_independent_unless_summary_today : forall NM w i tz1 tz2,
  i_cmd i <> CSummary (b "today") ->
  run NM (with_tz w tz1) i = run NM (with_tz w tz2) i.
Proof. exact PeriodTz.tz_independent_unless_summary_today. Qed.
Print Assumptions tz_independent_unless_summary_today.

(** the parts: options equal up to the offset field of the bounds; the walk sees the bounds
    only through [in_interval] at UTC midnights *)
Theorem load_tz : forall w i tz1 tz2, load_eqv (load (with_tz w tz1) i) (load (with_tz w tz2) i).
Proof. exact PeriodTz.load_tz. Qed.
Print Assumptions load_tz.

Theorem walk_depends_on_midnights : forall NM (R : reporter NM) pd pf toks bt et bt' et',
  mid_eqv bt et bt' et' ->
  forall o wr, walk_and_finish NM R pd pf toks bt et o wr = walk_and_finish NM R pd pf toks bt' et' o wr.
Proof. exact PeriodTz.walk_depends_on_midnights. Qed.
Print Assumptions walk_depends_on_midnights.

(** without --today the clock is read, but (fix F25) only the CALENDAR DAY it shows is consulted: two clocks
    showing the same civil date -- whatever the instants, whatever the zones -- give the same run, for every
    command (before the fix the instant entered) *)
Theorem run_depends_on_clock_day_only : forall NM w i tz1 tz2 c1 c2,
  civ c1 = civ c2 ->
  run NM (with_zone w tz1 c1) i = run NM (with_zone w tz2 c2) i.
Proof. exact PeriodTz.run_depends_on_clock_day_only. Qed.
Print Assumptions run_depends_on_clock_day_only.

(** ... and that day does matter (so [i_f_today i = Some s] cannot be dropped from [tz_independent_clock]):
    the same instant read in two real zones in which it falls on two different days gives two reports.
    (Before fix F25 this was a finding: west of UTC [summary today] printed the record dated tomorrow,
    on the same calendar day; now the witness needs two different days.) *)
Theorem tz_independent_without_today_refuted :
  exists w i tz1 tz2 c1 c2, tz_ok tz1 /\ tz_ok tz2 /\ off c1 = tz1 /\ off c2 = tz2 /\ inst c1 = inst c2 /\
                            i_f_today i = None /\
                            run ZNum (with_zone w tz1 c1) i <> run ZNum (with_zone w tz2 c2) i.
Proof. exact PeriodRun.tz_independent_without_today_refuted. Qed.
Print Assumptions tz_independent_without_today_refuted.

(** FALSE without [headings_parse]: a heading that is not a date is reported whatever the period *)
Theorem period_is_filter_strict_without_hypothesis_refuted :
  exists (R : reporter ZNum) pd toks bt et evs st,
    drive_loop ZNum (walk_cb ZNum R pd toks bt et) evs st <>
    drive_loop ZNum (walk_cb ZNum R pd toks None None) (filter (keep_ev_strict ZNum toks bt et) evs) st.
Proof. exact PeriodRun.period_is_filter_strict_without_hypothesis_refuted. Qed.
Print Assumptions period_is_filter_strict_without_hypothesis_refuted.
