(** Property C14 at the binary64 instance -- "For every readable log and every
    date format, print writes a log that the tool itself reads back under the
    same options to the same days, foods (duplicates of a day merged),
    quantities (rounded to two decimals) and notes ...  Printing the printed log
    reproduces it byte for byte."

    Props/C14.v proves this for every [Num] from the number law [FmtStable NM]
    (the two-decimal rendering [%.2f] of EVERY value is a clean lexeme that
    reads back to a value with the same rendering) and instantiates it at exact
    integers only.  At the arithmetic the program uses, [B64], that law is FALSE
    as stated ([FmtStable_B64_refuted]): [T B64] is all of [spec_float],
    including triples [S754_finite s m e] that are not binary64 numbers.  Here:

    - the law holds on the values a binary64 variable can hold
      ([canonical], Proofs/FloatCanon.v): [B64_fmt2_reread], [B64_fmt2_clean],
      [FmtStableOn_B64];
    - C14 holds for every [Num] relative to an invariant [Q] of the amounts
      ([FmtStableOn NM Q], Spec/PrintOnSpec.v), the old theorems being the
      instances at [Q := fun _ => True];
    - every amount of every log the program reads is canonical
      ([read_log_canonical]), hence C14 at [B64] with NO number law:
      [B64_print_reads_back_log], [B64_print_idempotent_log],
      [B64_run_print_twice_log].

    ALL theorems of this file are closed under the global context: integer
    arithmetic on the standard library's [SpecFloat] definitions (the error
    bound of [binary_round_aux] is proved in Proofs/FloatFmtRound.v without
    Flocq and without the real numbers). *)
From Coq Require Import ZArith Floats.SpecFloat.
From HP Require Import Base.Bytes Base.Utf8 Base.Num Base.GoFloat Model.Scanner Model.Parser Model.Elements Model.Dates
     Model.Writer Model.Reporters Model.Cli Spec.PrintSpec Spec.PrintOnSpec.
From HP Require Import Proofs.FloatCanon Proofs.FloatExact Proofs.FloatFmtRound Proofs.FloatFmtText Proofs.FloatFmt
     Proofs.PrintOnMain Proofs.PrintOnRun Proofs.PrintOnB64.

(** * the number fact *)

(** FALSE over all of [spec_float]: the non-canonical triple (2^60 + 1, 0) prints
    1152921504606846977.00, which reads back as 2^60 and prints ...976.00 *)
Theorem FmtStable_B64_refuted : ~ FmtStable B64.
Proof. exact FmtStable_B64_refuted_lemma. Qed.
Print Assumptions FmtStable_B64_refuted.

(** "quantities (rounded to two decimals)" read back: for every canonical [x] -- NaN,
    both infinities, both zeros, every normal and subnormal number -- the text [%.2f]
    writes is accepted by [strconv.ParseFloat], the value read is canonical again and
    prints as the same text *)
Theorem B64_fmt2_reread :
  forall x : f64, canonical x ->
    exists y : f64, parse_float (format_fixed 2 x) = Some y /\ canonical y /\ format_fixed 2 y = format_fixed 2 x.
Proof. exact B64_fmt2_reread_lemma. Qed.
Print Assumptions B64_fmt2_reread.

(** the text is a clean quantity lexeme, for EVERY [x] (canonical or not) *)
Theorem B64_fmt2_clean :
  forall x : f64, qty_clean (format_fixed 2 x) = true.
Proof. exact B64_fmt2_clean_lemma. Qed.
Print Assumptions B64_fmt2_clean.

(** what is behind [B64_fmt2_reread]: the ERROR BOUND of the standard library's
    [binary_round_aux] in integer arithmetic.  For [0 < q] with enough bits and the
    location of the fraction [r/den]: the result is [m2 * 2^e1],
    [e1 = fexp (digits q + e)], where [m2] is the integer nearest to
    [(q + r/den) * 2^e / 2^e1], ties to even (written after multiplying through by
    [dn = 2^(e1 - e) * den]), delivered as a zero, a canonical pair or an infinity ([packs]) *)
Theorem binary_round_aux_error_bound :
  forall (s : bool) (q e r den : Z),
    (0 < q)%Z -> enough_bits q e -> (0 <= r < den)%Z ->
    let e1 := SpecFloat.fexp prec emax (Zdigits2 q + e) in
    let dn := (2 ^ (e1 - e) * den)%Z in
    exists m2 : Z,
      (2 * Z.abs (m2 * dn - (q * den + r)) <= dn)%Z /\
      ((2 * Z.abs (m2 * dn - (q * den + r)) = dn)%Z -> Z.even m2 = true) /\
      (m2 = q / 2 ^ (e1 - e) \/ m2 = q / 2 ^ (e1 - e) + 1)%Z /\
      packs s m2 e1 (binary_round_aux prec emax s q e (loc_of_frac r den)).
Proof. exact binary_round_aux_spec. Qed.
Print Assumptions binary_round_aux_error_bound.

(** the two cases of [B64_fmt2_reread] for a printed integer [D > 0]: below [100 * 2^46]
    the value read back prints as [D] again, whatever it was printed from ... *)
Theorem B64_reread_small :
  forall (s : bool) (d : positive),
    (Zpos d < 100 * 2 ^ 46)%Z ->
    exists m3 e2, round_scaled s d (-2) 0 = S754_finite s m3 e2 /\
                  bounded prec emax m3 e2 = true /\
                  format_fixed 2 (S754_finite s m3 e2) = fixed_of_scaled s 2 (Zpos d).
Proof. exact round_scaled_small. Qed.
Print Assumptions B64_reread_small.

(** ... and from [100 * 2^46] on the value read back is the value printed *)
Theorem B64_reread_large :
  forall (s : bool) (m : positive) (e : Z) (d : positive),
    bounded prec emax m e = true -> CsvFixed.printed_scaled 2 m e = Zpos d -> (100 * 2 ^ 46 <= Zpos d)%Z ->
    round_scaled s d (-2) 0 = S754_finite s m e.
Proof. exact round_scaled_large. Qed.
Print Assumptions B64_reread_large.

(** the law of Spec/PrintOnSpec.v on the canonical values *)
Theorem FmtStableOn_B64 : FmtStableOn B64 canonical.
Proof. exact FmtStableOn_B64_lemma. Qed.
Print Assumptions FmtStableOn_B64.

(** * C14 relative to an invariant of the amounts (every [Num]) *)

(** the old law is the new one at the trivial invariant *)
Theorem FmtStable_iff_On :
  forall NM : Num, FmtStable NM <-> FmtStableOn NM (fun _ : T NM => True).
Proof. exact PrintOnMain.FmtStable_iff_On. Qed.
Print Assumptions FmtStable_iff_On.

(** [print_reads_back] of Props/C14.v with [FmtStableOn NM Q] and amounts in [Q]; the days read back are in [Q] again *)
Theorem print_reads_back_on :
  forall (NM : Num) (Q : T NM -> Prop), FmtStableOn NM Q ->
  forall (c : rconfig) (L : list (lognode NM)),
    heading_layout (rc_date c) = true -> Forall (day_ok NM c) L -> days_in NM Q L ->
    events NM (print_output NM c L) = map (fun d => ENode (reread_node NM c d)) L
    /\ read_log NM (rc_date c) (print_output NM c L) = Some (map (reread_day NM) L)
    /\ Forall (fun d => Forall (fun nv => of_lexeme NM (fmt_fixed NM 2 (snd nv)) = Some (reread NM (snd nv))
                                          /\ fmt_fixed NM 2 (reread NM (snd nv)) = fmt_fixed NM 2 (snd nv))
                               (ln_elems NM d)) L
    /\ days_in NM Q (map (reread_day NM) L).
Proof. exact PrintOnMain.print_reads_back_on. Qed.
Print Assumptions print_reads_back_on.

Theorem print_idempotent_on :
  forall (NM : Num) (Q : T NM -> Prop), FmtStableOn NM Q ->
  forall (c : rconfig) (L L' : list (lognode NM)),
    heading_layout (rc_date c) = true -> Forall (day_ok NM c) L -> days_in NM Q L ->
    read_log NM (rc_date c) (print_output NM c L) = Some L' ->
    print_output NM c L' = print_output NM c L /\ days_in NM Q L'.
Proof. exact PrintOnMain.print_idempotent_on. Qed.
Print Assumptions print_idempotent_on.

Theorem print_output_reread_on :
  forall (NM : Num) (Q : T NM -> Prop), FmtStableOn NM Q ->
  forall (c : rconfig) (L : list (lognode NM)),
    days_in NM Q L -> print_output NM c (map (reread_day NM) L) = print_output NM c L.
Proof. exact PrintOnMain.print_output_reread_on. Qed.
Print Assumptions print_output_reread_on.

Theorem reread_day_ok_on :
  forall (NM : Num) (Q : T NM -> Prop), FmtStableOn NM Q ->
  forall (c : rconfig) (d : lognode NM),
    day_in NM Q d -> day_ok NM c d -> day_ok NM c (reread_day NM d).
Proof. exact PrintOnMain.reread_day_ok_on. Qed.
Print Assumptions reread_day_ok_on.

Theorem print_reads_back_log_on :
  forall (NM : Num) (Q : T NM -> Prop), FmtStableOn NM Q ->
  forall (c : rconfig) (data : bytes) (L : list (lognode NM)),
    forallb safe_tok (rc_date c) = true -> stable_layout (rc_date c) = true ->
    read_log NM (rc_date c) data = Some L ->
    days_in NM Q L ->
    Forall (fun d => Forall (fun mp => documented_note mp = true) (notes_of NM d)) L ->
    Forall (fun d => Forall (fun l => (lengthN l < max_token)%N) (day_lines NM c d)) L ->
    read_log NM (rc_date c) (print_output NM c L) = Some (map (reread_day NM) L)
    /\ print_output NM c (map (reread_day NM) L) = print_output NM c L
    /\ days_in NM Q (map (reread_day NM) L).
Proof. exact PrintOnMain.print_reads_back_log_on. Qed.
Print Assumptions print_reads_back_log_on.

Theorem run_print_twice_log_on :
  forall (NM : Num) (Q : T NM -> Prop), FmtStableOn NM Q ->
  forall (w1 w2 : world) (op : options) (c : rconfig) (data : bytes) (toks : list ltoken) (L : list (lognode NM)),
    rc_date c = toks -> stable_layout toks = true ->
    print_setting w1 op data toks -> read_log NM toks data = Some L ->
    days_in NM Q (filter (in_period NM op) L) ->
    Forall (fun d => Forall (fun mp => documented_note mp = true) (notes_of NM d)) (filter (in_period NM op) L) ->
    Forall (fun d => Forall (fun l => (lengthN l < max_token)%N) (day_lines NM c d)) (filter (in_period NM op) L) ->
    print_setting w2 op (out_stdout (run_log NM w1 op (rep_print NM c))) toks ->
    run_log NM w2 op (rep_print NM c) = run_log NM w1 op (rep_print NM c)
    /\ out_status (run_log NM w1 op (rep_print NM c)) = Ok.
Proof. exact PrintOnRun.run_print_twice_log_on. Qed.
Print Assumptions run_print_twice_log_on.

(** the invariant for the logs the tool reads: when every value [of_lexeme] returns is in [Q] and
    [add] (merging the duplicates of a day) preserves [Q], every amount of every readable log is in [Q] *)
Theorem read_log_in :
  forall (NM : Num) (Q : T NM -> Prop),
    (forall (l : bytes) (v : T NM), of_lexeme NM l = Some v -> Q v) ->
    (forall x y : T NM, Q x -> Q y -> Q (add NM x y)) ->
    forall (toks : list ltoken) (data : bytes) (L : list (lognode NM)),
      read_log NM toks data = Some L -> days_in NM Q L.
Proof. exact PrintOnB64.read_log_in. Qed.
Print Assumptions read_log_in.

(** * C14 at binary64 *)

(** every amount of every day of every log the program reads is canonical
    (entries come from [strconv.ParseFloat], duplicates of a day are merged with [SFadd]) *)
Theorem read_log_canonical :
  forall (toks : list ltoken) (data : bytes) (L : list (lognode B64)),
    read_log B64 toks data = Some L -> days_in B64 canonical L.
Proof. exact read_log_canonical_lemma. Qed.
Print Assumptions read_log_canonical.

(** days in the normal form holding canonical amounts *)
Theorem B64_print_reads_back :
  forall (c : rconfig) (L : list (lognode B64)),
    heading_layout (rc_date c) = true -> Forall (day_ok B64 c) L -> days_in B64 canonical L ->
    events B64 (print_output B64 c L) = map (fun d => ENode (reread_node B64 c d)) L
    /\ read_log B64 (rc_date c) (print_output B64 c L) = Some (map (reread_day B64) L)
    /\ Forall (fun d => Forall (fun nv => parse_float (format_fixed 2 (snd nv)) = Some (reread B64 (snd nv))
                                          /\ format_fixed 2 (reread B64 (snd nv)) = format_fixed 2 (snd nv))
                               (ln_elems B64 d)) L
    /\ days_in B64 canonical (map (reread_day B64) L).
Proof. exact B64_print_reads_back_lemma. Qed.
Print Assumptions B64_print_reads_back.

Theorem B64_print_idempotent :
  forall (c : rconfig) (L L' : list (lognode B64)),
    heading_layout (rc_date c) = true -> Forall (day_ok B64 c) L -> days_in B64 canonical L ->
    read_log B64 (rc_date c) (print_output B64 c L) = Some L' ->
    print_output B64 c L' = print_output B64 c L /\ days_in B64 canonical L'.
Proof. exact B64_print_idempotent_lemma. Qed.
Print Assumptions B64_print_idempotent.

(** "For every readable log ... print writes a log that the tool itself reads back ... to the same
    days, foods, quantities (rounded to two decimals) and notes": the hypotheses of
    [print_reads_back_log] (Props/C14.v) minus the number law.  The days read back hold canonical
    amounts again, so the statement applies to them in turn. *)
Theorem B64_print_reads_back_log :
  forall (c : rconfig) (data : bytes) (L : list (lognode B64)),
    forallb safe_tok (rc_date c) = true -> stable_layout (rc_date c) = true ->
    read_log B64 (rc_date c) data = Some L ->
    Forall (fun d => Forall (fun mp => documented_note mp = true) (notes_of B64 d)) L ->
    Forall (fun d => Forall (fun l => (lengthN l < max_token)%N) (day_lines B64 c d)) L ->
    read_log B64 (rc_date c) (print_output B64 c L) = Some (map (reread_day B64) L)
    /\ print_output B64 c (map (reread_day B64) L) = print_output B64 c L
    /\ days_in B64 canonical (map (reread_day B64) L).
Proof. exact B64_print_reads_back_log_lemma. Qed.
Print Assumptions B64_print_reads_back_log.

(** "Printing the printed log reproduces it byte for byte", every readable log *)
Theorem B64_print_idempotent_log :
  forall (c : rconfig) (data : bytes) (L L' : list (lognode B64)),
    forallb safe_tok (rc_date c) = true -> stable_layout (rc_date c) = true ->
    read_log B64 (rc_date c) data = Some L ->
    Forall (fun d => Forall (fun mp => documented_note mp = true) (notes_of B64 d)) L ->
    Forall (fun d => Forall (fun l => (lengthN l < max_token)%N) (day_lines B64 c d)) L ->
    read_log B64 (rc_date c) (print_output B64 c L) = Some L' ->
    print_output B64 c L' = print_output B64 c L.
Proof. exact B64_print_idempotent_log_lemma. Qed.
Print Assumptions B64_print_idempotent_log.

(** C14 as a statement about two runs of the command at binary64, any period: the hypotheses of
    [run_print_twice_log] (Props/C14.v) minus the number law *)
Theorem B64_run_print_twice_log :
  forall (w1 w2 : world) (op : options) (c : rconfig) (data : bytes) (toks : list ltoken) (L : list (lognode B64)),
    rc_date c = toks -> stable_layout toks = true ->
    print_setting w1 op data toks -> read_log B64 toks data = Some L ->
    Forall (fun d => Forall (fun mp => documented_note mp = true) (notes_of B64 d)) (filter (in_period B64 op) L) ->
    Forall (fun d => Forall (fun l => (lengthN l < max_token)%N) (day_lines B64 c d)) (filter (in_period B64 op) L) ->
    print_setting w2 op (out_stdout (run_log B64 w1 op (rep_print B64 c))) toks ->
    run_log B64 w2 op (rep_print B64 c) = run_log B64 w1 op (rep_print B64 c)
    /\ out_status (run_log B64 w1 op (rep_print B64 c)) = Ok.
Proof. exact B64_run_print_twice_log_lemma. Qed.
Print Assumptions B64_run_print_twice_log.
