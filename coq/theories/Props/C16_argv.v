(** Property C16, the step before it: from the ARGUMENT VECTOR and the environment to the invocation
    (Model/Argv.v: urfave/cli v2.23.7 + Go's flag package + the program's flag tables + options.Load).

    The test harness renders argument vectors from invocation records (harness/py/hv/run.py, [argv_env]);
    [render_argv] is its Coq twin and [parse_argv] the model of what the program does with a vector.
    Vocabulary (Proofs/ArgvFlags.v):
    - [flag_tok two n v]: the flag [n] written with one or two dashes, the value attached with [=] or not;
    - [paths c]: the command words that lead to the command [c] (names and aliases);
    - [framed g ws ga]: [g] are flags of the root, read completely as [ga], and the command word follows;
    - [no_alias_in tbl n l]: the OTHER names of flag [n] do not occur in [l] (urfave refuses two forms of one flag);
    - [root_frame ga ws e k]: what the root does before the command gets its turn (HR_MAXDEPTH, two forms, --help, --version). *)
From HP Require Import Base.Bytes Base.Num Model.Elements Model.Dates Model.Config Model.Reporters Model.Cli Model.Argv.
From HP Require Import Proofs.SettingsPickString Proofs.Settings.
From HP Require Import Proofs.ArgvBase Proofs.ArgvFlags Proofs.ArgvRender Proofs.ArgvTheorems Proofs.ArgvLoad Proofs.ArgvAlias.

(** the rendering is read back: every renderable invocation *)
Theorem parse_render_argv : forall i, renderable i = true ->
  parse_argv (fst (render_argv i)) (snd (render_argv i)) = ArgvOk i.
Proof. exact ArgvRender.parse_render_argv. Qed.
Print Assumptions parse_render_argv.

(** [--flag=false] (F22 at model level): before the command ... *)
Theorem explicit_false_is_absent_global : forall two n fv argv e,
  find_flag tbl_root n = Some KBool -> good_name n = true -> parse_bool fv = Some false ->
  no_alias_in tbl_root n argv ->
  parse_argv (flag_tok two n (Some fv) :: argv) e = parse_argv argv e.
Proof. exact ArgvTheorems.explicit_false_is_absent_global. Qed.
Print Assumptions explicit_false_is_absent_global.

(** ... and among the command's own flags; the one exception is the command-level [--no-color=false]
    after a global [--no-color] (the second-last hypothesis; see [explicit_false_no_color_refuted]) *)
Theorem explicit_false_is_absent_local : forall g ga c ws two n fv l e,
  In ws (paths c) -> framed g ws ga ->
  find_flag (tbl_leaf c) n = Some KBool -> good_name n = true -> parse_bool fv = Some false ->
  mem n n_no_color = false \/ get_bool n_no_color ga = false ->
  no_alias_in (tbl_leaf c) n l ->
  parse_argv (g ++ ws ++ flag_tok two n (Some fv) :: l) e = parse_argv (g ++ ws ++ l) e.
Proof. exact ArgvTheorems.explicit_false_is_absent_local. Qed.
Print Assumptions explicit_false_is_absent_local.

(** the flags with one name only: no side condition at all *)
Theorem explicit_false_global_flags : forall two n fv argv e,
  In n [b "no-color"; b "no-database"] -> parse_bool fv = Some false ->
  parse_argv (flag_tok two n (Some fv) :: argv) e = parse_argv argv e.
Proof. exact ArgvTheorems.explicit_false_global_flags. Qed.
Print Assumptions explicit_false_global_flags.

Theorem explicit_false_reg_flags : forall g ga ws two n fv l e,
  In ws (paths FReg) -> framed g ws ga ->
  In n [b "csv"; b "no-totals"; b "totals-only"; b "shorten"; b "use-old-reg-reporter"] -> parse_bool fv = Some false ->
  parse_argv (g ++ ws ++ flag_tok two n (Some fv) :: l) e = parse_argv (g ++ ws ++ l) e.
Proof. exact ArgvTheorems.explicit_false_reg_flags. Qed.
Print Assumptions explicit_false_reg_flags.

(** REFUTED for the command-level --no-color: [--no-color reg --no-color=false] is NOT [--no-color reg]
    (the program switches the colour on again; validated against the real program) *)
Theorem explicit_false_no_color_refuted :
  exists i j, parse_argv [b "--no-color"; b "reg"] [] = ArgvOk i /\
              parse_argv [b "--no-color"; b "reg"; b "--no-color=false"] [] = ArgvOk j /\
              i_g_no_color i = true /\ i_g_no_color j = false /\ i_l_no_color i = false /\ i_l_no_color j = false.
Proof. exact ArgvFlags.explicit_false_no_color_refuted. Qed.
Print Assumptions explicit_false_no_color_refuted.

(** [--flag=true] (every spelling of true) is [--flag] *)
Theorem explicit_true_is_given_global : forall two two' n tv argv e,
  find_flag tbl_root n = Some KBool -> good_name n = true -> parse_bool tv = Some true ->
  parse_argv (flag_tok two n (Some tv) :: argv) e = parse_argv (flag_tok two' n None :: argv) e.
Proof. exact ArgvTheorems.explicit_true_is_given_global. Qed.
Print Assumptions explicit_true_is_given_global.

Theorem explicit_true_is_given_local : forall g ga c ws two two' n tv l e,
  In ws (paths c) -> framed g ws ga ->
  find_flag (tbl_leaf c) n = Some KBool -> good_name n = true -> parse_bool tv = Some true ->
  parse_argv (g ++ ws ++ flag_tok two n (Some tv) :: l) e = parse_argv (g ++ ws ++ flag_tok two' n None :: l) e.
Proof. exact ArgvTheorems.explicit_true_is_given_local. Qed.
Print Assumptions explicit_true_is_given_local.

(** [-name v], [--name v], [-name=v], [--name=v] *)
Theorem flag_forms_agree_global : forall two two' n k v argv e,
  find_flag tbl_root n = Some k -> k <> KBool -> good_name n = true ->
  parse_argv (flag_tok two n None :: v :: argv) e = parse_argv (flag_tok two' n (Some v) :: argv) e /\
  parse_argv (flag_tok two n None :: v :: argv) e = parse_argv (flag_tok two' n None :: v :: argv) e.
Proof. exact ArgvTheorems.flag_forms_agree_global. Qed.
Print Assumptions flag_forms_agree_global.

Theorem flag_forms_agree_local : forall g ga c ws two two' n k v l e,
  In ws (paths c) -> framed g ws ga ->
  find_flag (tbl_leaf c) n = Some k -> k <> KBool -> good_name n = true ->
  parse_argv (g ++ ws ++ flag_tok two n None :: v :: l) e = parse_argv (g ++ ws ++ flag_tok two' n (Some v) :: l) e /\
  parse_argv (g ++ ws ++ flag_tok two n None :: v :: l) e = parse_argv (g ++ ws ++ flag_tok two' n None :: v :: l) e.
Proof. exact ArgvTheorems.flag_forms_agree_local. Qed.
Print Assumptions flag_forms_agree_local.

Theorem flag_forms_agree_boolean : forall two two' n v argv e, good_name n = true ->
  parse_argv (flag_tok two n v :: argv) e = parse_argv (flag_tok two' n v :: argv) e.
Proof. exact ArgvTheorems.flag_forms_agree_boolean. Qed.
Print Assumptions flag_forms_agree_boolean.

(** ... and every alias: the other name of the flag gives the same result when no form of the flag occurs again in
    the level ([mem n N = mem m N] for the listed name sets says that [n] and [m] name the same flag) *)
Theorem flag_aliases_agree_global : forall two two' n m x argv e,
  find_flag tbl_root n = Some KStr -> find_flag tbl_root m = Some KStr -> good_name n = true -> good_name m = true ->
  (forall N, In N global_str_names -> mem n N = mem m N) ->
  no_alias_in tbl_root n argv -> no_alias_in tbl_root m argv ->
  parse_argv (flag_tok two n None :: x :: argv) e = parse_argv (flag_tok two' m None :: x :: argv) e.
Proof. exact ArgvAlias.flag_aliases_agree_global. Qed.
Print Assumptions flag_aliases_agree_global.

Theorem flag_aliases_agree_local_str : forall g ga c ws two two' n m x l e,
  In ws (paths c) -> framed g ws ga ->
  find_flag (tbl_leaf c) n = Some KStr -> find_flag (tbl_leaf c) m = Some KStr -> good_name n = true -> good_name m = true ->
  (forall N, In N local_str_names -> mem n N = mem m N) ->
  no_alias_in (tbl_leaf c) n l -> no_alias_in (tbl_leaf c) m l ->
  parse_argv (g ++ ws ++ flag_tok two n None :: x :: l) e = parse_argv (g ++ ws ++ flag_tok two' m None :: x :: l) e.
Proof. exact ArgvAlias.flag_aliases_agree_local_str. Qed.
Print Assumptions flag_aliases_agree_local_str.

Theorem flag_aliases_agree_local_bool : forall g ga c ws two two' n m v l e,
  In ws (paths c) -> framed g ws ga ->
  find_flag (tbl_leaf c) n = Some KBool -> find_flag (tbl_leaf c) m = Some KBool -> good_name n = true -> good_name m = true ->
  (forall N, In N local_bool_names -> mem n N = mem m N) ->
  no_alias_in (tbl_leaf c) n l -> no_alias_in (tbl_leaf c) m l ->
  parse_argv (g ++ ws ++ flag_tok two n v :: l) e = parse_argv (g ++ ws ++ flag_tok two' m v :: l) e.
Proof. exact ArgvAlias.flag_aliases_agree_local_bool. Qed.
Print Assumptions flag_aliases_agree_local_bool.

(** instances: [-d] / [--database]; [-s] / [--single-element] of reg and bal; [-g], [bal -c], [lint -s] *)
Theorem database_alias : forall two two' x argv e,
  no_alias_in tbl_root (b "d") argv -> no_alias_in tbl_root (b "database") argv ->
  parse_argv (flag_tok two (b "d") None :: x :: argv) e = parse_argv (flag_tok two' (b "database") None :: x :: argv) e.
Proof. exact ArgvAlias.database_alias. Qed.
Print Assumptions database_alias.

Theorem single_element_alias : forall g ga ws c two two' x l e,
  In c [FReg; FBal] -> In ws (paths c) -> framed g ws ga ->
  no_alias_in (tbl_leaf c) (b "s") l -> no_alias_in (tbl_leaf c) (b "single-element") l ->
  parse_argv (g ++ ws ++ flag_tok two (b "s") None :: x :: l) e = parse_argv (g ++ ws ++ flag_tok two' (b "single-element") None :: x :: l) e.
Proof. exact ArgvAlias.single_element_alias. Qed.
Print Assumptions single_element_alias.

Theorem boolean_aliases : forall g ga ws c n m two two' v l e,
  In (c, n, m) [(FReg, b "g", b "group-food"); (FBal, b "c", b "collapse"); (FLint, b "s", b "silent")] ->
  In ws (paths c) -> framed g ws ga ->
  no_alias_in (tbl_leaf c) n l -> no_alias_in (tbl_leaf c) m l ->
  parse_argv (g ++ ws ++ flag_tok two n v :: l) e = parse_argv (g ++ ws ++ flag_tok two' m v :: l) e.
Proof. exact ArgvAlias.boolean_aliases. Qed.
Print Assumptions boolean_aliases.

(** two forms of one flag in one level: urfave's error *)
Theorem two_forms_refused :
  parse_argv [b "-d"; b "x"; b "--database"; b "y"; b "reg"] [] = ArgvUsage /\
  parse_argv [b "reg"; b "-g"; b "--group-food=false"] [] = ArgvUsage.
Proof. exact ArgvAlias.two_forms_refused. Qed.
Print Assumptions two_forms_refused.

(** a repeated flag: the last occurrence wins *)
Theorem last_occurrence_wins_global : forall two two' n k x y argv e,
  find_flag tbl_root n = Some k -> k <> KBool -> good_name n = true ->
  (k = KInt -> exists z, go_parse_int x = Val z) ->
  parse_argv (flag_tok two n None :: x :: flag_tok two' n None :: y :: argv) e
  = parse_argv (flag_tok two' n None :: y :: argv) e.
Proof. exact ArgvTheorems.last_occurrence_wins_global. Qed.
Print Assumptions last_occurrence_wins_global.

Theorem last_occurrence_wins_local : forall g ga c ws two two' n k x y l e,
  In ws (paths c) -> framed g ws ga ->
  find_flag (tbl_leaf c) n = Some k -> k <> KBool -> good_name n = true ->
  (k = KInt -> exists z, go_parse_int x = Val z) ->
  parse_argv (g ++ ws ++ flag_tok two n None :: x :: flag_tok two' n None :: y :: l) e
  = parse_argv (g ++ ws ++ flag_tok two' n None :: y :: l) e.
Proof. exact ArgvTheorems.last_occurrence_wins_local. Qed.
Print Assumptions last_occurrence_wins_local.

Theorem last_occurrence_wins_boolean : forall g ga c ws two two' n v1 bv1 v2 l e,
  In ws (paths c) -> framed g ws ga ->
  find_flag (tbl_leaf c) n = Some KBool -> good_name n = true ->
  match v1 with None => Some true | Some x => parse_bool x end = Some bv1 ->
  match v2 with None => Some true | Some x => parse_bool x end <> None ->
  parse_argv (g ++ ws ++ flag_tok two n v1 :: flag_tok two' n v2 :: l) e
  = parse_argv (g ++ ws ++ flag_tok two' n v2 :: l) e.
Proof. exact ArgvTheorems.last_occurrence_wins_boolean. Qed.
Print Assumptions last_occurrence_wins_boolean.

(** the flag beats the environment (the invocation keeps both values; the loaded options take the flag's) *)
Theorem environment_recorded : forall argv e i, parse_argv argv e = ArgvOk i ->
  i_e_db i = lookup (b "HR_DATABASE") e /\ i_e_log i = lookup (b "HR_LOGFILE") e /\ i_e_fmt i = lookup (b "HR_DATE_FORMAT") e /\
  i_e_config i = lookup (b "HR_CONFIG") e /\ env_int e (b "HR_MAXDEPTH") = Val (i_e_depth i).
Proof. exact ArgvLoad.environment_recorded. Qed.
Print Assumptions environment_recorded.

Theorem flag_beats_environment_log : forall two n v argv e i w op,
  In n [b "logfile"; b "l"] -> parse_argv (flag_tok two n None :: v :: argv) e = ArgvOk i -> load w i = inr op ->
  exists v', i_f_log i = Some v' /\ op_log op = v' /\ i_e_log i = lookup (b "HR_LOGFILE") e.
Proof. exact ArgvLoad.flag_beats_environment_log. Qed.
Print Assumptions flag_beats_environment_log.

Theorem flag_beats_environment_db : forall two n v argv e i w op,
  In n [b "database"; b "d"] -> parse_argv (flag_tok two n None :: v :: argv) e = ArgvOk i -> load w i = inr op ->
  exists v', i_f_db i = Some v' /\ (i_no_database i = false -> op_db op = v') /\ i_e_db i = lookup (b "HR_DATABASE") e.
Proof. exact ArgvLoad.flag_beats_environment_db. Qed.
Print Assumptions flag_beats_environment_db.

Theorem flag_beats_environment_fmt : forall two v argv e i w op,
  parse_argv (flag_tok two (b "date-format") None :: v :: argv) e = ArgvOk i -> load w i = inr op ->
  exists v', i_f_fmt i = Some v' /\ op_fmt op = v' /\ i_e_fmt i = lookup (b "HR_DATE_FORMAT") e.
Proof. exact ArgvLoad.flag_beats_environment_fmt. Qed.
Print Assumptions flag_beats_environment_fmt.

Theorem flag_beats_environment_depth : forall two v argv e i w op,
  parse_argv (flag_tok two (b "maxdepth") None :: v :: argv) e = ArgvOk i -> load w i = inr op ->
  exists z, i_f_depth i = Some z /\ op_depth op = z /\ env_int e (b "HR_MAXDEPTH") = Val (i_e_depth i).
Proof. exact ArgvLoad.flag_beats_environment_depth. Qed.
Print Assumptions flag_beats_environment_depth.

(** [-b] on the command beats the global [-b] (whatever [ga], the flags before the command, holds) *)
Theorem innermost_period_wins : forall g ga c ws two n y l e i w op,
  In ws (paths c) -> framed g ws ga ->
  In n n_begin -> find_flag (tbl_leaf c) n = Some KStr ->
  parse_argv (g ++ ws ++ flag_tok two n None :: y :: l) e = ArgvOk i -> load w i = inr op ->
  exists y' toks t, i_l_begin i = Some y' /\ i_g_begin i = get_str n_begin ga /\
                    tokenize (op_fmt op) = Some toks /\ time_from_string w (op_now op) toks y' = inr t /\ op_begin op = Some t.
Proof. exact ArgvLoad.innermost_period_wins. Qed.
Print Assumptions innermost_period_wins.

(** an unknown flag *)
Theorem unknown_flag_is_usage_error_global : forall two n v argv e, good_name n = true -> find_flag tbl_root n = None ->
  parse_argv (flag_tok two n v :: argv) e = match env_int e (b "HR_MAXDEPTH") with Unm => ArgvUnmodelled | _ => ArgvUsage end.
Proof. exact ArgvTheorems.unknown_flag_is_usage_error_global. Qed.
Print Assumptions unknown_flag_is_usage_error_global.

Theorem unknown_flag_is_usage_error_local : forall g ga c ws two n v l e d,
  In ws (paths c) -> framed g ws ga -> good_name n = true -> find_flag (tbl_leaf c) n = None ->
  env_int e (b "HR_MAXDEPTH") = Val d -> conflict tbl_root ga = false -> get_bool n_help ga = false -> get_bool n_version ga = false ->
  parse_argv (g ++ ws ++ flag_tok two n v :: l) e = ArgvUsage.
Proof. exact ArgvTheorems.unknown_flag_is_usage_error_local_exact. Qed.
Print Assumptions unknown_flag_is_usage_error_local.

Theorem unknown_flag_never_runs : forall g ga c ws two n v l e i,
  In ws (paths c) -> framed g ws ga -> good_name n = true -> find_flag (tbl_leaf c) n = None ->
  parse_argv (g ++ ws ++ flag_tok two n v :: l) e <> ArgvOk i.
Proof. exact ArgvTheorems.unknown_flag_is_usage_error_local. Qed.
Print Assumptions unknown_flag_never_runs.

(** a boolean never takes the next argument ([x] is read on its own), a flag with a value always does *)
Theorem boolean_takes_no_argument : forall g ga c ws two n x l e,
  In ws (paths c) -> framed g ws ga -> find_flag (tbl_leaf c) n = Some KBool -> good_name n = true ->
  parse_argv (g ++ ws ++ flag_tok two n None :: x :: l) e
  = root_frame ga ws e (fun d => match cons_asg (n, VB true) (parse_flags (tbl_leaf c) (x :: l)) with
                                 | FUsage => ArgvUsage | FUnm => ArgvUnmodelled
                                 | FOk la rest => guard (tbl_leaf c) la n_help rest (leaf_args ga e d c la rest)
                                 end).
Proof. exact ArgvTheorems.boolean_takes_no_argument. Qed.
Print Assumptions boolean_takes_no_argument.

Theorem value_flag_takes_next_argument : forall tbl two n k x l, good_name n = true -> find_flag tbl n = Some k -> k <> KBool ->
  parse_flags tbl (flag_tok two n None :: x :: l) = set_value k n x (parse_flags tbl l).
Proof. exact ArgvFlags.pf_value_takes_next. Qed.
Print Assumptions value_flag_takes_next_argument.

(** [--] ends the flags: what follows is an argument whatever it looks like *)
Theorem double_dash_ends_flags : forall g ga c ws x l e,
  In ws (paths c) -> framed g ws ga -> is_help_word x = false ->
  parse_argv (g ++ ws ++ b "--" :: x :: l) e = root_frame ga ws e (fun d => ArgvOk (build ga e d c [] x)).
Proof. exact ArgvTheorems.double_dash_ends_flags. Qed.
Print Assumptions double_dash_ends_flags.

Theorem double_dash_before_command : forall argv e,
  parse_argv (b "--" :: argv) e =
  match env_int e (b "HR_MAXDEPTH") with Err => ArgvUsage | Unm => ArgvUnmodelled | Val d => root_args [] e d argv end.
Proof. exact ArgvTheorems.double_dash_before_command. Qed.
Print Assumptions double_dash_before_command.

(** the program on the rendered vector: every theorem of Props/C16.v about an invocation holds for [run_argv] *)
Theorem run_argv_render : forall NM w i, renderable i = true ->
  run_argv NM w (fst (render_argv i)) (snd (render_argv i)) = Some (run NM w i).
Proof. exact ArgvLoad.run_argv_render. Qed.
Print Assumptions run_argv_render.

Theorem settings_precedence_argv : forall w i j op cfg, renderable i = true ->
  parse_argv (fst (render_argv i)) (snd (render_argv i)) = ArgvOk j ->
  load w j = inr op -> load_config w j = inr cfg ->
  op_db op = (if i_no_database i then dev_null
              else or_default (first_some [i_f_db i; i_e_db i; file_string (ce_db cfg)]) default_db) /\
  op_log op = or_default (first_some [i_f_log i; i_e_log i; file_string (ce_log cfg)]) default_log /\
  op_fmt op = or_default (first_some [i_f_fmt i; i_e_fmt i; file_string (ce_fmt cfg)]) default_fmt /\
  op_depth op = or_default (first_some [i_f_depth i; i_e_depth i; nonzero (ce_depth cfg)]) default_depth /\
  exists toks, tokenize (op_fmt op) = Some toks /\
    match i_f_today i with
    | Some s => exists c, parse_date toks s = Some c /\ op_now op = time_of_civil c
    | None => op_now op = time_of_civil (civ (or_default (first_some [ce_now cfg]) (w_clock w)))
    end.
Proof. exact ArgvLoad.settings_precedence_argv. Qed.
Print Assumptions settings_precedence_argv.
