(** C13 -- CSV exports are lossless and machine-readable.
    Final statements only; the proofs are in Proofs/Csv*.v. *)
From Coq Require Import Floats.SpecFloat.
From HP Require Import Base.Bytes Base.Num Base.GoFloat Model.Scanner Model.Parser Model.Elements Model.Dates
  Model.Writer Model.Csv Model.Reporters Model.Cli.
From HP Require Import Proofs.CsvCodec Proofs.CsvNumerals Proofs.CsvFixed Proofs.CsvWalk Proofs.CsvRows.

(** "the CSV exports are valid RFC 4180 and read back ... Names are preserved exactly even when
    they contain commas, quotes or non-ASCII text": the independent RFC 4180 reader inverts the
    writer for ALL byte strings as fields *)
Theorem csv_decode_encode : forall rows : list (list bytes), (forall r, In r rows -> r <> []) ->
  csv_decode (concat (map csv_record rows)) = Some rows.
Proof. exact CsvCodec.csv_decode_encode. Qed.
Print Assumptions csv_decode_encode.

(** "read back to exactly one row per (day, distinct food) in file order for the log":
    what the CSV reporter writes for a list of selected days (Process per day, then Flush)
    decodes to one row [ISO date; food; %.3f amount] per element of each day, in order *)
Theorem csv_log_export_reads_back : forall (NM : Num) (days : list (lognode NM)),
  csv_decode (csv_log_output NM days)
  = Some (flat_map (fun ln => map (fun nv => [format_date iso_date (civ (ln_time NM ln)); fst nv; f3 NM (snd nv)])
                                  (ln_elems NM ln)) days).
Proof. exact CsvRows.csv_log_export_reads_back. Qed.
Print Assumptions csv_log_export_reads_back.

(** "one row per entry in file order for the raw book": [csv database] on a readable book,
    sink never failing *)
Theorem csv_db_rows_spec : forall (NM : Num) (w : world) (op : options) (o : opened) (data : bytes),
  w_sink w = None -> open_file w (op_db op) = Some o -> readable_as o data ->
  let nodes := fst (nodes_before_error NM (csv_delivered NM data)) in
  let rows := flat_map (fun n => map (fun nv => [header n; fst nv; f2 NM (snd nv)]) (elems n)) nodes in
  out_stdout (run_csv_db NM w op) = concat (map csv_record rows)
  /\ csv_decode (out_stdout (run_csv_db NM w op)) = Some rows
  /\ out_status (run_csv_db NM w op)
     = status_of (match snd (nodes_before_error NM (csv_delivered NM data)) with
                  | Some e => Some (EParse (perr_message e))
                  | None => scan_status data
                  end).
Proof. exact CsvRows.csv_db_rows_spec. Qed.
Print Assumptions csv_db_rows_spec.

(** "one row per (recipe, resolved element) sorted by recipe then element for the resolved
    book": recipes in [sort_bytes] order, elements in the order of the resolved list *)
Theorem csv_db_resolved_rows_spec : forall (NM : Num) (w : world) (op : options) (o : opened) (d : list (bytes * elements NM)),
  w_sink w = None -> open_file w (op_db op) = Some o -> resolved_db NM w op o = inr d ->
  let recipes := sort_bytes (o_flush (w_or w) (keys d)) in
  let rows := flat_map (fun name => match lookup name d with
                                    | Some els => map (fun nv => [name; fst nv; f2 NM (snd nv)]) els
                                    | None => []
                                    end) recipes in
  out_stdout (run_csv_db_resolved NM w op) = concat (map csv_record rows)
  /\ csv_decode (out_stdout (run_csv_db_resolved NM w op)) = Some rows
  /\ out_status (run_csv_db_resolved NM w op) = Ok.
Proof. exact CsvRows.csv_db_resolved_rows_spec. Qed.
Print Assumptions csv_db_resolved_rows_spec.

(** "dates are ISO formatted" *)
Theorem dates_iso : forall y m d : Z, (0 <= y <= 9999)%Z -> (1 <= m <= 12)%Z -> (1 <= d <= 31)%Z ->
  format_date iso_date (y, m, d)
  = [digit_at y 3; digit_at y 2; digit_at y 1; digit_at y 0; 45%N;
     digit_at m 1; digit_at m 0; 45%N; digit_at d 1; digit_at d 0]
  /\ (y = 1000 * ((y / 10 ^ 3) mod 10) + 100 * ((y / 10 ^ 2) mod 10) + 10 * ((y / 10 ^ 1) mod 10) + (y / 10 ^ 0) mod 10)%Z
  /\ (m = 10 * ((m / 10 ^ 1) mod 10) + (m / 10 ^ 0) mod 10)%Z
  /\ (d = 10 * ((d / 10 ^ 1) mod 10) + (d / 10 ^ 0) mod 10)%Z.
Proof. exact CsvNumerals.dates_iso. Qed.
Print Assumptions dates_iso.

(** "amounts have fixed precision within half a unit of the last digit of the true value"
    (binary64, x = (-1)^s * m * 2^e) *)
Theorem fixed_within_half_unit : forall (p : nat) (s : bool) (m : positive) (e : Z),
  exists n : Z,
    format_fixed p (S754_finite s m e) = fixed_of_scaled s p n
    /\ read_fixed_full (format_fixed p (S754_finite s m e)) = Some (s, n, p)
    /\ (0 <= n)%Z
    /\ ((0 <= e)%Z -> n = (Zpos m * 2 ^ e * 10 ^ Z.of_nat p)%Z)
    /\ ((e < 0)%Z -> (2 * Z.abs (n * 2 ^ (- e) - Zpos m * 10 ^ Z.of_nat p) <= 2 ^ (- e))%Z)
    /\ ((e < 0)%Z -> (2 * Z.abs (n * 2 ^ (- e) - Zpos m * 10 ^ Z.of_nat p) = 2 ^ (- e))%Z -> Z.even n = true).
Proof. exact CsvFixed.fixed_within_half_unit. Qed.
Print Assumptions fixed_within_half_unit.
