(** C17 — "For every command and every point at which the output sink starts
    failing (full disk, closed pipe), the command exits with a non-zero
    status.  It never reports success after part of the report was lost."

    [with_sink w o] (Proofs/SinkRun.v) is the world [w] with [w_sink := o];
    [Some k]: standard output accepts bytes [0,k) and fails from then on;
    [None]: it never fails.  All theorems hold for every [Num] instance, every
    world, every invocation (hence every command) and every failure offset. *)
From Coq Require Import List.
From HP Require Import Base.Bytes Base.Num Model.Writer Model.Reporters Model.Cli.
From HP Require Import Proofs.SinkWriter Proofs.SinkRun Proofs.SinkCommands.

(** "It never reports success after part of the report was lost": a run
    against a failing sink that ends with status [Ok] is equal — status and
    bytes — to the run against a sink that never fails. *)
Theorem success_means_complete : forall (NM : Num) (w : world) (i : invocation) (k : nat),
  out_status (run NM (with_sink w (Some k)) i) = Ok ->
  run NM (with_sink w (Some k)) i = run NM (with_sink w None) i.
Proof. exact SinkCommands.success_means_complete. Qed.
Print Assumptions success_means_complete.

(** "... at which the output sink starts failing ... the command exits with a
    non-zero status": whenever the complete report is longer than the offset
    at which the sink starts failing, the status is not [Ok]. *)
Theorem lost_output_is_nonzero_exit : forall (NM : Num) (w : world) (i : invocation) (k : nat),
  length (out_stdout (run NM (with_sink w None) i)) > k ->
  out_status (run NM (with_sink w (Some k)) i) <> Ok.
Proof. exact SinkCommands.lost_output_is_nonzero_exit. Qed.
Print Assumptions lost_output_is_nonzero_exit.

(** the converse side: a sink that would fail only at or beyond the end of
    the report does not change the run at all. *)
Theorem no_loss_no_change : forall (NM : Num) (w : world) (i : invocation) (k : nat),
  length (out_stdout (run NM (with_sink w None) i)) <= k ->
  run NM (with_sink w (Some k)) i = run NM (with_sink w None) i.
Proof. exact SinkCommands.no_loss_no_change. Qed.
Print Assumptions no_loss_no_change.

(** the mechanism the property rests on ([bufio.Writer]'s sticky error): once
    the error flag is set, every [Write], [Flush] and chunk sequence reports it
    (a checked chunk aborts) and leaves the writer — buffer and sink —
    unchanged; and every error returned by [Write] / [Flush] / an aborted
    chunk sequence sets the flag. *)
Theorem bufio_sticky :
  (forall w p, bw_err w = true -> bw_write w p = (w, true)) /\
  (forall w, bw_err w = true -> bw_flush w = (w, true)) /\
  (forall w cs, bw_err w = true ->
     fst (bw_chunks w cs) = w /\ snd (bw_chunks w cs) = existsb snd cs) /\
  (forall w p, snd (bw_write w p) = true -> bw_err (fst (bw_write w p)) = true) /\
  (forall w, snd (bw_flush w) = true -> bw_err (fst (bw_flush w)) = true) /\
  (forall w cs, snd (bw_chunks w cs) = true -> bw_err (fst (bw_chunks w cs)) = true).
Proof. exact SinkWriter.bufio_sticky. Qed.
Print Assumptions bufio_sticky.

(** (extra, stronger than the property asks) what reaches a failing standard
    output is exactly the first [k] bytes of the complete report. *)
Theorem sink_truncates : forall (NM : Num) (w : world) (i : invocation) (k : nat),
  out_stdout (run NM (with_sink w (Some k)) i) = firstn k (out_stdout (run NM (with_sink w None) i)).
Proof. exact SinkCommands.sink_truncates. Qed.
Print Assumptions sink_truncates.
