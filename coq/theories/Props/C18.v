(** C18 -- "For every input and every interleaving of producer and consumer, a
    consumer that follows the documented receive loop terminates and observes
    exactly the records the callback parser reports before its first error, in
    order, followed by completion or by that error.  A consumer that keeps
    receiving until completion sees each error once, and the producer
    goroutine then exits."

    Vocabulary (definitions in [Proofs/ChannelLTS.v], [Proofs/ChannelStream.v]):
    - [reachable NM p (init NM sends pt ct) s]: [s] is reached by SOME
      interleaving of producer τ, consumer τ and rendezvous steps, with ANY
      τ budgets [pt], [ct]; all theorems quantify over these.
    - [maximal NM p s]: no step is enabled in [s] (the schedule is complete).
    - [has_returning NM p sends]: [sends] contains a message on which a
      consumer with policy [p] leaves its loop.
    - [deadlocked NM s]: consumer still receiving, producer has nothing to send.
    - [final NM s]: [ptau s = 0 /\ (cons s = Returned \/ (pending s = [] /\ ctau s = 0))].
    - [measure NM s]: [length (pending s) + ptau s + ctau s].
    - [callback_result NM data f]: [ParseStreamCallback] run with the callback
      that collects the records and stops at (and returns) the first error:
      the records collected, and the returned error.
    - [closing r]: [MDone] if [r = None], else [MErr] of that error.
    - [file_sends NM None = [MErr ChIO; MDone]] (repair F23: Done follows the
      error of a path that cannot be opened). *)
From Coq Require Import List Arith.
From HP Require Import Base.Bytes Base.Num Model.Scanner Model.Parser Model.Channel.
From HP Require Import Proofs.ChannelLTS Proofs.ChannelStream.
Import ListNotations.
Local Open Scope nat_scope.
Local Open Scope list_scope.

(** "observes exactly ... in order" as an invariant of EVERY reachable state:
    nothing is lost or reordered ([sends = obs ++ pending]), what has been
    observed is a prefix of the specified observation, and once the consumer
    has returned it is exactly the specified observation. *)
Theorem safety : forall (NM : Num) (p : policy) (sends : list (msg NM)) (pt ct : nat) (s : state NM),
  reachable NM p (init NM sends pt ct) s ->
  sends = obs NM s ++ pending NM s /\
  is_prefix NM (obs NM s) (spec NM p sends) /\
  (cons NM s = Receiving -> Forall (continuing NM p) (obs NM s)) /\
  (cons NM s = Returned -> obs NM s = spec NM p sends).
Proof. exact ChannelLTS.safety. Qed.
Print Assumptions safety.

(** There is a single producer, so at most one channel is ready at any time:
    two message-delivering transitions from the same state coincide;
    [select]'s random choice among ready cases never arises. *)
Theorem rendezvous_unique : forall (NM : Num) (p : policy) (s s1 s2 : state NM),
  step NM p s s1 -> step NM p s s2 -> obs NM s1 <> obs NM s -> obs NM s2 <> obs NM s -> s1 = s2.
Proof. exact ChannelLTS.rendezvous_unique. Qed.
Print Assumptions rendezvous_unique.

(** ... and the delivered message is the head of [pending]. *)
Theorem rendezvous_determined_by_pending : forall (NM : Num) (p : policy) (s s' : state NM),
  step NM p s s' -> obs NM s' <> obs NM s ->
  exists m, hd_error (pending NM s) = Some m /\ obs NM s' = obs NM s ++ [m] /\ pending NM s' = tl (pending NM s).
Proof. exact ChannelLTS.rendezvous_determined_by_pending. Qed.
Print Assumptions rendezvous_determined_by_pending.

(** A reachable state that is not [final] has a successor. *)
Theorem progress : forall (NM : Num) (p : policy) (sends : list (msg NM)) (pt ct : nat) (s : state NM),
  reachable NM p (init NM sends pt ct) s -> ~ final NM s -> exists s', step NM p s s'.
Proof. exact ChannelLTS.progress. Qed.
Print Assumptions progress.

(** [final] states are exactly the states without successor. *)
Theorem final_iff_maximal : forall (NM : Num) (p : policy) (s : state NM), final NM s <-> maximal NM p s.
Proof. exact ChannelLTS.final_iff_maximal. Qed.
Print Assumptions final_iff_maximal.

(** The substantive half of progress: while the consumer is in its loop and
    the message it returns on is among the sends, the producer has a message
    pending and the rendezvous is enabled -- the consumer never waits for a
    producer that is gone. *)
Theorem consumer_never_starves : forall (NM : Num) (p : policy) (sends : list (msg NM)) (pt ct : nat) (s : state NM),
  reachable NM p (init NM sends pt ct) s -> has_returning NM p sends -> cons NM s = Receiving ->
  exists m rest, pending NM s = m :: rest /\ step NM p s (rendezvous_target NM p s m rest).
Proof. exact ChannelLTS.consumer_never_starves. Qed.
Print Assumptions consumer_never_starves.

(** A deadlock of the consumer arises only when no returning message is sent
    (and then the consumer has seen everything) ... *)
Theorem deadlock_only_without_returning : forall (NM : Num) (p : policy) (sends : list (msg NM)) (pt ct : nat) (s : state NM),
  reachable NM p (init NM sends pt ct) s -> deadlocked NM s -> ~ has_returning NM p sends /\ obs NM s = sends.
Proof. exact ChannelLTS.deadlock_only_without_returning. Qed.
Print Assumptions deadlock_only_without_returning.

(** ... never for [ParseStream], whose sends always end in [MDone] ... *)
Theorem stream_no_deadlock : forall (NM : Num) (p : policy) (data : bytes) (f : read_fault) (pt ct : nat) (s : state NM),
  reachable NM p (init NM (stream_sends NM data f) pt ct) s -> ~ deadlocked NM s.
Proof. exact ChannelStream.stream_no_deadlock. Qed.
Print Assumptions stream_no_deadlock.

(** ... and, after repair F23 ([ParseFile] sends Done after the error of a
    path that cannot be opened), never for [ParseFile] either: for every
    content, readable or not, and under either policy. *)
Theorem file_no_deadlock : forall (NM : Num) (p : policy) (content : option (bytes * read_fault)) (pt ct : nat) (s : state NM),
  reachable NM p (init NM (file_sends NM content) pt ct) s -> ~ deadlocked NM s.
Proof. exact ChannelStream.file_no_deadlock. Qed.
Print Assumptions file_no_deadlock.

(** Every [ParseFile] contains the message on which the consumer returns,
    under both policies (before F23: not the unreadable path under
    [DrainUntilDone]). *)
Theorem file_sends_has_returning : forall (NM : Num) (p : policy) (content : option (bytes * read_fault)),
  has_returning NM p (file_sends NM content).
Proof. exact ChannelStream.file_sends_has_returning. Qed.
Print Assumptions file_sends_has_returning.

(** [ParseFile] on an unreadable path under [DrainUntilDone] (before F23 a
    deadlock: [drain_unreadable_file]): in every complete run the consumer has
    returned having seen the I/O error once and then Done, the producer has
    exited, and the state is not a deadlock. *)
Theorem drain_unreadable_file_terminates : forall (NM : Num) (pt ct : nat) (s : state NM),
  reachable NM DrainUntilDone (init NM (file_sends NM None) pt ct) s ->
  maximal NM DrainUntilDone s ->
  cons NM s = Returned /\ obs NM s = [MErr ChIO; MDone] /\ pending NM s = [] /\ ~ deadlocked NM s.
Proof. exact ChannelStream.drain_unreadable_file_terminates. Qed.
Print Assumptions drain_unreadable_file_terminates.

(** No deadlock is reachable on the unreadable path (the negation of the old
    [drain_unreadable_file_deadlock_reachable]). *)
Theorem unreadable_file_no_deadlock_reachable : forall (NM : Num) (p : policy) (pt ct : nat),
  ~ exists s, reachable NM p (init NM (file_sends NM None) pt ct) s /\ deadlocked NM s.
Proof. exact ChannelStream.unreadable_file_no_deadlock_reachable. Qed.
Print Assumptions unreadable_file_no_deadlock_reachable.

(** "terminates": every step strictly decreases the measure ... *)
Theorem termination : forall (NM : Num) (p : policy) (s s' : state NM),
  step NM p s s' -> measure NM s' < measure NM s.
Proof. exact ChannelLTS.termination. Qed.
Print Assumptions termination.

(** ... so there is no infinite schedule ... *)
Theorem no_infinite_schedule : forall (NM : Num) (p : policy) (f : nat -> state NM),
  ~ (forall i, step NM p (f i) (f (S i))).
Proof. exact ChannelLTS.no_infinite_schedule. Qed.
Print Assumptions no_infinite_schedule.

(** ... every schedule has at most [length sends + pt + ct] steps ... *)
Theorem schedule_length_bound : forall (NM : Num) (p : policy) (sends : list (msg NM)) (pt ct n : nat) (s : state NM),
  steps NM p n (init NM sends pt ct) s -> n <= length sends + pt + ct.
Proof. exact ChannelLTS.schedule_length_bound. Qed.
Print Assumptions schedule_length_bound.

(** ... and every state has a maximal run (the statements about maximal runs
    are not vacuous). *)
Theorem maximal_run_exists : forall (NM : Num) (p : policy) (s0 : state NM),
  exists s, reachable NM p s0 s /\ maximal NM p s.
Proof. exact ChannelLTS.maximal_run_exists. Qed.
Print Assumptions maximal_run_exists.

(** In a maximal run the observation is the specified one and the unsent rest
    is the one computed by [run_consumer]; the consumer has returned whenever
    a returning message is among the sends, otherwise it is deadlocked having
    seen all of [sends]. *)
Theorem final_spec : forall (NM : Num) (p : policy) (sends : list (msg NM)) (pt ct : nat) (s : state NM),
  reachable NM p (init NM sends pt ct) s -> maximal NM p s ->
  obs NM s = spec NM p sends /\
  pending NM s = snd (run_consumer NM p sends) /\
  ptau NM s = 0 /\
  (has_returning NM p sends -> cons NM s = Returned) /\
  (~ has_returning NM p sends -> deadlocked NM s /\ ctau NM s = 0 /\ obs NM s = sends).
Proof. exact ChannelLTS.final_spec. Qed.
Print Assumptions final_spec.

(** The executable [run_consumer] of the test harness computes [spec]. *)
Theorem run_consumer_correct : forall (NM : Num) (p : policy) (sends : list (msg NM)),
  fst (run_consumer NM p sends) = spec NM p sends /\
  fst (run_consumer NM p sends) ++ snd (run_consumer NM p sends) = sends /\
  (~ has_returning NM p sends -> run_consumer NM p sends = (sends, [])) /\
  (has_returning NM p sends -> exists pre m,
      fst (run_consumer NM p sends) = pre ++ [m] /\ Forall (continuing NM p) pre /\ returning NM p m).
Proof. exact ChannelLTS.run_consumer_correct. Qed.
Print Assumptions run_consumer_correct.

(** What the documented loop is specified to see on [ParseStream] is the
    callback parser's result: its records before its first error, then that
    error (parse error or scanner error) or Done. *)
Theorem documented_loop_sees_callback_result : forall (NM : Num) (data : bytes) (f : read_fault),
  spec NM StopAtFirstError (stream_sends NM data f) =
  map MNode (fst (callback_result NM data f)) ++ [closing NM (snd (callback_result NM data f))].
Proof. exact ChannelStream.documented_loop_sees_callback_result. Qed.
Print Assumptions documented_loop_sees_callback_result.

(** The callback parser's result, spelt out on the event list of
    [Model/Parser.v]: the [ENode]s before the first [EErr] among the offered
    events; the first [EErr], else the scanner's error, else nil. *)
Theorem callback_result_events : forall (NM : Num) (data : bytes) (f : read_fault),
  callback_result NM data f =
  (nodes_before_error NM (offered_events NM data f),
   match first_error NM (offered_events NM data f) with
   | Some e => Some (inl e)
   | None => option_map inr (scan_error data f)
   end).
Proof. exact ChannelStream.callback_result_events. Qed.
Print Assumptions callback_result_events.

(** For a readable input without over-long line this is in terms of [events]. *)
Theorem documented_loop_complete_file : forall (NM : Num) (data : bytes),
  snd (scan data NoFault) = ScanEOF ->
  spec NM StopAtFirstError (stream_sends NM data NoFault) =
  map MNode (nodes_before_error NM (events NM data)) ++
  [match first_error NM (events NM data) with Some e => MErr (ChParse e) | None => MDone end].
Proof. exact ChannelStream.documented_loop_complete_file. Qed.
Print Assumptions documented_loop_complete_file.

(** First sentence of C18, end to end: for every input, read fault, budgets
    and interleaving, a complete run of the documented loop has the consumer
    returned with exactly the callback parser's records, in order, followed by
    Done or by its error.  The third conjunct is an observation the property
    does not ask for: after an error the producer still holds the unsendable
    [MDone] (the goroutine blocks forever on [p.Done <- true]). *)
Theorem documented_loop_end_to_end : forall (NM : Num) (data : bytes) (f : read_fault) (pt ct : nat) (s : state NM),
  reachable NM StopAtFirstError (init NM (stream_sends NM data f) pt ct) s ->
  maximal NM StopAtFirstError s ->
  cons NM s = Returned /\
  obs NM s = map MNode (fst (callback_result NM data f)) ++ [closing NM (snd (callback_result NM data f))] /\
  pending NM s = match snd (callback_result NM data f) with None => [] | Some _ => [MDone] end.
Proof. exact ChannelStream.documented_loop_end_to_end. Qed.
Print Assumptions documented_loop_end_to_end.

(** The same for [ParseFile], readable or not. *)
Theorem documented_loop_file : forall (NM : Num) (content : option (bytes * read_fault)) (pt ct : nat) (s : state NM),
  reachable NM StopAtFirstError (init NM (file_sends NM content) pt ct) s ->
  maximal NM StopAtFirstError s ->
  cons NM s = Returned /\
  obs NM s = match content with
             | None => [MErr ChIO]
             | Some (d, f) => map MNode (fst (callback_result NM d f)) ++ [closing NM (snd (callback_result NM d f))]
             end.
Proof. exact ChannelStream.documented_loop_file. Qed.
Print Assumptions documented_loop_file.

(** What is left in the producer after the documented loop on [ParseFile]:
    nothing after a clean run; after an error -- now including the error of a
    path that cannot be opened -- the [MDone] that the returned consumer will
    never receive (the goroutine blocks on [p.Done <- true], as for every
    [ParseStream] error).  [file_error]: [Some ChIO] for an unreadable path,
    else the callback parser's error. *)
Theorem documented_loop_file_pending : forall (NM : Num) (content : option (bytes * read_fault)) (pt ct : nat) (s : state NM),
  reachable NM StopAtFirstError (init NM (file_sends NM content) pt ct) s ->
  maximal NM StopAtFirstError s ->
  pending NM s = match file_error NM content with None => [] | Some _ => [MDone] end.
Proof. exact ChannelStream.documented_loop_file_pending. Qed.
Print Assumptions documented_loop_file_pending.

(** The unreadable path under the documented loop: the consumer returns at the
    I/O error; the producer stays blocked on Done. *)
Theorem stop_unreadable_file : forall (NM : Num) (pt ct : nat) (s : state NM),
  reachable NM StopAtFirstError (init NM (file_sends NM None) pt ct) s ->
  maximal NM StopAtFirstError s ->
  cons NM s = Returned /\ obs NM s = [MErr ChIO] /\ pending NM s = [MDone].
Proof. exact ChannelStream.stop_unreadable_file. Qed.
Print Assumptions stop_unreadable_file.

(** Second sentence of C18, list level: the draining consumer is specified to
    see all of [stream_sends], which contains at most one [MErr] (exactly one
    iff the callback parser returns an error) and ends with its only [MDone]. *)
Theorem drain_spec_stream : forall (NM : Num) (data : bytes) (f : read_fault),
  spec NM DrainUntilDone (stream_sends NM data f) = stream_sends NM data f /\
  count_errs NM (stream_sends NM data f) <= 1 /\
  (count_errs NM (stream_sends NM data f) = 1 <-> snd (callback_result NM data f) <> None) /\
  exists pre, stream_sends NM data f = pre ++ [MDone] /\ ~ In MDone pre /\
              Forall (continuing NM DrainUntilDone) pre.
Proof. exact ChannelStream.drain_spec_stream. Qed.
Print Assumptions drain_spec_stream.

(** Second sentence of C18, end to end: in every complete run the draining
    consumer has returned, has seen the records, the error at most once and
    Done, and the producer has nothing left to send (the goroutine exits). *)
Theorem drain_sees_each_error_once : forall (NM : Num) (data : bytes) (f : read_fault) (pt ct : nat) (s : state NM),
  reachable NM DrainUntilDone (init NM (stream_sends NM data f) pt ct) s ->
  maximal NM DrainUntilDone s ->
  cons NM s = Returned /\
  pending NM s = [] /\
  obs NM s = stream_sends NM data f /\
  obs NM s = map MNode (fst (callback_result NM data f)) ++ err_msgs NM (snd (callback_result NM data f)) ++ [MDone] /\
  count_errs NM (obs NM s) <= 1 /\
  (count_errs NM (obs NM s) = 1 <-> snd (callback_result NM data f) <> None).
Proof. exact ChannelStream.drain_sees_each_error_once. Qed.
Print Assumptions drain_sees_each_error_once.

(** The same for [ParseFile], readable or not (second sentence of C18 for
    [ParseFile]; true for the unreadable path only since F23): the draining
    consumer returns, the producer exits, the consumer has seen the records,
    at most one error (exactly one iff the path is unreadable or the callback
    parser returns an error) and Done.  [file_nodes]: no record for an
    unreadable path, else the callback parser's records. *)
Theorem drain_file : forall (NM : Num) (content : option (bytes * read_fault)) (pt ct : nat) (s : state NM),
  reachable NM DrainUntilDone (init NM (file_sends NM content) pt ct) s ->
  maximal NM DrainUntilDone s ->
  cons NM s = Returned /\
  pending NM s = [] /\
  obs NM s = file_sends NM content /\
  obs NM s = map MNode (file_nodes NM content) ++ cherr_msgs NM (file_error NM content) ++ [MDone] /\
  count_errs NM (obs NM s) <= 1 /\
  (count_errs NM (obs NM s) = 1 <-> file_error NM content <> None) /\
  ~ deadlocked NM s.
Proof. exact ChannelStream.drain_file. Qed.
Print Assumptions drain_file.

(** "every interleaving": two complete runs under the same policy, with any
    budgets and any schedules, end with the same observation, the same unsent
    rest and the same consumer state. *)
Theorem any_schedule_same_observation : forall (NM : Num) (p : policy) (sends : list (msg NM))
    (pt ct pt' ct' : nat) (s s' : state NM),
  reachable NM p (init NM sends pt ct) s -> maximal NM p s ->
  reachable NM p (init NM sends pt' ct') s' -> maximal NM p s' ->
  obs NM s = obs NM s' /\ pending NM s = pending NM s' /\ cons NM s = cons NM s'.
Proof. exact ChannelLTS.any_schedule_same_observation. Qed.
Print Assumptions any_schedule_same_observation.
