(** C04 – "For every file in the documented format, parsing yields one record
    per heading in file order and, under it, every entry in order with its
    exact name and the correctly rounded value of its number; comment lines,
    blank lines and notes never become entries, and the last record is not
    lost.  Indentation by spaces or tabs, YAML list dashes, quoted names,
    trailing whitespace and CRLF line endings do not change the result."
    (and the parser half of C09: errors carry the 1-based physical line number).

    Vocabulary (definitions in Model/Syntax.v and Proofs/Parser*.v):
    [render f] the bytes of the abstract file [f] in any of its layouts;
    [wf_file] the documented format; [short_lines f] every raw line (CR
    included) is below the scanner's 65536-byte limit – by
    [ParserScan.short_lines_exact] exactly the files the scanner reads to the
    end; [events NM data] everything the parser reports for [data], the last
    record included; the value of an entry is [of_lexeme NM lexeme] (for the
    binary64 instance: the model of [strconv.ParseFloat]). *)
From HP Require Import Base.Bytes Base.Utf8 Base.Num Model.Scanner Model.Parser Model.Syntax.
From HP Require Import Proofs.ParserBytes Proofs.ParserScan Proofs.ParserClassify Proofs.ParserRoundtrip
  Proofs.ParserCorollaries Proofs.ParserConcat.
Open Scope N_scope.

(** the whole property in one equation: parsing the rendering of a well-formed
    file reports exactly the records, notes and errors of the abstract file *)
Theorem parse_render_roundtrip :
  forall (NM : Num) (f : file),
    wf_file NM f = true -> short_lines f ->
    events NM (render f) = expected_events NM f.
Proof. exact ParserRoundtrip.parse_render_roundtrip. Qed.
Print Assumptions parse_render_roundtrip.

(** "the last record is not lost": the last heading with all lines under it
    is the last event, whatever the final newline; and the final newline does
    not matter at all *)
Theorem last_record_kept :
  forall (NM : Num) (f : file) (l1 : list item) (n s : bytes) (l2 : list item),
    wf_file NM f = true -> short_lines f ->
    map fst (f_items f) = l1 ++ IHeading n s :: l2 -> no_heading l2 ->
    exists evs, events NM (render f) = evs ++ [ENode (record NM n l2)].
Proof. exact ParserCorollaries.last_record_kept. Qed.
Print Assumptions last_record_kept.

Theorem last_record_kept_newline :
  forall (NM : Num) (l : list (item * bool)),
    forallb (fun ic : item * bool => wf_item NM (fst ic)) l = true -> short_items l true ->
    events NM (render {| f_items := l; f_final_newline := true |})
    = events NM (render {| f_items := l; f_final_newline := false |}).
Proof. exact ParserCorollaries.last_record_kept_newline. Qed.
Print Assumptions last_record_kept_newline.

(** "indentation, dashes, quotes, trailing whitespace and CRLF do not change
    the result": two files (without malformed lines) with the same headings,
    entries (name, lexeme) and notes in the same order – whatever their filler
    bytes, CRLF flags, final newline, blank and comment lines – parse alike *)
Theorem layout_invariance :
  forall (NM : Num) (f f' : file),
    wf_file NM f = true -> short_lines f -> no_bad_items f ->
    wf_file NM f' = true -> short_lines f' -> no_bad_items f' ->
    contents (map fst (f_items f)) = contents (map fst (f_items f')) ->
    events NM (render f) = events NM (render f').
Proof. exact ParserCorollaries.layout_invariance. Qed.
Print Assumptions layout_invariance.

(** "one record per heading in file order" (malformed lines allowed) *)
Theorem one_record_per_heading :
  forall (NM : Num) (f : file),
    wf_file NM f = true -> short_lines f ->
    map header (nodes_of NM (events NM (render f))) = heading_names (map fst (f_items f)).
Proof. exact ParserCorollaries.one_record_per_heading. Qed.
Print Assumptions one_record_per_heading.

(** "and, under it, every entry in order with its exact name and value": the
    record of the k-th heading consists of the entry and note lines between
    it and the next heading *)
Theorem record_under_heading :
  forall (NM : Num) (f : file) (l1 : list item) (n s : bytes) (l2 l3 : list item),
    wf_file NM f = true -> short_lines f ->
    map fst (f_items f) = l1 ++ IHeading n s :: l2 ++ l3 ->
    no_heading l2 -> (l3 = [] \/ exists n' s' r, l3 = IHeading n' s' :: r) ->
    exists before after,
      nodes_of NM (events NM (render f)) = before ++ record NM n l2 :: after
      /\ length before = length (heading_names l1)
      /\ length after = length (heading_names l3).
Proof. exact ParserCorollaries.record_under_heading. Qed.
Print Assumptions record_under_heading.

(** "comment lines, blank lines and notes never become entries": all entries
    of all records, in order, are exactly the entry lines after the first
    heading *)
Theorem comments_blanks_notes_never_entries :
  forall (NM : Num) (f : file),
    wf_file NM f = true -> short_lines f ->
    flat_map elems (nodes_of NM (events NM (render f)))
    = entries_of NM (from_first_heading (map fst (f_items f))).
Proof. exact ParserCorollaries.comments_blanks_notes_never_entries. Qed.
Print Assumptions comments_blanks_notes_never_entries.

(** C09, parser half: the errors, in file order, are those of the malformed
    lines after the first heading, each with its 1-based physical line number
    (blank and comment lines count) and the raw line *)
Theorem error_line_numbers_physical :
  forall (NM : Num) (f : file),
    wf_file NM f = true -> short_lines f ->
    errs_of NM (events NM (render f))
    = map (fun p => err_at (fst p) (snd p)) (bad_after_heading (map fst (f_items f)))
    /\ forall i it,
         nth_error (map fst (f_items f)) i = Some it -> is_bad it = true ->
         (exists j n s, (j < i)%nat /\ nth_error (map fst (f_items f)) j = Some (IHeading n s)) ->
         In (EErr (err_at (N.of_nat i) it)) (events NM (render f)).
Proof. exact ParserCorollaries.error_line_numbers_physical. Qed.
Print Assumptions error_line_numbers_physical.

(** the scanner-side meaning of [short_lines]: exactly the well-formed files the
    scanner reads to the end (no ErrTooLong) *)
Theorem short_lines_exact :
  forall (NM : Num) (f : file),
    wf_file NM f = true ->
    (short_lines f <-> snd (scan (render f) NoFault) = ScanEOF).
Proof. exact ParserScan.short_lines_exact. Qed.
Print Assumptions short_lines_exact.

(** stretch, used by C12 – parsing a concatenation, for arbitrary bytes: the
    first part ends in LF (or is empty), no line is too long, and either the
    first part leaves no record open or the second part begins (after lines that
    are always skipped) with a heading.  Error line numbers of the second part
    are shifted by the number of lines of the first. *)
Theorem parse_concat :
  forall (NM : Num) (d1 d2 : bytes),
    ends_lf d1 ->
    snd (scan (d1 ++ d2) NoFault) = ScanEOF ->
    snd (parse_lines NM (lines_of d1)) = None \/ heading_first (lines_of d2) = true ->
    events NM (d1 ++ d2)
    = events NM d1 ++ map (shift_ev NM (lengthN (lines_of d1))) (events NM d2).
Proof. exact ParserConcat.parse_concat. Qed.
Print Assumptions parse_concat.

Theorem parse_concat_wf_no_bad :
  forall (NM : Num) (f1 f2 : file),
    wf_file NM f1 = true -> short_lines f1 -> f_final_newline f1 = true ->
    wf_file NM f2 = true -> short_lines f2 -> no_bad_items f2 ->
    heading_first_items (map fst (f_items f2)) = true ->
    events NM (render f1 ++ render f2) = events NM (render f1) ++ events NM (render f2).
Proof. exact ParserConcat.parse_concat_wf_no_bad. Qed.
Print Assumptions parse_concat_wf_no_bad.
