(** Property C14, "every date format": the layout elements [2], [_2], [1], [Jan], [January]
    (beside [2006], [01], [02] and the literals [/ - . : ,] and the blank).

    Vocabulary (Spec/PrintSpec.v): [heading_layout] - the layout can be printed as a heading line and
    be recognised as that heading; it contains [sep_ok] (an element of variable width is followed by a
    token that does not begin with a digit, or by the end) and excludes a layout that begins with [_2];
    [full_layout] - a year, a month and a day element occur, in any spelling; [fold_eq] - the same
    text up to the case of its ASCII letters (Proofs/DatesLayout.v). *)
From HP Require Import Base.Bytes Base.Num Model.Scanner Model.Parser Model.Dates Model.Reporters Spec.PrintSpec
     Proofs.PrintDates Proofs.PrintExamples Proofs.DatesLayout.

(** "every date format ... same days": what a heading layout writes for a valid date of the years
    0..9999 makes a heading line, and the layout reads it back as that date *)
Theorem format_parse_roundtrip_ext :
  forall (toks : list ltoken) (y m d : Z),
    heading_layout toks = true -> full_layout toks -> valid_civil (y, m, d) ->
    parse_date toks (format_date toks (y, m, d)) = Some (y, m, d)
    /\ heading_bytes_ok (format_date toks (y, m, d)).
Proof. exact DatesLayout.format_parse_roundtrip_ext. Qed.
Print Assumptions format_parse_roundtrip_ext.

(** for [time.Parse] / [Format] alone the two ends of the layout do not matter *)
Theorem format_parse_roundtrip_sep :
  forall (toks : list ltoken) (y m d : Z),
    sep_ok toks = true -> full_layout toks -> valid_civil (y, m, d) ->
    parse_date toks (format_date toks (y, m, d)) = Some (y, m, d).
Proof. exact DatesLayout.format_parse_roundtrip_sep. Qed.
Print Assumptions format_parse_roundtrip_sep.

(** reading is stable under the normal form: whatever text was read as a date ([JAN], two blanks, a day
    of one or two digits ...), the text [Format] writes for that date is read as the same date *)
Theorem parse_format_canonical :
  forall (toks : list ltoken) (s : bytes) (cv : Z * Z * Z),
    sep_ok toks = true -> parse_date toks s = Some cv -> parse_date toks (format_date toks cv) = Some cv.
Proof. exact DatesLayout.parse_format_canonical. Qed.
Print Assumptions parse_format_canonical.

(** layouts without an element of variable width (every layout of [2006], [01], [02], [Jan], [January]
    and literals) meet the side conditions [sep_ok] and [stable_layout] of the C14 theorems *)
Theorem fixed_layout_stable :
  forall toks : list ltoken, fixed_layout toks = true -> sep_ok toks = true /\ stable_layout toks = true.
Proof. exact DatesLayout.fixed_layout_stable. Qed.
Print Assumptions fixed_layout_stable.

(** month names (and everything else) are read without regard to the ASCII case *)
Theorem parse_date_case_insensitive :
  forall (toks : list ltoken) (s1 s2 : bytes),
    forallb safe_tok toks = true -> fold_eq s1 s2 -> parse_date toks s1 = parse_date toks s2.
Proof. exact DatesLayout.parse_date_case_insensitive. Qed.
Print Assumptions parse_date_case_insensitive.

Theorem month_name_case_insensitive :
  forall (toks : list ltoken) (pre name1 name2 post : bytes),
    forallb safe_tok toks = true -> fold_eq name1 name2 ->
    parse_date toks (pre ++ name1 ++ post) = parse_date toks (pre ++ name2 ++ post).
Proof. exact DatesLayout.month_name_case_insensitive. Qed.
Print Assumptions month_name_case_insensitive.

(** FALSE for a layout that begins with [_2] (finding KF4): the heading [5 Jan 2021] is a date under
    [_2 Jan 2006], the date is written [ 5 Jan 2021] with a blank in front, and a log the tool reads
    is printed as a log the tool reads as empty *)
Theorem underday_leading_blank_refuted :
  tokenize (b "_2 Jan 2006") = Some toks_under
  /\ parse_date toks_under (b "5 Jan 2021") = Some (2021, 1, 5)%Z
  /\ format_date toks_under (2021, 1, 5)%Z = b " 5 Jan 2021"
  /\ hd 0%N (format_date toks_under (2021, 1, 5)%Z) = c_space
  /\ parse_date toks_under (format_date toks_under (2021, 1, 5)%Z) = Some (2021, 1, 5)%Z
  /\ forallb safe_tok toks_under = true /\ sep_ok toks_under = true
  /\ stable_layout toks_under = false /\ heading_layout toks_under = false
  /\ exists L : list (lognode ZNum),
       read_log ZNum toks_under log_under = Some L /\ L <> []
       /\ Forall (fun d => Forall (fun mp => documented_note mp = true) (notes_of ZNum d)) L
       /\ Forall (fun d => Forall (fun l => (lengthN l < max_token)%N) (day_lines ZNum (cfg toks_under) d)) L
       /\ read_log ZNum toks_under (print_output ZNum (cfg toks_under) L) = Some [].
Proof. exact DatesLayout.underday_leading_blank_refuted. Qed.
Print Assumptions underday_leading_blank_refuted.

(** and so does every layout that begins with [_2], for every date of a day below 10 *)
Theorem underday_front_blank :
  forall (toks : list ltoken) (y m d : Z), under_front toks = true -> (d < 10)%Z ->
    hd 0%N (format_date toks (y, m, d)) = c_space.
Proof. exact DatesLayout.underday_front_blank. Qed.
Print Assumptions underday_front_blank.

(** FALSE without [sep_ok]: [2] directly before [2006] writes a text the layout rejects, [1] directly
    before [2] writes a text that is read as another date *)
Theorem variable_width_needs_separator_refuted :
  (exists toks : list ltoken,
      tokenize (b "1/22006") = Some toks /\ forallb safe_tok toks = true /\ full_layout toks
      /\ sep_ok toks = false /\ valid_civil (2021, 3, 5)%Z
      /\ parse_date toks (b "3/052021") = Some (2021, 3, 5)%Z
      /\ format_date toks (2021, 3, 5)%Z = b "3/52021"
      /\ parse_date toks (format_date toks (2021, 3, 5)%Z) = None)
  /\ (exists toks : list ltoken,
         tokenize (b "12 2006") = Some toks /\ forallb safe_tok toks = true /\ full_layout toks
         /\ sep_ok toks = false /\ valid_civil (2021, 1, 15)%Z
         /\ format_date toks (2021, 1, 15)%Z = b "115 2021"
         /\ parse_date toks (format_date toks (2021, 1, 15)%Z) = Some (2021, 11, 5)%Z).
Proof. exact DatesLayout.variable_width_needs_separator_refuted. Qed.
Print Assumptions variable_width_needs_separator_refuted.
