(** Properties C07 / C12 for [register -f PATTERN] with a regular expression
    (Model/Regex.v: the subset of Go's RE2 syntax that [parse_regex] accepts).

    [matches r prev w next] (Spec/RegexSpec.v) is the denotational semantics:
    [r] matches the runes [w] between the runes [prev] and [next];
    [name_matches r name]: some substring of the runes of [name] matches (Go's
    unanchored [MatchString]); [rune_values] decodes a name the way Go does (an
    invalid byte is U+FFFD of width 1).  [report] (Spec/ComposeSpec.v) is the
    standard output and the error of the command on a history of parser events;
    [walked_nodes] are the selected days up to the first parse / date error. *)
From HP Require Import Base.Bytes Base.Utf8 Base.Num Model.Scanner Model.Parser Model.Elements Model.Dates
  Model.Tree Model.Writer Model.Regex Model.Reporters Model.Cli Spec.ComposeSpec Spec.RegexSpec
  Proofs.RegexSem Proofs.RegexPlain Proofs.RegexReporter.

(** the search of the model is the unanchored match of the semantics, for every
    expression and every name (arbitrary bytes) *)
Theorem re_search_spec : forall (r : re) (name : bytes),
  re_search r name = true <->
  exists pre mid post,
    rune_values name = pre ++ mid ++ post /\ matches r (last_or None pre) mid (head_opt post).
Proof. exact RegexSem.re_search_spec. Qed.
Print Assumptions re_search_spec.

(** without [^ $ \A \z \b \B] the neighbours play no role: some substring is in the language *)
Theorem re_search_spec_anchor_free : forall (r : re) (name : bytes), anchor_free r = true ->
  (re_search r name = true <->
   exists pre mid post, rune_values name = pre ++ mid ++ post /\ matches r None mid None).
Proof. exact RegexSem.re_search_spec_anchor_free. Qed.
Print Assumptions re_search_spec_anchor_free.

(** the fast path of the reporter (a pattern of letters, digits, blanks, [/] and
    non-ASCII bytes that is valid UTF-8 without U+FFFD: substring search on the
    bytes) agrees with the general path: the pattern parses as the literal of
    its runes, and searching that literal is [contains] *)
Theorem plain_is_literal : forall (p : bytes),
  plain_pattern p = true -> valid_utf8_no_fffd p = true ->
  parse_regex p = ReOk (lit_string (rune_values p))
  /\ forall name, re_search (lit_string (rune_values p)) name = contains p name.
Proof. exact RegexPlain.plain_is_literal. Qed.
Print Assumptions plain_is_literal.

(** a pattern of such bytes is never declined: it is that literal, or (invalid UTF-8) Go's error *)
Theorem plain_pattern_modelled : forall (p : bytes),
  plain_pattern p = true -> parse_regex p <> ReUnmodelled.
Proof. exact RegexPlain.plain_modelled. Qed.
Print Assumptions plain_pattern_modelled.

(** what was wrong with the old guard of the fast path ([plain_pattern] alone) *)
Theorem old_fast_path_refuted_invalid_utf8 :
  exists p name, plain_pattern p = true /\ contains p name = true /\ parse_regex p = ReError.
Proof. exact RegexReporter.old_fast_path_refuted_invalid_utf8. Qed.
Print Assumptions old_fast_path_refuted_invalid_utf8.

Theorem old_fast_path_refuted_fffd :
  exists p name r, plain_pattern p = true /\ contains p name = false
                   /\ parse_regex p = ReOk r /\ re_search r name = true.
Proof. exact RegexReporter.old_fast_path_refuted_fffd. Qed.
Print Assumptions old_fast_path_refuted_fffd.

(** C07: the rows [reg -f P] prints for a day are exactly the foods whose names
    match, in the order of the day, and Process returns no error *)
Theorem single_food_rows_spec :
  forall (NM : Num) (c : rconfig) (r : re) (pi : list bytes -> list bytes)
         (st : RS NM (rep_single_food NM c)) (ln : lognode NM),
  parse_regex (rc_single_food c) = ReOk r ->
  snd (fst (r_process NM (rep_single_food NM c) pi st ln))
  = map (food_row NM c ln) (filter (fun nv => re_search r (fst nv)) (ln_elems NM ln))
  /\ snd (r_process NM (rep_single_food NM c) pi st ln) = None
  /\ forall name, re_search r name = true <-> name_matches r name.
Proof. exact RegexReporter.single_food_rows_spec. Qed.
Print Assumptions single_food_rows_spec.

(** ... and the command prints, for each selected day in the order of the file, those rows *)
Theorem single_food_report_text :
  forall (NM : Num) (c : rconfig) (r : re) (pd : nat -> list bytes -> list bytes) (pf : list bytes -> list bytes)
         (toks : list ltoken) (bt et : option time) (evs : list (event NM)),
  parse_regex (rc_single_food c) = ReOk r ->
  snd (report NM (rep_single_food NM c) pd pf toks bt et evs) = None ->
  fst (report NM (rep_single_food NM c) pd pf toks bt et evs)
  = concat (map (single_food_day_text NM c r) (fst (walked_nodes NM toks bt et evs)))
  /\ snd (walked_nodes NM toks bt et evs) = None.
Proof. exact RegexReporter.single_food_report_text. Qed.
Print Assumptions single_food_report_text.

(** C12: the report of a concatenated history is the concatenation of the
    reports of the parts, for every pattern the model does not decline (valid or
    not); the error of the whole is the error of the second part *)
Theorem single_food_reports_concat :
  forall (NM : Num) (c : rconfig),
  parse_regex (rc_single_food c) <> ReUnmodelled ->
  forall (pd : nat -> list bytes -> list bytes) (pf : list bytes -> list bytes) (toks : list ltoken)
         (bt et : option time) (evs1 evs2 : list (event NM)),
    snd (report NM (rep_single_food NM c) pd pf toks bt et evs1) = None ->
    let k := selected_days NM toks bt et evs1 in
    fst (report NM (rep_single_food NM c) pd pf toks bt et (evs1 ++ evs2))
      = fst (report NM (rep_single_food NM c) pd pf toks bt et evs1)
        ++ fst (report NM (rep_single_food NM c) (fun i => pd (k + i)) pf toks bt et evs2)
    /\ snd (report NM (rep_single_food NM c) pd pf toks bt et (evs1 ++ evs2))
      = snd (report NM (rep_single_food NM c) (fun i => pd (k + i)) pf toks bt et evs2).
Proof. exact RegexReporter.single_food_reports_concat. Qed.
Print Assumptions single_food_reports_concat.

(** the invalid pattern: nothing is printed; the command ends with the first
    parse / date error or with the regexp error of the first selected day that
    has a food, whichever comes first (so a whole history and its parts fail alike,
    and an empty log succeeds) *)
Theorem single_food_invalid_pattern_report :
  forall (NM : Num) (c : rconfig) (pd : nat -> list bytes -> list bytes) (pf : list bytes -> list bytes)
         (toks : list ltoken) (bt et : option time) (evs : list (event NM)),
  parse_regex (rc_single_food c) = ReError ->
  report NM (rep_single_food NM c) pd pf toks bt et evs = ([], invalid_pattern_error NM toks bt et evs).
Proof. exact RegexReporter.single_food_invalid_pattern_report. Qed.
Print Assumptions single_food_invalid_pattern_report.
