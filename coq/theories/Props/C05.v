(** Property C05.
    "Running any command again with the same files, flags, environment and
     --today date produces byte-identical output and the same success or
     failure, on every run of the program.  In particular neither the order of
     output rows nor whether an error occurs depends on hash-map iteration
     order."

    [run NM w i] (Model/Cli.v) is a Gallina function, so for fixed arguments it
    has one value.  What can vary between two executions with "the same files,
    flags, environment and --today date" is (1) the order in which Go's runtime
    delivers the keys at each [range] over a map - the explicit oracle bundle
    [w_or w] - and (2) the wall clock [w_clock w].  The theorems below say that
    the outcome (stdout bytes AND status) depends on neither.

    Every theorem holds for every [Num] instance (no arithmetic law is used:
    NaN, infinities, non-associative addition are all covered), every file
    content (arbitrary bytes), every read fault, every output-sink fault, every
    command and flag combination.  The only premise beside "the oracles return
    permutations" is the order independence of the resolver, which is
    HP.Props.C11.resolve_order_indep (work package WP01), kept explicit here. *)
From Coq Require Import Permutation Sorted.
From HP Require Import Base.Bytes Base.Num Model.Elements Model.Resolver Model.Tree Model.Dates Model.Parser
  Model.Reporters Model.Cli.
From HP Require Import Spec.ResolverSpec Spec.TreeShared.
From HP Require Import Proofs.OrderSort Proofs.OrderSites Proofs.OrderInv Proofs.OrderRun Proofs.OrderRows.

(** "neither the order of output rows nor whether an error occurs depends on
    hash-map iteration order": the whole program, every command.
    [oracles_ok o] = every oracle of the bundle returns a permutation of the
    key list it is given; [with_or w o] = [w] with [w_or := o]. *)
Theorem run_order_independent :
  forall NM : Num,
    (forall N (B : Resolver.db NM) π1 π2, NoDup (keys B) -> Permutation (π1 (keys B)) (keys B) ->
       Permutation (π2 (keys B)) (keys B) -> resolve NM N π1 B = resolve NM N π2 B) ->
    forall w i o1 o2, oracles_ok o1 -> oracles_ok o2 ->
      run NM (with_or w o1) i = run NM (with_or w o2) i.
Proof. exact HP.Proofs.OrderRun.run_order_independent. Qed.
Print Assumptions run_order_independent.

(** the commands that never resolve the book need no premise at all
    (report quantity, csv log, print, csv database, lint, stats) *)
Theorem run_order_independent_resolver_free :
  forall NM : Num,
    forall w i o1 o2, resolver_free (i_cmd i) = true -> oracles_ok o1 -> oracles_ok o2 ->
      run NM (with_or w o1) i = run NM (with_or w o2) i.
Proof. exact HP.Proofs.OrderRun.run_order_independent_resolver_free. Qed.
Print Assumptions run_order_independent_resolver_free.

(** "with the same ... --today date": when --today is given the program never
    consults the clock *)
Theorem run_clock_independent :
  forall NM : Num,
    forall w i c1 c2 s, i_f_today i = Some s ->
      run NM (with_clock w c1) i = run NM (with_clock w c2) i.
Proof. exact HP.Proofs.OrderRun.run_clock_independent. Qed.
Print Assumptions run_clock_independent.

(** the first sentence of C05 as one statement: same files, same flags and
    environment (the invocation [i], the home directory's configuration path,
    the time zone), same sink and read faults, --today given; the clock and the
    map orders of the two executions are unrelated.  Same bytes, same status. *)
Theorem run_deterministic :
  forall NM : Num,
    resolver_order_independent NM ->
    forall w1 w2 i s,
      w_fs w1 = w_fs w2 -> w_default_config w1 = w_default_config w2 -> w_tz w1 = w_tz w2 ->
      w_sink w1 = w_sink w2 -> w_read_fault w1 = w_read_fault w2 ->
      i_f_today i = Some s ->
      oracles_ok (w_or w1) -> oracles_ok (w_or w2) ->
      run NM w1 i = run NM w2 i.
Proof. exact HP.Proofs.OrderRun.run_deterministic. Qed.
Print Assumptions run_deterministic.

(** * the mechanism *)

(** insertion sort by Go's [<] on strings is canonical: permuting the input
    does not change the output (stronger than the brief's statement: duplicates allowed) *)
Theorem sort_canonical :
  forall l l' : list bytes, NoDup l -> Permutation l l' -> sort_bytes l = sort_bytes l'.
Proof. exact HP.Proofs.OrderSort.sort_canonical. Qed.
Print Assumptions sort_canonical.

Theorem sort_canonical_strong :
  forall l l' : list bytes, Permutation l l' -> sort_bytes l = sort_bytes l'.
Proof. exact HP.Proofs.OrderSort.sort_canonical_strong. Qed.
Print Assumptions sort_canonical_strong.

(** * site by site *)

(** newTotalFromAccumulator (per day), TotalReporter.Flush, elementByFoodReporter.Flush *)
Theorem totals_order_independent :
  forall (NM : Num) (π1 π2 : list bytes -> list bytes), order_oracle π1 -> order_oracle π2 ->
    forall acc : accumulator NM, totals_of_acc NM π1 acc = totals_of_acc NM π2 acc.
Proof. exact HP.Proofs.OrderSites.totals_order_independent. Qed.
Print Assumptions totals_order_independent.

(** QuantityReporter.Flush: equal quantities come out in name order, always;
    no law about the float comparison is used *)
Theorem quantity_rows_independent :
  forall (NM : Num) (π1 π2 : list bytes -> list bytes), order_oracle π1 -> order_oracle π2 ->
    forall desc (acc : elements NM),
      sort_by_value NM desc (named_in_order NM π1 acc) = sort_by_value NM desc (named_in_order NM π2 acc).
Proof. exact HP.Proofs.OrderSites.quantity_rows_independent. Qed.
Print Assumptions quantity_rows_independent.

(** UnsolvedReporter.Flush *)
Theorem unresolved_order_independent :
  forall (π1 π2 : list bytes -> list bytes), order_oracle π1 -> order_oracle π2 ->
    forall l : list bytes, sort_bytes (π1 l) = sort_bytes (π2 l).
Proof. exact HP.Proofs.OrderSites.unresolved_order_independent. Qed.
Print Assumptions unresolved_order_independent.

(** TreeNode.Keys at every node of the balance tree *)
Theorem tree_order_independent :
  forall (NM : Num) (π1 π2 : list bytes -> list bytes), order_oracle π1 -> order_oracle π2 ->
    forall t : tree NM, order_tree NM π1 t = order_tree NM π2 t.
Proof. exact HP.Proofs.OrderSites.tree_order_independent. Qed.
Print Assumptions tree_order_independent.

(** ... and it depends on the oracle only through [sort_bytes (π names)] *)
Theorem order_tree_through_sort :
  forall (NM : Num) (f g : list bytes -> list bytes),
    (forall l, sort_bytes (f l) = sort_bytes (g l)) ->
    forall t : tree NM, order_tree NM f t = order_tree NM g t.
Proof. exact HP.Proofs.OrderSites.order_tree_through_sort. Qed.
Print Assumptions order_tree_through_sort.

(** ReportElement *)
Theorem element_total_list_independent :
  forall (NM : Num) (π1 π2 : list bytes -> list bytes), order_oracle π1 -> order_oracle π2 ->
    forall (d : list (bytes * elements NM)) x,
      element_total_list NM π1 d x = element_total_list NM π2 d x.
Proof. exact HP.Proofs.OrderSites.element_total_list_independent. Qed.
Print Assumptions element_total_list_independent.

(** * the maps really are maps: pairwise different keys, for any input *)

(** the book, whatever bytes the database file holds *)
Theorem load_db_NoDup :
  forall (NM : Num) (o : opened), NoDup (keys (fst (load_db NM o))).
Proof. exact HP.Proofs.OrderInv.load_db_NoDup. Qed.
Print Assumptions load_db_NoDup.

(** resolution keeps the key list of the book (for any visiting order) *)
Theorem resolve_keys :
  forall (NM : Num) N (π : list bytes -> list bytes) (B B' : Resolver.db NM),
    resolve NM N π B = Some B' -> keys B' = keys B.
Proof. exact HP.Proofs.OrderInv.resolve_keys. Qed.
Print Assumptions resolve_keys.

(** the per-day accumulator *)
Theorem accumulate_NoDup :
  forall (NM : Num) (cs : elements NM), NoDup (keys (accumulate NM cs)).
Proof. exact HP.Proofs.OrderInv.accumulate_NoDup. Qed.
Print Assumptions accumulate_NoDup.

(** the state any walk hands to Flush satisfies the reporter's invariant
    ([rep_inv]: holds initially, kept by every Process call) ... *)
Theorem walk_state_inv :
  forall (NM : Num) (R : reporter NM) (I : RS NM R -> Prop), rep_inv NM R I ->
    forall pd toks bt et o wr,
      I (fst (fst (fst (parse_opened NM (walk_cb NM R pd toks bt et) o (r_init NM R, 0%nat, wr))))).
Proof. exact HP.Proofs.OrderInv.walk_state_inv. Qed.
Print Assumptions walk_state_inv.

(** ... instantiated: totals / quantity maps and the unresolved list have
    pairwise different keys, every node of the balance tree has children with
    pairwise different names *)
Theorem rep_totals_inv :
  forall (NM : Num) (d : list (bytes * elements NM)),
    rep_inv NM (rep_totals NM d) (fun acc : accumulator NM => NoDup (keys acc)).
Proof. exact HP.Proofs.OrderInv.rep_totals_inv. Qed.
Print Assumptions rep_totals_inv.

Theorem rep_quantity_inv :
  forall (NM : Num) desc, rep_inv NM (rep_quantity NM desc) (fun acc : elements NM => NoDup (keys acc)).
Proof. exact HP.Proofs.OrderInv.rep_quantity_inv. Qed.
Print Assumptions rep_quantity_inv.

Theorem rep_unresolved_inv :
  forall (NM : Num) (d : list (bytes * elements NM)),
    rep_inv NM (rep_unresolved NM d) (fun l : list bytes => NoDup l).
Proof. exact HP.Proofs.OrderInv.rep_unresolved_inv. Qed.
Print Assumptions rep_unresolved_inv.

Theorem rep_balance_inv :
  forall (NM : Num) c, rep_inv NM (rep_balance NM c) (wf_tree NM).
Proof. exact HP.Proofs.OrderInv.rep_balance_inv. Qed.
Print Assumptions rep_balance_inv.

(** * which order it is: there is exactly one admissible row order *)

(** any sorting procedure (Go's sort.Strings is not an insertion sort) gives [sort_bytes] *)
Theorem sort_bytes_unique :
  forall l s : list bytes, Permutation s l -> StronglySorted ble s -> s = sort_bytes l.
Proof. exact HP.Proofs.OrderSort.sort_bytes_unique. Qed.
Print Assumptions sort_bytes_unique.

(** total rows: one per key, names strictly ascending in Go's string order, under every oracle *)
Theorem totals_rows_strictly_ascending :
  forall (NM : Num) (π : list bytes -> list bytes), order_oracle π ->
    forall acc : accumulator NM, NoDup (keys acc) ->
      StronglySorted blt (map (row_name NM) (totals_of_acc NM π acc)).
Proof. exact HP.Proofs.OrderRows.totals_rows_strictly_ascending. Qed.
Print Assumptions totals_rows_strictly_ascending.

(** the ordered balance tree: at every node the children are in strictly ascending name order *)
Theorem order_tree_sorted :
  forall (NM : Num) (π : list bytes -> list bytes), order_oracle π ->
    forall t : tree NM, wf_tree NM t -> sorted_tree NM (order_tree NM π t).
Proof. exact HP.Proofs.OrderRows.order_tree_sorted. Qed.
Print Assumptions order_tree_sorted.
