(** Property C16 (settings precedence), the configuration file as TEXT (WP28).

    Props/C16.v states the precedence for a configuration file given as five entries ([FConfig e]).
    Here the file is a regular file of the model's file system: [Cli.load_config] reads its bytes
    with [Config.parse_config], an executable model of the subset of gcfg's syntax that
    [options.Load] reads through [gcfg.ReadInto] (sections [Global] / [Resolver], variables
    [Now], [DbFileName], [LogFileName], [DateFormat], [MaxDepth]; see Model/Config.v for the exact
    subset and Proofs/Config.REPORT.md for its validation against the real program).

    Definitions used in the statements: Spec/ConfigSpec.v ([render_config]: the text the test
    harness writes for five values; [cfg_plain]: the guard under which that text is inside the
    subset; [same_line], [skippable]: spellings of a line; [fields_of_cfg]: the five values as
    [parse_config] returns them), Proofs/ConfigRun.v ([line_accepted]), Proofs/Settings.v
    ([config_path], [file_string], [nonzero]), Proofs/SettingsNoDb.v ([same_but_fs], [agree_off]). *)
From HP Require Import Base.Bytes Base.Utf8 Base.Num Model.Scanner Model.Parser Model.Elements Model.Resolver
  Model.Dates Model.Tree Model.Writer Model.Reporters Model.Config Model.Cli Spec.ConfigSpec.
From HP Require Import Proofs.SettingsPickString Proofs.Settings Proofs.SettingsNoDb.
From HP Require Import Proofs.ConfigLine Proofs.ConfigRun Proofs.ConfigRender Proofs.ConfigLoad.

(** *** what [load_config] does with a regular file at the configuration path *)
Theorem load_config_text : forall w i data,
  lookup (config_path w i) (w_fs w) = Some (FFile data) ->
  load_config w i = match parse_config data with
                    | CfgOk f => inr (cfg_of_fields f)
                    | CfgError => inl EConfigSyntax
                    | CfgUnmodelled => inl (EUnmodelled (b "config file syntax"))
                    end.
Proof. exact ConfigLoad.load_config_text. Qed.
Print Assumptions load_config_text.

(** *** "the configuration file says X": the text the harness writes for the five values [e] is read
    back as exactly [e] *)
Theorem parse_render_config : forall e, cfg_plain e = true ->
  parse_config (render_config e) = CfgOk (fields_of_cfg e).
Proof. exact ConfigRender.parse_render_config. Qed.
Print Assumptions parse_render_config.

(** a world whose configuration file is the regular file [render_config e] loads exactly as the
    world with the entries [e] ... *)
Theorem load_config_file_eq_entries : forall w w' i e,
  cfg_plain e = true ->
  same_but_fs w w' ->
  lookup (config_path w i) (w_fs w) = Some (FFile (render_config e)) ->
  lookup (config_path w i) (w_fs w') = Some (FConfig e) ->
  load_config w i = inr e /\ load_config w' i = inr e /\ load w' i = load w i.
Proof. exact ConfigLoad.load_config_file_eq_entries. Qed.
Print Assumptions load_config_file_eq_entries.

(** ... and every command runs alike in the two worlds, for every arithmetic, when the
    configuration file is not also opened as the recipe book, the log or the linted file *)
Theorem run_config_file_eq_entries : forall NM w w' i e,
  cfg_plain e = true ->
  agree_off (config_path w i) w w' ->
  lookup (config_path w i) (w_fs w) = Some (FFile (render_config e)) ->
  lookup (config_path w i) (w_fs w') = Some (FConfig e) ->
  (forall op, load w i = inr op ->
     (op_db op = dev_null \/ config_path w i <> op_db op) /\ config_path w i <> op_log op) ->
  (forall f, i_cmd i = CLint f -> config_path w i <> f) ->
  run NM w' i = run NM w i.
Proof. exact ConfigLoad.run_config_file_eq_entries. Qed.
Print Assumptions run_config_file_eq_entries.

(** *** C16's precedence, the configuration file being ANY text of the modelled subset:
    "command line, else HR_* environment, else the configuration file, else the default" with the
    file's values those that [parse_config] reads from the text *)
Theorem settings_precedence_text : forall w i op data f,
  lookup (config_path w i) (w_fs w) = Some (FFile data) -> parse_config data = CfgOk f ->
  load w i = inr op ->
  op_db op = (if i_no_database i then dev_null
              else or_default (first_some [i_f_db i; i_e_db i; file_string (cf_db f)]) default_db) /\
  op_log op = or_default (first_some [i_f_log i; i_e_log i; file_string (cf_log f)]) default_log /\
  op_fmt op = or_default (first_some [i_f_fmt i; i_e_fmt i; file_string (cf_fmt f)]) default_fmt /\
  op_depth op = or_default (first_some [i_f_depth i; i_e_depth i; nonzero (cf_depth f)]) default_depth /\
  exists toks, tokenize (op_fmt op) = Some toks /\
    match i_f_today i with
    | Some s => exists c, parse_date toks s = Some c /\ op_now op = time_of_civil c
    | None => op_now op = time_of_civil (civ (or_default (first_some [cf_now f]) (w_clock w)))
    end.
Proof. exact ConfigLoad.settings_precedence_text. Qed.
Print Assumptions settings_precedence_text.

(** the same for the text the harness writes: [settings_precedence] of Props/C16.v with the file a
    real file *)
Theorem settings_precedence_rendered : forall w i op e,
  cfg_plain e = true ->
  lookup (config_path w i) (w_fs w) = Some (FFile (render_config e)) ->
  load w i = inr op ->
  op_db op = (if i_no_database i then dev_null
              else or_default (first_some [i_f_db i; i_e_db i; file_string (ce_db e)]) default_db) /\
  op_log op = or_default (first_some [i_f_log i; i_e_log i; file_string (ce_log e)]) default_log /\
  op_fmt op = or_default (first_some [i_f_fmt i; i_e_fmt i; file_string (ce_fmt e)]) default_fmt /\
  op_depth op = or_default (first_some [i_f_depth i; i_e_depth i; nonzero (ce_depth e)]) default_depth /\
  exists toks, tokenize (op_fmt op) = Some toks /\
    match i_f_today i with
    | Some s => exists c, parse_date toks s = Some c /\ op_now op = time_of_civil c
    | None => op_now op = time_of_civil (civ (or_default (first_some [ce_now e]) (w_clock w)))
    end.
Proof. exact ConfigLoad.settings_precedence_rendered. Qed.
Print Assumptions settings_precedence_rendered.

(** a text gcfg rejects (unknown section or variable, a name without '=', a value its field's parser
    rejects, a malformed line, NUL or invalid UTF-8): every command fails with the configuration
    error and prints nothing *)
Theorem config_text_error : forall NM w i data,
  lookup (config_path w i) (w_fs w) = Some (FFile data) -> parse_config data = CfgError ->
  load w i = inl EConfigSyntax /\
  run NM w i = {| out_stdout := []; out_status := Failed EConfigSyntax |}.
Proof. exact ConfigLoad.config_text_error. Qed.
Print Assumptions config_text_error.

(** *** layout does not matter *)

(** every spelling of a variable line: blanks (space, tab, CR) before the name, around '=' and after
    the value, a trailing comment or none *)
Theorem classify_line_var_spelled : forall n v p1 p2 p3 p4 cm,
  is_ident n = true -> is_value v = true ->
  all_blank p1 = true -> all_blank p2 = true -> all_blank p3 = true -> all_blank p4 = true -> is_comment cm = true ->
  classify_line (p1 ++ n ++ p2 ++ [61] ++ p3 ++ v ++ p4 ++ cm) = LVar n (Some v).
Proof. exact ConfigLine.classify_line_var_spelled. Qed.
Print Assumptions classify_line_var_spelled.

(** every spelling of a section header *)
Theorem classify_line_section_spelled : forall n p1 p2 p3 p4 cm,
  is_ident n = true ->
  all_blank p1 = true -> all_blank p2 = true -> all_blank p3 = true -> all_blank p4 = true -> is_comment cm = true ->
  classify_line (p1 ++ [91] ++ p2 ++ n ++ p3 ++ [93] ++ p4 ++ cm) = LSection n.
Proof. exact ConfigLine.classify_line_section_spelled. Qed.
Print Assumptions classify_line_section_spelled.

(** the result is a function of the signatures of the lines that are not blank / comment lines
    (signature: kind of line, lower-cased name, trimmed value) *)
Theorem parse_config_by_sig : forall ls1 ls2,
  Forall (fun l => lf_free l = true) ls1 -> Forall (fun l => lf_free l = true) ls2 ->
  text_sig ls1 = text_sig ls2 ->
  parse_config (join [c_lf] ls1) = parse_config (join [c_lf] ls2).
Proof. exact ConfigRun.parse_config_by_sig. Qed.
Print Assumptions parse_config_by_sig.

(** blanks around the tokens, CR before the LF, trailing comments, letter case of section and
    variable names: respelling every line does not change the result *)
Theorem parse_config_layout : forall ls1 ls2,
  Forall (fun l => lf_free l = true) ls1 -> Forall (fun l => lf_free l = true) ls2 ->
  Forall2 same_line ls1 ls2 ->
  parse_config (join [c_lf] ls1) = parse_config (join [c_lf] ls2).
Proof. exact ConfigRun.parse_config_layout. Qed.
Print Assumptions parse_config_layout.

(** blank lines and comment lines, anywhere *)
Theorem parse_config_skip_line : forall ls1 l ls2,
  Forall (fun x => lf_free x = true) ls1 -> lf_free l = true -> Forall (fun x => lf_free x = true) ls2 ->
  skippable l ->
  parse_config (join [c_lf] (ls1 ++ l :: ls2)) = parse_config (join [c_lf] (ls1 ++ ls2)).
Proof. exact ConfigRun.parse_config_skip_line. Qed.
Print Assumptions parse_config_skip_line.

(** *** what [CfgOk] means for the lines *)

(** every line of a text read as [CfgOk] is valid UTF-8 without NUL and is a blank / comment line, a
    header of one of the five sections, or [name = value] with one of the five names *)
Theorem parse_config_ok_lines : forall ls e, Forall (fun l => lf_free l = true) ls ->
  parse_config (join [c_lf] ls) = CfgOk e -> Forall line_accepted ls.
Proof. exact ConfigRun.parse_config_ok_lines. Qed.
Print Assumptions parse_config_ok_lines.

(** never [CfgOk] on a text with an unknown variable, or with a name without '=', wherever it stands *)
Theorem unknown_variable_never_ok : forall ls1 l ls2 n v e,
  Forall (fun x => lf_free x = true) ls1 -> lf_free l = true -> Forall (fun x => lf_free x = true) ls2 ->
  classify_line l = LVar n v ->
  known_variable (lower_name n) = false \/ v = None ->
  parse_config (join [c_lf] (ls1 ++ l :: ls2)) <> CfgOk e.
Proof. exact ConfigRun.unknown_variable_never_ok. Qed.
Print Assumptions unknown_variable_never_ok.

(** [parse_config] answers on every byte string, one of the three *)
Theorem parse_config_total : forall data,
  {f | parse_config data = CfgOk f} + {parse_config data = CfgError} + {parse_config data = CfgUnmodelled}.
Proof. exact ConfigRun.parse_config_total. Qed.
Print Assumptions parse_config_total.
