(** Property C12 — reports compose over the log history.

    "For every sequence of days appended to a log, the per-day reports
    (register, CSV log, print, single-food and single-element registers) of the
    concatenated log equal the concatenation of the reports of its parts, so
    appending a day never changes what is shown for earlier days.  Period
    reports (balance, totals, quantity) of the concatenation equal the
    element-wise sum of the parts, and days are independent even when the same
    date occurs more than once."

    A history is a list of parser events; [report R pd pf toks bt et evs] is the
    standard output and the error of the command with reporter [R] on a
    standard output that never fails ([Spec/ComposeSpec.v]); the first two
    theorems tie it to the model's [walk_and_finish] and [bufio] writer.
    [perday_reporter] / [period_reporter] enumerate the reporters of the two
    sentences. *)
From HP Require Import Base.Bytes Base.Utf8 Base.Num Model.Scanner Model.Parser Model.Elements Model.Dates
  Model.Tree Model.Writer Model.Regex Model.Reporters Model.Cli Spec.ComposeSpec
  Proofs.ComposeWriter Proofs.ComposeWalk Proofs.ComposeAssoc Proofs.ComposePerDay Proofs.ComposePeriod
  Proofs.ComposeAdd Proofs.ComposeTree Proofs.ComposeTreePaths Proofs.ComposeRun.
From HP Require Import Spec.TreeShared.

(** The output path in front of a sink that never fails: nothing is lost, nothing is reported. *)
Theorem writer_nofail : forall (w : bw) (cs : list chunk),
  bw_err w = false -> s_limit (bw_sink w) = None ->
  let '(w1, e1) := bw_chunks w cs in
  let '(w2, e2) := bw_flush w1 in
  e1 = false /\ e2 = false
  /\ s_got (bw_sink w2) = s_got (bw_sink w) ++ bw_buf w ++ concat (map fst cs)
  /\ bw_err w2 = false.
Proof. exact nofail_chunks_flush. Qed.
Print Assumptions writer_nofail.

(** [report_from] (hence [report]) is what the program does on a readable file:
    the last record, handed over after the loop with its stop flag ignored, included. *)
Theorem walk_and_finish_is_report : forall (NM : Num) (R : reporter NM) (pd : nat -> list bytes -> list bytes)
    (pf : list bytes -> list bytes) (toks : list ltoken) (bt et : option time) (data : bytes) (wr : bw),
  snd (scan data NoFault) = ScanEOF ->
  walk_and_finish NM R pd pf toks bt et (OData data NoFault) wr
  = report_from NM R pd pf toks bt et wr (events NM data).
Proof. exact walk_and_finish_events. Qed.
Print Assumptions walk_and_finish_is_report.

(** "the per-day reports ... of the concatenated log equal the concatenation of
    the reports of its parts"; [k] = number of selected days of the first part
    (the second part's per-day oracle sites are numbered from [k]); the error of
    the whole is the error of the second part. *)
Theorem perday_reports_concat : forall (NM : Num) (R : reporter NM),
  perday_reporter NM R ->
  forall (pd : nat -> list bytes -> list bytes) (pf : list bytes -> list bytes)
         (toks : list ltoken) (bt et : option time) (evs1 evs2 : list (event NM)),
    snd (report NM R pd pf toks bt et evs1) = None ->
    let k := selected_days NM toks bt et evs1 in
    fst (report NM R pd pf toks bt et (evs1 ++ evs2))
      = fst (report NM R pd pf toks bt et evs1)
        ++ fst (report NM R (fun i : nat => pd (k + i)) pf toks bt et evs2)
    /\ snd (report NM R pd pf toks bt et (evs1 ++ evs2))
      = snd (report NM R (fun i : nat => pd (k + i)) pf toks bt et evs2).
Proof. exact ComposePerDay.perday_reports_concat. Qed.
Print Assumptions perday_reports_concat.

(** when the first part fails the rest is never looked at (every reporter) *)
Theorem report_stops_at_error : forall (NM : Num) (R : reporter NM) (pd : nat -> list bytes -> list bytes)
    (pf : list bytes -> list bytes) (toks : list ltoken) (bt et : option time) (evs1 evs2 : list (event NM)),
  snd (report NM R pd pf toks bt et evs1) <> None ->
  report NM R pd pf toks bt et (evs1 ++ evs2) = report NM R pd pf toks bt et evs1.
Proof. exact ComposePerDay.report_stops_at_error. Qed.
Print Assumptions report_stops_at_error.

(** "appending a day never changes what is shown for earlier days" (no hypothesis at all) *)
Theorem earlier_days_unchanged : forall (NM : Num) (R : reporter NM),
  perday_reporter NM R ->
  forall (pd : nat -> list bytes -> list bytes) (pf : list bytes -> list bytes)
         (toks : list ltoken) (bt et : option time) (evs1 evs2 : list (event NM)),
    bprefix (fst (report NM R pd pf toks bt et evs1)) (fst (report NM R pd pf toks bt et (evs1 ++ evs2))).
Proof. exact ComposePerDay.earlier_days_unchanged. Qed.
Print Assumptions earlier_days_unchanged.

(** "days are independent even when the same date occurs more than once":
    what [Process] writes and returns for a day does not depend on the state
    left by the days before ... *)
Theorem days_independent : forall (NM : Num) (R : reporter NM),
  perday_reporter NM R ->
  forall (pi : list bytes -> list bytes) (st st' : RS NM R) (ln : lognode NM),
    snd (fst (r_process NM R pi st ln)) = snd (fst (r_process NM R pi st' ln))
    /\ snd (r_process NM R pi st ln) = snd (r_process NM R pi st' ln).
Proof. exact ComposePerDay.days_independent. Qed.
Print Assumptions days_independent.

(** ... so the report of a history that walks without error is the
    concatenation, day by day, of a rendering of that day alone *)
Theorem perday_report_days : forall (NM : Num) (R : reporter NM),
  perday_reporter NM R ->
  forall (pd : nat -> list bytes -> list bytes) (pf : list bytes -> list bytes)
         (toks : list ltoken) (bt et : option time) (evs : list (event NM)),
    snd (report NM R pd pf toks bt et evs) = None ->
    fst (report NM R pd pf toks bt et evs) = days_bytes NM R pd 0 (fst (walked_nodes NM toks bt et evs))
    /\ snd (walked_nodes NM toks bt et evs) = None.
Proof. exact ComposePerDay.perday_report_days. Qed.
Print Assumptions perday_report_days.

(** the only state a per-day reporter has (the panic flag of the
    single-element register) is never set *)
Theorem perday_no_panic : forall (NM : Num) (R : reporter NM),
  perday_reporter NM R ->
  forall (pd : nat -> list bytes -> list bytes) (pf : list bytes -> list bytes)
         (toks : list ltoken) (bt et : option time) (evs : list (event NM)),
    r_panic NM R (report_state NM R pd pf toks bt et evs) = None.
Proof. exact ComposePerDay.perday_no_panic. Qed.
Print Assumptions perday_no_panic.

(** Period reporters: nothing is written before [Flush], whatever the writer and its sink ... *)
Theorem period_walk_silent : forall (NM : Num) (R : reporter NM),
  period_reporter NM R ->
  forall (pd : nat -> list bytes -> list bytes) (toks : list ltoken) (bt et : option time)
         (evs : list (event NM)) (st : walk_state NM R),
    snd (fst (walk_events NM R pd toks bt et evs st)) = snd st.
Proof. exact ComposePeriod.period_walk_silent. Qed.
Print Assumptions period_walk_silent.

(** ... the report is what [Flush] writes for the fold of the selected days ... *)
Theorem period_report : forall (NM : Num) (R : reporter NM),
  period_reporter NM R ->
  forall (pd : nat -> list bytes -> list bytes) (pf : list bytes -> list bytes)
         (toks : list ltoken) (bt et : option time) (evs : list (event NM)),
    report_state NM R pd pf toks bt et evs
      = fold_left (pstep NM R) (fst (walked_nodes NM toks bt et evs)) (r_init NM R)
    /\ fst (report NM R pd pf toks bt et evs)
      = concat (map fst (r_flush NM R pf (report_state NM R pd pf toks bt et evs)))
    /\ snd (report NM R pd pf toks bt et evs) = snd (walked_nodes NM toks bt et evs).
Proof. exact ComposePeriod.period_report. Qed.
Print Assumptions period_report.

(** ... and the state after a concatenation is the fold of the second part
    started from the state after the first (no law of arithmetic needed) *)
Theorem period_state_fold : forall (NM : Num) (R : reporter NM),
  period_reporter NM R ->
  forall (pd : nat -> list bytes -> list bytes) (pf : list bytes -> list bytes)
         (pd' : nat -> list bytes -> list bytes) (pf' : list bytes -> list bytes)
         (toks : list ltoken) (bt et : option time) (evs1 evs2 : list (event NM)),
    snd (report NM R pd pf toks bt et evs1) = None ->
    report_state NM R pd pf toks bt et (evs1 ++ evs2)
      = fold_left (pstep NM R) (fst (walked_nodes NM toks bt et evs2))
          (report_state NM R pd' pf' toks bt et evs1)
    /\ snd (report NM R pd pf toks bt et (evs1 ++ evs2)) = snd (walked_nodes NM toks bt et evs2).
Proof. exact ComposePeriod.period_state_fold. Qed.
Print Assumptions period_state_fold.

(** "Period reports ... of the concatenation equal the element-wise sum of the
    parts" ([AddMonoid NM]: [add] commutative, associative, [zero] neutral).
    Totals: per element, (positive, negative) add up; elements = union in first-appearance order. *)
Theorem period_reports_add_totals : forall NM : Num,
  AddMonoid NM ->
  forall (pd pd1 pd2 : nat -> list bytes -> list bytes) (pf pf1 pf2 : list bytes -> list bytes)
         (toks : list ltoken) (bt et : option time) (d : list (bytes * elements NM))
         (evs1 evs2 : list (event NM)),
    snd (report NM (rep_totals NM d) pd pf toks bt et evs1) = None ->
    let a1 : accumulator NM := report_state NM (rep_totals NM d) pd1 pf1 toks bt et evs1 in
    let a2 : accumulator NM := report_state NM (rep_totals NM d) pd2 pf2 toks bt et evs2 in
    let a12 : accumulator NM := report_state NM (rep_totals NM d) pd pf toks bt et (evs1 ++ evs2) in
    (forall x : bytes, acc_get NM x a12 = pair_add NM (acc_get NM x a1) (acc_get NM x a2))
    /\ keys a12 = union_keys (keys a1) (keys a2).
Proof. exact ComposeAdd.period_reports_add_totals. Qed.
Print Assumptions period_reports_add_totals.

(** by-food register (reg -s X -g): the same *)
Theorem period_reports_add_byfood : forall NM : Num,
  AddMonoid NM ->
  forall (pd pd1 pd2 : nat -> list bytes -> list bytes) (pf pf1 pf2 : list bytes -> list bytes)
         (toks : list ltoken) (bt et : option time) (c : rconfig) (d : list (bytes * elements NM))
         (evs1 evs2 : list (event NM)),
    snd (report NM (rep_byfood NM c d) pd pf toks bt et evs1) = None ->
    let a1 : accumulator NM := report_state NM (rep_byfood NM c d) pd1 pf1 toks bt et evs1 in
    let a2 : accumulator NM := report_state NM (rep_byfood NM c d) pd2 pf2 toks bt et evs2 in
    let a12 : accumulator NM := report_state NM (rep_byfood NM c d) pd pf toks bt et (evs1 ++ evs2) in
    (forall x : bytes, acc_get NM x a12 = pair_add NM (acc_get NM x a1) (acc_get NM x a2))
    /\ keys a12 = union_keys (keys a1) (keys a2).
Proof. exact ComposeAdd.period_reports_add_byfood. Qed.
Print Assumptions period_reports_add_byfood.

(** quantity: per food, quantities add up; foods = union in first-appearance order *)
Theorem period_reports_add_quantity : forall NM : Num,
  AddMonoid NM ->
  forall (pd pd1 pd2 : nat -> list bytes -> list bytes) (pf pf1 pf2 : list bytes -> list bytes)
         (toks : list ltoken) (bt et : option time) (desc : bool) (evs1 evs2 : list (event NM)),
    snd (report NM (rep_quantity NM desc) pd pf toks bt et evs1) = None ->
    let q1 : elements NM := report_state NM (rep_quantity NM desc) pd1 pf1 toks bt et evs1 in
    let q2 : elements NM := report_state NM (rep_quantity NM desc) pd2 pf2 toks bt et evs2 in
    let q12 : elements NM := report_state NM (rep_quantity NM desc) pd pf toks bt et (evs1 ++ evs2) in
    (forall f : bytes, qty_get NM f q12 = add NM (qty_get NM f q1) (qty_get NM f q2))
    /\ keys q12 = union_keys (keys q1) (keys q2).
Proof. exact ComposeAdd.period_reports_add_quantity. Qed.
Print Assumptions period_reports_add_quantity.

(** balance: at every path the totals add up (missing = 0); the paths are the union *)
Theorem period_reports_add_balance : forall NM : Num,
  AddMonoid NM ->
  forall (pd pd1 pd2 : nat -> list bytes -> list bytes) (pf pf1 pf2 : list bytes -> list bytes)
         (toks : list ltoken) (bt et : option time) (c : rconfig) (evs1 evs2 : list (event NM)),
    snd (report NM (rep_balance NM c) pd pf toks bt et evs1) = None ->
    let t1 : tree NM := report_state NM (rep_balance NM c) pd1 pf1 toks bt et evs1 in
    let t2 : tree NM := report_state NM (rep_balance NM c) pd2 pf2 toks bt et evs2 in
    let t12 : tree NM := report_state NM (rep_balance NM c) pd pf toks bt et (evs1 ++ evs2) in
    (forall p : list bytes, total_at NM p t12 = add NM (total_at NM p t1) (total_at NM p t2))
    /\ (forall p : list bytes, has_path NM p t12 <-> has_path NM p t1 \/ has_path NM p t2).
Proof. exact ComposeTree.period_reports_add_balance. Qed.
Print Assumptions period_reports_add_balance.

(** single-element balance: the tree likewise ... *)
Theorem period_reports_add_balance_single_tree : forall NM : Num,
  AddMonoid NM ->
  forall (pd pd1 pd2 : nat -> list bytes -> list bytes) (pf pf1 pf2 : list bytes -> list bytes)
         (toks : list ltoken) (bt et : option time) (c : rconfig) (d : list (bytes * elements NM))
         (evs1 evs2 : list (event NM)),
    snd (report NM (rep_balance_single NM c d) pd pf toks bt et evs1) = None ->
    let t1 : tree NM := fst (report_state NM (rep_balance_single NM c d) pd1 pf1 toks bt et evs1 : tree NM * T NM) in
    let t2 : tree NM := fst (report_state NM (rep_balance_single NM c d) pd2 pf2 toks bt et evs2 : tree NM * T NM) in
    let t12 : tree NM := fst (report_state NM (rep_balance_single NM c d) pd pf toks bt et (evs1 ++ evs2) : tree NM * T NM) in
    (forall p : list bytes, total_at NM p t12 = add NM (total_at NM p t1) (total_at NM p t2))
    /\ (forall p : list bytes, has_path NM p t12 <-> has_path NM p t1 \/ has_path NM p t2).
Proof. exact ComposeTree.period_reports_add_balance_single_tree. Qed.
Print Assumptions period_reports_add_balance_single_tree.

(** ... and the grand total *)
Theorem period_reports_add_balance_single_grand : forall NM : Num,
  AddMonoid NM ->
  forall (pd pd1 pd2 : nat -> list bytes -> list bytes) (pf pf1 pf2 : list bytes -> list bytes)
         (toks : list ltoken) (bt et : option time) (c : rconfig) (d : list (bytes * elements NM))
         (evs1 evs2 : list (event NM)),
    snd (report NM (rep_balance_single NM c d) pd pf toks bt et evs1) = None ->
    let g1 : T NM := snd (report_state NM (rep_balance_single NM c d) pd1 pf1 toks bt et evs1 : tree NM * T NM) in
    let g2 : T NM := snd (report_state NM (rep_balance_single NM c d) pd2 pf2 toks bt et evs2 : tree NM * T NM) in
    let g12 : T NM := snd (report_state NM (rep_balance_single NM c d) pd pf toks bt et (evs1 ++ evs2) : tree NM * T NM) in
    g12 = add NM g1 g2.
Proof. exact ComposeAdd.period_reports_add_balance_single_grand. Qed.
Print Assumptions period_reports_add_balance_single_grand.

(** unresolved names: the union in first-appearance order (no law needed) *)
Theorem period_reports_union_unresolved : forall (NM : Num) (pd pd1 pd2 : nat -> list bytes -> list bytes)
    (pf pf1 pf2 : list bytes -> list bytes) (toks : list ltoken) (bt et : option time)
    (d : list (bytes * elements NM)) (evs1 evs2 : list (event NM)),
  snd (report NM (rep_unresolved NM d) pd pf toks bt et evs1) = None ->
  let u1 : list bytes := report_state NM (rep_unresolved NM d) pd1 pf1 toks bt et evs1 in
  let u2 : list bytes := report_state NM (rep_unresolved NM d) pd2 pf2 toks bt et evs2 in
  let u12 : list bytes := report_state NM (rep_unresolved NM d) pd pf toks bt et (evs1 ++ evs2) in
  u12 = union_keys u1 u2.
Proof. exact ComposeAdd.period_reports_union_unresolved. Qed.
Print Assumptions period_reports_union_unresolved.

(** the same in the shared vocabulary of [Spec/TreeShared.v]: the paths listed
    by [tree_paths] are the union, and every listed total is the sum of the
    parts' totals at that path (the trees the reporter builds are well-formed:
    [ComposeTreePaths.balance_state_wf]) *)
Theorem period_reports_add_balance_paths : forall NM : Num,
  AddMonoid NM ->
  forall (pd pd1 pd2 : nat -> list bytes -> list bytes) (pf pf1 pf2 : list bytes -> list bytes)
         (toks : list ltoken) (bt et : option time) (c : rconfig) (evs1 evs2 : list (event NM)),
    snd (report NM (rep_balance NM c) pd pf toks bt et evs1) = None ->
    let t1 : tree NM := report_state NM (rep_balance NM c) pd1 pf1 toks bt et evs1 in
    let t2 : tree NM := report_state NM (rep_balance NM c) pd2 pf2 toks bt et evs2 in
    let t12 : tree NM := report_state NM (rep_balance NM c) pd pf toks bt et (evs1 ++ evs2) in
    (forall p : list bytes,
        In p (map fst (tree_paths NM t12))
        <-> In p (map fst (tree_paths NM t1)) \/ In p (map fst (tree_paths NM t2)))
    /\ (forall (p : list bytes) (x : T NM),
          In (p, x) (tree_paths NM t12) -> x = add NM (total_at NM p t1) (total_at NM p t2)).
Proof. exact ComposeTreePaths.period_reports_add_balance_paths. Qed.
Print Assumptions period_reports_add_balance_paths.

(** [report] is what the commands print: the two command shapes of Cli.v on a
    readable log, with a standard output that never fails *)
Theorem run_log_report : forall (NM : Num) (w : world) (op : options) (R : reporter NM) (data : bytes)
    (toks : list ltoken),
  w_sink w = None ->
  open_file w (op_log op) = Some (OData data NoFault) ->
  snd (scan data NoFault) = ScanEOF ->
  tokenize (op_fmt op) = Some toks ->
  let rp := report NM R (o_day (w_or w)) (o_flush (w_or w)) toks (op_begin op) (op_end op) (events NM data) in
  run_log NM w op R = {| out_stdout := fst rp; out_status := status_of (snd rp) |}.
Proof. exact ComposeRun.run_log_report. Qed.
Print Assumptions run_log_report.

Theorem run_db_log_report : forall (NM : Num) (w : world) (op : options)
    (mk : list (bytes * elements NM) -> reporter NM) (bt et : option time) (odb : opened)
    (d : list (bytes * elements NM)) (data : bytes) (toks : list ltoken),
  w_sink w = None ->
  open_file w (op_db op) = Some odb ->
  open_file w (op_log op) = Some (OData data NoFault) ->
  resolved_db NM w op odb = inr d ->
  snd (scan data NoFault) = ScanEOF ->
  tokenize (op_fmt op) = Some toks ->
  let R := mk d in
  let rp := report NM R (o_day (w_or w)) (o_flush (w_or w)) toks bt et (events NM data) in
  let rs := report_state NM R (o_day (w_or w)) (o_flush (w_or w)) toks bt et (events NM data) in
  run_db_log NM w op mk bt et
  = {| out_stdout := fst rp;
       out_status := match r_panic NM R rs with Some site => Panicked site | None => status_of (snd rp) end |}.
Proof. exact ComposeRun.run_db_log_report. Qed.
Print Assumptions run_db_log_report.

(** the reporters [reg] and [balance] choose are of the two kinds *)
Theorem reg_reporter_kind : forall (NM : Num) (c : rconfig) (d : list (bytes * elements NM)),
  rc_single_food c = [] \/ parse_regex (rc_single_food c) <> ReUnmodelled ->
  perday_reporter NM (reg_reporter NM c d) \/ period_reporter NM (reg_reporter NM c d).
Proof. exact ComposeRun.reg_reporter_kind. Qed.
Print Assumptions reg_reporter_kind.

Theorem bal_reporter_kind : forall (NM : Num) (c : rconfig) (d : list (bytes * elements NM)),
  period_reporter NM (bal_reporter NM c d).
Proof. exact ComposeRun.bal_reporter_kind. Qed.
Print Assumptions bal_reporter_kind.
