(** C13 -- CSV exports are lossless and machine-readable: the statements of Props/C13.v that were
    about the reporter or about [sort_bytes] order only, lifted to the program [run] (WP22).
    Final statements only; the proofs are in Proofs/CsvRun*.v. *)
From Coq Require Import Permutation Sorted.
From HP Require Import Base.Bytes Base.Num Model.Scanner Model.Parser Model.Elements Model.Resolver Model.Dates
  Model.Writer Model.Csv Model.Reporters Model.Cli
  Spec.RegisterSpec Spec.ResolverSpec Spec.Agree2Spec
  Proofs.OrderSites Proofs.CsvWalk
  Proofs.CsvRunLog Proofs.CsvRunLogGen Proofs.CsvRunResolved Proofs.CsvRunAll.

(** "read back to exactly one row per (day, distinct food) in file order for the log":
    [csv log] on a log file that opens as a regular file without read fault, has no line of 64 KiB
    or more, no malformed line, and only headings that are dates under the configured layout;
    standard output never failing.  The command succeeds and its output decodes to one row
    [ISO date; food; %.3f quantity] per record of the file whose date is in the period (file order,
    repeated dates kept), and within a record per DISTINCT food in order of first appearance
    ([first_occurrences]), the quantity being the first-assign-then-add sum of the record's entries
    of that food ([qty_of], Spec/RegisterSpec.v). *)
Theorem csv_log_run_reads_back : forall (NM : Num) (w : world) (i : invocation) (op : options) (ldata : bytes),
  load w i = inr op -> i_cmd i = CCsvLog ->
  w_sink w = None ->
  open_file w (op_log op) = Some (OData ldata NoFault) ->
  snd (scan ldata NoFault) = ScanEOF ->
  no_parse_error NM (events NM ldata) ->
  all_dated NM (rc_date (op_rc op)) (nodes_of NM (events NM ldata)) ->
  let rows :=
    flat_map (fun n => match parse_date (rc_date (op_rc op)) (header n) with
                       | Some c =>
                           if in_interval (op_begin op) (op_end op) (time_of_civil c)
                           then map (fun f => [format_date iso_date c; f; f3 NM (qty_of NM (elems n) f)])
                                    (first_occurrences NM (elems n))
                           else []
                       | None => []
                       end) (nodes_of NM (events NM ldata)) in
  out_status (run NM w i) = Ok
  /\ out_stdout (run NM w i) = concat (map csv_record rows)
  /\ csv_decode (out_stdout (run NM w i)) = Some rows.
Proof. exact CsvRunLog.csv_log_run_reads_back. Qed.
Print Assumptions csv_log_run_reads_back.

(** "distinct food": the food fields of a day's rows are the logged names, each once, in order of
    first appearance *)
Theorem csv_log_day_foods_distinct : forall (NM : Num) (c : Z * Z * Z) (es : list (bytes * T NM)),
  map (fun r => nth 1 r [])
      (map (fun f => [format_date iso_date c; f; f3 NM (qty_of NM es f)]) (first_occurrences NM es))
  = first_occurrences NM es
  /\ NoDup (first_occurrences NM es)
  /\ (forall f, In f (first_occurrences NM es) <-> In f (map fst es)).
Proof. exact CsvRunLog.log_day_rows_foods. Qed.
Print Assumptions csv_log_day_foods_distinct.

(** beyond the property: ANY readable log (regular file without read fault, or the null device; since fix F24 NOT the empty name, which does not open).
    [log_walk toks bt et evs] (Proofs/CsvRunLogGen.v) = the rows as above of the records delivered
    BEFORE the first malformed line or heading that is not a date, and that failure;
    [csv_delivered] / [scan_status] (Proofs/CsvWalk.v) = what the parser delivers and the scanner's
    own error (over-long line).  The partial export still decodes. *)
Theorem csv_log_run_general : forall (NM : Num) (w : world) (i : invocation) (op : options) (o : opened) (data : bytes),
  load w i = inr op -> i_cmd i = CCsvLog ->
  w_sink w = None ->
  open_file w (op_log op) = Some o -> readable_as o data ->
  let lw := log_walk NM (rc_date (op_rc op)) (op_begin op) (op_end op) (csv_delivered NM data) in
  out_stdout (run NM w i) = concat (map csv_record (fst lw))
  /\ csv_decode (out_stdout (run NM w i)) = Some (fst lw)
  /\ out_status (run NM w i) = status_of (match snd lw with Some e => Some e | None => scan_status data end).
Proof. exact CsvRunLogGen.csv_log_run_general. Qed.
Print Assumptions csv_log_run_general.

(** ... and without failure [log_walk] is the list of rows of the first theorem *)
Theorem log_walk_clean : forall (NM : Num) toks bt et (ns : list (pnode NM)),
  all_dated NM toks ns ->
  log_walk NM toks bt et (map ENode ns) = (log_rows NM toks bt et ns, None).
Proof. exact CsvRunLogGen.log_walk_clean. Qed.
Print Assumptions log_walk_clean.

(** "one row per (recipe, resolved element) sorted by recipe then element for the resolved book":
    [csv database-resolved] when the book opens and resolves to [d], map iteration orders
    admissible ([oracles_ok]: every [range] delivers a permutation of the keys), standard output
    never failing.  [ts] = the (recipe, element, amount) triples exported, in output order; the
    output decodes to [recipe; element; %.2f amount] of them; their keys (recipe, element) are
    STRICTLY increasing in the lexicographic order by Go's [<] on strings, hence pairwise
    different; and the triples are exactly the (recipe, element, amount) of the resolved book. *)
Theorem csv_db_resolved_run_sorted :
  forall (NM : Num) (w : world) (i : invocation) (op : options) (o : opened) (d : list (bytes * elements NM)),
  load w i = inr op -> i_cmd i = CCsvDbResolved ->
  oracles_ok (w_or w) ->
  w_sink w = None -> open_file w (op_db op) = Some o -> resolved_db NM w op o = inr d ->
  let ts : list (bytes * bytes * T NM) :=
    flat_map (fun r => map (fun e => (r, fst e, snd e)) (match lookup r d with Some els => els | None => [] end))
             (sort_bytes (keys d)) in
  let rows := map (fun t => [fst (fst t); snd (fst t); f2 NM (snd t)]) ts in
  out_stdout (run NM w i) = concat (map csv_record rows)
  /\ csv_decode (out_stdout (run NM w i)) = Some rows
  /\ out_status (run NM w i) = Ok
  /\ StronglySorted (fun a c : bytes * bytes =>
                       bltb (fst a) (fst c) = true \/ (fst a = fst c /\ bltb (snd a) (snd c) = true))
                    (map fst ts)
  /\ NoDup (map fst ts)
  /\ (forall r x a, In (r, x, a) ts <-> exists v, lookup r d = Some v /\ lookup x v = Some a).
Proof. exact CsvRunResolved.csv_db_resolved_run_sorted. Qed.
Print Assumptions csv_db_resolved_run_sorted.

(** the same on the expressions of Props/C13.v [csv_db_resolved_rows_spec]: its [recipes] are
    strictly increasing, one per recipe of the book, and each resolved list is strictly increasing *)
Theorem csv_db_resolved_recipes_strict :
  forall (NM : Num) (w : world) (op : options) (o : opened) (d : list (bytes * elements NM)),
  oracles_ok (w_or w) -> resolved_db NM w op o = inr d ->
  let recipes := sort_bytes (o_flush (w_or w) (keys d)) in
  recipes = sort_bytes (keys d)
  /\ Permutation recipes (keys d)
  /\ StronglySorted (fun a c => bltb a c = true) recipes
  /\ (forall r, In r recipes -> exists v, lookup r d = Some v)
  /\ (forall r v, lookup r d = Some v ->
        StronglySorted (fun x y => bltb (fst x) (fst y) = true) v /\ NoDup (map fst v)).
Proof. exact CsvRunResolved.csv_db_resolved_recipes_strict. Qed.
Print Assumptions csv_db_resolved_recipes_strict.

(** "each value is the resolved amount" in the words of C01 (commutative semiring): the value of
    row (r, x) is the sum over the ingredient paths from recipe [r] to [x] of the products along
    the path, in the book [B] as loaded from the file; [x] is a basic name of [B] *)
Theorem csv_db_resolved_values : forall (NM : Num), CSemiring NM ->
  forall (w : world) (op : options) (o : opened) (d : list (bytes * elements NM)),
  oracles_ok (w_or w) -> resolved_db NM w op o = inr d ->
  exists B, load_db NM o = (B, None) /\ keys d = keys B
    /\ forall r x a,
         In (r, x, a) (flat_map (fun r => map (fun e => (r, fst e, snd e))
                                              (match lookup r d with Some els => els | None => [] end))
                                (sort_bytes (keys d))) ->
         In r (keys B) /\ lookup x B = None
         /\ a = sum_of NM x (paths NM B (Z.to_nat (op_depth op)) r).
Proof. exact CsvRunResolved.csv_db_resolved_values. Qed.
Print Assumptions csv_db_resolved_values.

(** "the CSV exports are valid RFC 4180": ANY world whose standard output never fails -- any
    files, flags, read faults, map orders, successful or failed run -- the three exports write a
    concatenation of records of exactly three fields, which the independent reader decodes *)
Theorem csv_exports_are_rfc4180 : forall (NM : Num) (w : world) (i : invocation),
  w_sink w = None ->
  i_cmd i = CCsvLog \/ i_cmd i = CCsvDb \/ i_cmd i = CCsvDbResolved ->
  exists rows : list (list bytes),
    Forall (fun r => length r = 3%nat) rows
    /\ out_stdout (run NM w i) = concat (map csv_record rows)
    /\ csv_decode (out_stdout (run NM w i)) = Some rows.
Proof. exact CsvRunAll.csv_exports_are_rfc4180. Qed.
Print Assumptions csv_exports_are_rfc4180.
