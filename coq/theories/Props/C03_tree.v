(** Property C03, first half: the balance tree.
    "For every log, the balance report shows each category path (food name split
    on '/') exactly once, siblings sorted by name, with the sum of the quantities
    of all logged foods at or below that path (for a single element: quantity
    times the food's resolved amount of that element), so every parent equals its
    own entries plus its children and the single-element grand total equals the
    sum of the top-level rows."  (The display modes are WP09's half.)

    Reference definitions: Spec/TreeSpec.v ([segs], [is_prefix_path], [total_at],
    [own], [sum_r], [prefix_free], [node_at], [sorted_tree], [bal_run],
    [bal_single_run]) and Spec/TreeShared.v ([tree_paths], [tree_leaves],
    [wf_tree], [slash_free_below], [chain_const_below]). *)
From HP Require Import Base.Bytes Base.Num Model.Elements Model.Tree Model.Reporters.
From HP Require Import Spec.TreeShared Spec.TreeSpec.
From HP Require Proofs.TreeBuild Proofs.TreeChain Proofs.TreeOrder Proofs.TreeSums Proofs.TreeLeaves Proofs.TreeMain.
From Coq Require Import Sorted Permutation.

(** "for every log": the state of the balance reporter after any sequence of
    days is the tree of all the logged entries, in order (days are appended) *)
Theorem bal_run_is_built : forall (NM : Num) (c : rconfig) (perms : nat -> list bytes -> list bytes) (lns : list (lognode NM)),
  bal_run NM c perms lns = tree_add_all NM (empty_root NM) (flat_map (ln_elems NM) lns).
Proof. exact TreeMain.bal_run_is_built. Qed.
Print Assumptions bal_run_is_built.

Theorem tree_add_all_app : forall (NM : Num) (t : tree NM) (es1 es2 : list (bytes * T NM)),
  tree_add_all NM t (es1 ++ es2) = tree_add_all NM (tree_add_all NM t es1) es2.
Proof. exact TreeBuild.tree_add_all_app. Qed.
Print Assumptions tree_add_all_app.

(** "each category path (food name split on '/') exactly once" *)
Theorem tree_paths_once : forall (NM : Num) (es : list (bytes * T NM)),
  let t := tree_add_all NM (empty_root NM) es in
  NoDup (map fst (tree_paths NM t)) /\
  (forall p, In p (map fst (tree_paths NM t)) <->
             p <> [] /\ exists f q, In (f, q) es /\ is_prefix_path p (segs f) = true).
Proof. exact TreeBuild.tree_paths_once. Qed.
Print Assumptions tree_paths_once.

(** "with the sum of the quantities of all logged foods at or below that path"
    (first quantity initialises, later ones are added on the right; no law on [NM]) *)
Theorem tree_total_spec : forall (NM : Num) (es : list (bytes * T NM)) (p : list bytes) (x : T NM),
  In (p, x) (tree_paths NM (tree_add_all NM (empty_root NM) es)) -> x = total_at NM es p.
Proof. exact TreeBuild.tree_total_spec. Qed.
Print Assumptions tree_total_spec.

(** "siblings sorted by name": whatever order the runtime delivers map keys in,
    the ordered tree has strictly increasing siblings everywhere, the same nodes
    with the same totals, and is the same tree for every oracle *)
Theorem order_tree_sorted : forall (NM : Num) (es : list (bytes * T NM)) (pi1 pi2 : list bytes -> list bytes),
  (forall l, Permutation (pi1 l) l) -> (forall l, Permutation (pi2 l) l) ->
  sorted_tree NM (order_tree NM pi1 (tree_add_all NM (empty_root NM) es)) /\
  Permutation (tree_paths NM (order_tree NM pi1 (tree_add_all NM (empty_root NM) es)))
              (tree_paths NM (tree_add_all NM (empty_root NM) es)) /\
  order_tree NM pi1 (tree_add_all NM (empty_root NM) es) = order_tree NM pi2 (tree_add_all NM (empty_root NM) es).
Proof. exact TreeMain.order_tree_sorted. Qed.
Print Assumptions order_tree_sorted.

(** the rows the printers walk over: each path once, in lexicographic order, with its specified total *)
Theorem ordered_paths_spec : forall (NM : Num) (es : list (bytes * T NM)) (pi : list bytes -> list bytes),
  (forall l, Permutation (pi l) l) ->
  let ot := order_tree NM pi (tree_add_all NM (empty_root NM) es) in
  NoDup (map fst (tree_paths NM ot)) /\
  StronglySorted (fun p q => path_ltb p q = true) (map fst (tree_paths NM ot)) /\
  (forall p x, In (p, x) (tree_paths NM ot) <->
               p <> [] /\ (exists f q, In (f, q) es /\ is_prefix_path p (segs f) = true) /\ x = total_at NM es p).
Proof. exact TreeMain.ordered_paths_spec. Qed.
Print Assumptions ordered_paths_spec.

(** "so every parent equals its own entries plus its children" (additive monoid
    laws; [cs] = the names of the node's children in any order) *)
Theorem parent_is_own_plus_children : forall (NM : Num), AddMonoid NM ->
  forall (es : list (bytes * T NM)) (p : list bytes) (nd : tree NM) (cs : list bytes),
  node_at NM p (t_children NM (tree_add_all NM (empty_root NM) es)) = Some nd ->
  Permutation cs (map (t_name NM) (t_children NM nd)) ->
  total_at NM es p = add NM (own NM es p) (sum_r NM (map (fun c => total_at NM es (p ++ [c])) cs)).
Proof. exact TreeSums.parent_is_own_plus_children. Qed.
Print Assumptions parent_is_own_plus_children.

(** the same read off the totals stored in the tree *)
Theorem node_total_is_own_plus_children : forall (NM : Num), AddMonoid NM ->
  forall (es : list (bytes * T NM)) (p : list bytes) (nd : tree NM),
  node_at NM p (t_children NM (tree_add_all NM (empty_root NM) es)) = Some nd ->
  t_total NM nd = add NM (own NM es p) (sum_r NM (map (t_total NM) (t_children NM nd))).
Proof. exact TreeSums.node_total_is_own_plus_children. Qed.
Print Assumptions node_total_is_own_plus_children.

(** "the single-element grand total equals the sum of the top-level rows" *)
Theorem single_total_is_sum_of_top : forall (NM : Num), AddMonoid NM ->
  forall (c : rconfig) (d : list (bytes * elements NM)) (perms : nat -> list bytes -> list bytes) (lns : list (lognode NM)),
  let st := bal_single_run NM c d perms lns in
  snd st = sum_r NM (map (t_total NM) (t_children NM (fst st))).
Proof. exact TreeSums.single_total_is_sum_of_top. Qed.
Print Assumptions single_total_is_sum_of_top.

(** the state of the single-element balance: the tree of all contributions, and their left fold from zero *)
Theorem bal_single_run_state : forall (NM : Num) (c : rconfig) (d : list (bytes * elements NM))
    (perms : nat -> list bytes -> list bytes) (lns : list (lognode NM)),
  let cs := flat_map (bal_single_contributions NM d (rc_single_element c)) lns in
  bal_single_run NM c d perms lns =
  (tree_add_all NM (empty_root NM) cs, fold_left (fun a nv => add NM a (snd nv)) cs (zero NM)).
Proof. exact TreeSums.bal_single_run_state. Qed.
Print Assumptions bal_single_run_state.

(** "for a single element: quantity times the food's resolved amount of that element" *)
Theorem single_contributions_spec : forall (NM : Num) (d : list (bytes * elements NM)) (x : bytes) (ln : lognode NM),
  bal_single_contributions NM d x ln =
  flat_map (fun fq =>
    match lookup (fst fq) d with
    | Some els => map (fun r => (fst fq, mul NM (snd r) (snd fq))) (filter (fun r => beq (fst r) x) els)
    | None => if beq (fst fq) x then [(fst fq, snd fq)] else []
    end) (ln_elems NM ln).
Proof. exact TreeSums.single_contributions_spec. Qed.
Print Assumptions single_contributions_spec.

(** ... at most one contribution per logged food when resolved foods have unique element names *)
Theorem single_contributions_unique : forall (NM : Num) (d : list (bytes * elements NM)) (x : bytes) (ln : lognode NM),
  (forall f els, lookup f d = Some els -> NoDup (map fst els)) ->
  bal_single_contributions NM d x ln =
  flat_map (fun fq =>
    match lookup (fst fq) d with
    | Some els => match lookup x els with Some c => [(fst fq, mul NM c (snd fq))] | None => [] end
    | None => if beq (fst fq) x then [(fst fq, snd fq)] else []
    end) (ln_elems NM ln).
Proof. exact TreeSums.single_contributions_unique. Qed.
Print Assumptions single_contributions_unique.

(** interface with the display modes (WP09): when no logged path is a prefix of
    another, a node with a single child carries that child's total *)
Theorem prefix_free_chain_const : forall (NM : Num) (es : list (bytes * T NM)) (pi : list bytes -> list bytes),
  (forall l, Permutation (pi l) l) -> prefix_free NM es ->
  chain_const_below NM (tree_add_all NM (empty_root NM) es) /\
  chain_const_below NM (order_tree NM pi (tree_add_all NM (empty_root NM) es)).
Proof. exact TreeMain.prefix_free_chain_const. Qed.
Print Assumptions prefix_free_chain_const.

Theorem tree_wf : forall (NM : Num) (es : list (bytes * T NM)), wf_tree NM (tree_add_all NM (empty_root NM) es).
Proof. exact TreeBuild.tree_wf. Qed.
Print Assumptions tree_wf.

Theorem order_tree_wf : forall (NM : Num) (es : list (bytes * T NM)) (pi : list bytes -> list bytes),
  (forall l, Permutation (pi l) l) -> wf_tree NM (order_tree NM pi (tree_add_all NM (empty_root NM) es)).
Proof. exact TreeMain.order_tree_wf. Qed.
Print Assumptions order_tree_wf.

Theorem segments_slash_free : forall (NM : Num) (es : list (bytes * T NM)) (pi : list bytes -> list bytes),
  (forall l, Permutation (pi l) l) ->
  slash_free_below NM (tree_add_all NM (empty_root NM) es) /\
  slash_free_below NM (order_tree NM pi (tree_add_all NM (empty_root NM) es)).
Proof. exact TreeMain.segments_slash_free. Qed.
Print Assumptions segments_slash_free.

Theorem order_tree_leaves : forall (NM : Num) (es : list (bytes * T NM)) (pi : list bytes -> list bytes),
  (forall l, Permutation (pi l) l) ->
  Permutation (tree_leaves NM (order_tree NM pi (tree_add_all NM (empty_root NM) es)))
              (tree_leaves NM (tree_add_all NM (empty_root NM) es)) /\
  StronglySorted (fun p q => path_ltb p q = true)
                 (map fst (tree_leaves NM (order_tree NM pi (tree_add_all NM (empty_root NM) es)))).
Proof. exact TreeMain.order_tree_leaves. Qed.
Print Assumptions order_tree_leaves.

(** the leaves are the paths no logged path extends; under prefix-freeness they
    are exactly the logged names, each with the sum of its own quantities *)
Theorem built_leaves_spec : forall (NM : Num) (es : list (bytes * T NM)) (p : list bytes) (x : T NM),
  let t := tree_add_all NM (empty_root NM) es in
  In (p, x) (tree_leaves NM t) <->
  In (p, x) (tree_paths NM t) /\
  (forall f q, In (f, q) es -> is_prefix_path p (segs f) = true -> segs f = p).
Proof. exact TreeLeaves.built_leaves_spec. Qed.
Print Assumptions built_leaves_spec.

Theorem built_leaves_prefix_free : forall (NM : Num) (es : list (bytes * T NM)) (p : list bytes) (x : T NM),
  prefix_free NM es ->
  (In (p, x) (tree_leaves NM (tree_add_all NM (empty_root NM) es)) <->
   (exists f q, In (f, q) es /\ segs f = p) /\ x = sum_first NM (map snd (exactly_at NM es p))).
Proof. exact TreeLeaves.built_leaves_prefix_free. Qed.
Print Assumptions built_leaves_prefix_free.
