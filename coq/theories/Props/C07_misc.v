(** Property C07, second part (WP11): "... quantities per food equal the balance leaf amounts and the
    sums of the CSV log rows.  Likewise element-total rows equal the matching rows of the resolved-book
    CSV, the summary equals the register for that day, the unresolved list is exactly the set of logged
    foods the book does not define, and stats counts equal the numbers of headings with first/last dates
    and day distances computed from --today."

    Setting: [L] = the selected days in file order; reporter state after the walk = [walk_state R π L]
    (day [i] processed with oracle [π i], as [walk_cb] does); chunks written = [walk_chunks R π L]. *)
From HP Require Import Base.Bytes Base.Utf8 Base.Num Model.Scanner Model.Parser Model.Elements Model.Resolver
  Model.Dates Model.Tree Model.Writer Model.Reporters Model.Cli
  Spec.TreeShared Spec.Agree2Spec
  Proofs.AgreeMiscBase Proofs.AgreeMiscQty Proofs.AgreeMiscBal Proofs.AgreeMiscElem Proofs.AgreeMiscSum
  Proofs.AgreeMiscStats Proofs.AgreeMiscWalk Proofs.AgreeMiscProgram Proofs.AgreeMiscFloat Proofs.AgreeMiscBook.
From HP Require Import Base.GoFloat.
From Coq Require Import Floats.SpecFloat.
From Coq Require Import Permutation Sorted.

(** the days the walk hands to a reporter have pairwise distinct food names *)
Theorem merge_elements_distinct : forall (NM : Num) (es : elements NM),
  NoDup (map fst (merge_elements NM es)).
Proof. exact merge_elements_NoDup. Qed.
Print Assumptions merge_elements_distinct.

(** "quantities per food": law-free.  After the walk the quantity report maps each logged food [f], in
    order of first appearance, to [((0 + q1) + q2) + ...] over the day quantities of [f] in file order. *)
Theorem quantity_spec : forall (NM : Num) desc π (L : list (lognode NM)),
  Forall (fun ln => NoDup (map fst (ln_elems NM ln))) L ->
  walk_state NM (rep_quantity NM desc) π L
  = map (fun f => (f, fold_left (add NM) (day_qtys NM f L) (zero NM))) (first_occ (map fst (entries NM L))).
Proof. exact AgreeMiscQty.quantity_spec. Qed.
Print Assumptions quantity_spec.

(** the same without the distinct-names hypothesis: the fold runs over all entries named [f] *)
Theorem quantity_spec_entries : forall (NM : Num) desc π (L : list (lognode NM)),
  walk_state NM (rep_quantity NM desc) π L
  = map (fun f => (f, sum_from_zero NM (qtys_of NM f (entries NM L)))) (first_occ (map fst (entries NM L))).
Proof. exact AgreeMiscQty.quantity_spec_entries. Qed.
Print Assumptions quantity_spec_entries.

(** "... and the sums of the CSV log rows": law-free.  The CSV log is one row [iso date; food; %.3f q] per
    (day, food) in file order; the rows whose food field is [f] are the renderings of the entries of [f];
    the quantity report's figure for [f] is the left fold from zero of those rows' [q] values in file
    order, and foods are listed in the order of their first CSV row. *)
Theorem quantity_eq_csv : forall (NM : Num) desc π π' (L : list (lognode NM)),
  let ces := csv_entries NM L in
  (forall ln, csv_log_rows NM ln
              = map (fun nv => [format_date iso_date (civ (ln_time NM ln)); fst nv; f3 NM (snd nv)]) (ln_elems NM ln))
  /\ walk_chunks NM (rep_csv_log NM) π' L = map (fun e => checked (csv_record (csv_row_of NM e))) ces
  /\ (forall f, filter (fun row => beq (field 1 row) f) (map (csv_row_of NM) ces)
                = map (csv_row_of NM) (filter (fun e => beq (ce_food NM e) f) ces))
  /\ walk_state NM (rep_quantity NM desc) π L
     = map (fun f => (f, fold_left (add NM) (map (ce_qty NM) (filter (fun e => beq (ce_food NM e) f) ces)) (zero NM)))
           (first_occ (map (ce_food NM) ces)).
Proof. exact AgreeMiscQty.quantity_eq_csv. Qed.
Print Assumptions quantity_eq_csv.

(** AddMonoid form (uses associativity and commutativity): the figure is the sum of the CSV values *)
Theorem quantity_eq_csv_sum : forall (NM : Num), AddMonoid NM -> forall desc π (L : list (lognode NM)),
  let ces := csv_entries NM L in
  walk_state NM (rep_quantity NM desc) π L
  = map (fun f => (f, sum_right NM (map (ce_qty NM) (filter (fun e => beq (ce_food NM e) f) ces))))
        (first_occ (map (ce_food NM) ces)).
Proof. exact AgreeMiscQty.quantity_eq_csv_sum. Qed.
Print Assumptions quantity_eq_csv_sum.

(** "quantities per food equal the balance leaf amounts".  Law-free, every path [p] of the balance tree:
    the total at [p] is the first-assign-then-add fold of ALL entries at or below [p]. *)
Theorem balance_total_at : forall (NM : Num) c π (L : list (lognode NM)) p, p <> [] ->
  total_at NM p (t_children NM (walk_state NM (rep_balance NM c) π L))
  = assign_then_add NM (map snd (at_or_below NM p (entries NM L))).
Proof. exact AgreeMiscBal.balance_total_at. Qed.
Print Assumptions balance_total_at.

(** When no logged name is a path-prefix of another: the node at the food's path is a leaf of the tree,
    its amount is [q1 + q2 + ...] folded from the first value (law-free), and with [0 + x = x] alone it is
    the quantity report's figure. *)
Theorem quantity_eq_balance_leaf : forall (NM : Num) c π (L : list (lognode NM)) f,
  let es := entries NM L in
  let root := walk_state NM (rep_balance NM c) π L in
  prefix_free (map fst es) -> In f (map fst es) ->
  total_at NM (segs f) (t_children NM root) = assign_then_add NM (qtys_of NM f es)
  /\ (exists nd, node_at NM (segs f) (t_children NM root) = Some nd /\ t_children NM nd = []
                 /\ In (segs f, t_total NM nd) (tree_leaves NM root))
  /\ ((forall x : T NM, add NM (zero NM) x = x) ->
      forall desc π', total_at NM (segs f) (t_children NM root)
                      = lookup f (walk_state NM (rep_quantity NM desc) π' L)).
Proof. exact AgreeMiscBal.quantity_eq_balance_leaf. Qed.
Print Assumptions quantity_eq_balance_leaf.

(** law-free, exact relation between the two figures: they differ by the step [0 + q1] only *)
Theorem quantity_vs_balance_leaf_general : forall (NM : Num) c π (L : list (lognode NM)) f desc π',
  let es := entries NM L in
  let root := walk_state NM (rep_balance NM c) π L in
  prefix_free (map fst es) -> In f (map fst es) ->
  exists q1 r, qtys_of NM f es = q1 :: r
    /\ total_at NM (segs f) (t_children NM root) = Some (fold_left (add NM) r q1)
    /\ lookup f (walk_state NM (rep_quantity NM desc) π' L) = Some (fold_left (add NM) r (add NM (zero NM) q1)).
Proof. exact AgreeMiscBal.quantity_vs_balance_leaf_general. Qed.
Print Assumptions quantity_vs_balance_leaf_general.

(** FALSE without a law: at binary64 ([B64]) a food whose first logged quantity is [-0] has the balance
    leaf [-0] (printed -0.00) and the quantity figure [+0] (printed 0.00) *)
Theorem quantity_eq_balance_leaf_lawfree_refuted :
  exists (L : list (lognode B64)) f,
    Forall (fun ln => NoDup (map fst (ln_elems B64 ln))) L
    /\ prefix_free (map fst (entries B64 L)) /\ In f (map fst (entries B64 L))
    /\ total_at B64 (segs f) (t_children B64 (walk_state B64 (rep_balance B64 ex_c0) (fun _ l => l) L))
       <> lookup f (walk_state B64 (rep_quantity B64 false) (fun _ l => l) L).
Proof. exact AgreeMiscFloat.quantity_eq_balance_leaf_lawfree_refuted. Qed.
Print Assumptions quantity_eq_balance_leaf_lawfree_refuted.

(** strongest true variant at binary64: equal unless the first logged quantity of the food is -0 *)
Theorem b64_quantity_eq_balance_leaf : forall c π (L : list (lognode B64)) f desc π',
  let es := entries B64 L in
  let root := walk_state B64 (rep_balance B64 c) π L in
  prefix_free (map fst es) -> In f (map fst es) ->
  (forall q1 r, qtys_of B64 f es = q1 :: r -> q1 <> S754_zero true) ->
  total_at B64 (segs f) (t_children B64 root) = lookup f (walk_state B64 (rep_quantity B64 desc) π' L).
Proof. exact AgreeMiscFloat.b64_quantity_eq_balance_leaf. Qed.
Print Assumptions b64_quantity_eq_balance_leaf.

(** "element-total rows equal the matching rows of the resolved-book CSV": law-free. *)
Theorem element_total_eq_resolved_csv : forall (NM : Num) π (d : list (bytes * elements NM)) x desc,
  NoDup (keys d) -> (forall l, Permutation (π l) l) ->
  let recipes := sort_bytes (π (keys d)) in
  let ts := flat_map (fun r => map (fun e => (r, fst e, snd e)) (get NM r d)) recipes in
  (recipes = sort_bytes (keys d) /\ Permutation recipes (keys d)
   /\ StronglySorted (fun a c => bleb a c = true) recipes
   /\ forall r, In r recipes -> In (r, get NM r d) d)
  /\ resolved_csv_rows NM π d = map (fun t => [tr_recipe NM t; tr_elem NM t; f2 NM (tr_val NM t)]) ts
  /\ element_total_list NM π d x
     = map (fun t => (tr_recipe NM t, tr_val NM t)) (filter (fun t => beq (tr_elem NM t) x) ts)
  /\ filter (fun row => beq (field 1 row) x) (resolved_csv_rows NM π d)
     = map (fun nv => [fst nv; x; f2 NM (snd nv)]) (element_total_list NM π d x)
  /\ Permutation (sort_by_value NM desc (element_total_list NM π d x)) (element_total_list NM π d x).
Proof. exact AgreeMiscElem.element_total_eq_resolved_csv. Qed.
Print Assumptions element_total_eq_resolved_csv.

(** the hypothesis [NoDup (keys d)] holds of every book the commands resolve *)
Theorem resolved_db_NoDup : forall (NM : Num) (w : world) (op : options) o d,
  resolved_db NM w op o = inr d -> NoDup (keys d).
Proof. exact AgreeMiscBook.resolved_db_NoDup. Qed.
Print Assumptions resolved_db_NoDup.

(** [resolved_csv_rows] / [element_total_list] are what the two commands write *)
Theorem run_csv_db_resolved_rows : forall (NM : Num) (w : world) (op : options) odb d,
  open_all w [op_db op] = Some [odb] -> resolved_db NM w op odb = inr d ->
  run_csv_db_resolved NM w op
  = let wr := new_writer w in
    let '(wr1, e1) := bw_chunks wr (map (fun r => (csv_record r, true)) (resolved_csv_rows NM (o_flush (w_or w)) d)) in
    if e1 then finish wr1 (Failed EWrite)
    else let '(wr2, e2) := bw_flush wr1 in finish wr2 (if e2 then Failed EWrite else Ok).
Proof. exact AgreeMiscElem.run_csv_db_resolved_rows. Qed.
Print Assumptions run_csv_db_resolved_rows.

Theorem run_element_total_rows : forall (NM : Num) (w : world) (op : options) x desc odb d,
  x <> [] -> open_all w [op_db op] = Some [odb] -> resolved_db NM w op odb = inr d ->
  run_element_total NM w op x desc
  = let wr := new_writer w in
    let l := sort_by_value NM desc (element_total_list NM (o_flush (w_or w)) d x) in
    if (has_nan NM l && Nat.ltb 20 (length l))%bool then finish wr (Failed (EUnmodelled (b "NaN in sort")))
    else
      let '(wr1, e1) := bw_chunks wr (map (element_total_line NM) l) in
      let '(wr2, e2) := if e1 then (wr1, true) else bw_flush wr1 in
      finish wr2 (if e2 then Failed EWrite else Ok).
Proof. exact AgreeMiscElem.run_element_total_rows. Qed.
Print Assumptions run_element_total_rows.

(** "the summary equals the register for that day": law-free.  Both reporters render the same report
    item; the summary shows, per total row, the POSITIVE column and the name, then the foods. *)
Theorem summary_eq_register_day : forall (NM : Num) (c : rconfig) π (d : list (bytes * elements NM)) (ln : lognode NM),
  let it := get_report_item NM c π d ln in
  r_process NM (rep_summary NM c d) π tt ln = (tt, [checked (render_summary NM c it)], None)
  /\ r_process NM (rep_template NM c d) π tt ln
     = (tt, [checked (if beq (rc_template c) (b "left-aligned") then render_left NM c it else render_default NM c it)], None)
  /\ render_summary NM c it
     = fdate c (ri_time NM it) ++ b " :"
       ++ flat_map (fun t => [c_lf] ++ format_value NM (rc_color c) (tot_pos NM t) ++ b " : " ++ tot_name NM t)
                   (match ri_totals NM it with Some ts => ts | None => [] end)
       ++ [c_lf] ++ b "------------"
       ++ flat_map (fun e => [c_lf] ++ format_value NM (rc_color c) (re_qty NM e) ++ b " : " ++ re_food NM e)
                   (ri_elements NM it)
       ++ [c_lf]
  /\ ri_time NM it = ln_time NM ln
  /\ (rc_totals_only c = false -> map (fun e => (re_food NM e, re_qty NM e)) (ri_elements NM it) = ln_elems NM ln)
  /\ (rc_totals c = true -> ri_totals NM it = Some (totals_of_acc NM π (accumulate NM (contributions NM d ln)))).
Proof. exact AgreeMiscSum.summary_eq_register_day. Qed.
Print Assumptions summary_eq_register_day.

(** "the unresolved list is exactly the set of logged foods the book does not define": law-free. *)
Theorem unresolved_spec : forall (NM : Num) (d : list (bytes * elements NM)) π (L : list (lognode NM)),
  let st := walk_state NM (rep_unresolved NM d) π L in
  st = first_occ (filter (undefined_in NM d) (map fst (entries NM L)))
  /\ NoDup st
  /\ (forall f, In f st <-> In f (map fst (entries NM L)) /\ lookup f d = None)
  /\ (forall πf, (forall l, Permutation (πf l) l) ->
        r_flush NM (rep_unresolved NM d) πf st = map (fun n => unchecked (n ++ [c_lf])) (sort_bytes st))
  /\ StronglySorted (fun a c => bleb a c = true) (sort_bytes st)
  /\ Permutation (sort_bytes st) st.
Proof. exact AgreeMiscSum.unresolved_spec. Qed.
Print Assumptions unresolved_spec.

(** "stats counts equal the numbers of headings with first/last dates ...": on the callback folds, for
    a file that is readable to the end and has no parse error.  Since fix F27 the log walk runs to the end
    only when every heading is a date ([all_dated]; a heading that is not a date ends the run with the date
    error and nothing is printed: [stats_bad_date], [stats_bad_date_last] below -- before the fix it was
    counted and, as last heading, shown as the zero time).  The first record is the FIRST heading, whatever
    date it is (no exception for 0001-01-01: the walk keeps an [option time], [None] = no heading yet); the
    last record is the LAST heading; the zero time is shown only when the log has no heading. *)
Theorem stats_spec : forall (NM : Num) toks data,
  snd (scan data NoFault) = ScanEOF -> no_parse_error NM (events NM data) ->
  let ns := nodes_of NM (events NM data) in
  let ds := heading_dates NM toks ns in
  (all_dated NM toks ns ->
   parse_opened NM (stats_log_cb NM toks) (OData data NoFault) (O, None, zero_time)
     = ((length (events NM data), stats_first_opt ds, stats_last ds), None))
  /\ parse_opened NM (stats_db_cb NM) (OData data NoFault) O = (length (events NM data), None)
  /\ map ENode ns = events NM data
  /\ (forall pre c post, ds = pre ++ Some c :: post -> (forall o, In o pre -> o = None) ->
        stats_first_opt ds = Some (time_of_civil c) /\ stats_first ds = time_of_civil c)
  /\ ((forall o, In o ds -> o = None) -> stats_first_opt ds = None /\ stats_first ds = zero_time)
  /\ stats_first ds = match find (fun o => match o with Some _ => true | None => false end) ds with
                      | Some (Some c) => time_of_civil c
                      | _ => zero_time
                      end
  /\ stats_last ds = match last ds None with Some c => time_of_civil c | None => zero_time end
  /\ (all_dated NM toks ns -> Forall (fun o => o <> None) ds).
Proof. exact AgreeMiscStats.stats_spec. Qed.
Print Assumptions stats_spec.

(** a log whose headings are 0001/01/01, 0001/01/03, 0001/01/05 reports 0001/01/01 as its first record
    (before the repair of the first-record mark it reported the second heading, 0001/01/03) *)
Theorem stats_first_record_zero_date :
  parse_opened ZNum (stats_log_cb ZNum ex_toks) (OData z_log NoFault) (O, None, zero_time)
  = ((3%nat, Some (time_of_civil (1, 1, 1)%Z), time_of_civil (1, 1, 5)%Z), None)
  /\ heading_dates ZNum ex_toks (nodes_of ZNum (events ZNum z_log))
     = [Some (1, 1, 1)%Z; Some (1, 1, 3)%Z; Some (1, 1, 5)%Z]
  /\ stats_first (heading_dates ZNum ex_toks (nodes_of ZNum (events ZNum z_log))) = time_of_civil (1, 1, 1)%Z
  /\ run ZNum z_world z_inv
     = {| out_stdout :=
            b "  Database file:      /dev/null" ++ ex_nl ++
            b "  Database records:   0" ++ ex_nl ++
            ex_nl ++
            b "  Log file:           log.yaml" ++ ex_nl ++
            b "  Log records:        3" ++ ex_nl ++
            b "  Today:              0001/01/10" ++ ex_nl ++
            b "  First record:       0001/01/01 (9 days ago)" ++ ex_nl ++
            b "  Last record:        0001/01/05 (5 days ago)" ++ ex_nl;
          out_status := Ok |}.
Proof. exact AgreeMiscStats.stats_first_record_zero_date. Qed.
Print Assumptions stats_first_record_zero_date.

(** fix F27: a heading that is not a date (no parse error and only dated headings before it): [stats] prints
    nothing and fails with the date error -- the heading among the records completed inside the file ... *)
Theorem stats_bad_date : forall (NM : Num) (w : world) (op : options) ldata pre n post last,
  open_file w (op_log op) = Some (OData ldata NoFault) ->
  parse_lines NM (fst (scan ldata NoFault)) = (pre ++ ENode n :: post, last) ->
  no_parse_error NM pre -> all_dated NM (rc_date (op_rc op)) (nodes_of NM pre) ->
  parse_date (rc_date (op_rc op)) (header n) = None ->
  run_stats NM w op = finish (new_writer w) (Failed EBadDate).
Proof. exact run_stats_bad_date. Qed.
Print Assumptions stats_bad_date.

(** ... or the last record of a file that is readable to the end
    ([finish (new_writer w) st] = [{| out_stdout := []; out_status := st |}] by computation) *)
Theorem stats_bad_date_last : forall (NM : Num) (w : world) (op : options) ldata evs n,
  open_file w (op_log op) = Some (OData ldata NoFault) ->
  snd (scan ldata NoFault) = ScanEOF ->
  parse_lines NM (fst (scan ldata NoFault)) = (evs, Some n) ->
  no_parse_error NM evs -> all_dated NM (rc_date (op_rc op)) (nodes_of NM evs) ->
  parse_date (rc_date (op_rc op)) (header n) = None ->
  run_stats NM w op = finish (new_writer w) (Failed EBadDate).
Proof. exact run_stats_bad_date_last. Qed.
Print Assumptions stats_bad_date_last.

(** a log with three dated headings and then the heading "notadate": nothing printed, the date error
    (before the fix: "Log records: 4", "Last record: 0001/01/01", status Ok) *)
Theorem stats_bad_date_fails :
  run ZNum bad_world z_inv = {| out_stdout := []; out_status := Failed EBadDate |}
  /\ exists evs n, parse_lines ZNum (fst (scan ex_log NoFault)) = (evs, Some n)
                   /\ all_dated_b ZNum ex_toks (nodes_of ZNum evs) = true /\ parse_date ex_toks (header n) = None.
Proof. exact AgreeMiscStats.stats_bad_date_fails. Qed.
Print Assumptions stats_bad_date_fails.

(** "... computed from --today": [now] is the parsed [--today] when given; else (fix F25) the calendar day of
    the configured Now / of the clock, at midnight UTC like a parsed date: the day distances below are
    exact differences of day numbers in all three cases ([stats_days_ago]) *)
Theorem stats_today : forall (w : world) (i : invocation) (op : options),
  load w i = inr op ->
  tokenize (op_fmt op) = Some (rc_date (op_rc op))
  /\ match i_f_today i with
     | Some s => exists c, parse_date (rc_date (op_rc op)) s = Some c /\ op_now op = time_of_civil c
     | None => exists cfg, load_config w i = inr cfg
                           /\ op_now op = time_of_civil (civ (or_default (ce_now cfg) (w_clock w)))
     end.
Proof. exact load_now. Qed.
Print Assumptions stats_today.

(** "... and day distances": between two midnights EXACTLY the difference of the day numbers, for every
    pair of civil dates (no range, no saturation) *)
Theorem stats_days_ago : forall a b : Z * Z * Z,
  let da := let '(y, m, d) := a in days_from_civil y m d in
  let db := let '(y, m, d) := b in days_from_civil y m d in
  days_between (time_of_civil a) (time_of_civil b) = (da - db)%Z.
Proof. exact days_between_civil. Qed.
Print Assumptions stats_days_ago.

(** [now] on a whole second [s] since the epoch (any zone offset), the record a midnight: the seconds
    between them divided by 86400, rounded towards zero *)
Theorem stats_days_ago_seconds : forall (now : time) (b : Z * Z * Z) (s : Z),
  let db := let '(y, m, d) := b in days_from_civil y m d in
  inst now = (s * ns_per_sec)%Z ->
  days_between now (time_of_civil b) = Z.quot (s - db * 86400) 86400.
Proof. exact days_between_seconds. Qed.
Print Assumptions stats_days_ago_seconds.

(** the same with [now] split into its day number [dn] and the second [r] of that day *)
Theorem stats_days_ago_day_part : forall (now : time) (b : Z * Z * Z) (dn r : Z),
  let db := let '(y, m, d) := b in days_from_civil y m d in
  inst now = ((dn * 86400 + r) * ns_per_sec)%Z -> (0 <= r < 86400)%Z ->
  days_between now (time_of_civil b)
  = (if (db <=? dn) || (r =? 0) then dn - db else dn - db + 1)%Z.
Proof. exact days_between_day_part. Qed.
Print Assumptions stats_days_ago_day_part.

(** distances beyond the range of a [time.Duration] (about 292 years), which used to print as
    106751 and -106751 *)
Theorem stats_days_far :
  days_between (time_of_civil (2021, 1, 2)%Z) (time_of_civil (1700, 1, 1)%Z) = 117244%Z
  /\ days_between (time_of_civil (2021, 1, 2)%Z) (time_of_civil (2400, 1, 1)%Z) = (-138425)%Z.
Proof. exact AgreeMiscStats.stats_days_far. Qed.
Print Assumptions stats_days_far.

(** lifted to the lines [stats] writes *)
Theorem stats_lines_printed : forall (NM : Num) (w : world) (op : options) ldata ddata,
  open_file w (op_log op) = Some (OData ldata NoFault) ->
  snd (scan ldata NoFault) = ScanEOF -> no_parse_error NM (events NM ldata) ->
  all_dated NM (rc_date (op_rc op)) (nodes_of NM (events NM ldata)) ->
  open_file w (op_db op) = Some (OData ddata NoFault) ->
  snd (scan ddata NoFault) = ScanEOF -> no_parse_error NM (events NM ddata) ->
  let ds := heading_dates NM (rc_date (op_rc op)) (nodes_of NM (events NM ldata)) in
  run_stats NM w op
  = let '(wr1, _) := bw_chunks (new_writer w)
                       (stats_lines op (length (events NM ddata)) (length (events NM ldata))
                                    (stats_first ds) (stats_last ds)) in
    let '(wr2, e2) := bw_flush wr1 in
    finish wr2 (if e2 then Failed EWrite else Ok).
Proof. exact run_stats_lines. Qed.
Print Assumptions stats_lines_printed.

(** * Stretch: the same statements lifted to the standard output of the commands

    Hypotheses common to all of them: stdout never fails ([w_sink w = None]), the files open as regular
    files without read faults, are scanned to their end (no line of 64 KiB or more), have no parse
    error, and every heading of the log parses as a date under the configured layout (otherwise the
    commands stop with the date error; since fix F27 [stats] too). *)

(** the walk of any reporter whose Process never returns an error: final state and bytes on stdout *)
Theorem run_log_ok : forall (NM : Num) (w : world) (op : options) (R : reporter NM) toks ldata,
  never_fails NM R ->
  w_sink w = None ->
  open_file w (op_log op) = Some (OData ldata NoFault) ->
  tokenize (op_fmt op) = Some toks ->
  snd (scan ldata NoFault) = ScanEOF -> no_parse_error NM (events NM ldata) ->
  all_dated NM toks (nodes_of NM (events NM ldata)) ->
  let L := selected_days NM toks (op_begin op) (op_end op) (nodes_of NM (events NM ldata)) in
  let rs := walk_state NM R (o_day (w_or w)) L in
  run_log NM w op R
  = {| out_stdout := chunk_bytes (walk_chunks NM R (o_day (w_or w)) L) ++ chunk_bytes (r_flush NM R (o_flush (w_or w)) rs);
       out_status := Ok |}.
Proof. exact AgreeMiscWalk.run_log_ok. Qed.
Print Assumptions run_log_ok.

Theorem run_db_log_ok : forall (NM : Num) (w : world) (op : options)
    (mk : list (bytes * elements NM) -> reporter NM) bt et toks odb d ldata,
  never_fails NM (mk d) ->
  (forall rs, r_panic NM (mk d) rs = None) ->
  w_sink w = None ->
  open_file w (op_db op) = Some odb -> resolved_db NM w op odb = inr d ->
  open_file w (op_log op) = Some (OData ldata NoFault) ->
  tokenize (op_fmt op) = Some toks ->
  snd (scan ldata NoFault) = ScanEOF -> no_parse_error NM (events NM ldata) ->
  all_dated NM toks (nodes_of NM (events NM ldata)) ->
  let L := selected_days NM toks bt et (nodes_of NM (events NM ldata)) in
  let rs := walk_state NM (mk d) (o_day (w_or w)) L in
  run_db_log NM w op mk bt et
  = {| out_stdout := chunk_bytes (walk_chunks NM (mk d) (o_day (w_or w)) L)
                     ++ chunk_bytes (r_flush NM (mk d) (o_flush (w_or w)) rs);
       out_status := Ok |}.
Proof. exact AgreeMiscWalk.run_db_log_ok. Qed.
Print Assumptions run_db_log_ok.

(** the days a reporter sees have pairwise distinct food names (hypothesis of [quantity_spec]) *)
Theorem selected_days_distinct : forall (NM : Num) toks bt et (ns : list (pnode NM)),
  Forall (fun ln => NoDup (map fst (ln_elems NM ln))) (selected_days NM toks bt et ns).
Proof. exact AgreeMiscProgram.selected_days_distinct. Qed.
Print Assumptions selected_days_distinct.

(** report quantity *)
Theorem quantity_program : forall (NM : Num) (w : world) (i : invocation) (op : options) (ldata : bytes),
  load w i = inr op ->
  w_sink w = None ->
  open_file w (op_log op) = Some (OData ldata NoFault) ->
  snd (scan ldata NoFault) = ScanEOF ->
  no_parse_error NM (events NM ldata) ->
  all_dated NM (rc_date (op_rc op)) (nodes_of NM (events NM ldata)) ->
  i_cmd i = CQuantity ->
  (forall l, Permutation (o_flush (w_or w) l) l) ->
  let es := entries NM (selected_days NM (rc_date (op_rc op)) (op_begin op) (op_end op) (nodes_of NM (events NM ldata))) in
  run NM w i
  = {| out_stdout :=
         concat (map (fun nv => f2 NM (snd nv) ++ [c_tab] ++ fst nv ++ [c_lf])
                     (sort_by_value NM (i_desc i)
                        (map (fun f => (f, sum_from_zero NM (qtys_of NM f es)))
                             (sort_bytes (first_occ (map fst es))))));
       out_status := Ok |}.
Proof. exact AgreeMiscProgram.quantity_program. Qed.
Print Assumptions quantity_program.

(** csv log *)
Theorem csv_log_program : forall (NM : Num) (w : world) (i : invocation) (op : options) (ldata : bytes),
  load w i = inr op ->
  w_sink w = None ->
  open_file w (op_log op) = Some (OData ldata NoFault) ->
  snd (scan ldata NoFault) = ScanEOF ->
  no_parse_error NM (events NM ldata) ->
  all_dated NM (rc_date (op_rc op)) (nodes_of NM (events NM ldata)) ->
  i_cmd i = CCsvLog ->
  run NM w i
  = {| out_stdout := concat (map (fun e => csv_record (csv_row_of NM e))
                                 (csv_entries NM (selected_days NM (rc_date (op_rc op)) (op_begin op) (op_end op)
                                                                (nodes_of NM (events NM ldata)))));
       out_status := Ok |}.
Proof. exact AgreeMiscProgram.csv_log_program. Qed.
Print Assumptions csv_log_program.

(** report unresolved *)
Theorem unresolved_program : forall (NM : Num) (w : world) (i : invocation) (op : options) (ldata : bytes),
  load w i = inr op ->
  w_sink w = None ->
  open_file w (op_log op) = Some (OData ldata NoFault) ->
  snd (scan ldata NoFault) = ScanEOF ->
  no_parse_error NM (events NM ldata) ->
  all_dated NM (rc_date (op_rc op)) (nodes_of NM (events NM ldata)) ->
  forall (odb : opened) (d : list (bytes * elements NM)),
  open_file w (op_db op) = Some odb ->
  resolved_db NM w op odb = inr d ->
  i_cmd i = CUnresolved ->
  (forall l, Permutation (o_flush (w_or w) l) l) ->
  run NM w i
  = {| out_stdout :=
         concat (map (fun n => n ++ [c_lf])
                     (sort_bytes (first_occ (filter (undefined_in NM d)
                        (map fst (entries NM (selected_days NM (rc_date (op_rc op)) (op_begin op) (op_end op)
                                                             (nodes_of NM (events NM ldata)))))))));
       out_status := Ok |}.
Proof. exact AgreeMiscProgram.unresolved_program. Qed.
Print Assumptions unresolved_program.

(** summary ARG and reg over the same window: day by day, renderings of the same report items *)
Theorem summary_register_program : forall (NM : Num) (w : world) (op : options) bt et toks odb
    (d : list (bytes * elements NM)) ldata,
  w_sink w = None ->
  open_file w (op_db op) = Some odb -> resolved_db NM w op odb = inr d ->
  open_file w (op_log op) = Some (OData ldata NoFault) ->
  tokenize (op_fmt op) = Some toks ->
  snd (scan ldata NoFault) = ScanEOF -> no_parse_error NM (events NM ldata) ->
  all_dated NM toks (nodes_of NM (events NM ldata)) ->
  let c := op_rc op in
  let L := selected_days NM toks bt et (nodes_of NM (events NM ldata)) in
  let items := map (fun p => get_report_item NM c (o_day (w_or w) (fst p)) d (snd p)) (combine (seq O (length L)) L) in
  run_db_log NM w op (rep_summary NM c) bt et
  = {| out_stdout := concat (map (render_summary NM c) items); out_status := Ok |}
  /\ run_db_log NM w op (rep_template NM c) bt et
     = {| out_stdout := concat (map (fun it => if beq (rc_template c) (b "left-aligned")
                                               then render_left NM c it else render_default NM c it) items);
          out_status := Ok |}.
Proof. exact AgreeMiscProgram.summary_register_program. Qed.
Print Assumptions summary_register_program.

(** report element-total and csv database-resolved *)
Theorem element_total_program : forall (NM : Num) (w : world) (op : options) x desc odb (d : list (bytes * elements NM)),
  w_sink w = None -> x <> [] ->
  open_all w [op_db op] = Some [odb] -> resolved_db NM w op odb = inr d ->
  let l := sort_by_value NM desc (element_total_list NM (o_flush (w_or w)) d x) in
  (has_nan NM l && Nat.ltb 20 (length l))%bool = false ->
  run_element_total NM w op x desc
  = {| out_stdout := concat (map (fun nv => f2 NM (snd nv) ++ [c_tab] ++ fst nv ++ [c_lf]) l); out_status := Ok |}.
Proof. exact AgreeMiscProgram.element_total_program. Qed.
Print Assumptions element_total_program.

Theorem csv_resolved_program : forall (NM : Num) (w : world) (op : options) odb (d : list (bytes * elements NM)),
  w_sink w = None ->
  open_all w [op_db op] = Some [odb] -> resolved_db NM w op odb = inr d ->
  run_csv_db_resolved NM w op
  = {| out_stdout := concat (map csv_record (resolved_csv_rows NM (o_flush (w_or w)) d)); out_status := Ok |}.
Proof. exact AgreeMiscProgram.csv_resolved_program. Qed.
Print Assumptions csv_resolved_program.

(** stats *)
Theorem stats_program : forall (NM : Num) (w : world) (op : options) ldata ddata,
  w_sink w = None ->
  open_file w (op_log op) = Some (OData ldata NoFault) ->
  snd (scan ldata NoFault) = ScanEOF -> no_parse_error NM (events NM ldata) ->
  all_dated NM (rc_date (op_rc op)) (nodes_of NM (events NM ldata)) ->
  open_file w (op_db op) = Some (OData ddata NoFault) ->
  snd (scan ddata NoFault) = ScanEOF -> no_parse_error NM (events NM ddata) ->
  let ds := heading_dates NM (rc_date (op_rc op)) (nodes_of NM (events NM ldata)) in
  run_stats NM w op
  = {| out_stdout := chunk_bytes (stats_lines op (length (events NM ddata)) (length (events NM ldata))
                                              (stats_first ds) (stats_last ds));
       out_status := Ok |}.
Proof. exact AgreeMiscProgram.stats_program. Qed.
Print Assumptions stats_program.
