(** Property C12 on the BYTES of the log file (assembly of the parser, the
    composition, the order and the resolver work packages).

    "For every sequence of days appended to a log, the per-day reports
    (register, CSV log, print, single-food and single-element registers) of the
    concatenated log equal the concatenation of the reports of its parts, so
    appending a day never changes what is shown for earlier days."

    Props/C12.v states this for histories = lists of parser events;
    Props/C04.v says what the events of the bytes [render f1 ++ render f2] are.
    Here: the file whose bytes are the bytes of a first log followed by the
    bytes of a second.  Hypotheses on the two parts (the conjunction written
    out in each theorem is [appendable NM f1 f2] of Proofs/AssemblyCompose.v):
    both are in the documented format ([wf_file]) with lines below the
    scanner's limit ([short_lines]); the first ends in a newline; the second
    has no malformed line and its first line that is not blank or a comment is
    a heading.  The first part's report is error free; the standard output
    never fails ([w_sink w = None]).

    Level reached: the whole program [run] for the commands csv log, print and
    reg, and the two command shapes [run_log] / [run_db_log] for every per-day
    reporter.  The three executions (first file, second file, concatenated
    file) are unrelated: their map-order oracles only have to be permutation
    oracles ([oracles_ok]) - the shift of the per-day oracle index that
    Props/C12.v [perday_reports_concat] carries is removed with the order
    package (the reporters do not depend on the oracles), and for [run_db_log]
    the book is the same in the three runs by Props/C01.v [resolved_db_outcome]. *)
From HP Require Import Base.Bytes Base.Utf8 Base.Num Model.Scanner Model.Parser Model.Syntax Model.Elements
  Model.Dates Model.Writer Model.Regex Model.Reporters Model.Cli.
From HP Require Import Spec.ResolverSpec Spec.ComposeSpec.
From HP Require Import Proofs.ParserScan Proofs.ParserCorollaries Proofs.ParserConcat Proofs.OrderSites.
From HP Require Import Proofs.AssemblyCompose.

(** the per-day reports of the history read from the concatenated bytes, same
    oracles on both sides, every per-day reporter *)
Theorem perday_report_bytes_concat :
  forall (NM : Num) (R : reporter NM), perday_reporter NM R ->
  forall (pd : nat -> list bytes -> list bytes) (pf : list bytes -> list bytes)
         (toks : list ltoken) (bt et : option time) (f1 f2 : file),
    (forall i, order_oracle (pd i)) ->
    (wf_file NM f1 = true /\ short_lines f1 /\ f_final_newline f1 = true /\
     wf_file NM f2 = true /\ short_lines f2 /\ no_bad_items f2 /\
     heading_first_items (map fst (f_items f2)) = true) ->
    snd (report NM R pd pf toks bt et (events NM (render f1))) = None ->
    fst (report NM R pd pf toks bt et (events NM (render f1 ++ render f2)))
      = fst (report NM R pd pf toks bt et (events NM (render f1)))
        ++ fst (report NM R pd pf toks bt et (events NM (render f2)))
    /\ snd (report NM R pd pf toks bt et (events NM (render f1 ++ render f2)))
      = snd (report NM R pd pf toks bt et (events NM (render f2))).
Proof. exact HP.Proofs.AssemblyCompose.perday_report_bytes_concat. Qed.
Print Assumptions perday_report_bytes_concat.

(** commands that only walk the log, three unrelated executions *)
Theorem run_log_bytes_concat :
  forall (NM : Num) (R : reporter NM), perday_reporter NM R ->
  forall (w1 w2 w12 : world) (op : options) (f1 f2 : file),
    (wf_file NM f1 = true /\ short_lines f1 /\ f_final_newline f1 = true /\
     wf_file NM f2 = true /\ short_lines f2 /\ no_bad_items f2 /\
     heading_first_items (map fst (f_items f2)) = true) ->
    w_sink w1 = None -> w_sink w2 = None -> w_sink w12 = None ->
    oracles_ok (w_or w1) -> oracles_ok (w_or w2) -> oracles_ok (w_or w12) ->
    open_file w1 (op_log op) = Some (OData (render f1) NoFault) ->
    open_file w2 (op_log op) = Some (OData (render f2) NoFault) ->
    open_file w12 (op_log op) = Some (OData (render f1 ++ render f2) NoFault) ->
    out_status (run_log NM w1 op R) = Ok ->
    out_stdout (run_log NM w12 op R) = out_stdout (run_log NM w1 op R) ++ out_stdout (run_log NM w2 op R)
    /\ out_status (run_log NM w12 op R) = out_status (run_log NM w2 op R).
Proof. exact HP.Proofs.AssemblyCompose.run_log_bytes_concat. Qed.
Print Assumptions run_log_bytes_concat.

(** commands that resolve the book first; the database file [odb] is the same
    in the three executions *)
Theorem run_db_log_bytes_concat :
  forall (NM : Num) (mk : list (bytes * elements NM) -> reporter NM), (forall d, perday_reporter NM (mk d)) ->
  forall (w1 w2 w12 : world) (op : options) (bt et : option time) (odb : opened) (f1 f2 : file),
    (wf_file NM f1 = true /\ short_lines f1 /\ f_final_newline f1 = true /\
     wf_file NM f2 = true /\ short_lines f2 /\ no_bad_items f2 /\
     heading_first_items (map fst (f_items f2)) = true) ->
    w_sink w1 = None -> w_sink w2 = None -> w_sink w12 = None ->
    oracles_ok (w_or w1) -> oracles_ok (w_or w2) -> oracles_ok (w_or w12) ->
    open_file w1 (op_db op) = Some odb -> open_file w2 (op_db op) = Some odb -> open_file w12 (op_db op) = Some odb ->
    open_file w1 (op_log op) = Some (OData (render f1) NoFault) ->
    open_file w2 (op_log op) = Some (OData (render f2) NoFault) ->
    open_file w12 (op_log op) = Some (OData (render f1 ++ render f2) NoFault) ->
    out_status (run_db_log NM w1 op mk bt et) = Ok ->
    out_stdout (run_db_log NM w12 op mk bt et)
      = out_stdout (run_db_log NM w1 op mk bt et) ++ out_stdout (run_db_log NM w2 op mk bt et)
    /\ out_status (run_db_log NM w12 op mk bt et) = out_status (run_db_log NM w2 op mk bt et).
Proof. exact HP.Proofs.AssemblyCompose.run_db_log_bytes_concat. Qed.
Print Assumptions run_db_log_bytes_concat.

(** the program: csv log and print.  [load w i = inr op]: flags, environment
    and configuration file give the same options in the three executions. *)
Theorem run_bytes_concat_log :
  forall (NM : Num) (w1 w2 w12 : world) (i : invocation) (op : options) (f1 f2 : file),
    i_cmd i = CCsvLog \/ i_cmd i = CPrint ->
    load w1 i = inr op -> load w2 i = inr op -> load w12 i = inr op ->
    (wf_file NM f1 = true /\ short_lines f1 /\ f_final_newline f1 = true /\
     wf_file NM f2 = true /\ short_lines f2 /\ no_bad_items f2 /\
     heading_first_items (map fst (f_items f2)) = true) ->
    w_sink w1 = None -> w_sink w2 = None -> w_sink w12 = None ->
    oracles_ok (w_or w1) -> oracles_ok (w_or w2) -> oracles_ok (w_or w12) ->
    open_file w1 (op_log op) = Some (OData (render f1) NoFault) ->
    open_file w2 (op_log op) = Some (OData (render f2) NoFault) ->
    open_file w12 (op_log op) = Some (OData (render f1 ++ render f2) NoFault) ->
    out_status (run NM w1 i) = Ok ->
    out_stdout (run NM w12 i) = out_stdout (run NM w1 i) ++ out_stdout (run NM w2 i)
    /\ out_status (run NM w12 i) = out_status (run NM w2 i).
Proof. exact HP.Proofs.AssemblyCompose.run_bytes_concat_log. Qed.
Print Assumptions run_bytes_concat_log.

(** the program: reg in its per-day forms (register with either template, old
    register, -f PATTERN inside the model, -s ELEMENT without -g) *)
Theorem run_bytes_concat_reg :
  forall (NM : Num) (w1 w2 w12 : world) (i : invocation) (op : options) (odb : opened) (f1 f2 : file),
    i_cmd i = CReg ->
    match rc_single_element (op_rc op) with
    | [] => rc_single_food (op_rc op) = [] \/ parse_regex (rc_single_food (op_rc op)) <> ReUnmodelled
    | _ :: _ => rc_group_food (op_rc op) = false
    end ->
    load w1 i = inr op -> load w2 i = inr op -> load w12 i = inr op ->
    (wf_file NM f1 = true /\ short_lines f1 /\ f_final_newline f1 = true /\
     wf_file NM f2 = true /\ short_lines f2 /\ no_bad_items f2 /\
     heading_first_items (map fst (f_items f2)) = true) ->
    w_sink w1 = None -> w_sink w2 = None -> w_sink w12 = None ->
    oracles_ok (w_or w1) -> oracles_ok (w_or w2) -> oracles_ok (w_or w12) ->
    open_file w1 (op_db op) = Some odb -> open_file w2 (op_db op) = Some odb -> open_file w12 (op_db op) = Some odb ->
    open_file w1 (op_log op) = Some (OData (render f1) NoFault) ->
    open_file w2 (op_log op) = Some (OData (render f2) NoFault) ->
    open_file w12 (op_log op) = Some (OData (render f1 ++ render f2) NoFault) ->
    out_status (run NM w1 i) = Ok ->
    out_stdout (run NM w12 i) = out_stdout (run NM w1 i) ++ out_stdout (run NM w2 i)
    /\ out_status (run NM w12 i) = out_status (run NM w2 i).
Proof. exact HP.Proofs.AssemblyCompose.run_bytes_concat_reg. Qed.
Print Assumptions run_bytes_concat_reg.
