(** Property C09.

    "For every file containing malformed entries (an indented entry with no
    blank before its value, or whose value is not a number), every command that
    reads the file fails with a non-zero status and an error that quotes the
    first malformed line and its 1-based line number, counting blank and
    comment lines.  lint reports every malformed line once, in file order, with
    the same messages, and prints 'No errors found' exactly when the file has
    none."

    Vocabulary (definitions in Proofs/MalformedBase.v, MalformedLint.v, MalformedBook.v, MalformedLog.v):
      [errors_of NM evs]   the payloads of the [EErr] events of [evs], in order;
      [nodes_of NM evs]    the records ([ENode]) of [evs], in order;
      [readable data]      [snd (scan data NoFault) = ScanEOF]: no line of 65536 bytes or more;
      [is_nil l]           [l] is empty;
      [lint_lines NM data silent]  the messages of the errors, then "No errors found" iff none and not silent;
      [csv_db_text NM ns]  the CSV rows of the records [ns];
      [dated NM toks n]    [parse_date toks (header n) <> None];
      [process_total R]    the reporter's Process never returns an error;
      [never_panics R]     the reporter has no failing partial operation;
      [days_state], [days_text]  reporter state / bytes written after the days that precede the error.
    [events NM data] (Model/Parser.v) is what ParseStreamCallback delivers for the bytes [data]; WP03 ties
    its [EErr]s to the malformed lines of the file with their physical 1-based numbers.
    [perr_message e] is the text of parser/errors.go (line number and raw line quoted).
    All statements hold for every [NM : Num] and arbitrary bytes [data]. *)
From HP Require Import Base.Bytes Base.Utf8 Base.Num Model.Scanner Model.Parser Model.Elements Model.Resolver
  Model.Dates Model.Tree Model.Writer Model.Regex Model.Reporters Model.Cli.
From HP Require Import Model.Syntax.
From HP Require Import Proofs.MalformedBase Proofs.MalformedLint Proofs.MalformedBook Proofs.MalformedLog
  Proofs.MalformedRun Proofs.MalformedLines Proofs.MalformedSyntax.
Open Scope N_scope.

(** * "lint reports every malformed line once, in file order, with the same messages" *)
Theorem lint_reports_all : forall (NM : Num) (w : world) (file data : bytes) (silent : bool),
  file <> [] ->
  file <> dev_null ->
  lookup file (w_fs w) = Some (FFile data) ->
  lookup file (w_read_fault w) = None ->
  w_sink w = None ->
  readable data ->
  run_lint NM w file silent =
    {| out_stdout := concat (map (fun e => perr_message e ++ [c_lf]) (errors_of NM (events NM data)))
                     ++ (if (is_nil (errors_of NM (events NM data)) && negb silent)%bool
                         then b "No errors found" ++ [c_lf] else []);
       out_status := Ok |}.
Proof. exact MalformedLint.lint_reports_all. Qed.
Print Assumptions lint_reports_all.

(** * "and prints 'No errors found' exactly when the file has none" *)
Theorem lint_ok_iff_clean : forall (NM : Num) (w : world) (file data : bytes) (silent : bool),
  file <> [] ->
  file <> dev_null ->
  lookup file (w_fs w) = Some (FFile data) ->
  lookup file (w_read_fault w) = None ->
  w_sink w = None ->
  readable data ->
  out_stdout (run_lint NM w file silent) = concat (map (fun l => l ++ [c_lf]) (lint_lines NM data silent))
  /\ (In (b "No errors found") (lint_lines NM data silent)
      <-> errors_of NM (events NM data) = [] /\ silent = false)
  /\ (out_stdout (run_lint NM w file silent) = b "No errors found" ++ [c_lf]
      <-> errors_of NM (events NM data) = [] /\ silent = false)
  /\ (errors_of NM (events NM data) <> [] ->
      out_stdout (run_lint NM w file silent)
      = concat (map (fun e => perr_message e ++ [c_lf]) (errors_of NM (events NM data)))).
Proof. exact MalformedLint.lint_ok_iff_clean. Qed.
Print Assumptions lint_ok_iff_clean.

(** "once": split at LF, the output is exactly one line per malformed line, in file order (no message
    contains an LF), then the "No errors found" line if applicable; [[]] is what follows the last LF *)
Theorem lint_output_lines : forall (NM : Num) (w : world) (file data : bytes) (silent : bool),
  file <> [] ->
  file <> dev_null ->
  lookup file (w_fs w) = Some (FFile data) ->
  lookup file (w_read_fault w) = None ->
  w_sink w = None ->
  readable data ->
  split_on c_lf (out_stdout (run_lint NM w file silent))
  = map perr_message (errors_of NM (events NM data))
    ++ (if (is_nil (errors_of NM (events NM data)) && negb silent)%bool then [b "No errors found"] else [])
    ++ [[]].
Proof. exact MalformedLines.lint_output_lines. Qed.
Print Assumptions lint_output_lines.

(** a parse-error line is never the "No errors found" line *)
Theorem perr_line_not_no_errors : forall e : perr, perr_message e ++ [c_lf] <> b "No errors found" ++ [c_lf].
Proof. exact MalformedLint.perr_line_not_no_errors. Qed.
Print Assumptions perr_line_not_no_errors.

(** a line too long for the scanner: the errors before it are printed, the status is "token too long" *)
Theorem lint_unreadable : forall (NM : Num) (w : world) (file data : bytes) (silent : bool),
  file <> [] ->
  file <> dev_null ->
  lookup file (w_fs w) = Some (FFile data) ->
  lookup file (w_read_fault w) = None ->
  w_sink w = None ->
  ~ readable data ->
  run_lint NM w file silent =
    {| out_stdout := concat (map (fun e => perr_message e ++ [c_lf]) (errors_of NM (events NM data)));
       out_status := Failed (EScan true) |}.
Proof. exact MalformedLint.lint_unreadable. Qed.
Print Assumptions lint_unreadable.

(** * "every command that reads the file fails ... with the first malformed line": the BOOK *)

(** LoadDatabaseFromStream + Resolve, shared by reg, bal, summary, report totals / unresolved /
    element-total, csv database-resolved *)
Theorem first_error_reported_book : forall (NM : Num) (w : world) (op : options) (data : bytes) (e : perr) (es : list perr),
  errors_of NM (events NM data) = e :: es ->
  resolved_db NM w op (OData data NoFault) = inl (EParse (perr_message e)).
Proof. exact MalformedBook.resolved_db_first_error. Qed.
Print Assumptions first_error_reported_book.

(** reg, bal, report totals, report unresolved *)
Theorem first_error_reported_book_reg_bal_totals_unresolved :
  forall (NM : Num) (w : world) (i : invocation) (op : options) (data : bytes) (e : perr) (es : list perr),
  load w i = inr op ->
  In (i_cmd i) [CReg; CBal; CTotals; CUnresolved] ->
  op_db op <> [] ->
  op_db op <> dev_null ->
  lookup (op_db op) (w_fs w) = Some (FFile data) ->
  lookup (op_db op) (w_read_fault w) = None ->
  open_file w (op_log op) <> None ->
  errors_of NM (events NM data) = e :: es ->
  run NM w i = {| out_stdout := []; out_status := Failed (EParse (perr_message e)) |}.
Proof. exact MalformedRun.run_book_error_db_log. Qed.
Print Assumptions first_error_reported_book_reg_bal_totals_unresolved.

(** summary DAY *)
Theorem first_error_reported_book_summary :
  forall (NM : Num) (w : world) (i : invocation) (op : options) (arg : bytes) (t : time) (data : bytes)
         (e : perr) (es : list perr),
  load w i = inr op ->
  i_cmd i = CSummary arg ->
  time_from_string w (op_now op) (rc_date (op_rc op)) arg = inr t ->
  op_db op <> [] ->
  op_db op <> dev_null ->
  lookup (op_db op) (w_fs w) = Some (FFile data) ->
  lookup (op_db op) (w_read_fault w) = None ->
  open_file w (op_log op) <> None ->
  errors_of NM (events NM data) = e :: es ->
  run NM w i = {| out_stdout := []; out_status := Failed (EParse (perr_message e)) |}.
Proof. exact MalformedRun.run_book_error_summary. Qed.
Print Assumptions first_error_reported_book_summary.

(** report element-total X *)
Theorem first_error_reported_book_element_total :
  forall (NM : Num) (w : world) (i : invocation) (op : options) (x data : bytes) (e : perr) (es : list perr),
  load w i = inr op ->
  i_cmd i = CElementTotal x -> x <> [] ->
  op_db op <> [] ->
  op_db op <> dev_null ->
  lookup (op_db op) (w_fs w) = Some (FFile data) ->
  lookup (op_db op) (w_read_fault w) = None ->
  errors_of NM (events NM data) = e :: es ->
  run NM w i = {| out_stdout := []; out_status := Failed (EParse (perr_message e)) |}.
Proof. exact MalformedRun.run_book_error_element_total. Qed.
Print Assumptions first_error_reported_book_element_total.

(** csv database-resolved *)
Theorem first_error_reported_book_csv_db_resolved :
  forall (NM : Num) (w : world) (i : invocation) (op : options) (data : bytes) (e : perr) (es : list perr),
  load w i = inr op ->
  i_cmd i = CCsvDbResolved ->
  op_db op <> [] ->
  op_db op <> dev_null ->
  lookup (op_db op) (w_fs w) = Some (FFile data) ->
  lookup (op_db op) (w_read_fault w) = None ->
  errors_of NM (events NM data) = e :: es ->
  run NM w i = {| out_stdout := []; out_status := Failed (EParse (perr_message e)) |}.
Proof. exact MalformedRun.run_book_error_csv_db_resolved. Qed.
Print Assumptions first_error_reported_book_csv_db_resolved.

(** csv database: rows stream out as records arrive, so those before the first malformed line are printed *)
Theorem first_error_reported_book_csv_db :
  forall (NM : Num) (w : world) (i : invocation) (op : options) (data : bytes)
         (pre : list (event NM)) (e : perr) (post : list (event NM)),
  load w i = inr op ->
  i_cmd i = CCsvDb ->
  op_db op <> [] ->
  op_db op <> dev_null ->
  lookup (op_db op) (w_fs w) = Some (FFile data) ->
  lookup (op_db op) (w_read_fault w) = None ->
  w_sink w = None ->
  events NM data = pre ++ EErr e :: post -> errors_of NM pre = [] ->
  run NM w i = {| out_stdout := csv_db_text NM (nodes_of NM pre);
                  out_status := Failed (EParse (perr_message e)) |}.
Proof. exact MalformedRun.run_book_error_csv_db. Qed.
Print Assumptions first_error_reported_book_csv_db.

(** stats: reads the log first (which must itself be fine: no malformed line, every heading a date -- fix F27),
    then the book *)
Theorem first_error_reported_book_stats :
  forall (NM : Num) (w : world) (i : invocation) (op : options) (ldata data : bytes) (e : perr) (es : list perr),
  load w i = inr op ->
  i_cmd i = CStats ->
  op_log op <> [] ->
  op_log op <> dev_null ->
  lookup (op_log op) (w_fs w) = Some (FFile ldata) ->
  lookup (op_log op) (w_read_fault w) = None ->
  errors_of NM (events NM ldata) = [] -> readable ldata ->
  Forall (fun n => parse_date (rc_date (op_rc op)) (header n) <> None) (nodes_of NM (events NM ldata)) ->
  op_db op <> [] ->
  op_db op <> dev_null ->
  lookup (op_db op) (w_fs w) = Some (FFile data) ->
  lookup (op_db op) (w_read_fault w) = None ->
  errors_of NM (events NM data) = e :: es ->
  run NM w i = {| out_stdout := []; out_status := Failed (EParse (perr_message e)) |}.
Proof. exact MalformedRun.run_book_error_stats. Qed.
Print Assumptions first_error_reported_book_stats.

(** * ... the LOG *)

(** the walk with any reporter whose Process returns no error: status and everything written *)
Theorem first_error_reported_log :
  forall (NM : Num) (w : world) (op : options) (mk : list (bytes * elements NM) -> reporter NM)
         (bt et : option time) (odb : opened) (d : list (bytes * elements NM)) (toks : list ltoken)
         (data : bytes) (pre : list (event NM)) (e : perr) (post : list (event NM)),
  open_file w (op_db op) = Some odb ->
  resolved_db NM w op odb = inr d ->
  tokenize (op_fmt op) = Some toks ->
  op_log op <> [] ->
  op_log op <> dev_null ->
  lookup (op_log op) (w_fs w) = Some (FFile data) ->
  lookup (op_log op) (w_read_fault w) = None ->
  w_sink w = None ->
  events NM data = pre ++ EErr e :: post ->
  errors_of NM pre = [] ->
  Forall (dated NM toks) (nodes_of NM pre) ->
  process_total NM (mk d) ->
  let R := mk d in
  let rs := days_state NM R (o_day (w_or w)) toks bt et pre in
  run_db_log NM w op mk bt et
  = {| out_stdout := days_text NM R (o_day (w_or w)) toks bt et pre
                     ++ chunk_bytes (r_flush NM R (o_flush (w_or w)) rs);
       out_status := match r_panic NM R rs with
                     | Some site => Panicked site
                     | None => Failed (EParse (perr_message e))
                     end |}.
Proof. exact MalformedLog.run_db_log_first_error_log. Qed.
Print Assumptions first_error_reported_log.

(** reg, bal, report totals, report unresolved; for [reg -f PATTERN] the pattern is any regular
    expression that compiles ([pattern_ok], Model/Regex.v) *)
Theorem first_error_reported_log_reg_bal_totals_unresolved :
  forall (NM : Num) (w : world) (i : invocation) (op : options) (odb : opened) (d : list (bytes * elements NM))
         (data : bytes) (pre : list (event NM)) (e : perr) (post : list (event NM)),
  load w i = inr op ->
  In (i_cmd i) [CReg; CBal; CTotals; CUnresolved] ->
  (i_cmd i = CReg -> pattern_ok (rc_single_food (op_rc op)) = true
                     /\ (rc_single_element (op_rc op) = [] \/ rc_group_food (op_rc op) = true)) ->
  open_file w (op_db op) = Some odb ->
  resolved_db NM w op odb = inr d ->
  op_log op <> [] ->
  op_log op <> dev_null ->
  lookup (op_log op) (w_fs w) = Some (FFile data) ->
  lookup (op_log op) (w_read_fault w) = None ->
  w_sink w = None ->
  events NM data = pre ++ EErr e :: post ->
  errors_of NM pre = [] ->
  Forall (fun n => parse_date (rc_date (op_rc op)) (header n) <> None) (nodes_of NM pre) ->
  out_status (run NM w i) = Failed (EParse (perr_message e)).
Proof. exact MalformedRun.run_log_error_db_log. Qed.
Print Assumptions first_error_reported_log_reg_bal_totals_unresolved.

(** summary DAY *)
Theorem first_error_reported_log_summary :
  forall (NM : Num) (w : world) (i : invocation) (op : options) (arg : bytes) (t : time) (odb : opened)
         (d : list (bytes * elements NM)) (data : bytes) (pre : list (event NM)) (e : perr) (post : list (event NM)),
  load w i = inr op ->
  i_cmd i = CSummary arg ->
  time_from_string w (op_now op) (rc_date (op_rc op)) arg = inr t ->
  open_file w (op_db op) = Some odb ->
  resolved_db NM w op odb = inr d ->
  op_log op <> [] ->
  op_log op <> dev_null ->
  lookup (op_log op) (w_fs w) = Some (FFile data) ->
  lookup (op_log op) (w_read_fault w) = None ->
  w_sink w = None ->
  events NM data = pre ++ EErr e :: post ->
  errors_of NM pre = [] ->
  Forall (fun n => parse_date (rc_date (op_rc op)) (header n) <> None) (nodes_of NM pre) ->
  out_status (run NM w i) = Failed (EParse (perr_message e)).
Proof. exact MalformedRun.run_log_error_summary. Qed.
Print Assumptions first_error_reported_log_summary.

(** report quantity, csv log, print *)
Theorem first_error_reported_log_quantity_csv_print :
  forall (NM : Num) (w : world) (i : invocation) (op : options) (data : bytes)
         (pre : list (event NM)) (e : perr) (post : list (event NM)),
  load w i = inr op ->
  In (i_cmd i) [CQuantity; CCsvLog; CPrint] ->
  op_log op <> [] ->
  op_log op <> dev_null ->
  lookup (op_log op) (w_fs w) = Some (FFile data) ->
  lookup (op_log op) (w_read_fault w) = None ->
  w_sink w = None ->
  events NM data = pre ++ EErr e :: post ->
  errors_of NM pre = [] ->
  Forall (fun n => parse_date (rc_date (op_rc op)) (header n) <> None) (nodes_of NM pre) ->
  out_status (run NM w i) = Failed (EParse (perr_message e)).
Proof. exact MalformedRun.run_log_error_log_only. Qed.
Print Assumptions first_error_reported_log_quantity_csv_print.

(** stats (since fix F27 the headings before the malformed line must be dates, as for every other command) *)
Theorem first_error_reported_log_stats :
  forall (NM : Num) (w : world) (i : invocation) (op : options) (data : bytes) (pre : list (event NM)) (e : perr)
         (post : list (event NM)),
  load w i = inr op ->
  i_cmd i = CStats ->
  op_log op <> [] ->
  op_log op <> dev_null ->
  lookup (op_log op) (w_fs w) = Some (FFile data) ->
  lookup (op_log op) (w_read_fault w) = None ->
  events NM data = pre ++ EErr e :: post ->
  errors_of NM pre = [] ->
  Forall (fun n => parse_date (rc_date (op_rc op)) (header n) <> None) (nodes_of NM pre) ->
  run NM w i = {| out_stdout := []; out_status := Failed (EParse (perr_message e)) |}.
Proof. exact MalformedRun.run_log_error_stats. Qed.
Print Assumptions first_error_reported_log_stats.

(** the date hypothesis is necessary: a heading before the malformed line that is not a date wins *)
Theorem bad_date_reported_first :
  forall (NM : Num) (w : world) (op : options) (R : reporter NM) (toks : list ltoken) (data : bytes)
         (pre : list (event NM)) (n : pnode NM) (post : list (event NM)),
  tokenize (op_fmt op) = Some toks ->
  op_log op <> [] ->
  op_log op <> dev_null ->
  lookup (op_log op) (w_fs w) = Some (FFile data) ->
  lookup (op_log op) (w_read_fault w) = None ->
  w_sink w = None ->
  events NM data = pre ++ ENode n :: post ->
  errors_of NM pre = [] -> Forall (dated NM toks) (nodes_of NM pre) ->
  parse_date toks (header n) = None ->
  post <> [] \/ readable data ->
  process_total NM R ->
  out_status (run_log NM w op R) = Failed EBadDate.
Proof. exact MalformedLog.run_log_bad_date_first. Qed.
Print Assumptions bad_date_reported_first.

(** ... for stats too (fix F27: before, stats counted such a heading and showed it as the zero time):
    the run fails with the date error and prints nothing *)
Theorem bad_date_reported_first_stats :
  forall (NM : Num) (w : world) (i : invocation) (op : options) (data : bytes)
         (pre : list (event NM)) (n : pnode NM) (post : list (event NM)),
  load w i = inr op ->
  i_cmd i = CStats ->
  op_log op <> [] ->
  op_log op <> dev_null ->
  lookup (op_log op) (w_fs w) = Some (FFile data) ->
  lookup (op_log op) (w_read_fault w) = None ->
  events NM data = pre ++ ENode n :: post ->
  errors_of NM pre = [] ->
  Forall (fun m => parse_date (rc_date (op_rc op)) (header m) <> None) (nodes_of NM pre) ->
  parse_date (rc_date (op_rc op)) (header n) = None ->
  post <> [] \/ readable data ->
  run NM w i = {| out_stdout := []; out_status := Failed EBadDate |}.
Proof. exact MalformedRun.run_bad_date_stats. Qed.
Print Assumptions bad_date_reported_first_stats.

(** * "the first malformed line" is well defined: the splitting used above exists and is unique *)
Theorem first_error_is_first : forall (NM : Num) (evs : list (event NM)) (e : perr) (es : list perr),
  errors_of NM evs = e :: es ->
  exists pre post,
    evs = pre ++ EErr e :: post /\ errors_of NM pre = [] /\ errors_of NM post = es
    /\ forall pre' e' post', evs = pre' ++ EErr e' :: post' -> errors_of NM pre' = [] ->
                             pre' = pre /\ e' = e /\ post' = post.
Proof. exact MalformedRun.first_error_is_first. Qed.
Print Assumptions first_error_is_first.

(** * stretch: on a file rendered from the abstract syntax (WP03's round-trip statement as a premise),
    lint prints the message of every IBadNoSep / IBadNum item that follows a heading, in file order,
    with line number = 0-based index + 1.  [file_errors], [bad_errors], [err_on_line], [is_heading]:
    Proofs/MalformedSyntax.v. *)
Theorem lint_on_rendered :
  forall (NM : Num) (short_lines : Syntax.file -> Prop),
  (forall f, wf_file NM f = true -> short_lines f -> events NM (render f) = expected_events NM f) ->
  forall (w : world) (file : bytes) (f : Syntax.file) (silent : bool),
  wf_file NM f = true -> short_lines f -> readable (render f) ->
  file <> [] ->
  file <> dev_null ->
  lookup file (w_fs w) = Some (FFile (render f)) ->
  lookup file (w_read_fault w) = None ->
  w_sink w = None ->
  run_lint NM w file silent =
    {| out_stdout := concat (map (fun e => perr_message e ++ [c_lf]) (file_errors f))
                     ++ (if (is_nil (file_errors f) && negb silent)%bool
                         then b "No errors found" ++ [c_lf] else []);
       out_status := Ok |}.
Proof. exact MalformedSyntax.lint_on_rendered. Qed.
Print Assumptions lint_on_rendered.

Theorem file_errors_spec : forall (f : Syntax.file) (e : perr),
  In e (file_errors f) <->
  exists i it, nth_error (map fst (f_items f)) i = Some it /\ is_bad it = true
               /\ (exists j h, (j < i)%nat /\ nth_error (map fst (f_items f)) j = Some h /\ is_heading h = true)
               /\ e = err_on_line (N.of_nat i + 1) it.
Proof. exact MalformedSyntax.file_errors_spec. Qed.
Print Assumptions file_errors_spec.
