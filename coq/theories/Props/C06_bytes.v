(** Property C06 on the BYTES of the log file.
    "For every log (days in any order, dates possibly repeated) and every begin/end pair, each
    command that accepts a period reports exactly the days d with begin <= d <= end: its output
    equals what it prints for the same file with the other days deleted and no period given."

    Props/C06.v proves the sentence on the parser's event stream.  Here the file is an abstract
    file of Model/Syntax.v ([f : file], bytes [render f]: every layout of the documented
    format), and "the other days deleted" is [keep_records (in_period toks bt et) f]: the lines of
    every record (heading and everything up to the next heading) whose heading is not a date d with
    bt <= d <= et are removed, line endings included; nothing else changes (lines before the first
    heading, comments, blank lines, notes, CRLF endings, final newline).

    Hypotheses (definitions in Spec/PeriodBytesSpec.v, Model/Syntax.v, Proofs/ParserScan.v):
    [wf_file NM f] the documented format; [short_lines f] every line below the scanner's 65536-byte
    limit; [clean_file f] no malformed line under any heading, i.e. the file parses without error
    ([clean_file_no_errors]); [headings_dated toks f] every heading is a date under the layout;
    [file_is w p data] the path (not empty, and not the null device /dev/null, which since fix F24 opens as
    the empty file whatever the world says) holds a regular file with these bytes, read without an injected
    fault; [op_db op <> op_log op] the book is another file.  Each is shown necessary below.
    [Settings.config_path w i <> op_log op] (WP28: a regular file at the configuration path is now
    read as text by [Config.parse_config]): the log is not also the configuration file. *)
From HP Require Import Base.Bytes Base.Utf8 Base.Num Model.Scanner Model.Parser Model.Syntax Model.Elements
  Model.Dates Model.Writer Model.Reporters Model.Cli.
From HP Require Import Spec.PeriodSpec Spec.PeriodBytesSpec.
From HP Require Import Proofs.ParserScan Proofs.ParserCorollaries Proofs.PeriodPick Proofs.PeriodRun.
From HP Require Import Proofs.PeriodBytesParse Proofs.PeriodBytesRun Proofs.PeriodBytesCli Proofs.PeriodBytesExamples.
From HP Require Proofs.Settings.

(** *** the pure parser statement *)

(** deleting whole records, chosen by ANY predicate on the heading, deletes exactly their events:
    the events of the reduced file are the events of the file restricted to the kept records *)
Theorem delete_records_events :
  forall (NM : Num) (keep : bytes -> bool) (f : file),
    wf_file NM f = true -> short_lines f -> clean_file f ->
    events NM (render (keep_records keep f)) = filter (keep_event keep) (events NM (render f)).
Proof. exact PeriodBytesParse.delete_records_events. Qed.
Print Assumptions delete_records_events.

(** "the same file with the other days deleted" parses into the events of the file restricted to
    the records whose heading is a date in the period *)
Theorem delete_days_events :
  forall (NM : Num) (toks : list ltoken) (bt et : option time) (f : file),
    wf_file NM f = true -> short_lines f -> clean_file f ->
    events NM (render (keep_records (in_period toks bt et) f))
    = filter (keep_ev_strict NM toks bt et) (events NM (render f)).
Proof. exact PeriodBytesParse.delete_days_events. Qed.
Print Assumptions delete_days_events.

(** the variant that leaves records with an undated heading in place gives the filter of
    [Props/C06.v period_is_filter] *)
Theorem delete_days_events_or_undated :
  forall (NM : Num) (toks : list ltoken) (bt et : option time) (f : file),
    wf_file NM f = true -> short_lines f -> clean_file f ->
    events NM (render (keep_records (in_period_or_undated toks bt et) f))
    = filter (keep_ev NM toks bt et) (events NM (render f)).
Proof. exact PeriodBytesParse.delete_days_events_or_undated. Qed.
Print Assumptions delete_days_events_or_undated.

(** the meaning of [clean_file]: exactly the files whose parse reports no error *)
Theorem clean_file_no_errors :
  forall (NM : Num) (f : file),
    wf_file NM f = true -> short_lines f ->
    (clean_file f <-> errs_of NM (events NM (render f)) = []).
Proof. exact PeriodBytesParse.clean_file_no_errors. Qed.
Print Assumptions clean_file_no_errors.

(** *** "its output equals what it prints for the same file with the other days deleted and no
    period given": the two command shapes, every reporter, stdout bytes and status *)

(** quantity, csv log, print *)
Theorem period_is_deletion_run_log :
  forall (NM : Num) (f : file) (toks : list ltoken),
    wf_file NM f = true -> short_lines f -> clean_file f -> headings_dated toks f ->
    forall (w : world) (op : options) (R : reporter NM),
      tokenize (op_fmt op) = Some toks ->
      file_is w (op_log op) (render f) ->
      run_log NM w op R
      = run_log NM (with_file w (op_log op) (render (keep_records (in_period toks (op_begin op) (op_end op)) f)))
                (without_period op) R.
Proof. exact PeriodBytesRun.period_is_deletion_run_log. Qed.
Print Assumptions period_is_deletion_run_log.

(** register in all its forms, balance, unresolved, totals ([mk] builds the reporter from the
    resolved book) *)
Theorem period_is_deletion_run_db_log :
  forall (NM : Num) (f : file) (toks : list ltoken),
    wf_file NM f = true -> short_lines f -> clean_file f -> headings_dated toks f ->
    forall (w : world) (op : options) (mk : list (bytes * elements NM) -> reporter NM) (bt et : option time),
      tokenize (op_fmt op) = Some toks ->
      file_is w (op_log op) (render f) ->
      op_db op <> op_log op ->
      run_db_log NM w op mk bt et
      = run_db_log NM (with_file w (op_log op) (render (keep_records (in_period toks bt et) f))) op mk None None.
Proof. exact PeriodBytesRun.period_is_deletion_run_db_log. Qed.
Print Assumptions period_is_deletion_run_db_log.

(** without any hypothesis on the headings, for the deletion that leaves undated records in place *)
Theorem period_is_deletion_or_undated_run_log :
  forall (NM : Num) (f : file) (toks : list ltoken),
    wf_file NM f = true -> short_lines f -> clean_file f ->
    forall (w : world) (op : options) (R : reporter NM),
      tokenize (op_fmt op) = Some toks ->
      file_is w (op_log op) (render f) ->
      run_log NM w op R
      = run_log NM (with_file w (op_log op)
                      (render (keep_records (in_period_or_undated toks (op_begin op) (op_end op)) f)))
                (without_period op) R.
Proof. exact PeriodBytesRun.period_is_deletion_or_undated_run_log. Qed.
Print Assumptions period_is_deletion_or_undated_run_log.

Theorem period_is_deletion_or_undated_run_db_log :
  forall (NM : Num) (f : file) (toks : list ltoken),
    wf_file NM f = true -> short_lines f -> clean_file f ->
    forall (w : world) (op : options) (mk : list (bytes * elements NM) -> reporter NM) (bt et : option time),
      tokenize (op_fmt op) = Some toks ->
      file_is w (op_log op) (render f) ->
      op_db op <> op_log op ->
      run_db_log NM w op mk bt et
      = run_db_log NM (with_file w (op_log op) (render (keep_records (in_period_or_undated toks bt et) f)))
                   op mk None None.
Proof. exact PeriodBytesRun.period_is_deletion_or_undated_run_db_log. Qed.
Print Assumptions period_is_deletion_or_undated_run_db_log.

(** *** the whole program: the invocation with -b/-e (global or on the sub-command; the
    effective period is [op_begin op], [op_end op] of the loaded options, Props/C06.v
    [innermost_flag_wins] / [load_period]) on [render f] versus the invocation without any period
    flag on the reduced file.  Commands: reg, bal, unresolved, totals, quantity, csv log, print. *)
Theorem period_is_deletion_run :
  forall (NM : Num) (w : world) (i : invocation) (op : options) (f : file),
    load w i = inr op ->
    period_command (i_cmd i) = true ->
    wf_file NM f = true -> short_lines f -> clean_file f ->
    headings_dated (rc_date (op_rc op)) f ->
    file_is w (op_log op) (render f) ->
    op_db op <> op_log op ->
    Settings.config_path w i <> op_log op ->
    run NM w i
    = run NM (with_file w (op_log op)
                (render (keep_records (in_period (rc_date (op_rc op)) (op_begin op) (op_end op)) f)))
          (without_period_flags i).
Proof. exact PeriodBytesCli.period_is_deletion_run. Qed.
Print Assumptions period_is_deletion_run.

Theorem period_is_deletion_or_undated_run :
  forall (NM : Num) (w : world) (i : invocation) (op : options) (f : file),
    load w i = inr op ->
    period_command (i_cmd i) = true ->
    wf_file NM f = true -> short_lines f -> clean_file f ->
    file_is w (op_log op) (render f) ->
    op_db op <> op_log op ->
    Settings.config_path w i <> op_log op ->
    run NM w i
    = run NM (with_file w (op_log op)
                (render (keep_records (in_period_or_undated (rc_date (op_rc op)) (op_begin op) (op_end op)) f)))
          (without_period_flags i).
Proof. exact PeriodBytesCli.period_is_deletion_or_undated_run. Qed.
Print Assumptions period_is_deletion_or_undated_run.

(** the options of the second invocation are those of the first with the period removed *)
Theorem load_without_period :
  forall (w : world) (i : invocation) (op : options) (p data' : bytes),
    load w i = inr op ->
    Settings.config_path w i <> p ->
    load (with_file w p data') (without_period_flags i) = inr (without_period op).
Proof. exact PeriodBytesCli.load_without_period. Qed.
Print Assumptions load_without_period.

(** [summary DAY] builds its own bounds from its argument (Props/C06.v [summary_selects_*]) and
    cannot be run without a day: its output equals what the same command prints for the file with
    the other days deleted *)
Theorem summary_is_deletion_run :
  forall (NM : Num) (w : world) (i : invocation) (op : options) (f : file) (arg : bytes) (t : time),
    load w i = inr op ->
    i_cmd i = CSummary arg ->
    time_from_string w (op_now op) (rc_date (op_rc op)) arg = inr t ->
    wf_file NM f = true -> short_lines f -> clean_file f ->
    headings_dated (rc_date (op_rc op)) f ->
    file_is w (op_log op) (render f) ->
    op_db op <> op_log op ->
    Settings.config_path w i <> op_log op ->
    run NM w i
    = run NM (with_file w (op_log op)
                (render (keep_records (in_period (rc_date (op_rc op))
                                         (Some (summary_begin t)) (Some (summary_end t))) f)))
          i.
Proof. exact PeriodBytesCli.summary_is_deletion_run. Qed.
Print Assumptions summary_is_deletion_run.

(** *** stretch: the reduced file may be written in ANY layout (other indentation, dashes, quotes,
    CRLF, final newline, blank and comment lines: [contents] of C04's [layout_invariance]) and sit
    in any world with the same oracles and sink *)
Theorem deletion_layout_free_run_log :
  forall (NM : Num) (f : file) (toks : list ltoken) (w w' : world) (op : options) (R : reporter NM) (f' : file),
    wf_file NM f = true -> short_lines f -> no_bad_items f -> headings_dated toks f ->
    wf_file NM f' = true -> short_lines f' -> no_bad_items f' ->
    contents (map fst (f_items f'))
    = contents (map fst (f_items (keep_records (in_period toks (op_begin op) (op_end op)) f))) ->
    same_but_files w w' ->
    tokenize (op_fmt op) = Some toks ->
    file_is w (op_log op) (render f) ->
    file_is w' (op_log op) (render f') ->
    run_log NM w op R = run_log NM w' (without_period op) R.
Proof. exact PeriodBytesRun.deletion_layout_free_run_log. Qed.
Print Assumptions deletion_layout_free_run_log.

Theorem deletion_layout_free_run_db_log :
  forall (NM : Num) (f : file) (toks : list ltoken) (w w' : world) (op : options)
         (mk : list (bytes * elements NM) -> reporter NM) (bt et : option time) (f' : file),
    wf_file NM f = true -> short_lines f -> no_bad_items f -> headings_dated toks f ->
    wf_file NM f' = true -> short_lines f' -> no_bad_items f' ->
    contents (map fst (f_items f')) = contents (map fst (f_items (keep_records (in_period toks bt et) f))) ->
    same_but_files w w' ->
    tokenize (op_fmt op) = Some toks ->
    open_file w' (op_db op) = open_file w (op_db op) ->
    file_is w (op_log op) (render f) ->
    file_is w' (op_log op) (render f') ->
    run_db_log NM w op mk bt et = run_db_log NM w' op mk None None.
Proof. exact PeriodBytesRun.deletion_layout_free_run_db_log. Qed.
Print Assumptions deletion_layout_free_run_db_log.

(** *** necessity: why [clean_file] and [headings_dated] are there.
    The three witnesses of Proofs/PeriodRun.v on raw bytes ... *)

(** a syntax error inside a day that the period excludes still fails the command *)
Theorem literal_deletion_refuted_error_in_excluded_day :
  out_status (run ZNum (ex_world_log ex_logA) (ex_inv None ex_period ex_period None None CReg))
    = Failed (EParse (b "bad syntax on line 2, ""  plum"".")) /\
  out_status (run ZNum (ex_world_log ex_logA') (ex_inv None None None None None CReg)) = Ok.
Proof. exact PeriodRun.literal_deletion_refuted_error_in_excluded_day. Qed.
Print Assumptions literal_deletion_refuted_error_in_excluded_day.

(** deleting lines renumbers the lines quoted in later error messages *)
Theorem literal_deletion_refuted_line_numbers :
  out_status (run ZNum (ex_world_log ex_logB) (ex_inv None ex_period ex_period None None CReg))
    = Failed (EParse (b "bad syntax on line 4, ""  apple"".")) /\
  out_status (run ZNum (ex_world_log ex_logB') (ex_inv None None None None None CReg))
    = Failed (EParse (b "bad syntax on line 2, ""  apple"".")).
Proof. exact PeriodRun.literal_deletion_refuted_line_numbers. Qed.
Print Assumptions literal_deletion_refuted_line_numbers.

(** a heading that is not a date is an error whatever the period *)
Theorem literal_deletion_refuted_bad_heading :
  out_status (run ZNum (ex_world_log ex_logC) (ex_inv None ex_period ex_period None None CReg)) = Failed EBadDate /\
  out_status (run ZNum (ex_world_log ex_logA') (ex_inv None None None None None CReg)) = Ok.
Proof. exact PeriodRun.literal_deletion_refuted_bad_heading. Qed.
Print Assumptions literal_deletion_refuted_bad_heading.

(** ... and the same on abstract files, every other hypothesis of [period_is_deletion_run] holding *)
Theorem clean_file_needed :
  let w := ex_world_log (render ex_h) in
  let i := ex_inv None (Some (b "2021/03/14")) None None None CReg in
  wf_file ZNum ex_h = true /\ short_lines ex_h /\ headings_dated ex_toks ex_h /\ ~ clean_file ex_h /\
  out_status (run ZNum w i) = Failed (EParse (b "bad syntax on line 4, ""  apple"".")) /\
  out_status (run ZNum (with_file w (b "log.yaml") (render (keep_records (in_period ex_toks ex_et None) ex_h)))
                  (without_period_flags i))
  = Failed (EParse (b "bad syntax on line 2, ""  apple"".")).
Proof. exact PeriodBytesExamples.clean_file_needed. Qed.
Print Assumptions clean_file_needed.

Theorem headings_dated_needed :
  let w := ex_world_log (render ex_k) in
  let i := ex_inv None (Some (b "2021/03/14")) None None None CReg in
  wf_file ZNum ex_k = true /\ short_lines ex_k /\ clean_file ex_k /\ ~ headings_dated ex_toks ex_k /\
  out_status (run ZNum w i) = Failed EBadDate /\
  out_status (run ZNum (with_file w (b "log.yaml") (render (keep_records (in_period ex_toks ex_et None) ex_k)))
                  (without_period_flags i)) = Ok.
Proof. exact PeriodBytesExamples.headings_dated_needed. Qed.
Print Assumptions headings_dated_needed.

(** a read fault sits at a byte offset; deleting days moves the bytes under it *)
Theorem read_fault_free_needed :
  let w0 := ex_world_log (render ex_f) in
  let w := {| w_fs := w_fs w0; w_default_config := w_default_config w0; w_tz := w_tz w0; w_clock := w_clock w0;
              w_or := w_or w0; w_sink := w_sink w0; w_read_fault := [(b "log.yaml", 60%nat)] |} in
  run ZNum w ex_i
  <> run ZNum (with_file w (b "log.yaml") (render (keep_records (in_period ex_toks ex_bt ex_et) ex_f)))
         (without_period_flags ex_i).
Proof. exact PeriodBytesExamples.read_fault_free_needed. Qed.
Print Assumptions read_fault_free_needed.

(** the book and the log in one file: deleting days from the log deletes recipes from the book *)
Theorem distinct_files_needed :
  let w := ex_world_log (render ex_m) in
  wf_file ZNum ex_m = true /\ short_lines ex_m /\ clean_file ex_m /\ headings_dated ex_toks ex_m /\
  (exists op, load w ex_i_book_is_log = inr op /\ op_db op = op_log op) /\
  run ZNum w ex_i_book_is_log
  <> run ZNum (with_file w (b "log.yaml") (render (keep_records (in_period ex_toks ex_et None) ex_m)))
         (without_period_flags ex_i_book_is_log).
Proof. exact PeriodBytesExamples.distinct_files_needed. Qed.
Print Assumptions distinct_files_needed.

(** the byte-deleted file does not satisfy [log_restricted] of Props/C06.v
    [period_is_filter_run_*] when the last record of the file is deleted (the last kept record
    becomes the pending one): the theorems above do not go through that predicate *)
Theorem log_restricted_not_literal_deletion :
  wf_file ZNum ex_g = true /\ clean_file ex_g /\ headings_dated ex_toks ex_g /\
  ~ log_restricted ZNum ex_toks ex_et ex_et
      (OData (render ex_g) NoFault)
      (OData (render (keep_records (in_period ex_toks ex_et ex_et) ex_g)) NoFault).
Proof. exact PeriodBytesExamples.log_restricted_not_literal_deletion. Qed.
Print Assumptions log_restricted_not_literal_deletion.

(** *** non-vacuity: five records of four days out of order, one date twice, comments, blank lines,
    a note, CRLF endings; [register] with the global period overridden by the sub-command's begin *)
Theorem period_is_deletion_reg :
  run ZNum ex_w ex_i
  = run ZNum (with_file ex_w (b "log.yaml") (render (keep_records (in_period ex_toks ex_bt ex_et) ex_f)))
        (without_period_flags ex_i)
  /\ out_status (run ZNum ex_w ex_i) = Ok
  /\ (300 < length (out_stdout (run ZNum ex_w ex_i)))%nat
  /\ run ZNum ex_w (without_period_flags ex_i) <> run ZNum ex_w ex_i.
Proof. exact PeriodBytesExamples.period_is_deletion_reg. Qed.
Print Assumptions period_is_deletion_reg.
