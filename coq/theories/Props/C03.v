(** Property C03, from the log entries to the printed rows (assembly of the
    tree work package, Props/C03_tree.v, and the printing work package,
    Props/C03_print.v).

    "For every log, the balance report shows each category path (food name split
    on '/') exactly once, siblings sorted by name, with the sum of the quantities
    of all logged foods at or below that path (...), so every parent equals its
    own entries plus its children (...).  Collapse options only join path
    segments: when no logged food name is a path-prefix of another, every display
    mode shows the same leaf paths with the same amounts and never drops a
    branch."

    [es] = the logged (name, quantity) entries in processing order;
    [tree_add_all NM (empty_root NM) es] = the tree the reporter has built when
    the walk ends ([balance_report_rows] below); [pi] = the order in which Go's
    runtime delivers map keys at Flush; [balance_rows NM pi collapse
    collapse_last root] = the rows (amount, indentation level, label) the
    reporter prints.  The rows are read back by [decode] (Spec/BalancePrintSpec.v),
    which looks only at indentation levels and splits labels at '/':
    [leaf_rows] = (full path, amount) of the rows not followed by a deeper row,
    [all_paths] = every non-empty prefix of the full path of some row.
    [segs], [is_prefix_path], [total_at], [exactly_at], [sum_first],
    [prefix_free], [path_ltb]: Spec/TreeSpec.v.

    Every [Num] instance, no arithmetic law, every log, every oracle. *)
From Coq Require Import Sorted Permutation.
From HP Require Import Base.Bytes Base.Num Model.Elements Model.Tree Model.Reporters.
From HP Require Import Spec.TreeShared Spec.TreeSpec Spec.BalancePrintSpec.
From HP Require Import Proofs.AssemblyBalance.

(** "for every log": what the balance reporter writes at Flush after the days
    [lns] is the rendering of the rows of the tree of all logged entries *)
Theorem balance_report_rows :
  forall (NM : Num) (c : rconfig) (perms : nat -> list bytes -> list bytes)
         (pi : list bytes -> list bytes) (lns : list (lognode NM)),
    r_flush NM (rep_balance NM c) pi (bal_run NM c perms lns) =
    map (fun r => (render_row NM r, rc_collapse c))
        (balance_rows NM pi (rc_collapse c) (rc_collapse_last c)
           (tree_add_all NM (empty_root NM) (flat_map (ln_elems NM) lns))).
Proof. exact HP.Proofs.AssemblyBalance.balance_report_rows. Qed.
Print Assumptions balance_report_rows.

(** "shows each category path ... exactly once, siblings sorted by name, with
    the sum of the quantities of all logged foods at or below that path":
    plain mode (both flags off) read back row by row.  The full paths are
    pairwise different, in strictly increasing lexicographic order (= pre-order
    with sorted siblings), and (p, x) is a row exactly when p is a non-empty
    prefix of a logged path and x is the first-assign-then-add fold of the
    quantities logged at or below p. *)
Theorem balance_plain_rows_spec :
  forall (NM : Num) (es : list (bytes * T NM)) (pi : list bytes -> list bytes),
    (forall l, Permutation (pi l) l) ->
    let rows := map (fun '(p, x, _) => (p, x))
                    (decode NM (balance_rows NM pi false false (tree_add_all NM (empty_root NM) es))) in
    NoDup (map fst rows) /\
    StronglySorted (fun p q => path_ltb p q = true) (map fst rows) /\
    (forall p x, In (p, x) rows <->
       p <> [] /\ (exists f q, In (f, q) es /\ is_prefix_path p (segs f) = true) /\ x = total_at NM es p).
Proof. exact HP.Proofs.AssemblyBalance.balance_plain_rows_spec. Qed.
Print Assumptions balance_plain_rows_spec.

(** "when no logged food name is a path-prefix of another, every display mode
    shows the same leaf paths with the same amounts": for all four settings of
    the two flags the leaf rows are one and the same list, and that list is the
    logged names (as paths), each once, in strictly increasing order, each with
    the first-assign-then-add fold of the quantities logged under that name. *)
Theorem balance_modes_same_leaves :
  forall (NM : Num) (es : list (bytes * T NM)) (pi : list bytes -> list bytes),
    (forall l, Permutation (pi l) l) -> prefix_free NM es ->
    let L := tree_leaves NM (order_tree NM pi (tree_add_all NM (empty_root NM) es)) in
    (forall collapse collapse_last,
        leaf_rows NM (balance_rows NM pi collapse collapse_last (tree_add_all NM (empty_root NM) es)) = L) /\
    NoDup (map fst L) /\
    StronglySorted (fun p q => path_ltb p q = true) (map fst L) /\
    (forall p x, In (p, x) L <->
       (exists f q, In (f, q) es /\ segs f = p) /\ x = sum_first NM (map snd (exactly_at NM es p))).
Proof. exact HP.Proofs.AssemblyBalance.balance_modes_same_leaves. Qed.
Print Assumptions balance_modes_same_leaves.

(** ... and under the same hypothesis EVERY row of every mode, joined inner
    rows included, carries the specified total of the path it names *)
Theorem balance_rows_amounts :
  forall (NM : Num) (es : list (bytes * T NM)) (pi : list bytes -> list bytes) (collapse collapse_last : bool),
    (forall l, Permutation (pi l) l) -> prefix_free NM es ->
    forall p x lf,
      In (p, x, lf) (decode NM (balance_rows NM pi collapse collapse_last (tree_add_all NM (empty_root NM) es))) ->
      p <> [] /\ (exists f q, In (f, q) es /\ is_prefix_path p (segs f) = true) /\ x = total_at NM es p.
Proof. exact HP.Proofs.AssemblyBalance.balance_rows_amounts. Qed.
Print Assumptions balance_rows_amounts.

(** after fix 3cc3ec3 ([--collapse] / [--collapse-last] join a category with its
    only sub-category only while their totals are Go-equal), for EVERY log -
    a logged name may be a path-prefix of another: in every mode the visible
    category paths, each taken once with the amount of the row in which its
    last segment is printed ([shown_paths]), are the non-empty prefixes of the
    logged paths, each once, in strictly increasing order, each with an amount
    linked by Go-equalities to the specified total of that path *)
Theorem balance_rows_show_every_total :
  forall (NM : Num) (es : list (bytes * T NM)) (pi : list bytes -> list bytes) (collapse collapse_last : bool),
    (forall l, Permutation (pi l) l) ->
    let shown := shown_paths NM (balance_rows NM pi collapse collapse_last (tree_add_all NM (empty_root NM) es)) in
    NoDup (map fst shown) /\
    StronglySorted (fun p q => path_ltb p q = true) (map fst shown) /\
    (forall p y, In (p, y) shown ->
       p <> [] /\ (exists f q, In (f, q) es /\ is_prefix_path p (segs f) = true) /\
       go_eq_chain NM y (total_at NM es p)) /\
    (forall p, p <> [] -> (exists f q, In (f, q) es /\ is_prefix_path p (segs f) = true) ->
       exists y, In (p, y) shown /\ go_eq_chain NM y (total_at NM es p)).
Proof. exact HP.Proofs.AssemblyBalance.balance_rows_show_every_total. Qed.
Print Assumptions balance_rows_show_every_total.

(** ... in particular the amount of a row whose label joins several segments is
    (Go-)equal to the specified total of EVERY category path on the joined
    part ([go_eq_transitive]: true of float64 and of exact numbers,
    Props/C03_print.v): no amount is hidden by joining *)
Theorem balance_joined_row_totals :
  forall (NM : Num) (es : list (bytes * T NM)) (pi : list bytes -> list bytes) (collapse collapse_last : bool),
    (forall l, Permutation (pi l) l) ->
    forall pp own y,
      In (pp, own, y) (decode_own NM (balance_rows NM pi collapse collapse_last (tree_add_all NM (empty_root NM) es))) ->
      forall o, In o (BalancePrintSpec.prefixes own) ->
        go_eq_chain NM y (total_at NM es (pp ++ o)) /\
        (go_eq_transitive NM -> y = total_at NM es (pp ++ o) \/ t_eqb NM y (total_at NM es (pp ++ o)) = true).
Proof. exact HP.Proofs.AssemblyBalance.balance_joined_row_totals. Qed.
Print Assumptions balance_joined_row_totals.

(** ... [balance_rows_amounts] for every log (no [prefix_free]), up to Go-equality:
    every row of every mode, joined inner rows included, names a logged
    category path and carries an amount (Go-)equal to its specified total *)
Theorem balance_rows_amounts_any_log :
  forall (NM : Num) (es : list (bytes * T NM)) (pi : list bytes -> list bytes) (collapse collapse_last : bool),
    (forall l, Permutation (pi l) l) ->
    forall p y lf,
      In (p, y, lf) (decode NM (balance_rows NM pi collapse collapse_last (tree_add_all NM (empty_root NM) es))) ->
      p <> [] /\ (exists f q, In (f, q) es /\ is_prefix_path p (segs f) = true) /\
      go_eq_chain NM y (total_at NM es p) /\
      (go_eq_transitive NM -> y = total_at NM es p \/ t_eqb NM y (total_at NM es p) = true).
Proof. exact HP.Proofs.AssemblyBalance.balance_rows_amounts_any_log. Qed.
Print Assumptions balance_rows_amounts_any_log.

(** ... and the leaves of every log: all four flag settings show the same leaf
    paths with Go-equal amounts - the same amounts where Go-equal amounts are
    equal (exact numbers); [prefix_free] is no longer needed for this *)
Theorem balance_modes_same_leaves_any_log :
  forall (NM : Num) (es : list (bytes * T NM)) (pi : list bytes -> list bytes),
    (forall l, Permutation (pi l) l) ->
    let L := tree_leaves NM (order_tree NM pi (tree_add_all NM (empty_root NM) es)) in
    (forall collapse collapse_last,
        Forall2 (same_path_go_equal NM)
                (leaf_rows NM (balance_rows NM pi collapse collapse_last (tree_add_all NM (empty_root NM) es))) L) /\
    (go_eq_is_eq NM -> forall collapse collapse_last,
        leaf_rows NM (balance_rows NM pi collapse collapse_last (tree_add_all NM (empty_root NM) es)) = L).
Proof. exact HP.Proofs.AssemblyBalance.balance_modes_same_leaves_any_log. Qed.
Print Assumptions balance_modes_same_leaves_any_log.

(** "and never drops a branch": in every mode, whether or not a logged name is
    a path-prefix of another, every logged food's path is visible *)
Theorem balance_never_drops_a_logged_food :
  forall (NM : Num) (es : list (bytes * T NM)) (pi : list bytes -> list bytes) (collapse collapse_last : bool),
    (forall l, Permutation (pi l) l) ->
    forall f q, In (f, q) es ->
      In (segs f) (all_paths NM (balance_rows NM pi collapse collapse_last (tree_add_all NM (empty_root NM) es))).
Proof. exact HP.Proofs.AssemblyBalance.balance_never_drops_a_logged_food. Qed.
Print Assumptions balance_never_drops_a_logged_food.

(** "collapse options only join path segments": in every mode the visible
    category paths are exactly the non-empty prefixes of the logged paths -
    none dropped, none invented *)
Theorem balance_visible_paths :
  forall (NM : Num) (es : list (bytes * T NM)) (pi : list bytes -> list bytes) (collapse collapse_last : bool),
    (forall l, Permutation (pi l) l) ->
    forall p,
      In p (all_paths NM (balance_rows NM pi collapse collapse_last (tree_add_all NM (empty_root NM) es))) <->
      p <> [] /\ exists f q, In (f, q) es /\ is_prefix_path p (segs f) = true.
Proof. exact HP.Proofs.AssemblyBalance.balance_visible_paths. Qed.
Print Assumptions balance_visible_paths.
