(** Property C07, part 1: "figures that several reports derive from the same data
    agree: period totals equal the sum of the register's daily totals and of the
    single-element register rows; the single-element balance grand total equals the
    period total of that element".

    Vocabulary: Spec/AgreeSpec.v.  [walk R πd L] is the reporter state after the walk
    over the selected days [L], day [i] being processed under the map-order oracle
    [πd i]; [period_row πf πd d x L] is the (positive, negative) pair of the row of [x]
    that [report totals] prints; [day_row c π d x ln] the pair of [x] in the register
    totals of day [ln]; [single_row] the [reg -s x] row; [bal_single_grand_total] the
    last line of [balance -s x].  Sums are [sum l = fold_left add l zero]. *)
From Coq Require Import Permutation.
From HP Require Import Base.Bytes Base.Num Model.Elements Model.Tree Model.Reporters Spec.AgreeSpec.
From HP Require Import Proofs.AgreeTotals Proofs.AgreeTotalsAcc Proofs.AgreeTotalsMain Proofs.AgreeTotalsByFood.

(** The walk of the brief (one oracle for all days) is the constant-oracle case of [walk]. *)
Theorem walk_const_fold : forall (NM : Num) (R : reporter NM) (π : list bytes -> list bytes) (L : list (lognode NM)),
  walk NM R (fun _ => π) L
  = fold_left (fun st ln => fst (fst (r_process NM R π st ln))) L (r_init NM R).
Proof. exact AgreeTotalsMain.walk_const_fold. Qed.
Print Assumptions walk_const_fold.

(** The oracle argument is ignored by the four reporters concerned. *)
Theorem walk_oracle_independent :
  forall (NM : Num) (c : rconfig) (d : list (bytes * elements NM)) (πd πd' : nat -> list bytes -> list bytes)
         (L : list (lognode NM)),
    walk NM (rep_totals NM d) πd L = walk NM (rep_totals NM d) πd' L
    /\ walk NM (rep_single NM c d) πd L = walk NM (rep_single NM c d) πd' L
    /\ walk NM (rep_byfood NM c d) πd L = walk NM (rep_byfood NM c d) πd' L
    /\ walk NM (rep_balance_single NM c d) πd L = walk NM (rep_balance_single NM c d) πd' L.
Proof. exact AgreeTotalsMain.walk_oracle_independent. Qed.
Print Assumptions walk_oracle_independent.

(** ** Law-free list equalities (every [Num], hence binary64) *)

(** Key fact: singleReporter's own loop selects exactly the register's contributions named [x]. *)
Theorem single_contributions_is_filter :
  forall (NM : Num) (d : list (bytes * elements NM)) (x : bytes) (ln : lognode NM),
    single_contributions NM d x ln = named NM x (contributions NM d ln).
Proof. exact AgreeTotals.single_contributions_is_filter. Qed.
Print Assumptions single_contributions_is_filter.

(** Key fact: balanceSingleReporter feeds the same values (keyed by food name instead of the element). *)
Theorem bal_single_values_are_filter :
  forall (NM : Num) (d : list (bytes * elements NM)) (x : bytes) (ln : lognode NM),
    map snd (bal_single_contributions NM d x ln) = map snd (named NM x (contributions NM d ln)).
Proof. exact AgreeTotals.bal_single_values_are_filter. Qed.
Print Assumptions bal_single_values_are_filter.

(** [report totals]' state after the walk is the accumulator of the period's contributions. *)
Theorem totals_state_is_accumulate :
  forall (NM : Num) (d : list (bytes * elements NM)) (πd : nat -> list bytes -> list bytes) (L : list (lognode NM)),
    walk NM (rep_totals NM d) πd L = accumulate NM (flat_map (contributions NM d) L).
Proof. exact AgreeTotalsMain.walk_totals. Qed.
Print Assumptions totals_state_is_accumulate.

(** "the single-element register rows": the row of a day shows exactly that day's register
    figures of [x], and there is no row iff [x] does not occur that day.  No law needed. *)
Theorem single_row_is_day_row :
  forall (NM : Num) (c : rconfig) (π : list bytes -> list bytes) (d : list (bytes * elements NM))
         (x : bytes) (ln : lognode NM),
    rc_totals c = true -> (forall l : list bytes, Permutation (π l) l) ->
    single_row NM d x ln = option_map Some (day_row NM c π d x ln).
Proof. exact AgreeTotalsMain.single_row_is_day_row_perm. Qed.
Print Assumptions single_row_is_day_row.

(** The map lookup [acc[singleElement]] that would panic in Go always succeeds. *)
Theorem single_row_never_panics :
  forall (NM : Num) (d : list (bytes * elements NM)) (x : bytes) (ln : lognode NM),
    single_row NM d x ln <> Some None.
Proof. exact AgreeTotalsMain.single_row_never_panics. Qed.
Print Assumptions single_row_never_panics.

(** ... hence the [reg -s x] reporter never reaches its panic state, whatever the log. *)
Theorem rep_single_never_panics :
  forall (NM : Num) (c : rconfig) (d : list (bytes * elements NM)) (πd : nat -> list bytes -> list bytes)
         (L : list (lognode NM)),
    r_panic NM (rep_single NM c d) (walk NM (rep_single NM c d) πd L) = None.
Proof. exact AgreeTotalsMain.rep_single_never_panics. Qed.
Print Assumptions rep_single_never_panics.

(** The grand total of [balance -s x] is the plain left-to-right sum of the values of [x]. *)
Theorem bal_single_total_is_sum :
  forall (NM : Num) (c : rconfig) (πd : nat -> list bytes -> list bytes) (d : list (bytes * elements NM))
         (L : list (lognode NM)),
    bal_single_grand_total NM c πd d L
    = sum NM (map snd (named NM (rc_single_element c) (flat_map (contributions NM d) L))).
Proof. exact AgreeTotalsMain.bal_single_total_is_sum. Qed.
Print Assumptions bal_single_total_is_sum.

(** ** With the additive monoid laws *)

(** The accumulator (first occurrence assigns, later ones add, routed by [v < 0]) holds the
    plain sums.  Of the laws only [add zero v = v] is used. *)
Theorem acc_add_spec :
  forall (NM : Num), AddMonoid NM -> forall (x : bytes) (cs : elements NM),
    lookup x (accumulate NM cs)
    = if occurs_in NM x cs then Some (pos_sum NM cs x, neg_sum NM cs x) else None.
Proof. exact AgreeTotalsMain.acc_add_spec. Qed.
Print Assumptions acc_add_spec.

(** ... and the same for the accumulator threaded over the days by [report totals]. *)
Theorem acc_add_spec_threaded :
  forall (NM : Num), AddMonoid NM ->
  forall (d : list (bytes * elements NM)) (πd : nat -> list bytes -> list bytes) (x : bytes) (L : list (lognode NM)),
    lookup x (walk NM (rep_totals NM d) πd L)
    = if occurs_in NM x (flat_map (contributions NM d) L)
      then Some (pos_sum NM (flat_map (contributions NM d) L) x, neg_sum NM (flat_map (contributions NM d) L) x)
      else None.
Proof. exact AgreeTotalsMain.acc_add_spec_threaded. Qed.
Print Assumptions acc_add_spec_threaded.

(** "period totals equal the sum of the register's daily totals" *)
Theorem totals_eq_sum_daily :
  forall (NM : Num), AddMonoid NM ->
  forall (c : rconfig) (π πf : list bytes -> list bytes) (πd : nat -> list bytes -> list bytes)
         (d : list (bytes * elements NM)) (x : bytes) (L : list (lognode NM)),
    rc_totals c = true ->
    (forall l : list bytes, Permutation (π l) l) -> (forall l : list bytes, Permutation (πf l) l) ->
    period_row NM πf πd d x L
    = if occurs_in_period NM d x L
      then Some (sum NM (map (day_pos NM c π d x) L), sum NM (map (day_neg NM c π d x) L))
      else None.
Proof. exact AgreeTotalsMain.totals_eq_sum_daily. Qed.
Print Assumptions totals_eq_sum_daily.

(** the same with every day's register figures taken under that day's own oracle, as the walk does *)
Theorem totals_eq_sum_daily_indexed :
  forall (NM : Num), AddMonoid NM ->
  forall (c : rconfig) (πd' : nat -> list bytes -> list bytes) (πf : list bytes -> list bytes)
         (πd : nat -> list bytes -> list bytes) (d : list (bytes * elements NM)) (x : bytes) (L : list (lognode NM)),
    rc_totals c = true ->
    (forall i l y, In y l -> In y (πd' i l)) -> (forall l y, In y l -> In y (πf l)) ->
    period_row NM πf πd d x L
    = if occurs_in_period NM d x L
      then Some (sum NM (map (fun il => day_pos NM c (πd' (fst il)) d x (snd il)) (combine (seq 0 (length L)) L)),
                 sum NM (map (fun il => day_neg NM c (πd' (fst il)) d x (snd il)) (combine (seq 0 (length L)) L)))
      else None.
Proof. exact AgreeTotalsMain.totals_eq_sum_daily_indexed. Qed.
Print Assumptions totals_eq_sum_daily_indexed.

(** "... and of the single-element register rows" *)
Theorem totals_eq_sum_single :
  forall (NM : Num), AddMonoid NM ->
  forall (c : rconfig) (π πf : list bytes -> list bytes) (πd : nat -> list bytes -> list bytes)
         (d : list (bytes * elements NM)) (x : bytes) (L : list (lognode NM)),
    rc_totals c = true ->
    (forall l : list bytes, Permutation (π l) l) -> (forall l : list bytes, Permutation (πf l) l) ->
    (forall ln, single_row NM d x ln = option_map Some (day_row NM c π d x ln))
    /\ period_row NM πf πd d x L
       = if occurs_in_period NM d x L
         then Some (sum NM (map (single_pos NM d x) L), sum NM (map (single_neg NM d x) L))
         else None.
Proof. exact AgreeTotalsMain.totals_eq_sum_single. Qed.
Print Assumptions totals_eq_sum_single.

(** "the single-element balance grand total equals the period total of that element" *)
Theorem bal_single_total_eq_totals :
  forall (NM : Num), AddMonoid NM ->
  forall (c : rconfig) (πf : list bytes -> list bytes) (πd πd' : nat -> list bytes -> list bytes)
         (d : list (bytes * elements NM)) (L : list (lognode NM)),
    (forall l : list bytes, Permutation (πf l) l) ->
    bal_single_grand_total NM c πd d L
    = match period_row NM πf πd' d (rc_single_element c) L with
      | Some (p, n) => add NM p n
      | None => zero NM
      end.
Proof. exact AgreeTotalsMain.bal_single_total_eq_totals. Qed.
Print Assumptions bal_single_total_eq_totals.

(** ... which is the figure in the "sum" column of that row *)
Theorem bal_single_total_eq_sum_column :
  forall (NM : Num), AddMonoid NM ->
  forall (c : rconfig) (πf : list bytes -> list bytes) (πd πd' : nat -> list bytes -> list bytes)
         (d : list (bytes * elements NM)) (L : list (lognode NM)),
    (forall l : list bytes, Permutation (πf l) l) ->
    bal_single_grand_total NM c πd d L
    = match row_total_of NM (rc_single_element c) (period_rows NM πf πd' d L) with
      | Some s => s
      | None => zero NM
      end.
Proof. exact AgreeTotalsMain.bal_single_total_eq_sum_column. Qed.
Print Assumptions bal_single_total_eq_sum_column.

(** ** stretch: [reg -s x -g] (by food) *)

(** law-free: the by-food reporter feeds the same values as the register (since fix F26 also for a food the
    book does not define: it stands for itself, so [x] logged directly is counted) *)
Theorem byfood_values_are_filter :
  forall (NM : Num) (d : list (bytes * elements NM)) (x : bytes) (ln : lognode NM),
    map snd (byfood_contributions NM d x ln) = map snd (named NM x (contributions NM d ln)).
Proof. exact AgreeTotals.byfood_values_are_filter. Qed.
Print Assumptions byfood_values_are_filter.

(** Σ over foods of the by-food rows = period total of [x] over the log (the whole log: since fix F26 no
    hypothesis that [x] is never logged directly) *)
Theorem byfood_total :
  forall (NM : Num), AddMonoid NM ->
  forall (c : rconfig) (πf πf' : list bytes -> list bytes) (πd πd' : nat -> list bytes -> list bytes)
         (d : list (bytes * elements NM)) (L : list (lognode NM)),
    (forall l : list bytes, Permutation (πf l) l) -> (forall l : list bytes, Permutation (πf' l) l) ->
    sum NM (map (row_sum NM) (byfood_rows NM c πf πd d L))
    = match period_row NM πf' πd' d (rc_single_element c) L with
      | Some (p, n) => add NM p n
      | None => zero NM
      end.
Proof. exact AgreeTotalsByFood.byfood_total. Qed.
Print Assumptions byfood_total.

(** the former variant "... when [x] is never logged directly": that hypothesis is gone (name kept) *)
Theorem byfood_total_full :
  forall (NM : Num), AddMonoid NM ->
  forall (c : rconfig) (πf πf' : list bytes -> list bytes) (πd πd' : nat -> list bytes -> list bytes)
         (d : list (bytes * elements NM)) (L : list (lognode NM)),
    (forall l : list bytes, Permutation (πf l) l) -> (forall l : list bytes, Permutation (πf' l) l) ->
    sum NM (map (row_sum NM) (byfood_rows NM c πf πd d L))
    = match period_row NM πf' πd' d (rc_single_element c) L with
      | Some (p, n) => add NM p n
      | None => zero NM
      end.
Proof. exact AgreeTotalsByFood.byfood_total_full. Qed.
Print Assumptions byfood_total_full.
