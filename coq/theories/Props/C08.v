(** Property C08 -- no input makes a command crash.

    "For every command and flag combination and for arbitrary bytes in the log,
    the recipe book or the linted file, the program terminates with either a
    report or an error message and non-zero exit status.  It never panics,
    dereferences nil, overflows the stack or runs without bound."

    Termination: [run] is a total Coq function, every loop of the program is a
    structural recursion in the model (listed at the head of Proofs/NoCrash.v);
    the only data-dependent recursion, the resolver's, is bounded by its fuel
    ([resolve_node_depth_bounded]). *)
From HP Require Import Base.Bytes Base.Utf8 Base.Num Model.Scanner Model.Parser Model.Elements Model.Resolver
  Model.Dates Model.Tree Model.Writer Model.Reporters Model.Cli.
From HP Require Import Spec.ResolverSpec Proofs.NoCrash.

(** "It never panics, dereferences nil": for all worlds (arbitrary bytes in
    every file, directories, missing files, read faults, a failing output,
    arbitrary map iteration orders) and all invocations *)
Theorem run_never_panics : forall NM w i site, out_status (run NM w i) <> Panicked site.
Proof. exact NoCrash.run_never_panics. Qed.
Print Assumptions run_never_panics.

(** the one partial operation left in the program -- the map lookup of the
    single-element register -- always finds its key *)
Theorem single_row_never_index_panics : forall NM (d : list (bytes * elements NM)) x ln,
  single_row NM d x ln <> Some None.
Proof. exact NoCrash.single_row_never_index_panics. Qed.
Print Assumptions single_row_never_index_panics.

(** "terminates with either a report or an error message and non-zero exit status" *)
Theorem outcome_is_report_or_error : forall NM w i,
  out_status (run NM w i) = Ok \/ exists e, out_status (run NM w i) = Failed e.
Proof. exact NoCrash.outcome_is_report_or_error. Qed.
Print Assumptions outcome_is_report_or_error.

(** "overflows the stack or runs without bound": at level maxDepth the resolver
    returns at once, and (instrumented copy [resolve_node_d], same result) a
    call with fuel [n] never nests deeper than [n] levels *)
Theorem resolve_node_fuel_0 : forall NM st r, resolve_node NM 0 st r = None.
Proof. exact NoCrash.resolve_node_fuel_0. Qed.
Print Assumptions resolve_node_fuel_0.

Theorem resolve_node_depth_bounded : forall NM fuel st name,
  fst (resolve_node_d NM fuel st name) = resolve_node NM fuel st name /\
  (snd (resolve_node_d NM fuel st name) < S fuel)%nat.
Proof.
  exact (fun NM fuel st name => conj (NoCrash.resolve_node_d_fst NM fuel st name)
                                     (NoCrash.resolve_node_depth_bounded NM fuel st name)).
Qed.
Print Assumptions resolve_node_depth_bounded.

(** [--maxdepth 0] or a negative depth: an error, not a loop *)
Theorem negative_or_zero_maxdepth : forall NM w i op odb d,
  load w i = inr op -> (op_depth op <= 0)%Z ->
  resolving_cmd (i_cmd i) = true ->
  open_file w (op_db op) = Some odb -> load_db NM odb = (d, None) -> d <> [] ->
  order_oracle (o_resolve (w_or w)) ->
  (needs_log (i_cmd i) = true -> open_file w (op_log op) <> None) ->
  (forall arg, i_cmd i = CSummary arg ->
               exists t, time_from_string w (op_now op) (rc_date (op_rc op)) arg = inr t) ->
  i_cmd i <> CElementTotal [] ->
  run NM w i = {| out_stdout := []; out_status := Failed EMaxDepth |}.
Proof. exact NoCrash.negative_or_zero_maxdepth. Qed.
Print Assumptions negative_or_zero_maxdepth.

(** without the side conditions: such a command never succeeds and never writes a byte *)
Theorem negative_or_zero_maxdepth_never_ok : forall NM w i op odb d,
  load w i = inr op -> (op_depth op <= 0)%Z ->
  resolving_cmd (i_cmd i) = true ->
  open_file w (op_db op) = Some odb -> load_db NM odb = (d, None) -> d <> [] ->
  order_oracle (o_resolve (w_or w)) ->
  exists e, run NM w i = {| out_stdout := []; out_status := Failed e |}.
Proof. exact NoCrash.negative_or_zero_maxdepth_never_ok. Qed.
Print Assumptions negative_or_zero_maxdepth_never_ok.
