(** Property C08, the clause about the stack.

    "For every command and flag combination and for arbitrary bytes in the log,
    the recipe book or the linted file, the program terminates with either a
    report or an error message and non-zero exit status.  It never panics,
    dereferences nil, OVERFLOWS THE STACK or runs without bound."

    The clause "never overflows the stack" is FALSE of the program: the resolver
    ([resolveNode], resolver/resolver.go) recurses once per ingredient
    reference, and nothing bounds the recursion but the user's own depth limit.
    An acyclic chain of a few million recipes together with
    [--maxdepth 1000000000] ends in Go's [fatal error: stack overflow]
    (known finding KF1, /verif/known_findings.json).  The model has no stack,
    so [run_never_panics] (Props/C08.v) cannot see this.  What the model has is
    the instrumented resolver [NoCrash.resolve_node_d] (same result as
    [Resolver.resolve_node], [resolve_node_depth_bounded] in Props/C08.v); its
    second component is how deep the calls nest below the call (0 = it returned
    without calling itself; live frames of resolveNode = that number + 1).

      - the model-level witness of KF1 is [nesting_unbounded] (and
        [stack_bound_refuted], [resolve_nesting_unbounded]): no number bounds
        the nesting for all inputs, even for acyclic books that resolve;
      - the exact figure on the witness family is [chain_nesting_exact];
      - the region where the clause HOLDS is part 3: nesting <= the effective
        depth limit (<= 10 with the default), <= the longest chain of
        references, <= the number of recipes in the book. *)
From Coq Require Import Permutation.
From HP Require Import Base.Bytes Base.Utf8 Base.Num Model.Scanner Model.Parser Model.Elements Model.Resolver
  Model.Dates Model.Tree Model.Writer Model.Reporters Model.Config Model.Cli.
From HP Require Import Spec.ResolverSpec Proofs.NoCrash Proofs.StackDepth.

(** * 1. Exact nesting on chains

    [chain_book NM k] is the book  r0: r1 1 / r1: r2 1 / ... / r(k-1): rk 1  with
    r_i = [cname i] = "r" repeated i+1 times; it has distinct keys and no cycle *)
Theorem chain_book_wellformed : forall NM k,
  NoDup (keys (chain_book NM k)) /\ length (keys (chain_book NM k)) = k /\ acyclic NM (chain_book NM k).
Proof.
  exact (fun NM k => conj (StackDepth.chain_book_nodup NM k)
                          (conj (StackDepth.length_chain_book NM k) (StackDepth.chain_book_acyclic NM k))).
Qed.
Print Assumptions chain_book_wellformed.

(** resolving r0 nests exactly [min k fuel] deep, for every chain length and every fuel *)
Theorem chain_nesting_exact : forall NM k fuel,
  snd (resolve_node_d NM fuel (chain_book NM k, []) (cname 0)) = Nat.min k fuel.
Proof. exact StackDepth.chain_nesting_exact. Qed.
Print Assumptions chain_nesting_exact.

(** with a limit above the length of the chain the resolution succeeds and nests exactly [k] deep *)
Theorem chain_nesting : forall NM k fuel, (k < fuel)%nat ->
  snd (resolve_node_d NM fuel (chain_book NM k, []) (cname 0)) = k /\
  exists res, fst (resolve_node_d NM fuel (chain_book NM k, []) (cname 0)) = Some res.
Proof. exact StackDepth.chain_nesting. Qed.
Print Assumptions chain_nesting.

(** with a smaller limit: "maximum resolution depth reached", after nesting as deep as the limit *)
Theorem chain_nesting_limit_hit : forall NM k fuel, (fuel <= k)%nat ->
  resolve_node_d NM fuel (chain_book NM k, []) (cname 0) = (None, fuel).
Proof. exact StackDepth.chain_nesting_limit_hit. Qed.
Print Assumptions chain_nesting_limit_hit.

(** * 2. "never overflows the stack": no bound holds for all inputs (KF1) *)

Theorem nesting_unbounded : forall bound, exists (d : Resolver.db ZNum) fuel name,
  acyclic ZNum d /\
  fst (resolve_node_d ZNum fuel (d, []) name) <> None /\
  (bound < snd (resolve_node_d ZNum fuel (d, []) name))%nat.
Proof. exact StackDepth.nesting_unbounded. Qed.
Print Assumptions nesting_unbounded.

(** the same for every arithmetic, with distinct keys on top *)
Theorem nesting_unbounded_gen : forall (NM : Num) bound, exists (d : Resolver.db NM) fuel name,
  acyclic NM d /\ NoDup (keys d) /\
  fst (resolve_node_d NM fuel (d, []) name) <> None /\
  (bound < snd (resolve_node_d NM fuel (d, []) name))%nat.
Proof. exact StackDepth.nesting_unbounded_gen. Qed.
Print Assumptions nesting_unbounded_gen.

(** the statement the clause of C08 would need -- refuted *)
Theorem stack_bound_refuted :
  ~ exists bound, forall (d : Resolver.db ZNum) fuel name,
      (snd (resolve_node_d ZNum fuel (d, []) name) <= bound)%nat.
Proof. exact StackDepth.stack_bound_refuted. Qed.
Print Assumptions stack_bound_refuted.

(** the same for the whole of [Resolve] ([resolve_d]: instrumented [Resolver.resolve],
    same result, [resolve_d_fst]) under a legitimate order of map iteration *)
Theorem resolve_nesting_unbounded : forall (NM : Num) bound, exists (d : Resolver.db NM) maxdepth perm,
  acyclic NM d /\ NoDup (keys d) /\ order_oracle perm /\
  fst (resolve_d NM maxdepth perm d) <> None /\
  (bound < snd (resolve_d NM maxdepth perm d))%nat.
Proof. exact StackDepth.resolve_nesting_unbounded. Qed.
Print Assumptions resolve_nesting_unbounded.

(** * 3. Where the clause holds *)

(** the instrumented copies compute what the model computes *)
Theorem instrumented_same_result : forall NM,
  (forall fuel st name, fst (resolve_node_d NM fuel st name) = resolve_node NM fuel st name) /\
  (forall maxdepth perm d, fst (resolve_d NM maxdepth perm d) = resolve NM maxdepth perm d) /\
  (forall w op o, fst (resolved_db_d NM w op o) = resolved_db NM w op o).
Proof.
  exact (fun NM => conj (NoCrash.resolve_node_d_fst NM) (conj (StackDepth.resolve_d_fst NM) (StackDepth.resolved_db_d_fst NM))).
Qed.
Print Assumptions instrumented_same_result.

(** nesting <= fuel (= depth limit - level), in every state *)
Theorem nesting_le_limit : forall NM fuel (st : Resolver.db NM * memo) name,
  (snd (resolve_node_d NM fuel st name) <= fuel)%nat.
Proof. exact StackDepth.nesting_le_limit. Qed.
Print Assumptions nesting_le_limit.

(** whatever the fuel: nesting <= length of the longest chain of references starting at the name *)
Theorem nesting_le_longest_chain : forall NM (B : Resolver.db NM) fuel name n,
  ~ reach NM B (S n) name -> (snd (resolve_node_d NM fuel (B, []) name) <= n)%nat.
Proof. exact StackDepth.nesting_le_longest_chain. Qed.
Print Assumptions nesting_le_longest_chain.

(** whatever the fuel and whatever the book (cyclic or not): nesting <= number of recipes *)
Theorem nesting_le_recipes : forall NM (B : Resolver.db NM) fuel name,
  (snd (resolve_node_d NM fuel (B, []) name) <= length (keys B))%nat.
Proof. exact StackDepth.nesting_le_recipes. Qed.
Print Assumptions nesting_le_recipes.

(** the three bounds for the whole [Resolve] loop, any order of map iteration *)
Theorem resolve_nesting_le_limit : forall NM maxdepth perm (d : Resolver.db NM),
  (snd (resolve_d NM maxdepth perm d) <= maxdepth)%nat.
Proof. exact StackDepth.resolve_nesting_le_limit. Qed.
Print Assumptions resolve_nesting_le_limit.

Theorem resolve_nesting_le_longest_chain : forall NM (B : Resolver.db NM) maxdepth perm n,
  Permutation (perm (keys B)) (keys B) -> depth_lt NM B (S n) ->
  (snd (resolve_d NM maxdepth perm B) <= n)%nat.
Proof. exact StackDepth.resolve_nesting_le_longest_chain. Qed.
Print Assumptions resolve_nesting_le_longest_chain.

Theorem resolve_nesting_le_recipes : forall NM (B : Resolver.db NM) maxdepth perm,
  (snd (resolve_d NM maxdepth perm B) <= length (keys B))%nat.
Proof. exact StackDepth.resolve_nesting_le_recipes. Qed.
Print Assumptions resolve_nesting_le_recipes.

(** the command line: every nested resolver call the program makes ([resolved_db] is
    the only caller of the resolver) is at most as deep as the effective depth limit ... *)
Theorem resolved_db_nesting_le_limit : forall NM w op o,
  (snd (resolved_db_d NM w op o) <= Z.to_nat (op_depth op))%nat.
Proof. exact StackDepth.resolved_db_nesting_le_limit. Qed.
Print Assumptions resolved_db_nesting_le_limit.

(** ... which is the value of --maxdepth when the flag is given ... *)
Theorem flag_limit_nesting : forall NM w i op z o,
  load w i = inr op -> i_f_depth i = Some z ->
  (snd (resolved_db_d NM w op o) <= Z.to_nat z)%nat.
Proof. exact StackDepth.flag_limit_nesting. Qed.
Print Assumptions flag_limit_nesting.

(** ... and 10 by default: no --maxdepth, no HR_MAXDEPTH, no non-zero MaxDepth in
    the configuration file -- then nesting <= 10 whatever the files hold *)
Theorem default_limit_nesting_le_10 : forall NM w i op o,
  load w i = inr op ->
  i_f_depth i = None -> i_e_depth i = None ->
  (forall cfg, load_config w i = inr cfg -> ce_depth cfg = None \/ ce_depth cfg = Some 0%Z) ->
  (snd (resolved_db_d NM w op o) <= 10)%nat.
Proof. exact StackDepth.default_limit_nesting_le_10. Qed.
Print Assumptions default_limit_nesting_le_10.

(** whatever the limit: at most the longest chain of the book that was read ... *)
Theorem resolved_db_nesting_le_longest_chain : forall NM w op o d n,
  load_db NM o = (d, None) -> order_oracle (o_resolve (w_or w)) -> depth_lt NM d (S n) ->
  (snd (resolved_db_d NM w op o) <= n)%nat.
Proof. exact StackDepth.resolved_db_nesting_le_longest_chain. Qed.
Print Assumptions resolved_db_nesting_le_longest_chain.

(** ... and at most the number of recipes the recipe book file holds *)
Theorem resolved_db_nesting_le_recipes : forall NM w op o,
  (snd (resolved_db_d NM w op o) <= length (keys (fst (load_db NM o))))%nat.
Proof. exact StackDepth.resolved_db_nesting_le_recipes. Qed.
Print Assumptions resolved_db_nesting_le_recipes.
