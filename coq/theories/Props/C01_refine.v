(** Property C01, the part that connects the algorithm to the reference value:
    "... each recipe resolves to exactly one amount per basic element ...
     regardless of the order in which recipes are declared or used ..."

    Whenever the in-place, memoising [resolve] succeeds, the book it returns
    is [ref_db NM B N]: every recipe replaced, in place and in the declared
    order, by the value the memo-free top-down evaluator [ref_node] computes
    on the UNMODIFIED book.  The right-hand side does not mention the visiting
    order.  What that value is (sum over paths, sorted, ...) is
    Props/C01_value.v.  For every [Num] instance, every book, every limit. *)
From Coq Require Import Permutation.
From HP Require Import Base.Bytes Base.Num Model.Elements Model.Resolver Spec.ResolverSpec.
From HP Require Import Proofs.ResolverAssoc Proofs.ResolverRef Proofs.ResolverRefine.

(** whole-book equality, same key order *)
Theorem resolve_success_value :
  forall (NM : Num) (B : db NM) (N : nat) (perm : list bytes -> list bytes) (B' : db NM),
    NoDup (keys B) -> Permutation (perm (keys B)) (keys B) ->
    resolve NM N perm B = Some B' -> B' = ref_db NM B N.
Proof. exact HP.Proofs.ResolverRefine.resolve_success_value. Qed.
Print Assumptions resolve_success_value.

(** pointwise form, which does not need the keys to be unique *)
Theorem resolve_success_lookup :
  forall (NM : Num) (B : db NM) (N : nat) (perm : list bytes -> list bytes) (B' : db NM),
    Permutation (perm (keys B)) (keys B) ->
    resolve NM N perm B = Some B' ->
    keys B' = keys B /\ forall r, lookup r B' = lookup r (ref_db NM B N).
Proof. exact HP.Proofs.ResolverRefine.resolve_success_lookup. Qed.
Print Assumptions resolve_success_lookup.
