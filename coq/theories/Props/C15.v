(** Property C15: "For every input, switching colour, register template (default,
    left-aligned, old reporter), shortening, totals-only/no-totals, collapse mode
    or descending order changes only layout: the same records with the same
    numbers are shown, and a shortened name keeps a prefix and suffix of the
    original within the column width.  Default register output is exactly the
    no-totals and totals-only outputs interleaved per day, and coloured output
    equals plain output once escape codes are removed, with positive amounts red,
    negative green and zero uncoloured."
    (Collapse mode: WP08.  The old reporter's accounting: WP06.) *)
From Coq Require Import Permutation.
From HP Require Import Base.Bytes Base.Utf8 Base.Num Model.Elements Model.Dates Model.Tree Model.Writer
  Model.Reporters Model.Cli Spec.PresentationSpec.
From HP Require Import Base.GoFloat.
From HP Require Import Proofs.PresentationStrip Proofs.PresentationColour Proofs.PresentationLayout
  Proofs.PresentationShorten Proofs.PresentationSort Proofs.PresentationFlags Proofs.PresentationNoEsc
  Proofs.PresentationFloatOrder Proofs.PresentationRun Proofs.PresentationRunC15 Proofs.PresentationRunReg.
From HP Require Import Model.Scanner Model.Parser Model.Resolver.

(** "... with positive amounts red, negative green and zero uncoloured" *)
Theorem format_value_color : forall (NM : Num) (v : T NM),
  format_value NM true v = paint NM v (format_value NM false v).
Proof. exact PresentationStrip.format_value_color. Qed.
Print Assumptions format_value_color.

(** "coloured output equals plain output once escape codes are removed": the three templates *)
Theorem color_strip_default : forall (NM : Num) (c : rconfig) (it : report_item NM),
  strip_sgr (render_default NM (set_color c true) it) = strip_sgr (render_default NM (set_color c false) it).
Proof. exact PresentationColour.color_strip_default. Qed.
Print Assumptions color_strip_default.

Theorem color_strip_left : forall (NM : Num) (c : rconfig) (it : report_item NM),
  strip_sgr (render_left NM (set_color c true) it) = strip_sgr (render_left NM (set_color c false) it).
Proof. exact PresentationColour.color_strip_left. Qed.
Print Assumptions color_strip_left.

Theorem color_strip_summary : forall (NM : Num) (c : rconfig) (it : report_item NM),
  strip_sgr (render_summary NM (set_color c true) it) = strip_sgr (render_summary NM (set_color c false) it).
Proof. exact PresentationColour.color_strip_summary. Qed.
Print Assumptions color_strip_summary.

(** ... and removing escape codes from text without an ESC byte changes nothing, so
    for ESC-free plain output the stripped coloured output IS the plain output *)
Theorem color_strip_identity : forall s : bytes, no_esc s -> strip_sgr s = s.
Proof. exact PresentationStrip.strip_no_esc. Qed.
Print Assumptions color_strip_identity.

Theorem color_strip_default_plain : forall (NM : Num) (c : rconfig) (it : report_item NM),
  no_esc (render_default NM (set_color c false) it) ->
  strip_sgr (render_default NM (set_color c true) it) = render_default NM (set_color c false) it.
Proof. exact PresentationColour.color_strip_default_plain. Qed.
Print Assumptions color_strip_default_plain.

(** the old reporter, chunk by chunk *)
Theorem color_strip_old_rows : forall (NM : Num) (c : rconfig) (d : list (bytes * elements NM)) (ln : lognode NM),
  strip_chunks (old_rows NM (set_color c true) d ln) = strip_chunks (old_rows NM (set_color c false) d ln).
Proof. exact PresentationColour.color_strip_old_rows. Qed.
Print Assumptions color_strip_old_rows.

Theorem color_strip_old_totals : forall (NM : Num) (c : rconfig) (perm : list bytes -> list bytes)
    (d : list (bytes * elements NM)) (ln : lognode NM),
  strip_chunks (old_totals NM (set_color c true) perm d ln)
  = strip_chunks (old_totals NM (set_color c false) perm d ln).
Proof. exact PresentationColour.color_strip_old_totals. Qed.
Print Assumptions color_strip_old_totals.

(** everything one Process call writes for a day: chunk by chunk and concatenated *)
Theorem color_strip_process_template : forall (NM : Num) (c : rconfig) (d : list (bytes * elements NM))
    (perm : list bytes -> list bytes) (st : RS NM (rep_template NM (set_color c true) d)) (ln : lognode NM),
  strip_chunks (process_chunks NM (rep_template NM (set_color c true) d) perm st ln)
  = strip_chunks (process_chunks NM (rep_template NM (set_color c false) d) perm st ln)
  /\ strip_sgr (process_bytes NM (rep_template NM (set_color c true) d) perm st ln)
     = strip_sgr (process_bytes NM (rep_template NM (set_color c false) d) perm st ln).
Proof. exact PresentationColour.color_strip_process_template. Qed.
Print Assumptions color_strip_process_template.

Theorem color_strip_process_summary : forall (NM : Num) (c : rconfig) (d : list (bytes * elements NM))
    (perm : list bytes -> list bytes) (st : RS NM (rep_summary NM (set_color c true) d)) (ln : lognode NM),
  strip_chunks (process_chunks NM (rep_summary NM (set_color c true) d) perm st ln)
  = strip_chunks (process_chunks NM (rep_summary NM (set_color c false) d) perm st ln)
  /\ strip_sgr (process_bytes NM (rep_summary NM (set_color c true) d) perm st ln)
     = strip_sgr (process_bytes NM (rep_summary NM (set_color c false) d) perm st ln).
Proof. exact PresentationColour.color_strip_process_summary. Qed.
Print Assumptions color_strip_process_summary.

Theorem color_strip_process_old : forall (NM : Num) (c : rconfig) (d : list (bytes * elements NM))
    (perm : list bytes -> list bytes) (st : RS NM (rep_old NM (set_color c true) d)) (ln : lognode NM),
  strip_chunks (process_chunks NM (rep_old NM (set_color c true) d) perm st ln)
  = strip_chunks (process_chunks NM (rep_old NM (set_color c false) d) perm st ln)
  /\ strip_sgr (process_bytes NM (rep_old NM (set_color c true) d) perm st ln)
     = strip_sgr (process_bytes NM (rep_old NM (set_color c false) d) perm st ln).
Proof. exact PresentationColour.color_strip_process_old. Qed.
Print Assumptions color_strip_process_old.

(** the exact form, from hypotheses on the inputs only: when the number formatter, the date
    layout and the names of the day (log entry and database) produce no ESC byte, what a
    reporter writes for the day in colour, with the escape codes removed, IS what it writes
    without colour *)
Theorem color_strip_exact_template : forall (NM : Num) (c : rconfig) (d : list (bytes * elements NM))
    (perm : list bytes -> list bytes) (st : unit) (ln : lognode NM),
  fmt_no_esc NM -> date_no_esc c -> day_names_no_esc NM d ln ->
  strip_sgr (process_bytes NM (rep_template NM (set_color c true) d) perm st ln)
  = process_bytes NM (rep_template NM (set_color c false) d) perm st ln.
Proof. exact PresentationNoEsc.color_strip_day_exact. Qed.
Print Assumptions color_strip_exact_template.

Theorem color_strip_exact_summary : forall (NM : Num) (c : rconfig) (d : list (bytes * elements NM))
    (perm : list bytes -> list bytes) (st : unit) (ln : lognode NM),
  fmt_no_esc NM -> date_no_esc c -> day_names_no_esc NM d ln ->
  strip_sgr (process_bytes NM (rep_summary NM (set_color c true) d) perm st ln)
  = process_bytes NM (rep_summary NM (set_color c false) d) perm st ln.
Proof. exact PresentationNoEsc.color_strip_day_summary_exact. Qed.
Print Assumptions color_strip_exact_summary.

Theorem color_strip_exact_old : forall (NM : Num), fmt_no_esc NM ->
  forall (c : rconfig) (d : list (bytes * elements NM))
    (perm : list bytes -> list bytes) (st : unit) (ln : lognode NM),
  date_no_esc c -> day_names_no_esc NM d ln ->
  strip_sgr (process_bytes NM (rep_old NM (set_color c true) d) perm st ln)
  = process_bytes NM (rep_old NM (set_color c false) d) perm st ln.
Proof. exact PresentationNoEsc.color_strip_day_old_exact. Qed.
Print Assumptions color_strip_exact_old.

(** the formatter hypothesis holds of binary64 (what the program runs at) and of exact integers *)
Theorem color_strip_fmt_B64 : fmt_no_esc B64.
Proof. exact PresentationNoEsc.B64_fmt_no_esc. Qed.
Print Assumptions color_strip_fmt_B64.

Theorem color_strip_fmt_ZNum : fmt_no_esc ZNum.
Proof. exact PresentationNoEsc.ZNum_fmt_no_esc. Qed.
Print Assumptions color_strip_fmt_ZNum.

(** "Default register output is exactly the no-totals and totals-only outputs interleaved per day" *)
Theorem default_is_interleave : forall (NM : Num) (c : rconfig) (perm : list bytes -> list bytes)
    (d : list (bytes * elements NM)) (ln : lognode NM),
  exists E Tt : bytes,
    let D := fdate c (ln_time NM ln) in
    render_default NM (set_totals c true false) (get_report_item NM (set_totals c true false) perm d ln)
      = D ++ E ++ Tt ++ [c_lf]
    /\ render_default NM (set_totals c false false) (get_report_item NM (set_totals c false false) perm d ln)
      = D ++ E ++ [c_lf]
    /\ render_default NM (set_totals c true true) (get_report_item NM (set_totals c true true) perm d ln)
      = D ++ Tt ++ [c_lf].
Proof. exact PresentationLayout.default_is_interleave. Qed.
Print Assumptions default_is_interleave.

Theorem default_is_interleave_left : forall (NM : Num) (c : rconfig) (perm : list bytes -> list bytes)
    (d : list (bytes * elements NM)) (ln : lognode NM),
  exists E Tt : bytes,
    let D := fdate c (ln_time NM ln) in
    render_left NM (set_totals c true false) (get_report_item NM (set_totals c true false) perm d ln)
      = D ++ E ++ Tt ++ [c_lf]
    /\ render_left NM (set_totals c false false) (get_report_item NM (set_totals c false false) perm d ln)
      = D ++ E ++ [c_lf]
    /\ render_left NM (set_totals c true true) (get_report_item NM (set_totals c true true) perm d ln)
      = D ++ Tt ++ [c_lf].
Proof. exact PresentationLayout.left_is_interleave. Qed.
Print Assumptions default_is_interleave_left.

(** the old reporter: date chunk, row chunks, total chunks *)
Theorem default_is_interleave_old : forall (NM : Num) (c : rconfig) (d : list (bytes * elements NM))
    (perm : list bytes -> list bytes) (st : unit) (ln : lognode NM),
  let Dc := unchecked (fdate c (ln_time NM ln) ++ [c_lf]) in
  let Ec := old_rows NM (set_totals c true false) d ln in
  let Tc := old_totals NM (set_totals c true false) perm d ln in
  process_chunks NM (rep_old NM (set_totals c true false) d) perm st ln = Dc :: Ec ++ Tc
  /\ process_chunks NM (rep_old NM (set_totals c false false) d) perm st ln = Dc :: Ec
  /\ process_chunks NM (rep_old NM (set_totals c true true) d) perm st ln = Dc :: Tc
  /\ process_chunks NM (rep_old NM (set_totals c false true) d) perm st ln = [Dc].
Proof. exact PresentationLayout.old_is_interleave. Qed.
Print Assumptions default_is_interleave_old.

(** "switching ... register template ... changes only layout: the same records with the
    same numbers": the templates are layouts of one [report_item] through one renderer
    that gives every number to [format_value] *)
Theorem templates_same_rows : forall (NM : Num) (c : rconfig) (it : report_item NM),
  render_default NM c it = render_with NM layout_default c it
  /\ render_left NM c it = render_with NM layout_left c it.
Proof. exact PresentationLayout.templates_same_rows. Qed.
Print Assumptions templates_same_rows.

Theorem templates_same_rows_process : forall (NM : Num) (c : rconfig) (d : list (bytes * elements NM))
    (perm : list bytes -> list bytes) (st : unit) (ln : lognode NM),
  process_bytes NM (rep_template NM c d) perm st ln
  = render_with NM (if beq (rc_template c) (b "left-aligned") then layout_left else layout_default) c
      (get_report_item NM c perm d ln).
Proof. exact PresentationLayout.templates_same_rows_process. Qed.
Print Assumptions templates_same_rows_process.

Theorem templates_same_rows_old : forall (NM : Num) (c : rconfig) (d : list (bytes * elements NM))
    (perm : list bytes -> list bytes) (st : unit) (ln : lognode NM),
  process_bytes NM (rep_old NM c d) perm st ln
  = render_with NM (layout_old (day_has_contributions NM d ln)) c (get_report_item NM c perm d ln).
Proof. exact PresentationLayout.templates_same_rows_old. Qed.
Print Assumptions templates_same_rows_old.

(** the numbers the generic renderer formats are exactly those of the item, in order *)
Theorem templates_same_rows_numbers : forall (NM : Num) (c : rconfig) (it : report_item NM),
  render_with NM layout_trace c it = flat_map (format_value NM (rc_color c)) (numbers_of_item NM it).
Proof. exact PresentationLayout.render_with_numbers. Qed.
Print Assumptions templates_same_rows_numbers.

(** "a shortened name keeps a prefix and suffix of the original within the column width" *)
Theorem shorten_off_identity : forall (s : bytes) (n : nat), shorten false s n = s.
Proof. exact PresentationShorten.shorten_off_identity. Qed.
Print Assumptions shorten_off_identity.

Theorem shorten_spec : forall (s : bytes) (w : nat),
  let r := rune_values s in
  let slen := length r in
  ((slen <= w)%nat -> truncate_middle s w = s)
  /\ ((3 <= w)%nat -> (w < slen)%nat ->
      let a := keep_front slen w in
      let k := (slen - w + 1 + a)%nat in
      truncate_middle s w = encode_runes (firstn a r ++ [ellipsis] ++ skipn k r)
      /\ (a + 1 + (slen - k) = w)%nat
      /\ (a < k)%nat /\ (k <= slen)%nat
      /\ length (firstn a r ++ [ellipsis] ++ skipn k r) = w)
  /\ ((w < 3)%nat -> (w < slen)%nat ->
      truncate_middle s w = encode_runes (firstn w r) /\ length (firstn w r) = w).
Proof. exact PresentationShorten.shorten_spec. Qed.
Print Assumptions shorten_spec.

(** the column is filled exactly (UTF-8 round trip) *)
Theorem shorten_width : forall (s : bytes) (w : nat),
  rune_count (truncate_middle s w) = Nat.min (rune_count s) w.
Proof. exact PresentationShorten.truncate_middle_width. Qed.
Print Assumptions shorten_width.

(** decoding the shortened name: a prefix of the original runes, one ellipsis, a suffix *)
Theorem shorten_runes : forall (s : bytes) (w : nat),
  let r := rune_values s in
  let slen := length r in
  (3 <= w)%nat -> (w < slen)%nat ->
  let a := keep_front slen w in
  let k := (slen - w + 1 + a)%nat in
  rune_values (shorten true s w) = firstn a r ++ [ellipsis] ++ skipn k r
  /\ (exists t, r = firstn a r ++ t) /\ (exists h, r = h ++ skipn k r).
Proof. exact PresentationShorten.shorten_runes. Qed.
Print Assumptions shorten_runes.

(** "descending order changes only layout" *)
Theorem sort_by_value_perm : forall (NM : Num) (desc : bool) (l : elements NM),
  Permutation (sort_by_value NM desc l) l.
Proof. exact PresentationSort.sort_by_value_perm. Qed.
Print Assumptions sort_by_value_perm.

Theorem sort_by_value_sorted : forall (NM : Num) (ok : T NM -> Prop), LtWeakOrder NM ok ->
  forall (desc : bool) (l : elements NM),
  Forall (fun x => ok (snd x)) l -> sorted_by_value NM desc (sort_by_value NM desc l).
Proof. exact PresentationSort.sort_by_value_sorted. Qed.
Print Assumptions sort_by_value_sorted.

Theorem sort_by_value_stable : forall (NM : Num) (ok : T NM -> Prop), LtWeakOrder NM ok ->
  forall (desc : bool) (l : elements NM) (v : T NM),
  ok v -> Forall (fun x => ok (snd x)) l ->
  filter (ties_with NM v) (sort_by_value NM desc l) = filter (ties_with NM v) l.
Proof. exact PresentationSort.sort_by_value_stable. Qed.
Print Assumptions sort_by_value_stable.

(** the order law holds of binary64 without NaN, and of exact integers *)
Theorem sort_by_value_law_B64 : LtWeakOrder B64 (fun x => is_nan B64 x = false).
Proof. exact PresentationFloatOrder.B64_weak_order. Qed.
Print Assumptions sort_by_value_law_B64.

Theorem sort_by_value_law_ZNum : LtWeakOrder ZNum (fun _ => True).
Proof. exact PresentationSort.ZNum_weak_order. Qed.
Print Assumptions sort_by_value_law_ZNum.

(** the colour flag at either level; the other presentation flags verbatim *)
Theorem color_flag_any_level : forall (w : world) (i : invocation) (op : options),
  load w i = inr op ->
  rc_color (op_rc op) = negb (i_g_no_color i || i_l_no_color i)
  /\ rc_totals_only (op_rc op) = i_totals_only i
  /\ rc_totals (op_rc op) = negb (i_no_totals i)
  /\ rc_shorten (op_rc op) = i_shorten i
  /\ rc_old (op_rc op) = i_old i
  /\ rc_template (op_rc op) = or_default (i_template i) (b "default")
  /\ rc_collapse (op_rc op) = i_collapse i
  /\ rc_collapse_last (op_rc op) = i_collapse_last i
  /\ rc_group_food (op_rc op) = i_group_food i
  /\ rc_csv (op_rc op) = i_csv i
  /\ rc_single_element (op_rc op) = i_single_element i
  /\ rc_single_food (op_rc op) = i_single_food i.
Proof. exact PresentationFlags.color_flag_any_level. Qed.
Print Assumptions color_flag_any_level.

(** *** the complete output of the program (standard output never failing) *)

(** "coloured output equals plain output once escape codes are removed": [reg] with any other
    flags, the colour switched off at either level or not at all; also the exit status *)
Theorem color_strip_run_reg : forall (NM : Num) (w : world) (i : invocation) (g1 l1 g2 l2 : bool),
  w_sink w = None -> i_cmd i = CReg ->
  strip_sgr (out_stdout (run NM w (with_no_color i g1 l1)))
  = strip_sgr (out_stdout (run NM w (with_no_color i g2 l2)))
  /\ out_status (run NM w (with_no_color i g1 l1)) = out_status (run NM w (with_no_color i g2 l2)).
Proof. exact PresentationRunReg.color_strip_run_reg. Qed.
Print Assumptions color_strip_run_reg.

Theorem color_strip_run_summary : forall (NM : Num) (w : world) (i : invocation) (arg : bytes) (g1 l1 g2 l2 : bool),
  w_sink w = None -> i_cmd i = CSummary arg ->
  strip_sgr (out_stdout (run NM w (with_no_color i g1 l1)))
  = strip_sgr (out_stdout (run NM w (with_no_color i g2 l2)))
  /\ out_status (run NM w (with_no_color i g1 l1)) = out_status (run NM w (with_no_color i g2 l2)).
Proof. exact PresentationRunReg.color_strip_run_summary. Qed.
Print Assumptions color_strip_run_summary.

(** "Default register output is exactly the no-totals and totals-only outputs interleaved per
    day": the whole output, over the list of days the walk selects (which depends on no
    presentation option) *)
Theorem default_is_interleave_run : forall (NM : Num) (c : rconfig) (w : world) (op : options)
    (bt et : option time) (odb olog : opened) (d : list (bytes * elements NM)) (toks : list ltoken),
  w_sink w = None ->
  open_all w [op_db op; op_log op] = Some [odb; olog] ->
  resolved_db NM w op odb = inr d ->
  tokenize (op_fmt op) = Some toks ->
  let days := fst (opened_days NM toks bt et olog) in
  let D := fun il : nat * lognode NM => fdate c (ln_time NM (snd il)) in
  let E := fun il : nat * lognode NM => day_entries NM c d (snd il) in
  let Tt := fun il : nat * lognode NM => day_totals NM c (o_day (w_or w) (fst il)) d (snd il) in
  out_stdout (run_db_log NM w op (rep_template NM (set_totals c true false)) bt et)
    = flat_map (fun il => D il ++ E il ++ Tt il ++ [c_lf]) days
  /\ out_stdout (run_db_log NM w op (rep_template NM (set_totals c false false)) bt et)
    = flat_map (fun il => D il ++ E il ++ [c_lf]) days
  /\ out_stdout (run_db_log NM w op (rep_template NM (set_totals c true true)) bt et)
    = flat_map (fun il => D il ++ Tt il ++ [c_lf]) days.
Proof. exact PresentationRunC15.interleave_run_db_log. Qed.
Print Assumptions default_is_interleave_run.

(** the template reporter and the old reporter print, day by day, layouts of the same items *)
Theorem templates_same_rows_run : forall (NM : Num) (c : rconfig) (w : world) (op : options)
    (bt et : option time) (odb olog : opened) (d : list (bytes * elements NM)) (toks : list ltoken),
  w_sink w = None ->
  open_all w [op_db op; op_log op] = Some [odb; olog] ->
  resolved_db NM w op odb = inr d ->
  tokenize (op_fmt op) = Some toks ->
  let days := fst (opened_days NM toks bt et olog) in
  let item := fun il : nat * lognode NM => get_report_item NM c (o_day (w_or w) (fst il)) d (snd il) in
  out_stdout (run_db_log NM w op (rep_template NM c) bt et)
    = flat_map (fun il => render_with NM (if beq (rc_template c) (b "left-aligned") then layout_left else layout_default)
                            c (item il)) days
  /\ out_stdout (run_db_log NM w op (rep_old NM c) bt et)
    = flat_map (fun il => render_with NM (layout_old (day_has_contributions NM d (snd il))) c (item il)) days.
Proof. exact PresentationRunC15.templates_same_rows_run. Qed.
Print Assumptions templates_same_rows_run.
