(** Property C02 at the level of the COMMAND ([Cli.run NM w i]: options loaded, files opened, scanned,
    parsed, the book resolved, the days of the period walked, the report written).

    "For every log and recipe book, the register shows every selected day in file order and, within
    it, each distinct food once in first-appearance order with the sum of its logged quantities,
    followed by that quantity times each resolved element of the food, or the food itself when the
    book does not define it.  The day's totals list every contributed element once, sorted by name,
    with the sum of its positive contributions, the sum of its negative contributions, and their sum."

    Vocabulary (Spec/ProgramSpec.v, Spec/RegisterSpec.v):
    - [log_records NM ldata]: the records the parser reports for the bytes [ldata] of the log (heading,
      RAW entries with repeats, notes), in file order; [command_records NM op ldata]: those whose heading
      parses under the configured layout to a date inside the period, as (time, raw entries, notes);
    - [day_rows d es], [day_totals d es], [day_item c d t es], [old_day_chunks c d t es]: the reference
      semantics of one register day, on the RAW entries [es] and the RESOLVED book [d] - no accumulator,
      no map, no order oracle;
    - "healthy" hypotheses: stdout never fails; both files open; the book loads and resolves
      ([resolved_db NM w op odb = inr d]); the log is a regular file without read fault, scanned to its
      end, without malformed line, every heading a date under the configured layout; the order in which
      the runtime ranges over maps is a permutation ([oracle]).
    Every theorem holds for every [NM : Num] (no arithmetic law). *)
From Coq Require Import Permutation.
From HP Require Import Base.Bytes Base.Utf8 Base.Num Model.Scanner Model.Parser Model.Syntax Model.Elements Model.Resolver
  Model.Dates Model.Tree Model.Writer Model.Reporters Model.Cli.
From HP Require Import Spec.RegisterSpec Spec.Agree2Spec Spec.ProgramSpec.
From HP Require Import Proofs.ParserScan Proofs.ParserCorollaries Proofs.MalformedBase Proofs.MalformedLog.
From HP Require Import Proofs.ProgramBase Proofs.ProgramRegister Proofs.ProgramFailure Proofs.ProgramDocumented.

(** the days the walk hands to the reporter are exactly the period's records (with merged entries) *)
Theorem records_are_the_walked_days : forall (NM : Num) toks bt et (ns : list (pnode NM)),
  selected_days NM toks bt et ns = map (day_node NM) (period_records NM toks bt et ns).
Proof. exact ProgramBase.selected_days_records. Qed.
Print Assumptions records_are_the_walked_days.

(** "the register shows every selected day in file order and, within it, ...": [reg] with the default
    template.  The right-hand side is the default template applied to the reference day item of each
    record of the period, in file order.  ([--group-food], [--csv] play no role without [-s].) *)
Theorem register_program_default :
  forall (NM : Num) (w : world) (i : invocation) (op : options) (odb : opened)
         (d : list (bytes * list (bytes * T NM))) (ldata : bytes),
    load w i = inr op ->
    w_sink w = None ->
    open_file w (op_db op) = Some odb -> resolved_db NM w op odb = inr d ->
    open_file w (op_log op) = Some (OData ldata NoFault) ->
    snd (scan ldata NoFault) = ScanEOF ->
    no_parse_error NM (events NM ldata) ->
    all_dated NM (rc_date (op_rc op)) (log_records NM ldata) ->
    (forall j : nat, oracle (o_day (w_or w) j)) ->
    i_cmd i = CReg -> i_single_element i = [] -> i_single_food i = [] -> i_old i = false ->
    i_template i <> Some (b "left-aligned") ->
    run NM w i
    = {| out_stdout := concat (map (fun r => render_default NM (op_rc op)
                                               (day_item NM (op_rc op) d (rec_time NM r) (rec_entries NM r)))
                                   (command_records NM op ldata));
         out_status := Ok |}.
Proof. exact ProgramRegister.register_program_default. Qed.
Print Assumptions register_program_default.

(** what the default template makes of a reference day item: the date, the rows half, the TOTAL half *)
Theorem register_day_text :
  forall (NM : Num) (c : rconfig) (d : list (bytes * list (bytes * T NM))) (t : time) (es : list (bytes * T NM)),
    render_default NM c (day_item NM c d t es)
    = fdate c t
      ++ (if rc_totals_only c then [] else default_rows_text NM (rc_color c) (rc_shorten c) (day_rows NM d es))
      ++ (if rc_totals c then default_totals_text NM (rc_color c) (rc_shorten c) (day_totals NM d es) else [])
      ++ [c_lf].
Proof. exact ProgramRegister.render_default_day. Qed.
Print Assumptions register_day_text.

(** the same with every switch of the invocation explicit: [--no-totals] and [--totals-only] select
    the two halves of each day *)
Theorem register_program_flags :
  forall (NM : Num) (w : world) (i : invocation) (op : options) (odb : opened)
         (d : list (bytes * list (bytes * T NM))) (ldata : bytes),
    load w i = inr op ->
    w_sink w = None ->
    open_file w (op_db op) = Some odb -> resolved_db NM w op odb = inr d ->
    open_file w (op_log op) = Some (OData ldata NoFault) ->
    snd (scan ldata NoFault) = ScanEOF ->
    no_parse_error NM (events NM ldata) ->
    all_dated NM (rc_date (op_rc op)) (log_records NM ldata) ->
    (forall j : nat, oracle (o_day (w_or w) j)) ->
    i_cmd i = CReg -> i_single_element i = [] -> i_single_food i = [] -> i_old i = false ->
    i_template i <> Some (b "left-aligned") ->
    let color := negb (i_g_no_color i || i_l_no_color i) in
    let D := fun r : ProgramSpec.record NM => format_date (rc_date (op_rc op)) (civ (rec_time NM r)) in
    let E := fun r : ProgramSpec.record NM => default_rows_text NM color (i_shorten i) (day_rows NM d (rec_entries NM r)) in
    let Tt := fun r : ProgramSpec.record NM => default_totals_text NM color (i_shorten i) (day_totals NM d (rec_entries NM r)) in
    run NM w i
    = {| out_stdout := concat (map (fun r => D r ++ (if i_totals_only i then [] else E r)
                                             ++ (if i_no_totals i then [] else Tt r) ++ [c_lf])
                                   (command_records NM op ldata));
         out_status := Ok |}.
Proof. exact ProgramRegister.register_program_flags. Qed.
Print Assumptions register_program_flags.

(** ... hence, between four runs that differ in these two switches only: the default output is the
    no-totals and the totals-only outputs interleaved per day *)
Theorem register_program_interleave :
  forall (NM : Num) (w : world) (i : invocation) (op : options) (odb : opened)
         (d : list (bytes * list (bytes * T NM))) (ldata : bytes),
    load w i = inr op -> w_sink w = None ->
    open_file w (op_db op) = Some odb -> resolved_db NM w op odb = inr d ->
    open_file w (op_log op) = Some (OData ldata NoFault) ->
    snd (scan ldata NoFault) = ScanEOF -> no_parse_error NM (events NM ldata) ->
    all_dated NM (rc_date (op_rc op)) (log_records NM ldata) ->
    (forall j : nat, oracle (o_day (w_or w) j)) ->
    i_cmd i = CReg -> i_single_element i = [] -> i_single_food i = [] -> i_old i = false ->
    i_template i <> Some (b "left-aligned") ->
    let recs := command_records NM op ldata in
    let color := negb (i_g_no_color i || i_l_no_color i) in
    let D := fun r : ProgramSpec.record NM => format_date (rc_date (op_rc op)) (civ (rec_time NM r)) in
    let E := fun r : ProgramSpec.record NM => default_rows_text NM color (i_shorten i) (day_rows NM d (rec_entries NM r)) in
    let Tt := fun r : ProgramSpec.record NM => default_totals_text NM color (i_shorten i) (day_totals NM d (rec_entries NM r)) in
    run NM w (with_totals_flags i false false)
    = {| out_stdout := concat (map (fun r => D r ++ E r ++ Tt r ++ [c_lf]) recs); out_status := Ok |}
    /\ run NM w (with_totals_flags i true false)
       = {| out_stdout := concat (map (fun r => D r ++ E r ++ [c_lf]) recs); out_status := Ok |}
    /\ run NM w (with_totals_flags i false true)
       = {| out_stdout := concat (map (fun r => D r ++ Tt r ++ [c_lf]) recs); out_status := Ok |}
    /\ run NM w (with_totals_flags i true true)
       = {| out_stdout := concat (map (fun r => D r ++ [c_lf]) recs); out_status := Ok |}.
Proof. exact ProgramRegister.register_program_interleave. Qed.
Print Assumptions register_program_interleave.

(** [--internal-template-name left-aligned]: the same day items, the other template *)
Theorem register_program_left :
  forall (NM : Num) (w : world) (i : invocation) (op : options) (odb : opened)
         (d : list (bytes * list (bytes * T NM))) (ldata : bytes),
    load w i = inr op ->
    w_sink w = None ->
    open_file w (op_db op) = Some odb -> resolved_db NM w op odb = inr d ->
    open_file w (op_log op) = Some (OData ldata NoFault) ->
    snd (scan ldata NoFault) = ScanEOF ->
    no_parse_error NM (events NM ldata) ->
    all_dated NM (rc_date (op_rc op)) (log_records NM ldata) ->
    (forall j : nat, oracle (o_day (w_or w) j)) ->
    i_cmd i = CReg -> i_single_element i = [] -> i_single_food i = [] -> i_old i = false ->
    i_template i = Some (b "left-aligned") ->
    run NM w i
    = {| out_stdout := concat (map (fun r => render_left NM (op_rc op)
                                               (day_item NM (op_rc op) d (rec_time NM r) (rec_entries NM r)))
                                   (command_records NM op ldata));
         out_status := Ok |}.
Proof. exact ProgramRegister.register_program_left. Qed.
Print Assumptions register_program_left.

Theorem register_program_left_flags :
  forall (NM : Num) (w : world) (i : invocation) (op : options) (odb : opened)
         (d : list (bytes * list (bytes * T NM))) (ldata : bytes),
    load w i = inr op ->
    w_sink w = None ->
    open_file w (op_db op) = Some odb -> resolved_db NM w op odb = inr d ->
    open_file w (op_log op) = Some (OData ldata NoFault) ->
    snd (scan ldata NoFault) = ScanEOF ->
    no_parse_error NM (events NM ldata) ->
    all_dated NM (rc_date (op_rc op)) (log_records NM ldata) ->
    (forall j : nat, oracle (o_day (w_or w) j)) ->
    i_cmd i = CReg -> i_single_element i = [] -> i_single_food i = [] -> i_old i = false ->
    i_template i = Some (b "left-aligned") ->
    let color := negb (i_g_no_color i || i_l_no_color i) in
    let D := fun r : ProgramSpec.record NM => format_date (rc_date (op_rc op)) (civ (rec_time NM r)) in
    let E := fun r : ProgramSpec.record NM => left_rows_text NM color (day_rows NM d (rec_entries NM r)) in
    let Tt := fun r : ProgramSpec.record NM => left_totals_text NM color (day_totals NM d (rec_entries NM r)) in
    run NM w i
    = {| out_stdout := concat (map (fun r => D r ++ (if i_totals_only i then [] else E r)
                                             ++ (if i_no_totals i then [] else Tt r) ++ [c_lf])
                                   (command_records NM op ldata));
         out_status := Ok |}.
Proof. exact ProgramRegister.register_program_left_flags. Qed.
Print Assumptions register_program_left_flags.

(** [--use-old-reg-reporter]: the chunks of the reference semantics' [old_day_chunks] *)
Theorem register_program_old :
  forall (NM : Num) (w : world) (i : invocation) (op : options) (odb : opened)
         (d : list (bytes * list (bytes * T NM))) (ldata : bytes),
    load w i = inr op ->
    w_sink w = None ->
    open_file w (op_db op) = Some odb -> resolved_db NM w op odb = inr d ->
    open_file w (op_log op) = Some (OData ldata NoFault) ->
    snd (scan ldata NoFault) = ScanEOF ->
    no_parse_error NM (events NM ldata) ->
    all_dated NM (rc_date (op_rc op)) (log_records NM ldata) ->
    (forall j : nat, oracle (o_day (w_or w) j)) ->
    i_cmd i = CReg -> i_single_element i = [] -> i_single_food i = [] -> i_old i = true ->
    run NM w i
    = {| out_stdout := concat (map (fun r => chunks_text (old_day_chunks NM (op_rc op) d (rec_time NM r) (rec_entries NM r)))
                                   (command_records NM op ldata));
         out_status := Ok |}.
Proof. exact ProgramRegister.register_program_old. Qed.
Print Assumptions register_program_old.

(** ... which is what the default template prints EXCEPT (1) [--shorten] has no effect (names are never
    shortened: [false] where [register_program_flags] has [i_shorten i]) and (2) a day without any
    contribution gets no TOTAL block at all (the template prints the TOTAL header line alone).  The
    template name is ignored too. *)
Theorem register_program_old_explicit :
  forall (NM : Num) (w : world) (i : invocation) (op : options) (odb : opened)
         (d : list (bytes * list (bytes * T NM))) (ldata : bytes),
    load w i = inr op ->
    w_sink w = None ->
    open_file w (op_db op) = Some odb -> resolved_db NM w op odb = inr d ->
    open_file w (op_log op) = Some (OData ldata NoFault) ->
    snd (scan ldata NoFault) = ScanEOF ->
    no_parse_error NM (events NM ldata) ->
    all_dated NM (rc_date (op_rc op)) (log_records NM ldata) ->
    (forall j : nat, oracle (o_day (w_or w) j)) ->
    i_cmd i = CReg -> i_single_element i = [] -> i_single_food i = [] -> i_old i = true ->
    let color := negb (i_g_no_color i || i_l_no_color i) in
    let D := fun r : ProgramSpec.record NM => format_date (rc_date (op_rc op)) (civ (rec_time NM r)) in
    let E := fun r : ProgramSpec.record NM => default_rows_text NM color false (day_rows NM d (rec_entries NM r)) in
    let Tt := fun r : ProgramSpec.record NM => match day_totals NM d (rec_entries NM r) with
                                   | [] => []
                                   | ts => default_totals_text NM color false ts
                                   end in
    run NM w i
    = {| out_stdout := concat (map (fun r => D r ++ (if i_totals_only i then [] else E r)
                                             ++ (if i_no_totals i then [] else Tt r) ++ [c_lf])
                                   (command_records NM op ldata));
         out_status := Ok |}.
Proof. exact ProgramRegister.register_program_old_explicit. Qed.
Print Assumptions register_program_old_explicit.

(** * the records read off the syntax of the log (an independent reader): a log in the documented
    format ([render f], [f] well-formed, lines below the scanner's limit, no malformed item) meets the
    hypotheses on the bytes, and its records are those of [expected_events NM f] (property C04) *)
Theorem documented_log_healthy : forall (NM : Num) (f : file),
  wf_file NM f = true -> short_lines f -> no_bad_items f ->
  snd (scan (render f) NoFault) = ScanEOF
  /\ no_parse_error NM (events NM (render f))
  /\ log_records NM (render f) = Agree2Spec.nodes_of NM (expected_events NM f).
Proof. exact ProgramDocumented.documented_log_healthy. Qed.
Print Assumptions documented_log_healthy.

Theorem register_program_default_documented :
  forall (NM : Num) (w : world) (i : invocation) (op : options) (odb : opened)
         (d : list (bytes * list (bytes * T NM))) (f : file),
    load w i = inr op -> w_sink w = None ->
    open_file w (op_db op) = Some odb -> resolved_db NM w op odb = inr d ->
    open_file w (op_log op) = Some (OData (render f) NoFault) ->
    wf_file NM f = true -> short_lines f -> no_bad_items f ->
    all_dated NM (rc_date (op_rc op)) (Agree2Spec.nodes_of NM (expected_events NM f)) ->
    (forall j : nat, oracle (o_day (w_or w) j)) ->
    i_cmd i = CReg -> i_single_element i = [] -> i_single_food i = [] -> i_old i = false ->
    i_template i <> Some (b "left-aligned") ->
    let c := op_rc op in
    let recs := period_records NM (rc_date c) (op_begin op) (op_end op) (Agree2Spec.nodes_of NM (expected_events NM f)) in
    run NM w i
    = {| out_stdout := concat (map (fun r => render_default NM c (day_item NM c d (rec_time NM r) (rec_entries NM r))) recs);
         out_status := Ok |}.
Proof. exact ProgramDocumented.register_program_default_documented. Qed.
Print Assumptions register_program_default_documented.

(** * under the negation of a healthy hypothesis (stretch) *)

(** a file that does not open: nothing printed, open error (whatever the sink) *)
Theorem program_no_file : forall (NM : Num) (w : world) (i : invocation) (op : options),
  load w i = inr op -> In (i_cmd i) [CReg; CBal; CTotals; CUnresolved] ->
  open_file w (op_db op) = None \/ open_file w (op_log op) = None ->
  run NM w i = {| out_stdout := []; out_status := Failed EOpen |}.
Proof. exact ProgramFailure.program_no_file. Qed.
Print Assumptions program_no_file.

(** the book does not load or resolve (malformed line, read fault, line too long, directory, depth
    exceeded - [resolved_db] says which): nothing printed, that error *)
Theorem program_book_failure : forall (NM : Num) (w : world) (i : invocation) (op : options) odb olog e,
  load w i = inr op -> In (i_cmd i) [CReg; CBal; CTotals; CUnresolved] ->
  open_file w (op_db op) = Some odb -> open_file w (op_log op) = Some olog ->
  resolved_db NM w op odb = inl e ->
  run NM w i = {| out_stdout := []; out_status := Failed e |}.
Proof. exact ProgramFailure.program_book_failure. Qed.
Print Assumptions program_book_failure.

(** a malformed line in the log: the records before it are printed (template reporter), nothing after,
    and the command fails with the message of that line *)
Theorem register_program_parse_error :
  forall (NM : Num) (w : world) (i : invocation) (op : options) (odb : opened)
         (d : list (bytes * list (bytes * T NM))) (ldata : bytes),
    load w i = inr op ->
    w_sink w = None ->
    open_file w (op_db op) = Some odb -> resolved_db NM w op odb = inr d ->
    open_file w (op_log op) = Some (OData ldata NoFault) ->
    (forall j : nat, oracle (o_day (w_or w) j)) ->
    i_cmd i = CReg -> i_single_element i = [] -> i_single_food i = [] -> i_old i = false ->
    forall (pre : list (event NM)) (e : perr) (post : list (event NM)),
      events NM ldata = pre ++ EErr e :: post ->
      errors_of NM pre = [] ->
      Forall (dated NM (rc_date (op_rc op))) (MalformedBase.nodes_of NM pre) ->
      run NM w i
      = {| out_stdout := register_text NM (op_rc op) d
                           (period_records NM (rc_date (op_rc op)) (op_begin op) (op_end op) (Agree2Spec.nodes_of NM pre));
           out_status := Failed (EParse (perr_message e)) |}.
Proof. exact ProgramFailure.register_program_parse_error. Qed.
Print Assumptions register_program_parse_error.

(** a heading that is not a date: the records before it are printed, then the date error *)
Theorem register_program_bad_date :
  forall (NM : Num) (w : world) (i : invocation) (op : options) (odb : opened)
         (d : list (bytes * list (bytes * T NM))) (ldata : bytes),
    load w i = inr op ->
    w_sink w = None ->
    open_file w (op_db op) = Some odb -> resolved_db NM w op odb = inr d ->
    open_file w (op_log op) = Some (OData ldata NoFault) ->
    (forall j : nat, oracle (o_day (w_or w) j)) ->
    i_cmd i = CReg -> i_single_element i = [] -> i_single_food i = [] -> i_old i = false ->
    forall (pre : list (event NM)) (n : pnode NM) (post : list (event NM)),
      events NM ldata = pre ++ ENode n :: post ->
      errors_of NM pre = [] ->
      Forall (dated NM (rc_date (op_rc op))) (MalformedBase.nodes_of NM pre) ->
      parse_date (rc_date (op_rc op)) (header n) = None ->
      post <> [] \/ snd (scan ldata NoFault) = ScanEOF ->
      run NM w i
      = {| out_stdout := register_text NM (op_rc op) d
                           (period_records NM (rc_date (op_rc op)) (op_begin op) (op_end op) (Agree2Spec.nodes_of NM pre));
           out_status := Failed EBadDate |}.
Proof. exact ProgramFailure.register_program_bad_date. Qed.
Print Assumptions register_program_bad_date.
