(** Property C04 – "... every entry in order with its exact name and the
    CORRECTLY ROUNDED VALUE OF ITS NUMBER".

    The value of an entry is [of_lexeme B64 lexeme = parse_float lexeme], the model
    of [strconv.ParseFloat(s, 64)].  [parse_float] reads the decimal digits into
    an integer mantissa [m], a decimal exponent [e10], and calls
    [round_scaled neg m e10 0], which calls the standard library's
    [binary_round_aux] (round to nearest even at precision 53, emax 1024).

    The first six theorems state, in integer arithmetic only (no reals, no
    Flocq, no axiom: "Closed under the global context"), that what reaches
    [binary_round_aux] is an exact description of the lexeme's rational value.
    The last two ([parse_float_correctly_rounded], [round_scaled_correctly_rounded])
    conclude with Flocq that the result is the round-to-nearest-even of that
    real number; they, and only they, depend on the standard library's
    real-number axioms (listed by their [Print Assumptions]).
    Vocabulary (Proofs/FloatExact.v):
    - [digits_int p 0], [frac_count p]: the digits of the text [p] read as one
      integer, and the number of digits after its point – the text denotes
      [digits_int p 0 / 10^(frac_count p)];
    - [exact_triple M e10 q e loc]:  M * 10^e10 = (q + r/D) * 2^e  with
      [0 <= r < D] and [loc] = position of [r/D] relative to 0 and 1/2;
    - [enough_bits q e]: [e <= fexp 53 1024 (digits q + e)], the hypothesis under
      which one rounding step of [binary_round_aux] is correct;
    - [dec_lexeme], [dl_bytes], [dl_wf]: the plain decimal lexemes
      [sign] digits-with-at-most-one-point [(e|E) [sign] digits];
      [dl_int d] its digits as an integer, [dl_exp10 d] its decimal exponent:
      the lexeme denotes (-1)^neg * dl_int d * 10^(dl_exp10 d).
    Proofs/FloatRound.v (Flocq):
    - [dec_real neg m e10]: the real number (-1)^neg * m * 10^e10;
    - [correctly_rounded neg x z]: [z] is valid and, when
      |round radix2 (FLT_exp (-1074) 53) ZnearestE x| < 2^1024, [z] is finite with
      real value that rounding of [x] and sign [neg]; otherwise [z] is the
      infinity of sign [neg] (which [parse_float] reports as range error). *)
From Coq Require Import ZArith List Floats.SpecFloat.
From HP Require Import Base.Bytes Base.Num Base.GoFloat Proofs.FloatExact Proofs.FloatRound.
Import ListNotations.
Open Scope Z_scope.

(** "its number": the integer and the counters the mantissa loop returns are
    the decimal value of the text it consumed (underscores included):
    value(p) = ms_mant * 10^(dp - nd), and [ms_nd] is the number of decimal
    digits of [ms_mant]. *)
Theorem mantissa_value :
  forall (s : bytes) (st : mant_state) (rest : bytes),
    read_mant false s init_st = (st, rest) ->
    exists p, s = p ++ rest /\ mant_chars false p = true /\
      ms_mant st = digits_int p 0 /\
      (if ms_sawdot st then ms_dp st else ms_nd st) - ms_nd st = - frac_count p /\
      0 <= ms_nd st /\ Z.of_N (ms_mant st) < 10 ^ ms_nd st /\
      (0 < ms_nd st -> 10 ^ (ms_nd st - 1) <= Z.of_N (ms_mant st)) /\
      ms_sawdot st = has_point p /\ ms_sawdigits st = has_digit p /\ ms_under st = has_underscore p /\
      stops_at (ms_sawdot st) rest.
Proof. exact mantissa_value_lemma. Qed.
Print Assumptions mantissa_value.

(** [round_scaled], decimal exponent >= 0: the integer m * 10^e10, exactly *)
Theorem round_scaled_exact_nonneg :
  forall (neg : bool) (m : positive) (e10 e2 : Z),
    0 <= e10 ->
    round_scaled neg m e10 e2 = binary_round prec emax neg (Z.to_pos (Zpos m * 10 ^ e10)) e2 /\
    Zpos (Z.to_pos (Zpos m * 10 ^ e10)) = Zpos m * 10 ^ e10.
Proof. exact FloatExact.round_scaled_exact_nonneg. Qed.
Print Assumptions round_scaled_exact_nonneg.

(** [round_scaled], decimal exponent < 0: quotient, remainder and location of
    m * 2^s / 10^(-e10); the quotient has at least 70 bits *)
Theorem round_scaled_exact_neg :
  forall (neg : bool) (m : positive) (e10 e2 : Z),
    e10 < 0 ->
    let den := 10 ^ (- e10) in
    let s := Z.max 0 (70 + Z.log2 den - Z.log2 (Zpos m)) in
    let num := Zpos m * 2 ^ s in
    let q := num / den in
    let r := num mod den in
    let loc := if r =? 0 then loc_Exact else loc_Inexact (2 * r ?= den) in
    round_scaled neg m e10 e2 = binary_round_aux prec emax neg q (e2 - s) loc /\
    0 <= s /\ 0 < den /\
    Zpos m * 2 ^ s = q * den + r /\ 0 <= r < den /\
    2 ^ 69 <= q.
Proof. exact FloatExact.round_scaled_exact_neg. Qed.
Print Assumptions round_scaled_exact_neg.

(** both cases: [round_scaled neg m e10 0] is [binary_round_aux] on an exact
    description of m * 10^e10 with enough bits for a single rounding *)
Theorem round_scaled_exact :
  forall (neg : bool) (m : positive) (e10 : Z),
    exists q e loc,
      round_scaled neg m e10 0 = binary_round_aux prec emax neg q e loc /\
      0 < q /\ exact_triple (Zpos m) e10 q e loc /\ enough_bits q e /\
      (e10 < 0 -> 2 ^ 69 <= q).
Proof. exact round_scaled_exact_lemma. Qed.
Print Assumptions round_scaled_exact.

(** "the correctly rounded value of its number", up to the last step: for
    every plain decimal lexeme the result of [parse_float] is the standard
    rounding function applied to an exact description of the lexeme's value;
    the two shortcuts are taken only above 10^400 (range error) and below
    10^(-400) (signed zero). *)
Theorem parse_float_exact_description :
  forall (d : dec_lexeme) (m : positive),
    dl_wf d -> dl_int d = Npos m ->
    let neg := sign_neg (dl_sign d) in
    let e10 := dl_exp10 d in
    exists nd : Z,
      10 ^ (nd - 1) <= Zpos m < 10 ^ nd /\
      (400 < e10 -> parse_float (dl_bytes d) = None) /\
      (e10 <= 400 -> e10 + nd < -400 -> parse_float (dl_bytes d) = Some (S754_zero neg)) /\
      (e10 <= 400 -> -400 <= e10 + nd ->
         exists q e loc,
           0 < q /\ exact_triple (Zpos m) e10 q e loc /\ enough_bits q e /\
           parse_float (dl_bytes d) = keep_finite (binary_round_aux prec emax neg q e loc)).
Proof. exact parse_float_exact_description_lemma. Qed.
Print Assumptions parse_float_exact_description.

(** all digits zero: the signed zero *)
Theorem parse_float_zero :
  forall d : dec_lexeme,
    dl_wf d -> dl_int d = 0%N -> parse_float (dl_bytes d) = Some (S754_zero (sign_neg (dl_sign d))).
Proof. exact parse_float_zero_mantissa. Qed.
Print Assumptions parse_float_zero.

(** * with Flocq and the real numbers (the only theorems of this file that depend on axioms:
      ClassicalDedekindReals.sig_forall_dec, ClassicalDedekindReals.sig_not_dec,
      FunctionalExtensionality.functional_extensionality_dep, Classical_Prop.classic –
      all four from the standard library, all four already in the assumptions of
      Flocq's BinarySingleNaN.binary_round_aux_correct, on which these rest) *)

(** "the correctly rounded value of its number": for every plain decimal
    lexeme outside the two shortcuts, [parse_float] returns the IEEE 754
    round-to-nearest-even binary64 value of the real number the lexeme
    denotes, or the range error when that rounding is not below 2^1024. *)
Theorem parse_float_correctly_rounded :
  forall (d : dec_lexeme) (m : positive),
    dl_wf d -> dl_int d = Npos m ->
    let neg := sign_neg (dl_sign d) in
    let e10 := dl_exp10 d in
    exists nd : Z,
      10 ^ (nd - 1) <= Zpos m < 10 ^ nd /\
      (e10 <= 400 -> -400 <= e10 + nd ->
         exists z : f64,
           parse_float (dl_bytes d) = keep_finite z /\
           correctly_rounded neg (dec_real neg m e10) z).
Proof. exact parse_float_correctly_rounded_lemma. Qed.
Print Assumptions parse_float_correctly_rounded.

(** the rounding routine alone: every mantissa, every decimal exponent *)
Theorem round_scaled_correctly_rounded :
  forall (neg : bool) (m : positive) (e10 : Z),
    correctly_rounded neg (dec_real neg m e10) (round_scaled neg m e10 0).
Proof. exact FloatRound.round_scaled_correctly_rounded. Qed.
Print Assumptions round_scaled_correctly_rounded.
