(** Property C10.

    "If the log or recipe book cannot be read completely - the underlying read
    fails at any byte offset, or a line is longer than the line buffer - the
    command fails with an error; it never reports success on a prefix of the
    file.  Equivalently, whenever a command succeeds, every heading and entry
    of the file has been taken into account."

    Definitions used in the statements (from Proofs/UnreadableParser.v and
    Proofs/UnreadableCli.v):

      stops_only_with_error cb := forall s ev s' e, cb s ev = (s', true, e) -> e <> None
          (the callback never sets the stop flag without returning an error;
           proved there for the callback of every command: [db_cb_stops],
           [walk_cb_stops], [csv_cb_stops], [lint_cb_stops],
           [stats_log_cb_stops], [stats_db_cb_stops])
      has_long_line data := snd (scan data NoFault) = ScanTooLong
      maximal_piece c s p := exists pre post, s = pre ++ p ++ post /\ ~ In c p /\
                             (pre = [] \/ exists pre', pre = pre' ++ [c]) /\
                             (post = [] \/ exists post', post = c :: post')
      files_read op cmd : the file names the command opens, in order, the null device /dev/null left out
          (--no-database makes the book the null device; an EMPTY name is listed: since fix F24 it is a
           file that cannot be opened, see [empty_name_is_error]):
          reg, bal, unresolved, totals, summary : book, log
          quantity, csv log, print              : log
          element-total x (x non-empty), csv database, csv database-resolved : book
          lint f : f          stats : log, book *)
From HP Require Import Base.Bytes Base.Num Model.Scanner Model.Parser Model.Elements Model.Reporters Model.Cli.
From HP Require Import Proofs.UnreadableParser Proofs.UnreadableCli.

(** "the underlying read fails at any byte offset ... fails with an error" (parser) *)
Theorem read_fault_is_error :
  forall (NM : Num) (S E : Type) (cb : S -> event NM -> S * bool * option E),
  stops_only_with_error cb ->
  forall (data : bytes) (k : nat) (s : S),
  snd (parse_stream NM cb data (FailAt k) s) <> None.
Proof. exact UnreadableParser.read_fault_is_error. Qed.
Print Assumptions read_fault_is_error.

(** "or a line is longer than the line buffer" (parser) *)
Theorem long_line_is_error :
  forall (NM : Num) (S E : Type) (cb : S -> event NM -> S * bool * option E),
  stops_only_with_error cb ->
  forall (data : bytes) (s : S),
  has_long_line data -> snd (parse_stream NM cb data NoFault s) <> None.
Proof. exact UnreadableParser.long_line_is_error. Qed.
Print Assumptions long_line_is_error.

(** what "a line longer than the line buffer" means on the input alone: some
    maximal LF-free segment (its CR included) has 65536 bytes or more *)
Theorem has_long_line_iff :
  forall data : bytes,
  has_long_line data <->
  exists p, maximal_piece c_lf data p /\ (65536 <= N.of_nat (length p))%N.
Proof. exact UnreadableParser.has_long_line_iff. Qed.
Print Assumptions has_long_line_iff.

(** "it never reports success on a prefix of the file. Equivalently ... every
    heading and entry of the file has been taken into account" (parser): every
    event of the COMPLETE file, the last record included, was given to the
    callback, in order *)
Theorem success_implies_whole_file :
  forall (NM : Num) (S E : Type) (cb : S -> event NM -> S * bool * option E)
         (data : bytes) (fault : read_fault) (s : S),
  snd (parse_stream NM cb data fault s) = None -> stops_only_with_error cb ->
  fault = NoFault /\ snd (scan data NoFault) = ScanEOF /\
  fst (parse_stream NM cb data fault s) =
    fold_left (fun st ev => fst (fst (cb st ev))) (events NM data) s.
Proof. exact UnreadableParser.success_implies_whole_file. Qed.
Print Assumptions success_implies_whole_file.

(** "the underlying read fails at any byte offset ... the command fails with an error" *)
Theorem command_read_fault_fails :
  forall (NM : Num) (w : world) (i : invocation) (op : options) (p data : bytes) (k : nat),
  load w i = inr op -> In p (files_read op (i_cmd i)) ->
  lookup p (w_fs w) = Some (FFile data) -> lookup p (w_read_fault w) = Some k ->
  out_status (run NM w i) <> Ok.
Proof. exact UnreadableCli.command_read_fault_fails. Qed.
Print Assumptions command_read_fault_fails.

(** "or a line is longer than the line buffer - the command fails with an error" *)
Theorem command_long_line_fails :
  forall (NM : Num) (w : world) (i : invocation) (op : options) (p data : bytes),
  load w i = inr op -> In p (files_read op (i_cmd i)) ->
  lookup p (w_fs w) = Some (FFile data) -> has_long_line data ->
  out_status (run NM w i) <> Ok.
Proof. exact UnreadableCli.command_long_line_fails. Qed.
Print Assumptions command_long_line_fails.

(** a directory opens but cannot be read: "cannot be read completely" *)
Theorem directory_is_error :
  forall (NM : Num) (w : world) (i : invocation) (op : options) (p : bytes),
  load w i = inr op -> In p (files_read op (i_cmd i)) ->
  lookup p (w_fs w) = Some FDir ->
  out_status (run NM w i) <> Ok.
Proof. exact UnreadableCli.directory_is_error. Qed.
Print Assumptions directory_is_error.

(** "whenever a command succeeds ..." : every file it read exists, is not a
    directory, had no read fault, and was scanned to its end *)
Theorem command_success_whole_file :
  forall (NM : Num) (w : world) (i : invocation),
  out_status (run NM w i) = Ok ->
  exists op, load w i = inr op /\
    forall p, In p (files_read op (i_cmd i)) ->
      lookup p (w_fs w) <> None /\
      lookup p (w_fs w) <> Some FDir /\
      forall data, lookup p (w_fs w) = Some (FFile data) ->
                   lookup p (w_read_fault w) = None /\ snd (scan data NoFault) = ScanEOF.
Proof. exact UnreadableCli.command_success_whole_file. Qed.
Print Assumptions command_success_whole_file.

(** fix F24: an empty file name is a file that cannot be opened (it used to stand for "nothing to read") *)
Theorem empty_name_is_error :
  forall (NM : Num) (w : world) (i : invocation) (op : options),
  load w i = inr op -> In [] (files_read op (i_cmd i)) ->
  out_status (run NM w i) <> Ok.
Proof. exact UnreadableCli.empty_name_is_error. Qed.
Print Assumptions empty_name_is_error.
