(** Property C02.  "For every log and recipe book, the register shows every
    selected day in file order and, within it, each distinct food once in
    first-appearance order with the sum of its logged quantities, followed by
    that quantity times each resolved element of the food, or the food itself
    when the book does not define it.  The day's totals list every contributed
    element once, sorted by name, with the sum of its positive contributions,
    the sum of its negative contributions, and their sum."

    The reference semantics ([day_rows], [day_totals], [day_item],
    [template_day_chunk], [old_day_chunks], [process_days], [oracle]) is in
    Spec/RegisterSpec.v.  [es] are the RAW entries of a record (repeats
    allowed); the walk (Cli.v, [walk_cb]) hands a reporter the node
    [{| ln_time := t; ln_elems := merge_elements NM es; ln_meta := m |}].
    Every theorem holds for every [NM : Num] (no arithmetic law), except
    [totals_sum_column] which takes [AddMonoid NM]. *)
From Coq Require Import Permutation Sorted.
From HP Require Import Base.Bytes Base.Num Model.Elements Model.Dates Model.Writer Model.Reporters.
From HP Require Import Spec.RegisterSpec Proofs.RegisterSort Proofs.RegisterAssoc Proofs.Register Proofs.RegisterExtra.

(** "within it, each distinct food once in first-appearance order with the sum
    of its logged quantities, followed by that quantity times each resolved
    element of the food, or the food itself when the book does not define it" *)
Theorem register_day_spec :
  forall (NM : Num) (c : rconfig) (perm : list bytes -> list bytes)
         (d : list (bytes * list (bytes * T NM))) (t : time) (es : list (bytes * T NM))
         (m : option (list (bytes * bytes))),
    ri_elements NM (get_report_item NM c perm d
                      {| ln_time := t; ln_elems := merge_elements NM es; ln_meta := m |})
    = if rc_totals_only c then [] else day_rows NM d es.
Proof. exact Register.register_day_spec. Qed.
Print Assumptions register_day_spec.

(** "The day's totals list every contributed element once, sorted by name, with
    the sum of its positive contributions, the sum of its negative
    contributions, and their sum" – whatever order the runtime delivers the
    keys of the accumulator map in *)
Theorem register_totals_spec :
  forall (NM : Num) (c : rconfig) (perm : list bytes -> list bytes)
         (d : list (bytes * list (bytes * T NM))) (t : time) (es : list (bytes * T NM))
         (m : option (list (bytes * bytes))),
    (forall l, Permutation (perm l) l) ->
    ri_totals NM (get_report_item NM c perm d
                    {| ln_time := t; ln_elems := merge_elements NM es; ln_meta := m |})
    = if rc_totals c then Some (day_totals NM d es) else None.
Proof. exact Register.register_totals_spec. Qed.
Print Assumptions register_totals_spec.

(** "every contributed element once, sorted by name": the names of the totals
    are strictly increasing for Go's [<] on strings, hence duplicate-free, and
    they are exactly the names that received a contribution *)
Theorem totals_sorted_nodup :
  forall (NM : Num) (d : list (bytes * list (bytes * T NM))) (es : list (bytes * T NM)),
    StronglySorted (fun x y => bltb x y = true) (map (fun r => fst (fst (fst r))) (day_totals NM d es))
    /\ NoDup (map (fun r => fst (fst (fst r))) (day_totals NM d es))
    /\ (forall x, In x (map (fun r => fst (fst (fst r))) (day_totals NM d es))
                  <-> In x (map fst (contributed NM d es))).
Proof. exact Register.totals_sorted_nodup. Qed.
Print Assumptions totals_sorted_nodup.

(** "the register shows every selected day in file order": each reporter of the
    register (template and old) answers a day with state [tt], no error and
    chunks that depend on the day alone; a sequence of days yields the
    concatenation, in order, of the per-day chunks *)
Theorem register_file_order :
  forall (NM : Num) (c : rconfig) (d : list (bytes * list (bytes * T NM))),
    (forall perm st t es m, oracle perm ->
       r_process NM (rep_template NM c d) perm st
         {| ln_time := t; ln_elems := merge_elements NM es; ln_meta := m |}
       = (tt, [template_day_chunk NM c d t es], None))
    /\ (forall perm st t es m, oracle perm ->
       r_process NM (rep_old NM c d) perm st
         {| ln_time := t; ln_elems := merge_elements NM es; ln_meta := m |}
       = (tt, old_day_chunks NM c d t es, None))
    /\ (forall perm_day (days : list (day NM)) i st, (forall j, oracle (perm_day j)) ->
       process_days NM (rep_template NM c d) perm_day i st (map (day_node NM) days)
       = (tt, map (fun dy => template_day_chunk NM c d (fst (fst dy)) (snd (fst dy))) days))
    /\ (forall perm_day (days : list (day NM)) i st, (forall j, oracle (perm_day j)) ->
       process_days NM (rep_old NM c d) perm_day i st (map (day_node NM) days)
       = (tt, flat_map (fun dy => old_day_chunks NM c d (fst (fst dy)) (snd (fst dy))) days)).
Proof. exact Register.register_file_order. Qed.
Print Assumptions register_file_order.

(** the same for an arbitrary node (merged or not): the order oracle and the
    previous state have no influence on what a day prints *)
Theorem register_process_any_node :
  forall (NM : Num) (c : rconfig) (d : list (bytes * list (bytes * T NM))) (ln : lognode NM),
    (exists ch, forall perm st, oracle perm ->
        r_process NM (rep_template NM c d) perm st ln = (tt, [ch], None))
    /\ (exists chs, forall perm st, oracle perm ->
        r_process NM (rep_old NM c d) perm st ln = (tt, chs, None)).
Proof. exact (fun NM c d ln => conj (Register.template_process_any NM c d ln) (Register.old_process_any NM c d ln)). Qed.
Print Assumptions register_process_any_node.

(** the old reporter (its own re-implementation of the accounting) prints the
    same rows and the same totals, each by a fixed per-row rendering; the one
    layout difference: no TOTAL header on a day without any contribution *)
Theorem old_reporter_agrees :
  forall (NM : Num) (c : rconfig) (perm : list bytes -> list bytes)
         (d : list (bytes * list (bytes * T NM))) (t : time) (es : list (bytes * T NM))
         (m : option (list (bytes * bytes))),
    oracle perm ->
    old_rows NM c d {| ln_time := t; ln_elems := merge_elements NM es; ln_meta := m |}
    = (if rc_totals_only c then [] else flat_map (old_row_chunks NM c) (day_rows NM d es))
    /\ old_totals NM c perm d {| ln_time := t; ln_elems := merge_elements NM es; ln_meta := m |}
       = (if rc_totals c then
            match day_totals NM d es with
            | [] => []
            | ts => old_header_chunk :: map (old_total_chunk NM c) ts
            end
          else []).
Proof. exact Register.old_reporter_agrees. Qed.
Print Assumptions old_reporter_agrees.

(** stronger form of the above: byte for byte the output of the default template
    (names not shortened; totals off or at least one contribution that day) *)
Theorem old_bytes_eq_default :
  forall (NM : Num) (c : rconfig), rc_shorten c = false ->
  forall (d : list (bytes * list (bytes * T NM))) (t : time) (es : list (bytes * T NM)),
    (rc_totals c = true -> day_totals NM d es <> []) ->
    chunk_bytes (old_day_chunks NM c d t es) = render_default NM c (day_item NM c d t es).
Proof. exact RegisterExtra.old_bytes_eq_default. Qed.
Print Assumptions old_bytes_eq_default.

(** "and their sum": with the additive laws the third figure is the plain sum
    of all contributions of the name *)
Theorem totals_sum_column :
  forall NM : Num, AddMonoid NM ->
  forall (cs : list (bytes * T NM)) (x : bytes),
    add NM (pos_of NM cs x) (neg_of NM cs x) = fold_left (add NM) (values_of NM cs x) (zero NM).
Proof. exact RegisterExtra.totals_sum_column. Qed.
Print Assumptions totals_sum_column.

(** the specification's [sorted_names] does not depend on the sorting algorithm:
    it is the only strictly increasing list with the members of [map fst cs] *)
Theorem sorted_names_unique :
  forall (NM : Num) (cs : list (bytes * T NM)) (l : list bytes),
    StronglySorted (fun x y => bltb x y = true) l -> (forall x, In x l <-> In x (map fst cs)) ->
    l = sorted_names NM cs.
Proof. exact Register.sorted_names_unique. Qed.
Print Assumptions sorted_names_unique.
