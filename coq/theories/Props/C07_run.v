(** Property C07, first sentence, between COMMANDS ([Cli.run NM w i]):

    "period totals equal the sum of the register's daily totals and of the single-element register
    rows; the single-element balance grand total equals the period total of that element".

    First what each command prints, as a function of the bytes of the two files (healthy run, see
    Props/C02_run.v): a rendering of a list of numbers defined by the reference semantics of
    Spec/RegisterSpec.v on the RAW records of the period and the RESOLVED book -
      [report totals]  renders  [totals_rows_of d recs]              (name, positive, negative, sum)
      [reg]            renders  [register_day_totals_of d recs]      (one such list per selected day)
      [reg -s x]       renders  [single_rows_of d x recs]            (time, positive, negative) per day with x
      [bal -s x]       renders  [bal_single_total_of d x recs]       (its last line)
    then the relations between these numbers ([AddMonoid NM]: associativity, commutativity, [0 + v = v];
    without them the relations fail at binary64 in the last bit, see Proofs/AgreeTotals.REPORT.md).
    [sum l = fold_left add l zero]. *)
From Coq Require Import Permutation Sorted.
From HP Require Import Base.Bytes Base.Utf8 Base.Num Model.Scanner Model.Parser Model.Elements Model.Resolver
  Model.Dates Model.Tree Model.Writer Model.Reporters Model.Cli.
From HP Require Import Spec.RegisterSpec Spec.Agree2Spec Spec.AgreeSpec Spec.ProgramSpec.
From HP Require Import Proofs.ProgramBase Proofs.ProgramRegister Proofs.ProgramTotals Proofs.ProgramAgree
  Proofs.ProgramCommands.

(** * what the commands print *)

(** [report totals]: nothing at all when nothing was contributed in the period; else the header line and
    one line (positive, negative, sum, name) per contributed element, sorted by name *)
Theorem totals_program :
  forall (NM : Num) (w : world) (i : invocation) (op : options) (odb : opened)
         (d : list (bytes * list (bytes * T NM))) (ldata : bytes),
    load w i = inr op ->
    w_sink w = None ->
    open_file w (op_db op) = Some odb -> resolved_db NM w op odb = inr d ->
    open_file w (op_log op) = Some (OData ldata NoFault) ->
    snd (scan ldata NoFault) = ScanEOF ->
    no_parse_error NM (events NM ldata) ->
    all_dated NM (rc_date (op_rc op)) (log_records NM ldata) ->
    i_cmd i = CTotals ->
    oracle (o_flush (w_or w)) ->
    run NM w i
    = {| out_stdout := totals_text NM (totals_rows_of NM d (command_records NM op ldata)); out_status := Ok |}.
Proof. exact ProgramTotals.totals_program. Qed.
Print Assumptions totals_program.

(** the rows: every element contributed in the period once, names strictly increasing, positive /
    negative column = the reference left folds in contribution order ([pos_of], [neg_of]: the first
    contribution of a name assigns, later ones add), sum column = positive + negative.  Law-free. *)
Theorem totals_rows_shape :
  forall (NM : Num) (d : list (bytes * list (bytes * T NM))) (recs : list (ProgramSpec.record NM)),
    let cs := period_contributed NM d recs in
    totals_rows_of NM d recs
    = map (fun x => (x, pos_of NM cs x, neg_of NM cs x, add NM (pos_of NM cs x) (neg_of NM cs x))) (sorted_names NM cs)
    /\ StronglySorted (fun a c => bltb a c = true) (sorted_names NM cs)
    /\ (forall x, In x (sorted_names NM cs) <-> In x (map fst cs)).
Proof. exact ProgramAgree.totals_rows_shape. Qed.
Print Assumptions totals_rows_shape.

(** reading the row of [x] off such a list: present iff [x] was contributed *)
Theorem totals_row_of :
  forall (NM : Num) (cs : list (bytes * T NM)) (x : bytes),
    (In x (map fst cs) -> row_of NM x (totals_of NM cs) = Some (pos_of NM cs x, neg_of NM cs x))
    /\ (~ In x (map fst cs) -> row_of NM x (totals_of NM cs) = None).
Proof. exact (fun NM cs x => conj (ProgramTotals.row_of_totals_of_in NM cs x) (ProgramTotals.row_of_totals_of_notin NM cs x)). Qed.
Print Assumptions totals_row_of.

(** [reg -s X] (with or without [--csv], not [-g]): one line per selected day that contributes X, in file
    order, with that day's positive / negative figures of X = the row of X in that day's register totals.
    No hypothesis on the oracles; the panic site of single_reporter.go is never reached. *)
Theorem reg_single_program :
  forall (NM : Num) (w : world) (i : invocation) (op : options) (odb : opened)
         (d : list (bytes * list (bytes * T NM))) (ldata : bytes),
    load w i = inr op ->
    w_sink w = None ->
    open_file w (op_db op) = Some odb -> resolved_db NM w op odb = inr d ->
    open_file w (op_log op) = Some (OData ldata NoFault) ->
    snd (scan ldata NoFault) = ScanEOF ->
    no_parse_error NM (events NM ldata) ->
    all_dated NM (rc_date (op_rc op)) (log_records NM ldata) ->
    i_cmd i = CReg -> i_single_element i <> [] -> i_group_food i = false ->
    let x := i_single_element i in
    run NM w i
    = {| out_stdout := concat (map (single_row_text NM (i_csv i) (rc_date (op_rc op)) x)
                                   (single_rows_of NM d x (command_records NM op ldata)));
         out_status := Ok |}.
Proof. exact ProgramTotals.reg_single_program. Qed.
Print Assumptions reg_single_program.

(** [bal -s X]: the rows of the tree of the foods that contribute X, then the separator and the grand
    total = the left fold from zero of ALL contributions to X in the period, in order *)
Theorem bal_single_program :
  forall (NM : Num) (w : world) (i : invocation) (op : options) (odb : opened)
         (d : list (bytes * list (bytes * T NM))) (ldata : bytes),
    load w i = inr op ->
    w_sink w = None ->
    open_file w (op_db op) = Some odb -> resolved_db NM w op odb = inr d ->
    open_file w (op_log op) = Some (OData ldata NoFault) ->
    snd (scan ldata NoFault) = ScanEOF ->
    no_parse_error NM (events NM ldata) ->
    all_dated NM (rc_date (op_rc op)) (log_records NM ldata) ->
    i_cmd i = CBal -> i_single_element i <> [] ->
    let x := i_single_element i in
    let recs := command_records NM op ldata in
    run NM w i
    = {| out_stdout := concat (map (render_row NM)
                                   (balance_rows NM (o_flush (w_or w)) (i_collapse i) (i_collapse_last i)
                                                 (bal_single_tree NM d x recs)))
                       ++ bal_single_footer_text NM x (bal_single_total_of NM d x recs);
         out_status := Ok |}.
Proof. exact ProgramTotals.bal_single_program. Qed.
Print Assumptions bal_single_program.

(** the four commands run on the same two files with the same settings ([with_cmd_single i cmd x]: the
    invocation [i] with sub-command [cmd] and [-s x]); [reg] with rows and totals on, default template *)
Theorem four_commands :
  forall (NM : Num) (w : world) (i : invocation) (op : options) (odb : opened)
         (d : list (bytes * list (bytes * T NM))) (ldata : bytes),
    load w i = inr op ->
    w_sink w = None ->
    open_file w (op_db op) = Some odb -> resolved_db NM w op odb = inr d ->
    open_file w (op_log op) = Some (OData ldata NoFault) ->
    snd (scan ldata NoFault) = ScanEOF ->
    no_parse_error NM (events NM ldata) ->
    all_dated NM (rc_date (op_rc op)) (log_records NM ldata) ->
    (forall j : nat, oracle (o_day (w_or w) j)) ->
    oracle (o_flush (w_or w)) ->
    forall x : bytes, x <> [] ->
    i_single_food i = [] -> i_old i = false -> i_template i <> Some (b "left-aligned") -> i_group_food i = false ->
    let recs := command_records NM op ldata in
    let toks := rc_date (op_rc op) in
    let color := negb (i_g_no_color i || i_l_no_color i) in
    let D := fun r : ProgramSpec.record NM => format_date toks (civ (rec_time NM r)) in
    let E := fun r : ProgramSpec.record NM => default_rows_text NM color (i_shorten i) (day_rows NM d (rec_entries NM r)) in
    run NM w (with_cmd_single i CTotals x)
    = {| out_stdout := totals_text NM (totals_rows_of NM d recs); out_status := Ok |}
    /\ run NM w (with_totals_flags (with_cmd_single i CReg []) false false)
       = {| out_stdout := concat (map (fun r => D r ++ E r
                                       ++ default_totals_text NM color (i_shorten i) (day_totals NM d (rec_entries NM r))
                                       ++ [c_lf]) recs);
            out_status := Ok |}
    /\ register_day_totals_of NM d recs = map (fun r => day_totals NM d (rec_entries NM r)) recs
    /\ run NM w (with_cmd_single i CReg x)
       = {| out_stdout := concat (map (single_row_text NM (i_csv i) toks x) (single_rows_of NM d x recs));
            out_status := Ok |}
    /\ run NM w (with_cmd_single i CBal x)
       = {| out_stdout := concat (map (render_row NM)
                                      (balance_rows NM (o_flush (w_or w)) (i_collapse i) (i_collapse_last i)
                                                    (bal_single_tree NM d x recs)))
                          ++ bal_single_footer_text NM x (bal_single_total_of NM d x recs);
            out_status := Ok |}.
Proof. exact ProgramCommands.four_commands. Qed.
Print Assumptions four_commands.

(** * the relations between the numbers these outputs are rendered from *)

(** "period totals equal the sum of the register's daily totals": for every element [x], the positive
    (negative) figure of [report totals] is the sum over the selected days of the positive (negative)
    figure of [x] in that day's register totals (a day without [x] counts zero); there is a row iff
    some day has one *)
Theorem totals_vs_register :
  forall (NM : Num), AddMonoid NM ->
  forall (d : list (bytes * list (bytes * T NM))) (recs : list (ProgramSpec.record NM)) (x : bytes),
    row_of NM x (totals_rows_of NM d recs)
    = if existsb (has_row NM x) (register_day_totals_of NM d recs)
      then Some (sum NM (map (fun rows => fst_or_zero NM (row_of NM x rows)) (register_day_totals_of NM d recs)),
                 sum NM (map (fun rows => snd_or_zero NM (row_of NM x rows)) (register_day_totals_of NM d recs)))
      else None.
Proof. exact ProgramAgree.totals_vs_register. Qed.
Print Assumptions totals_vs_register.

(** law-free (every [Num], binary64 included): the rows [reg -s x] prints are, day by day, the rows of
    [x] in the register's daily totals *)
Theorem single_rows_are_register_rows :
  forall (NM : Num) (d : list (bytes * list (bytes * T NM))) (recs : list (ProgramSpec.record NM)) (x : bytes),
    map (fun row => (sr_pos NM row, sr_neg NM row)) (single_rows_of NM d x recs)
    = flat_map (fun rows => match row_of NM x rows with Some pn => [pn] | None => [] end)
               (register_day_totals_of NM d recs).
Proof. exact ProgramAgree.single_rows_are_register_rows. Qed.
Print Assumptions single_rows_are_register_rows.

(** "... and of the single-element register rows": the row of [x] in [report totals] is the column-wise
    sum of the rows [reg -s x] prints; no row iff [reg -s x] prints nothing *)
Theorem totals_vs_single :
  forall (NM : Num), AddMonoid NM ->
  forall (d : list (bytes * list (bytes * T NM))) (recs : list (ProgramSpec.record NM)) (x : bytes),
    row_of NM x (totals_rows_of NM d recs)
    = match single_rows_of NM d x recs with
      | [] => None
      | rows => Some (sum NM (map (sr_pos NM) rows), sum NM (map (sr_neg NM) rows))
      end.
Proof. exact ProgramAgree.totals_vs_single. Qed.
Print Assumptions totals_vs_single.

(** "the single-element balance grand total equals the period total of that element": the last line of
    [bal -s x] shows the figure of the "sum" column of the row of [x] in [report totals] (zero when
    there is no such row) *)
Theorem bal_single_vs_totals :
  forall (NM : Num), AddMonoid NM ->
  forall (d : list (bytes * list (bytes * T NM))) (recs : list (ProgramSpec.record NM)) (x : bytes),
    bal_single_total_of NM d x recs
    = match row_total_of NM x (totals_rows_of NM d recs) with
      | Some s => s
      | None => zero NM
      end.
Proof. exact ProgramAgree.bal_single_vs_totals. Qed.
Print Assumptions bal_single_vs_totals.

Theorem bal_single_vs_totals_row :
  forall (NM : Num), AddMonoid NM ->
  forall (d : list (bytes * list (bytes * T NM))) (recs : list (ProgramSpec.record NM)) (x : bytes),
    bal_single_total_of NM d x recs
    = match row_of NM x (totals_rows_of NM d recs) with
      | Some (p, n) => add NM p n
      | None => zero NM
      end.
Proof. exact ProgramAgree.bal_single_vs_totals_row. Qed.
Print Assumptions bal_single_vs_totals_row.
