(** C03 (second half) / C15 (collapse clause):
    "Collapse options only join path segments: when no logged food name is a
    path-prefix of another, every display mode shows the same leaf paths with
    the same amounts and never drops a branch."

    [slash_free_below] and (when no logged name is a path-prefix of another)
    [chain_const_below] hold of the ordered tree the reporter prints (WP08);
    the theorems here hold for EVERY tree with these properties, every [Num].

    After fix 3cc3ec3 ([--collapse] / [--collapse-last] join a category with
    its only sub-category only while the totals are Go-equal, [t_eqb]) the
    second half of this file states what holds for EVERY tree, also when a
    logged name IS a path-prefix of another: joining hides no amount. *)
From HP Require Import Base.Bytes Base.Num Base.GoFloat Model.Elements Model.Tree Model.Reporters
  Spec.TreeShared Spec.BalancePrintSpec Proofs.BalancePrint.

(** plain mode shows every category path exactly once with its total, in
    pre-order (no hypothesis on the totals) *)
Theorem plain_rows_are_nodes :
  forall (NM : Num) (t : tree NM),
    slash_free_below NM t ->
    map (fun '(p, x, _) => (p, x)) (decode NM (print_node NM false 0 t)) = tree_paths NM t.
Proof. exact BalancePrint.plain_rows_are_nodes. Qed.
Print Assumptions plain_rows_are_nodes.

(** "shows the same leaf paths with the same amounts": plain mode *)
Theorem plain_leaves :
  forall (NM : Num) (t : tree NM),
    slash_free_below NM t ->
    leaf_rows NM (print_node NM false 0 t) = tree_leaves NM t.
Proof. exact BalancePrint.plain_leaves. Qed.
Print Assumptions plain_leaves.

(** ... collapse-last mode, when no logged name is a path-prefix of another *)
Theorem collapse_last_leaves :
  forall (NM : Num) (t : tree NM),
    slash_free_below NM t -> chain_const_below NM t ->
    leaf_rows NM (print_node NM true 0 t) = tree_leaves NM t.
Proof. exact BalancePrint.collapse_last_leaves. Qed.
Print Assumptions collapse_last_leaves.

(** ... collapsed mode, when no logged name is a path-prefix of another *)
Theorem collapsed_leaves :
  forall (NM : Num) (t : tree NM),
    slash_free_below NM t -> chain_const_below NM t ->
    leaf_rows NM (print_collapsed NM t) = tree_leaves NM t.
Proof. exact BalancePrint.collapsed_leaves. Qed.
Print Assumptions collapsed_leaves.

(** "and never drops a branch": every category path of the tree is a prefix of
    the full path of some row, in each of the three modes (no hypothesis on
    the totals) *)
Theorem never_drops_branch :
  forall (NM : Num) (t : tree NM),
    slash_free_below NM t ->
    forall p x, In (p, x) (tree_paths NM t) ->
      In p (all_paths NM (print_node NM false 0 t)) /\
      In p (all_paths NM (print_node NM true 0 t)) /\
      In p (all_paths NM (print_collapsed NM t)).
Proof. exact BalancePrint.never_drops_branch. Qed.
Print Assumptions never_drops_branch.

(** "every display mode shows the same leaf paths with the same amounts" *)
Theorem modes_agree :
  forall (NM : Num) (t : tree NM),
    slash_free_below NM t -> chain_const_below NM t ->
    leaf_rows NM (rows_plain NM t) = tree_leaves NM t /\
    leaf_rows NM (rows_collapse_last NM t) = leaf_rows NM (rows_plain NM t) /\
    leaf_rows NM (rows_collapsed NM t) = leaf_rows NM (rows_plain NM t).
Proof. exact BalancePrint.modes_agree. Qed.
Print Assumptions modes_agree.

(** "collapse options only join path segments": in each mode the full paths of
    the rows are a sub-sequence of the category paths, keeping every leaf and
    every fork (no hypothesis on the totals) *)
Theorem collapse_only_joins :
  forall (NM : Num) (t : tree NM),
    slash_free_below NM t ->
    only_joins NM t (rows_plain NM t) /\
    only_joins NM t (rows_collapse_last NM t) /\
    only_joins NM t (rows_collapsed NM t).
Proof. exact BalancePrint.collapse_only_joins. Qed.
Print Assumptions collapse_only_joins.

(** the same for what the reporter prints: [balance_rows] under every
    combination of the two collapse flags and every map-order oracle *)
Theorem balance_rows_modes_agree :
  forall (NM : Num) (pi : list bytes -> list bytes) (root : tree NM),
    slash_free_below NM (order_tree NM pi root) ->
    chain_const_below NM (order_tree NM pi root) ->
    forall collapse cl collapse' cl',
      leaf_rows NM (balance_rows NM pi collapse cl root) =
      leaf_rows NM (balance_rows NM pi collapse' cl' root).
Proof. exact BalancePrint.balance_rows_modes_agree. Qed.
Print Assumptions balance_rows_modes_agree.

Theorem balance_rows_never_drops :
  forall (NM : Num) (pi : list bytes -> list bytes) (collapse cl : bool) (root : tree NM),
    slash_free_below NM (order_tree NM pi root) ->
    forall p x, In (p, x) (tree_paths NM (order_tree NM pi root)) ->
      In p (all_paths NM (balance_rows NM pi collapse cl root)).
Proof. exact BalancePrint.balance_rows_never_drops. Qed.
Print Assumptions balance_rows_never_drops.

(** * After fix 3cc3ec3: every tree, no hypothesis on the totals *)

(** every row printed by [--collapse-last] ([print_node true]) or [--collapse]
    ([print_collapsed]), read back as (path of the parent row, segments of its
    own label, amount), stands for a chain of nodes of the tree - one per
    segment, each the only child of the one before ([chain_paths] are node
    paths of the tree) - such that the amount shown is the total of the first
    node and the total of every further node is Go-equal ([==]) to its
    parent's ([joined_ok]); when [==] is transitive (float64, exact numbers:
    below) the totals of the chain are pairwise Go-equal.  So the amount on a
    joined row is Go-equal to the total of EVERY node on the joined path: no
    amount is hidden by joining. *)
Theorem collapse_joins_equal_totals :
  forall (NM : Num) (t : tree NM),
    slash_free_below NM t ->
    forall rows, rows = print_node NM true 0 t \/ rows = print_collapsed NM t ->
    forall pp own y, In (pp, own, y) (decode_own NM rows) ->
      exists chain : list (bytes * T NM),
        map fst chain = own /\ joined_ok NM y chain /\
        incl (chain_paths NM pp chain) (tree_paths NM t) /\
        (go_eq_transitive NM -> ForallOrdPairs (fun a c => t_eqb NM (snd c) (snd a) = true) chain).
Proof. exact BalancePrint.collapse_joins_equal_totals. Qed.
Print Assumptions collapse_joins_equal_totals.

(** in each mode the rows account for the whole tree: node totals can be
    written next to the segments of the rows such that every row is an honest
    joined row and the (path, total) pairs read off are exactly the nodes of
    the tree, each once, in pre-order ([rows_account_for], Spec/BalancePrintSpec.v) *)
Theorem modes_account_for_tree :
  forall (NM : Num) (t : tree NM),
    slash_free_below NM t ->
    rows_account_for NM t (rows_plain NM t) /\
    rows_account_for NM t (rows_collapse_last NM t) /\
    rows_account_for NM t (rows_collapsed NM t).
Proof. exact BalancePrint.modes_account_for_tree. Qed.
Print Assumptions modes_account_for_tree.

(** every node's (path, total) is recoverable from the output of every mode:
    [shown_paths rows] = every category path the reader sees, once, with the
    amount of the row in which its last segment is printed; in plain mode this
    IS the node list of the tree, in the two collapsing modes it is the node
    list up to Go-equality of the amounts (same paths, same order, each amount
    linked to the node's total by a chain of [==]) *)
Theorem modes_show_every_path_total :
  forall (NM : Num) (t : tree NM),
    slash_free_below NM t ->
    shown_paths NM (rows_plain NM t) = tree_paths NM t /\
    Forall2 (same_path_go_equal NM) (shown_paths NM (rows_collapse_last NM t)) (tree_paths NM t) /\
    Forall2 (same_path_go_equal NM) (shown_paths NM (rows_collapsed NM t)) (tree_paths NM t).
Proof. exact BalancePrint.modes_show_every_path_total. Qed.
Print Assumptions modes_show_every_path_total.

(** node by node, when [==] is transitive: every node is shown, in the row in
    which its last segment is printed, with an amount equal or Go-equal to its total *)
Theorem every_node_total_shown :
  forall (NM : Num) (t : tree NM),
    slash_free_below NM t -> go_eq_transitive NM ->
    forall rows, rows = print_node NM false 0 t \/ rows = print_node NM true 0 t \/ rows = print_collapsed NM t ->
    forall p x, In (p, x) (tree_paths NM t) ->
      exists y, In (p, y) (shown_paths NM rows) /\ (y = x \/ t_eqb NM y x = true).
Proof. exact BalancePrint.every_node_total_shown. Qed.
Print Assumptions every_node_total_shown.

(** every ROW of every mode (joined inner rows included) carries an amount
    Go-equal-linked to the total of the node its full path names:
    [collapse_last_rows_are_nodes] / [collapsed_rows_are_nodes] without
    [chain_const_below] *)
Theorem rows_are_nodes_go_equal :
  forall (NM : Num) (t : tree NM),
    slash_free_below NM t ->
    forall rows, rows = print_node NM false 0 t \/ rows = print_node NM true 0 t \/ rows = print_collapsed NM t ->
    forall p y lf, In (p, y, lf) (decode NM rows) ->
      exists x, In (p, x) (tree_paths NM t) /\ go_eq_chain NM y x.
Proof. exact BalancePrint.rows_are_nodes_go_equal. Qed.
Print Assumptions rows_are_nodes_go_equal.

(** the leaves without the prefix hypothesis: all modes show the same leaf
    paths; the amounts of the collapsing modes are Go-equal-linked to the plain ones *)
Theorem modes_agree_go_equal :
  forall (NM : Num) (t : tree NM),
    slash_free_below NM t ->
    leaf_rows NM (rows_plain NM t) = tree_leaves NM t /\
    Forall2 (same_path_go_equal NM) (leaf_rows NM (rows_collapse_last NM t)) (leaf_rows NM (rows_plain NM t)) /\
    Forall2 (same_path_go_equal NM) (leaf_rows NM (rows_collapsed NM t)) (leaf_rows NM (rows_plain NM t)).
Proof. exact BalancePrint.modes_agree_go_equal. Qed.
Print Assumptions modes_agree_go_equal.

(** ... and exactly the same amounts where Go-equal amounts are equal: [modes_agree]
    without [chain_const_below] *)
Theorem modes_agree_exact :
  forall (NM : Num) (t : tree NM),
    go_eq_is_eq NM -> slash_free_below NM t ->
    leaf_rows NM (rows_plain NM t) = tree_leaves NM t /\
    leaf_rows NM (rows_collapse_last NM t) = leaf_rows NM (rows_plain NM t) /\
    leaf_rows NM (rows_collapsed NM t) = leaf_rows NM (rows_plain NM t).
Proof. exact BalancePrint.modes_agree_exact. Qed.
Print Assumptions modes_agree_exact.

(** the two laws at the instances: [==] of float64 is transitive; Go-equal
    exact numbers are equal; Go-equal floats need not be ([-0 == +0]) *)
Theorem B64_go_eq_transitive : go_eq_transitive B64.
Proof. exact BalancePrint.B64_go_eq_transitive. Qed.
Print Assumptions B64_go_eq_transitive.

Theorem ZNum_go_eq_is_eq : go_eq_is_eq ZNum.
Proof. exact BalancePrint.ZNum_go_eq_is_eq. Qed.
Print Assumptions ZNum_go_eq_is_eq.

Theorem B64_go_eq_is_not_eq : ~ go_eq_is_eq B64.
Proof. exact BalancePrint.B64_go_eq_is_not_eq. Qed.
Print Assumptions B64_go_eq_is_not_eq.

(** before the fix the hypothesis [chain_const_below] was necessary
    ([collapsed_leaves_without_hypothesis_refuted]: with entries [a:1, a/b:2]
    collapsed mode showed the leaf [a/b] with 3, plain mode with 2).  That
    refutation is FALSE of the repaired program; at exact numbers the
    theorems now hold without the hypothesis: *)
Theorem collapsed_leaves_without_hypothesis :
  forall t : tree ZNum, slash_free_below ZNum t ->
    leaf_rows ZNum (print_collapsed ZNum t) = tree_leaves ZNum t.
Proof. exact BalancePrint.collapsed_leaves_without_hypothesis. Qed.
Print Assumptions collapsed_leaves_without_hypothesis.

Theorem collapse_last_leaves_without_hypothesis :
  forall t : tree ZNum, slash_free_below ZNum t ->
    leaf_rows ZNum (print_node ZNum true 0 t) = tree_leaves ZNum t.
Proof. exact BalancePrint.collapse_last_leaves_without_hypothesis. Qed.
Print Assumptions collapse_last_leaves_without_hypothesis.

(** at float64 the EXACT statement still needs the hypothesis, for the sign of
    a zero only: entries [a:0, a/b:-0] *)
Theorem collapsed_leaves_without_hypothesis_refuted_b64 :
  leaf_rows B64 (rows_plain B64 signed_zero_tree) = [([b "a"; b "b"], b64_neg_zero)] /\
  leaf_rows B64 (rows_collapsed B64 signed_zero_tree) = [([b "a"; b "b"], b64_zero)] /\
  leaf_rows B64 (rows_collapse_last B64 signed_zero_tree) = [([b "a"; b "b"], b64_zero)] /\
  b64_zero <> b64_neg_zero /\ t_eqb B64 b64_neg_zero b64_zero = true.
Proof. exact BalancePrint.collapsed_leaves_without_hypothesis_refuted_b64. Qed.
Print Assumptions collapsed_leaves_without_hypothesis_refuted_b64.

(** the example of the fix: log [coffee 1, coffee/latte/large 2, tea/green/cup 4,
    milk 1, milk/whole 2] ([fix_tree] = its ordered tree), the three outputs
    of the repaired program *)
Theorem fix_rows_plain :
  rows_plain ZNum fix_tree =
  [(3%Z, 0%nat, b "coffee"); (2%Z, 1%nat, b "latte"); (2%Z, 2%nat, b "large");
   (3%Z, 0%nat, b "milk"); (2%Z, 1%nat, b "whole");
   (4%Z, 0%nat, b "tea"); (4%Z, 1%nat, b "green"); (4%Z, 2%nat, b "cup")].
Proof. exact BalancePrint.fix_rows_plain. Qed.
Print Assumptions fix_rows_plain.

Theorem fix_rows_collapsed :
  rows_collapsed ZNum fix_tree =
  [(3%Z, 0%nat, b "coffee"); (2%Z, 1%nat, b "latte/large");
   (3%Z, 0%nat, b "milk"); (2%Z, 1%nat, b "whole");
   (4%Z, 0%nat, b "tea/green/cup")].
Proof. exact BalancePrint.fix_rows_collapsed. Qed.
Print Assumptions fix_rows_collapsed.

Theorem fix_rows_collapse_last :
  rows_collapse_last ZNum fix_tree =
  [(3%Z, 0%nat, b "coffee"); (2%Z, 1%nat, b "latte/large");
   (3%Z, 0%nat, b "milk"); (2%Z, 1%nat, b "whole");
   (4%Z, 0%nat, b "tea"); (4%Z, 1%nat, b "green/cup")].
Proof. exact BalancePrint.fix_rows_collapse_last. Qed.
Print Assumptions fix_rows_collapse_last.
