(** C03 (second half) / C15 (collapse clause):
    "Collapse options only join path segments: when no logged food name is a
    path-prefix of another, every display mode shows the same leaf paths with
    the same amounts and never drops a branch."

    [slash_free_below] and (when no logged name is a path-prefix of another)
    [chain_const_below] hold of the ordered tree the reporter prints (WP08);
    the theorems here hold for EVERY tree with these properties, every [Num]. *)
From HP Require Import Base.Bytes Base.Num Model.Elements Model.Tree Model.Reporters
  Spec.TreeShared Spec.BalancePrintSpec Proofs.BalancePrint.

(** plain mode shows every category path exactly once with its total, in
    pre-order (no hypothesis on the totals) *)
Theorem plain_rows_are_nodes :
  forall (NM : Num) (t : tree NM),
    slash_free_below NM t ->
    map (fun '(p, x, _) => (p, x)) (decode NM (print_node NM false 0 t)) = tree_paths NM t.
Proof. exact BalancePrint.plain_rows_are_nodes. Qed.
Print Assumptions plain_rows_are_nodes.

(** "shows the same leaf paths with the same amounts": plain mode *)
Theorem plain_leaves :
  forall (NM : Num) (t : tree NM),
    slash_free_below NM t ->
    leaf_rows NM (print_node NM false 0 t) = tree_leaves NM t.
Proof. exact BalancePrint.plain_leaves. Qed.
Print Assumptions plain_leaves.

(** ... collapse-last mode, when no logged name is a path-prefix of another *)
Theorem collapse_last_leaves :
  forall (NM : Num) (t : tree NM),
    slash_free_below NM t -> chain_const_below NM t ->
    leaf_rows NM (print_node NM true 0 t) = tree_leaves NM t.
Proof. exact BalancePrint.collapse_last_leaves. Qed.
Print Assumptions collapse_last_leaves.

(** ... collapsed mode, when no logged name is a path-prefix of another *)
Theorem collapsed_leaves :
  forall (NM : Num) (t : tree NM),
    slash_free_below NM t -> chain_const_below NM t ->
    leaf_rows NM (print_collapsed NM t) = tree_leaves NM t.
Proof. exact BalancePrint.collapsed_leaves. Qed.
Print Assumptions collapsed_leaves.

(** "and never drops a branch": every category path of the tree is a prefix of
    the full path of some row, in each of the three modes (no hypothesis on
    the totals) *)
Theorem never_drops_branch :
  forall (NM : Num) (t : tree NM),
    slash_free_below NM t ->
    forall p x, In (p, x) (tree_paths NM t) ->
      In p (all_paths NM (print_node NM false 0 t)) /\
      In p (all_paths NM (print_node NM true 0 t)) /\
      In p (all_paths NM (print_collapsed NM t)).
Proof. exact BalancePrint.never_drops_branch. Qed.
Print Assumptions never_drops_branch.

(** "every display mode shows the same leaf paths with the same amounts" *)
Theorem modes_agree :
  forall (NM : Num) (t : tree NM),
    slash_free_below NM t -> chain_const_below NM t ->
    leaf_rows NM (rows_plain NM t) = tree_leaves NM t /\
    leaf_rows NM (rows_collapse_last NM t) = leaf_rows NM (rows_plain NM t) /\
    leaf_rows NM (rows_collapsed NM t) = leaf_rows NM (rows_plain NM t).
Proof. exact BalancePrint.modes_agree. Qed.
Print Assumptions modes_agree.

(** "collapse options only join path segments": in each mode the full paths of
    the rows are a sub-sequence of the category paths, keeping every leaf and
    every fork (no hypothesis on the totals) *)
Theorem collapse_only_joins :
  forall (NM : Num) (t : tree NM),
    slash_free_below NM t ->
    only_joins NM t (rows_plain NM t) /\
    only_joins NM t (rows_collapse_last NM t) /\
    only_joins NM t (rows_collapsed NM t).
Proof. exact BalancePrint.collapse_only_joins. Qed.
Print Assumptions collapse_only_joins.

(** the same for what the reporter prints: [balance_rows] under every
    combination of the two collapse flags and every map-order oracle *)
Theorem balance_rows_modes_agree :
  forall (NM : Num) (pi : list bytes -> list bytes) (root : tree NM),
    slash_free_below NM (order_tree NM pi root) ->
    chain_const_below NM (order_tree NM pi root) ->
    forall collapse cl collapse' cl',
      leaf_rows NM (balance_rows NM pi collapse cl root) =
      leaf_rows NM (balance_rows NM pi collapse' cl' root).
Proof. exact BalancePrint.balance_rows_modes_agree. Qed.
Print Assumptions balance_rows_modes_agree.

Theorem balance_rows_never_drops :
  forall (NM : Num) (pi : list bytes -> list bytes) (collapse cl : bool) (root : tree NM),
    slash_free_below NM (order_tree NM pi root) ->
    forall p x, In (p, x) (tree_paths NM (order_tree NM pi root)) ->
      In p (all_paths NM (balance_rows NM pi collapse cl root)).
Proof. exact BalancePrint.balance_rows_never_drops. Qed.
Print Assumptions balance_rows_never_drops.

(** the hypothesis is necessary: with entries [a:1, a/b:2] collapsed mode shows
    the leaf [a/b] with 3, plain mode with 2 *)
Theorem collapsed_leaves_without_hypothesis_refuted :
  ~ (forall t : tree ZNum, slash_free_below ZNum t ->
       leaf_rows ZNum (print_collapsed ZNum t) = tree_leaves ZNum t).
Proof. exact BalancePrint.collapsed_leaves_without_hypothesis_refuted. Qed.
Print Assumptions collapsed_leaves_without_hypothesis_refuted.
