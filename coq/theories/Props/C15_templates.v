(** Properties C02 / C15 (and C07 for the summary), the tie between the program's
    template TEXTS and the model's renderers.

    The Go program prints the register and the summary through three
    [text/template] constants ([defaultTemplate], [leftAlignedTemplate],
    [summaryTemplate]).  The model has the byte renderers [render_default],
    [render_left], [render_summary] (Model/Reporters.v), which every theorem of
    C02 / C15 is about.  Here: the template text is parsed INSIDE Coq
    ([parse_template], Model/Template.v: lexer with the trim markers, parser,
    evaluator [exec_template] over the value [item_value] of a report item with
    the functions [template_funcs] of a configuration), and the evaluation of
    the three syntax trees is exactly the three renderers - for every [Num],
    every configuration and every report item.  The per-run check
    (tools/gen_templates.py -> Gen/Templates.v) computes
    [tmpl_eqb (parse_template <text in /repo>) (Some X_ast)]; by
    [tmpl_eqb_sound] a [true] is the hypothesis of [template_tie*]. *)
From HP Require Import Base.Bytes Base.Num Model.Elements Model.Dates Model.Reporters Model.Template.
From HP Require Import Proofs.TemplateEq Proofs.TemplateExec Proofs.TemplateLex.

(** the texts of the three constants at the pinned commit parse to the three trees *)
Theorem parse_default : parse_template default_src = Some default_ast.
Proof. exact TemplateExec.parse_default. Qed.
Print Assumptions parse_default.

Theorem parse_left : parse_template left_src = Some left_ast.
Proof. exact TemplateExec.parse_left. Qed.
Print Assumptions parse_left.

Theorem parse_summary : parse_template summary_src = Some summary_ast.
Proof. exact TemplateExec.parse_summary. Qed.
Print Assumptions parse_summary.

(** executing the tree of the default register template over a report item is the model's renderer *)
Theorem exec_default :
  forall (NM : Num) (c : rconfig) (it : report_item NM),
    exec_template (template_funcs NM c) default_ast (item_value NM it) = Some (render_default NM c it).
Proof. exact TemplateExec.exec_default. Qed.
Print Assumptions exec_default.

(** ... the left-aligned register template *)
Theorem exec_left :
  forall (NM : Num) (c : rconfig) (it : report_item NM),
    exec_template (template_funcs NM c) left_ast (item_value NM it) = Some (render_left NM c it).
Proof. exact TemplateExec.exec_left. Qed.
Print Assumptions exec_left.

(** ... the summary template *)
Theorem exec_summary :
  forall (NM : Num) (c : rconfig) (it : report_item NM),
    exec_template (template_funcs NM c) summary_ast (item_value NM it) = Some (render_summary NM c it).
Proof. exact TemplateExec.exec_summary. Qed.
Print Assumptions exec_summary.

(** the shape the per-run check uses: ANY text that parses to the tree is rendered as the model renders *)
Theorem template_tie :
  forall (NM : Num) (c : rconfig) (it : report_item NM) (src : bytes),
    parse_template src = Some default_ast ->
    option_bind (parse_template src) (fun a => exec_template (template_funcs NM c) a (item_value NM it))
    = Some (render_default NM c it).
Proof. exact TemplateExec.template_tie. Qed.
Print Assumptions template_tie.

Theorem template_tie_left :
  forall (NM : Num) (c : rconfig) (it : report_item NM) (src : bytes),
    parse_template src = Some left_ast ->
    option_bind (parse_template src) (fun a => exec_template (template_funcs NM c) a (item_value NM it))
    = Some (render_left NM c it).
Proof. exact TemplateExec.template_tie_left. Qed.
Print Assumptions template_tie_left.

Theorem template_tie_summary :
  forall (NM : Num) (c : rconfig) (it : report_item NM) (src : bytes),
    parse_template src = Some summary_ast ->
    option_bind (parse_template src) (fun a => exec_template (template_funcs NM c) a (item_value NM it))
    = Some (render_summary NM c it).
Proof. exact TemplateExec.template_tie_summary. Qed.
Print Assumptions template_tie_summary.

(** the reporters themselves: what [regReporterTemplate.Process] writes for a day (one checked chunk) is the
    evaluation of the template text - the default one, or the left-aligned one when the configuration names
    it - over the value of [GetReportItem]; likewise [SummaryReporterTemplate.Process] *)
Theorem rep_template_text :
  forall (NM : Num) (c : rconfig) (d : list (bytes * elements NM)) (perm : list bytes -> list bytes)
         (ln : lognode NM) (src : bytes),
    parse_template src = Some (if beq (rc_template c) (b "left-aligned") then left_ast else default_ast) ->
    exists out,
      option_bind (parse_template src)
                  (fun a => exec_template (template_funcs NM c) a (item_value NM (get_report_item NM c perm d ln)))
      = Some out
      /\ r_process NM (rep_template NM c d) perm tt ln = (tt, [checked out], None).
Proof. exact TemplateExec.rep_template_text. Qed.
Print Assumptions rep_template_text.

Theorem rep_summary_text :
  forall (NM : Num) (c : rconfig) (d : list (bytes * elements NM)) (perm : list bytes -> list bytes)
         (ln : lognode NM) (src : bytes),
    parse_template src = Some summary_ast ->
    exists out,
      option_bind (parse_template src)
                  (fun a => exec_template (template_funcs NM c) a (item_value NM (get_report_item NM c perm d ln)))
      = Some out
      /\ r_process NM (rep_summary NM c d) perm tt ln = (tt, [checked out], None).
Proof. exact TemplateExec.rep_summary_text. Qed.
Print Assumptions rep_summary_text.

(** the boolean the per-run check prints decides equality of trees *)
Theorem tmpl_eqb_sound :
  forall x y : option (list tnode), tmpl_eqb x y = true -> x = y.
Proof. exact TemplateEq.tmpl_eqb_sound. Qed.
Print Assumptions tmpl_eqb_sound.

Theorem tmpl_eqb_iff :
  forall x y : option (list tnode), tmpl_eqb x y = true <-> x = y.
Proof. exact TemplateEq.tmpl_eqb_iff. Qed.
Print Assumptions tmpl_eqb_iff.

(** trim markers: one lexer step after the text [t] ([split_text] finds the first
    left delimiter): [{{- ] removes the white space at the end of [t] (an
    emptied text is dropped), [ -}}] the white space at the start of what
    follows the action *)
Theorem lex_top_action :
  forall (f : nat) (s t r : bytes),
    split_text s = (t, Some r) ->
    lex_top (S f) s
    = let lt := has_ltrim r in
      let r' := if lt then skipn 2 r else r in
      match lex_action (S (length r')) r' with
      | Some (toks, rt, rest) =>
          match lex_top f (if rt then trim_left ws_set rest else rest) with
          | Some l => Some (text_item (if lt then trim_right ws_set t else t) ++ LAct toks :: l)
          | None => None
          end
      | None => None
      end.
Proof. exact TemplateLex.lex_top_action. Qed.
Print Assumptions lex_top_action.

(** what the trimming removes: a maximal run of white space at that end, nothing else *)
Theorem trim_right_spec :
  forall set s : bytes,
    exists w, s = trim_right set s ++ w
              /\ Forall (fun c => memb c set = true) w
              /\ (trim_right set s = [] \/ exists p c, trim_right set s = p ++ [c] /\ memb c set = false).
Proof. exact TemplateLex.trim_right_spec. Qed.
Print Assumptions trim_right_spec.

Theorem trim_left_spec :
  forall set s : bytes,
    exists w, s = w ++ trim_left set s
              /\ Forall (fun c => memb c set = true) w
              /\ match trim_left set s with c :: _ => memb c set = false | [] => True end.
Proof. exact TemplateLex.trim_left_spec. Qed.
Print Assumptions trim_left_spec.

(** the general statement: white space [w] between a text [t] (after which the
    next left delimiter is the one shown: [no_ld t]) and an action opening with
    the trim marker never reaches the lexer's output, for any continuation [r] *)
Theorem lex_trim_spec :
  forall t w r : bytes,
    no_ld t = true -> all_ws w -> has_ltrim r = true ->
    lex (t ++ w ++ 123 :: 123 :: r) = lex (t ++ 123 :: 123 :: r).
Proof. exact TemplateLex.lex_trim_spec. Qed.
Print Assumptions lex_trim_spec.

Theorem parse_trim_spec :
  forall t w r : bytes,
    no_ld t = true -> all_ws w -> has_ltrim r = true ->
    parse_template (t ++ w ++ 123 :: 123 :: r) = parse_template (t ++ 123 :: 123 :: r).
Proof. exact TemplateLex.parse_trim_spec. Qed.
Print Assumptions parse_trim_spec.
