(** Property C16 -- settings precedence.

    "For every combination of sources, the recipe-book path, log path, date
    format, resolve depth and current date take the value given on the command
    line, else the setting's HR_* environment variable where it has one, else
    the configuration file (default location, --config or HR_CONFIG), else the
    documented default.  An explicitly named configuration file that exists is
    loaded and one that does not exist is an error, and --no-database behaves as
    an empty recipe book."

    [load] does not depend on the arithmetic [NM]; the statements about [run]
    are for every [NM].

    A string entry of the configuration file enters the precedence chain as
    [file_string entry] (Proofs/SettingsPickString.v): the entry, when it is not
    the empty string.  (History: proving this file exposed a slip in an earlier
    Model/Cli.v, whose [pick_string] dropped the first byte of the entry; the
    model was repaired and the correspondence check of C16 covers the case.) *)
From HP Require Import Base.Bytes Base.Utf8 Base.Num Model.Scanner Model.Parser Model.Elements Model.Resolver
  Model.Dates Model.Tree Model.Writer Model.Reporters Model.Cli.
From HP Require Import Proofs.SettingsPickString Proofs.Settings Proofs.SettingsNoDb.

(** "the configuration file (default location, --config or HR_CONFIG)": the
    file consulted is [config_path w i] = --config, else HR_CONFIG, else the
    default location, and nothing else of the file system matters to
    [load_config] *)
Theorem config_path_precedence : forall w i,
  (forall p, i_f_config i = Some p -> config_path w i = p) /\
  (forall p, i_f_config i = None -> i_e_config i = Some p -> config_path w i = p) /\
  (i_f_config i = None -> i_e_config i = None -> config_path w i = w_default_config w) /\
  load_config w i =
    match lookup (config_path w i) (w_fs w) with
    | None => if is_set (i_f_config i) (i_e_config i) then inl EConfigMissing else inr no_cfg
    | Some (FConfig e) => inr e
    | Some FDir => inl (EScan false)
    | Some (FFile data) => read_config data
    end /\
  (forall w', w_default_config w' = w_default_config w ->
              lookup (config_path w i) (w_fs w') = lookup (config_path w i) (w_fs w) ->
              load_config w' i = load_config w i).
Proof. exact Settings.config_path_precedence. Qed.
Print Assumptions config_path_precedence.

(** "An explicitly named configuration file that exists is loaded and one that does not exist is an error" *)
Theorem explicit_config_loaded_or_error : forall w i,
  (is_set (i_f_config i) (i_e_config i) = true ->
   lookup (config_path w i) (w_fs w) = None ->
   load w i = inl EConfigMissing) /\
  (forall e, lookup (config_path w i) (w_fs w) = Some (FConfig e) -> load_config w i = inr e) /\
  (is_set (i_f_config i) (i_e_config i) = false ->
   lookup (config_path w i) (w_fs w) = None ->
   load_config w i = inr no_cfg).
Proof. exact Settings.explicit_config_loaded_or_error. Qed.
Print Assumptions explicit_config_loaded_or_error.

(** "the recipe-book path ... command line, else HR_DATABASE, else the configuration file, else the default" *)
Theorem settings_precedence_db : forall w i op cfg,
  load w i = inr op -> load_config w i = inr cfg ->
  i_no_database i = false ->
  op_db op = or_default (first_some [i_f_db i; i_e_db i; file_string (ce_db cfg)]) default_db.
Proof. exact Settings.settings_precedence_db. Qed.
Print Assumptions settings_precedence_db.

(** "--no-database": the recipe book is the null device /dev/null whatever the other sources say
    (fix F24; it used to be the empty name) *)
Theorem settings_precedence_no_database : forall w i op cfg,
  load w i = inr op -> load_config w i = inr cfg ->
  i_no_database i = true -> op_db op = dev_null.
Proof. exact Settings.settings_precedence_no_database. Qed.
Print Assumptions settings_precedence_no_database.

(** "log path" *)
Theorem settings_precedence_log : forall w i op cfg,
  load w i = inr op -> load_config w i = inr cfg ->
  op_log op = or_default (first_some [i_f_log i; i_e_log i; file_string (ce_log cfg)]) default_log.
Proof. exact Settings.settings_precedence_log. Qed.
Print Assumptions settings_precedence_log.

(** "date format" *)
Theorem settings_precedence_fmt : forall w i op cfg,
  load w i = inr op -> load_config w i = inr cfg ->
  op_fmt op = or_default (first_some [i_f_fmt i; i_e_fmt i; file_string (ce_fmt cfg)]) default_fmt.
Proof. exact Settings.settings_precedence_fmt. Qed.
Print Assumptions settings_precedence_fmt.

(** "resolve depth" (a 0 in the file counts as unset) *)
Theorem settings_precedence_depth : forall w i op cfg,
  load w i = inr op -> load_config w i = inr cfg ->
  op_depth op = or_default (first_some [i_f_depth i; i_e_depth i; nonzero (ce_depth cfg)]) default_depth.
Proof. exact Settings.settings_precedence_depth. Qed.
Print Assumptions settings_precedence_depth.

(** "current date": --today in the effective layout (midnight UTC), else the CALENDAR DAY of the file's Now
    (in its own zone), else the calendar day of the clock -- both at midnight UTC too (fix F25; it used to be
    the instant); it has no environment variable *)
Theorem settings_precedence_now : forall w i op cfg,
  load w i = inr op -> load_config w i = inr cfg ->
  exists toks, tokenize (op_fmt op) = Some toks /\
    match i_f_today i with
    | Some s => exists c, parse_date toks s = Some c /\ op_now op = time_of_civil c
    | None => op_now op = time_of_civil (civ (or_default (first_some [ce_now cfg]) (w_clock w)))
    end.
Proof. exact Settings.settings_precedence_now. Qed.
Print Assumptions settings_precedence_now.

(** all five at once *)
Theorem settings_precedence : forall w i op cfg,
  load w i = inr op -> load_config w i = inr cfg ->
  op_db op = (if i_no_database i then dev_null
              else or_default (first_some [i_f_db i; i_e_db i; file_string (ce_db cfg)]) default_db) /\
  op_log op = or_default (first_some [i_f_log i; i_e_log i; file_string (ce_log cfg)]) default_log /\
  op_fmt op = or_default (first_some [i_f_fmt i; i_e_fmt i; file_string (ce_fmt cfg)]) default_fmt /\
  op_depth op = or_default (first_some [i_f_depth i; i_e_depth i; nonzero (ce_depth cfg)]) default_depth /\
  exists toks, tokenize (op_fmt op) = Some toks /\
    match i_f_today i with
    | Some s => exists c, parse_date toks s = Some c /\ op_now op = time_of_civil c
    | None => op_now op = time_of_civil (civ (or_default (first_some [ce_now cfg]) (w_clock w)))
    end.
Proof. exact Settings.settings_precedence. Qed.
Print Assumptions settings_precedence.

(** fix F25: the loaded current date is the midnight-UTC time of a civil date in all three cases ... *)
Theorem loaded_now_is_a_day : forall w i op, load w i = inr op -> op_now op = time_of_civil (civ (op_now op)).
Proof. exact Settings.loaded_now_is_a_day. Qed.
Print Assumptions loaded_now_is_a_day.

(** ... and a world whose clock (or configured Now, which wins) shows the civil date D loads the same settings
    as the same invocation with --today D, for every way [s] of writing D in the effective layout: keywords
    and periods behave for the clock day exactly as for --today of that day
    ([with_today i s] = [i] with --today [s]: Proofs/Settings.v) *)
Theorem clock_day_as_today : forall w i cfg toks s,
  load_config w i = inr cfg ->
  tokenize (or_default (first_some [i_f_fmt i; i_e_fmt i; file_string (ce_fmt cfg)]) default_fmt) = Some toks ->
  i_f_today i = None ->
  parse_date toks s = Some (civ (or_default (first_some [ce_now cfg]) (w_clock w))) ->
  load w i = load w (with_today i s).
Proof. exact Settings.clock_day_as_today. Qed.
Print Assumptions clock_day_as_today.

(** a flag or variable given as the EMPTY string is still "set" and wins (the empty name is then a file that
    cannot be opened: [empty_log_name_fails], [empty_book_name_fails] below) *)
Theorem empty_flag_still_wins : forall w i op cfg,
  load w i = inr op -> load_config w i = inr cfg ->
  (i_no_database i = false -> i_f_db i = Some [] -> op_db op = []) /\
  (i_f_log i = Some [] -> op_log op = []) /\
  (i_f_fmt i = Some [] -> op_fmt op = []) /\
  (i_no_database i = false -> i_f_db i = None -> i_e_db i = Some [] -> op_db op = []) /\
  (i_f_log i = None -> i_e_log i = Some [] -> op_log op = []).
Proof. exact Settings.empty_flag_still_wins. Qed.
Print Assumptions empty_flag_still_wins.

(** an empty string / a 0 IN THE FILE counts as unset *)
Theorem empty_file_entry_is_unset : forall w i op cfg,
  load w i = inr op -> load_config w i = inr cfg ->
  (i_no_database i = false -> i_f_db i = None -> i_e_db i = None -> ce_db cfg = Some [] -> op_db op = default_db) /\
  (i_f_log i = None -> i_e_log i = None -> ce_log cfg = Some [] -> op_log op = default_log) /\
  (i_f_fmt i = None -> i_e_fmt i = None -> ce_fmt cfg = Some [] -> op_fmt op = default_fmt) /\
  (i_f_depth i = None -> i_e_depth i = None -> ce_depth cfg = Some 0%Z -> op_depth op = default_depth).
Proof. exact Settings.empty_file_entry_is_unset. Qed.
Print Assumptions empty_file_entry_is_unset.

(** "--no-database behaves as an empty recipe book": every command but stats,
    [w'] = [w] plus an empty readable file at a path [p] that is not the
    configuration file, the log or the linted file of the invocation *)
Theorem no_database_is_empty_book : forall NM w w' i p,
  i_cmd i <> CStats ->
  p <> [] ->
  agree_off p w w' ->
  lookup p (w_fs w') = Some (FFile []) ->
  lookup p (w_read_fault w') = None ->
  fresh_for w (with_no_database i) p ->
  run NM w (with_no_database i) = run NM w' (with_db_flag i p).
Proof. exact SettingsNoDb.no_database_is_empty_book. Qed.
Print Assumptions no_database_is_empty_book.

(** the same inside one world: wherever [p] is an empty readable file, --no-database = -d p *)
Theorem no_database_is_empty_book_same_world : forall NM w i p,
  i_cmd i <> CStats ->
  p <> [] -> lookup p (w_fs w) = Some (FFile []) -> lookup p (w_read_fault w) = None ->
  run NM w (with_no_database i) = run NM w (with_db_flag i p).
Proof. exact SettingsNoDb.no_database_is_empty_book_same_world. Qed.
Print Assumptions no_database_is_empty_book_same_world.

(** stats prints the book's file name, so it is stated apart: no book file of the world is
    opened (the outcome depends on the configuration file and the log only) and
    the report says "0 records" under the name of the null device *)
Theorem no_database_stats : forall NM w i,
  i_cmd i = CStats ->
  (forall w', same_but_fs w w' ->
              lookup (config_path w i) (w_fs w') = lookup (config_path w i) (w_fs w) ->
              (forall op, load w (with_no_database i) = inr op -> open_file w' (op_log op) = open_file w (op_log op)) ->
              run NM w' (with_no_database i) = run NM w (with_no_database i)) /\
  (out_status (run NM w (with_no_database i)) = Ok ->
   exists rest, out_stdout (run NM w (with_no_database i))
                = b "  Database file:      " ++ dev_null ++ [c_lf] ++ b "  Database records:   0" ++ [c_lf] ++ rest).
Proof. exact SettingsNoDb.no_database_stats. Qed.
Print Assumptions no_database_stats.

(** fix F24: an EMPTY file name is a file that cannot be opened (it used to stand for "nothing to read"):
    every command that reads the log fails with the open error when the log's name is empty ... *)
Theorem empty_log_name_fails : forall NM w i op,
  load w i = inr op -> op_log op = [] ->
  In (i_cmd i) [CReg; CBal; CUnresolved; CTotals; CQuantity; CCsvLog; CPrint; CStats] ->
  run NM w i = {| out_stdout := []; out_status := Failed EOpen |}.
Proof. exact SettingsNoDb.empty_log_name_fails. Qed.
Print Assumptions empty_log_name_fails.

(** ... and every command that reads the book when the book's name is empty -- which it is only WITHOUT
    --no-database (e.g. -d ""): --no-database makes it the null device *)
Theorem empty_book_name_fails : forall NM w i op,
  load w i = inr op -> op_db op = [] ->
  (In (i_cmd i) [CReg; CBal; CUnresolved; CTotals; CCsvDb; CCsvDbResolved]
   \/ exists x, x <> [] /\ i_cmd i = CElementTotal x) ->
  run NM w i = {| out_stdout := []; out_status := Failed EOpen |}.
Proof. exact SettingsNoDb.empty_book_name_fails. Qed.
Print Assumptions empty_book_name_fails.
