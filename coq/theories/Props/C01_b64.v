(** Property C01 at the binary64 instance – "resolving an already resolved book
    changes nothing".

    Props/C01_value.v / Props/C01.v prove idempotence for every [Num] from the law
    [x * 1 = x] ([ref_db_idempotent], [resolve_idempotent]), or from that law on
    products and sums of arbitrary elements ([..._computed]).  [T B64] is all
    of [spec_float], including finite triples [S754_finite s m e] that are not
    binary64 numbers and that no computation produces; on those [x * 1 <> x],
    so neither hypothesis holds at [B64] ([computed_hypothesis_false_at_B64]
    below).  Here: the law holds on the values a binary64 variable can hold,

        canonical x := match x with S754_finite _ m e => bounded 53 1024 m e = true | _ => True end

    ([bounded] = the standard library's / Flocq's validity condition), the
    arithmetic and [parse_float] only produce such values, and therefore the
    program's resolver is idempotent on every book it can load.

    ALL theorems of this file are closed under the global context: they are
    proved by integer arithmetic on the standard library's [SpecFloat]
    definitions (Proofs/FloatCanon.v, FloatValid.v, FloatIdem.v); neither Flocq
    nor the real numbers are used. *)
From Coq Require Import ZArith Permutation Floats.SpecFloat.
From HP Require Import Base.Bytes Base.Num Base.GoFloat Model.Elements Model.Resolver Model.Reporters Model.Cli
  Spec.ResolverSpec.
From HP Require Import Proofs.FloatCanon Proofs.FloatExact Proofs.FloatValid Proofs.FloatIdem.
Open Scope Z_scope.

(** [x * 1 = x] on NaN, both zeros (the sign is kept), both infinities and
    every finite [S754_finite s m e] with [bounded 53 1024 m e] *)
Theorem SFmul_one_canonical :
  forall x : f64, canonical x -> SFmul prec emax x (f_of_Z 1) = x.
Proof. exact SFmul_one_canonical_lemma. Qed.
Print Assumptions SFmul_one_canonical.

(** the rounding function of the standard library returns canonical values
    whenever its input mantissa has enough bits ([enough_bits q e]:
    [e <= fexp 53 1024 (digits q + e)]) – the fact behind the next three *)
Theorem binary_round_aux_canonical :
  forall (s : bool) (mx ex : Z) (lx : location),
    0 < mx -> enough_bits mx ex -> valid_binary prec emax (binary_round_aux prec emax s mx ex lx) = true.
Proof. exact binary_round_aux_valid. Qed.
Print Assumptions binary_round_aux_canonical.

(** products of canonical values are canonical *)
Theorem SFmul_canonical :
  forall x y : f64, canonical x -> canonical y -> canonical (SFmul prec emax x y).
Proof. exact SFmul_canonical_lemma. Qed.
Print Assumptions SFmul_canonical.

(** sums of canonical values are canonical (the sum of two finite values is
    canonical whatever they are: [SFadd_finite_canonical]; the hypothesis is
    needed for [0 + y = y] and [x + 0 = x] only) *)
Theorem SFadd_canonical :
  forall x y : f64, canonical x -> canonical y -> canonical (SFadd prec emax x y).
Proof. exact SFadd_canonical_lemma. Qed.
Print Assumptions SFadd_canonical.

(** whatever [strconv.ParseFloat] (the model) returns is canonical: every
    byte string, decimal or hexadecimal, special values included *)
Theorem parse_float_canonical :
  forall (l : bytes) (x : T B64), of_lexeme B64 l = Some x -> canonical x.
Proof. exact parse_float_canonical_lemma. Qed.
Print Assumptions parse_float_canonical.

(** the hypothesis of [ref_db_idempotent_computed] / [resolve_idempotent_computed],
    literally, is false at [B64] ... *)
Theorem computed_hypothesis_false_at_B64 :
  ~ (forall x : T B64, (exists y z, x = mul B64 y z \/ x = add B64 y z) -> mul B64 x (one B64) = x).
Proof. exact computed_hypothesis_refuted_B64. Qed.
Print Assumptions computed_hypothesis_false_at_B64.

(** ... and true when the operands are canonical *)
Theorem B64_mul_one_on_computed :
  forall x y z : T B64,
    canonical y -> canonical z -> x = mul B64 y z \/ x = add B64 y z -> mul B64 x (one B64) = x.
Proof. exact B64_mul_one_computed. Qed.
Print Assumptions B64_mul_one_on_computed.

(** idempotence relative to an invariant of the amounts – every [Num]; this
    is the form of [ref_db_idempotent_computed] that can be instantiated at
    binary64 ([book_in NM Q B]: every coefficient of [B] satisfies [Q]) *)
Theorem ref_db_idempotent_invariant :
  forall (NM : Num) (Q : T NM -> Prop),
    Q (one NM) -> (forall y z, Q y -> Q z -> Q (mul NM y z)) -> (forall y z, Q y -> Q z -> Q (add NM y z)) ->
    (forall x, Q x -> mul NM x (one NM) = x) ->
    forall (B : db NM) (N : nat),
      depth_lt NM B N -> book_in NM Q B ->
      keys (ref_db NM B N) = keys B /\
      (forall r v x a, In (r, v) (ref_db NM B N) -> In (x, a) v -> lookup x (ref_db NM B N) = None) /\
      ref_db NM (ref_db NM B N) N = ref_db NM B N.
Proof. exact ref_db_idempotent_inv. Qed.
Print Assumptions ref_db_idempotent_invariant.

(** [B64_idempotent], reference level: a binary64 book whose coefficients were
    read by [parse_float] (or are canonical for any other reason) *)
Theorem B64_idempotent :
  forall (B : db B64) (N : nat),
    depth_lt B64 B N ->
    (forall r els x a, In (r, els) B -> In (x, a) els -> exists l, of_lexeme B64 l = Some a) ->
    keys (ref_db B64 B N) = keys B /\
    (forall r v x a, In (r, v) (ref_db B64 B N) -> In (x, a) v -> lookup x (ref_db B64 B N) = None) /\
    ref_db B64 (ref_db B64 B N) N = ref_db B64 B N.
Proof. exact B64_ref_db_idempotent_parsed. Qed.
Print Assumptions B64_idempotent.

Theorem B64_idempotent_canonical :
  forall (B : db B64) (N : nat),
    depth_lt B64 B N ->
    (forall r els x a, In (r, els) B -> In (x, a) els -> canonical a) ->
    keys (ref_db B64 B N) = keys B /\
    (forall r v x a, In (r, v) (ref_db B64 B N) -> In (x, a) v -> lookup x (ref_db B64 B N) = None) /\
    ref_db B64 (ref_db B64 B N) N = ref_db B64 B N.
Proof. exact B64_ref_db_idempotent. Qed.
Print Assumptions B64_idempotent_canonical.

(** the algorithm ([resolve], Model/Resolver.v) in binary64: running it on its
    own output, under any visiting order, succeeds and returns the same book,
    whose coefficients are canonical again *)
Theorem B64_resolve_idempotent :
  forall (B : db B64) (N : nat) (perm perm' : list bytes -> list bytes) (B' : db B64),
    (forall r els x a, In (r, els) B -> In (x, a) els -> canonical a) ->
    NoDup (keys B) -> Permutation (perm (keys B)) (keys B) -> Permutation (perm' (keys B)) (keys B) ->
    resolve B64 N perm B = Some B' ->
    resolve B64 N perm' B' = Some B' /\
    (forall r els x a, In (r, els) B' -> In (x, a) els -> canonical a).
Proof. exact FloatIdem.B64_resolve_idempotent. Qed.
Print Assumptions B64_resolve_idempotent.

(** every coefficient of the book the program loads ([load_db]: any file
    content, any read fault) is canonical *)
Theorem B64_loaded_book_canonical :
  forall (o : opened) r els x a, In (r, els) (fst (load_db B64 o)) -> In (x, a) els -> canonical a.
Proof. exact B64_load_db_canonical. Qed.
Print Assumptions B64_loaded_book_canonical.

(** with every hypothesis discharged: the book the program resolves
    ([resolved_db], WithResolvedDatabase), whatever the database file, the read
    fault, the depth limit and the two visiting orders *)
Theorem B64_resolved_db_idempotent :
  forall (w : world) (op : options) (o : opened) (B' : db B64) (perm' : list bytes -> list bytes),
    order_oracle (o_resolve (w_or w)) -> order_oracle perm' ->
    resolved_db B64 w op o = inr B' ->
    resolve B64 (Z.to_nat (op_depth op)) perm' B' = Some B' /\
    (forall r els x a, In (r, els) B' -> In (x, a) els -> canonical a).
Proof. exact FloatIdem.B64_resolved_db_idempotent. Qed.
Print Assumptions B64_resolved_db_idempotent.
