(** Property C01 at the binary64 instance – "resolving an already resolved book
    changes nothing" needs [x * 1 = x]; at [B64] that law holds on the values a
    binary64 variable can hold ([canonical]), not on all of [spec_float].
    (Work in progress: further theorems are added below as they are proved.) *)
From Coq Require Import ZArith Floats.SpecFloat.
From HP Require Import Base.Bytes Base.Num Base.GoFloat Proofs.FloatCanon.
Open Scope Z_scope.

(** [x * 1 = x] on NaN, both zeros (sign kept), both infinities and every
    finite [S754_finite s m e] with [bounded 53 1024 m e].  Axiom-free. *)
Theorem SFmul_one_canonical :
  forall x : f64, canonical x -> SFmul prec emax x (f_of_Z 1) = x.
Proof. exact SFmul_one_canonical_lemma. Qed.
Print Assumptions SFmul_one_canonical.
