(** Vocabulary for the COMMAND-level statements of property C02 (register) and of the
    first sentence of property C07 (totals relations), WP25: bytes of the two files in,
    bytes on standard output out.  Definitions only - no proofs here.

    A [record] is one record of the log AS THE PARSER REPORTS IT: the time of its
    heading, its RAW entries (repeats allowed, file order) and its notes.  The
    reference semantics of what the register shows for a record ([day_rows],
    [day_totals], [day_item], [old_day_chunks], [totals_of], [pos_of], [neg_of] ...) is
    the one of Spec/RegisterSpec.v. *)
From HP Require Import Base.Bytes Base.Utf8 Base.Num Model.Scanner Model.Parser Model.Elements Model.Resolver
  Model.Dates Model.Tree Model.Writer Model.Reporters Model.Cli.
From HP Require Import Spec.RegisterSpec Spec.Agree2Spec Spec.AgreeSpec.

Section ProgramSpec.
  Context (NM : Num).
  Notation T := (T NM).
  Notation db := (list (bytes * list (bytes * T))).

  (** time of the heading, raw entries, notes (= [RegisterSpec.day]) *)
  Definition record := (time * list (bytes * T) * option (list (bytes * bytes)))%type.
  Definition rec_time (r : record) : time := fst (fst r).
  Definition rec_entries (r : record) : list (bytes * T) := snd (fst r).
  Definition rec_notes (r : record) : option (list (bytes * bytes)) := snd r.

  (** *** the records of the log file, and their restriction to the period *)

  (** every record the parser reports for the bytes of a file (heading, raw entries, notes), in file order *)
  Definition log_records (ldata : bytes) : list (pnode NM) := nodes_of NM (events NM ldata).

  (** a parsed record under the configured date layout and the period [bt .. et] *)
  Definition in_period (toks : list ltoken) (bt et : option time) (n : pnode NM) : list record :=
    match parse_date toks (header n) with
    | Some c => if in_interval bt et (time_of_civil c) then [(time_of_civil c, elems n, meta n)] else []
    | None => []
    end.

  (** the records of the period, in file order *)
  Definition period_records (toks : list ltoken) (bt et : option time) (ns : list (pnode NM)) : list record :=
    flat_map (in_period toks bt et) ns.

  (** the records a command invoked with the loaded options [op] works on *)
  Definition command_records (op : options) (ldata : bytes) : list record :=
    period_records (rc_date (op_rc op)) (op_begin op) (op_end op) (log_records ldata).

  (** *** the register's two templates, written on (date text, rows, totals) with the
      presentation switches [color] / [shorten] explicit (so that it is visible that
      nothing else of the configuration reaches the bytes) *)

  Definition default_ingredient_text (color sh : bool) (i : bytes * T) : bytes :=
    [c_lf; c_tab; c_tab] ++ pad_left 20 (shorten sh (fst i) 20) ++ b " " ++ format_value NM color (snd i).

  Definition default_row_text (color sh : bool) (row : bytes * T * list (bytes * T)) : bytes :=
    [c_lf; c_tab] ++ pad_right 27 (shorten sh (fst (fst row)) 27) ++ b " :" ++ format_value NM color (snd (fst row))
    ++ flat_map (default_ingredient_text color sh) (snd row).

  Definition default_total_text (color sh : bool) (t : bytes * T * T * T) : bytes :=
    [c_lf; c_tab; c_tab] ++ pad_left 20 (shorten sh (fst (fst (fst t))) 20) ++ b " "
    ++ format_value NM color (snd (fst (fst t))) ++ b " " ++ format_value NM color (snd (fst t)) ++ b " ="
    ++ format_value NM color (snd t).

  (** the two halves of a day: the rows ... *)
  Definition default_rows_text (color sh : bool) (rows : list (bytes * T * list (bytes * T))) : bytes :=
    flat_map (default_row_text color sh) rows.
  (** ... and the TOTAL block (printed also when there is no total row) *)
  Definition default_totals_text (color sh : bool) (ts : list (bytes * T * T * T)) : bytes :=
    [c_lf] ++ total_header_default ++ flat_map (default_total_text color sh) ts.

  Definition left_ingredient_text (color : bool) (i : bytes * T) : bytes :=
    [c_lf] ++ b "  " ++ format_value NM color (snd i) ++ b "    " ++ fst i.
  Definition left_row_text (color : bool) (row : bytes * T * list (bytes * T)) : bytes :=
    [c_lf] ++ b "  " ++ format_value NM color (snd (fst row)) ++ b "  " ++ fst (fst row)
    ++ flat_map (left_ingredient_text color) (snd row).
  Definition left_total_text (color : bool) (t : bytes * T * T * T) : bytes :=
    [c_lf] ++ b "  " ++ format_value NM color (snd (fst (fst t))) ++ b " " ++ format_value NM color (snd (fst t))
    ++ b " = " ++ format_value NM color (snd t) ++ b "  " ++ fst (fst (fst t)).
  Definition left_rows_text (color : bool) (rows : list (bytes * T * list (bytes * T))) : bytes :=
    flat_map (left_row_text color) rows.
  Definition left_totals_text (color : bool) (ts : list (bytes * T * T * T)) : bytes :=
    [c_lf] ++ total_header_left ++ flat_map (left_total_text color) ts.

  (** the register (template reporter) over a list of records: one template execution per record *)
  Definition register_text (c : rconfig) (d : db) (recs : list record) : bytes :=
    concat (map (fun r => fst (template_day_chunk NM c d (rec_time r) (rec_entries r))) recs).

  (** the bytes of the old reporter's chunks *)
  Definition chunks_text (cs : list chunk) : bytes := concat (map fst cs).

  (** *** report totals *)

  (** every (element, value) contribution of the period, in the order the days show them *)
  Definition period_contributed (d : db) (recs : list record) : list (bytes * T) :=
    flat_map (fun r => contributed NM d (rec_entries r)) recs.

  (** the rows [report totals] prints: every element contributed in the period once, sorted by
      name, positive / negative column as a left fold in contribution order ([pos_of], [neg_of]) *)
  Definition totals_rows_of (d : db) (recs : list record) : list (bytes * T * T * T) :=
    totals_of NM (period_contributed d recs).

  Definition totals_header_text : bytes :=
    pad_left 12 (b "positive") ++ b "  " ++ pad_left 12 (b "negative") ++ b "  " ++ pad_left 12 (b "sum")
    ++ b "  element" ++ [c_lf].
  Definition totals_row_text (t : bytes * T * T * T) : bytes :=
    f12_2 NM (snd (fst (fst t))) ++ b "  " ++ f12_2 NM (snd (fst t)) ++ b "  " ++ f12_2 NM (snd t) ++ b "  "
    ++ fst (fst (fst t)) ++ [c_lf].
  (** nothing at all (no header either) when nothing was contributed *)
  Definition totals_text (rows : list (bytes * T * T * T)) : bytes :=
    match rows with
    | [] => []
    | _ => totals_header_text ++ concat (map totals_row_text rows)
    end.

  (** *** the register: the totals of each selected day (what [reg] renders its TOTAL blocks from) *)
  Definition register_day_totals_of (d : db) (recs : list record) : list (list (bytes * T * T * T)) :=
    map (fun r => day_totals NM d (rec_entries r)) recs.

  (** is there a row for [x] among these total rows *)
  Definition has_row (x : bytes) (rows : list (bytes * T * T * T)) : bool :=
    match row_of NM x rows with Some _ => true | None => false end.

  (** *** reg -s X: one row (time, positive, negative) per selected day that contributes [x] *)
  Definition single_rows_of (d : db) (x : bytes) (recs : list record) : list (time * T * T) :=
    flat_map (fun r => match row_of NM x (day_totals NM d (rec_entries r)) with
                       | Some (p, n) => [(rec_time r, p, n)]
                       | None => []
                       end) recs.

  Definition sr_time (row : time * T * T) : time := fst (fst row).
  Definition sr_pos (row : time * T * T) : T := snd (fst row).
  Definition sr_neg (row : time * T * T) : T := snd row.

  (** the line [reg -s X] prints for a row: the NEGATIVE column is shown multiplied by -1; [--csv]
      selects the semicolon form *)
  Definition single_row_text (csv : bool) (toks : list ltoken) (x : bytes) (row : time * T * T) : bytes :=
    if csv then
      format_date toks (civ (sr_time row)) ++ b ";""" ++ x ++ b """;" ++ f2 NM (sr_pos row) ++ b ";"
      ++ f2 NM (mul NM (neg_one NM) (sr_neg row)) ++ b ";" ++ f2 NM (add NM (sr_pos row) (sr_neg row)) ++ [c_lf]
    else
      format_date toks (civ (sr_time row)) ++ b " " ++ pad_left 20 x ++ b " " ++ f10_2 NM (sr_pos row) ++ b " "
      ++ f10_2 NM (mul NM (neg_one NM) (sr_neg row)) ++ b " =" ++ f10_2 NM (add NM (sr_pos row) (sr_neg row)) ++ [c_lf].

  (** *** bal -s X *)
  (** what the single-element balance adds to its tree for one record: for every row (food) of the
      day, in order, every ingredient of that row named [x], filed under the FOOD's name *)
  Definition bal_single_entries (d : db) (x : bytes) (es : list (bytes * T)) : list (bytes * T) :=
    flat_map (fun row => map (fun i => (fst (fst row), snd i)) (filter (fun i => beq (fst i) x) (snd row)))
             (day_rows NM d es).

  Definition bal_single_tree (d : db) (x : bytes) (recs : list record) : tree NM :=
    tree_add_all NM (empty_root NM) (flat_map (fun r => bal_single_entries d x (rec_entries r)) recs).

  (** the grand total: the left fold from zero of ALL contributions to [x] in the period *)
  Definition bal_single_total_of (d : db) (x : bytes) (recs : list record) : T :=
    fold_left (add NM) (values_of NM (period_contributed d recs) x) (zero NM).

  Definition bal_single_footer_text (x : bytes) (total : T) : bytes :=
    brepeat (b "-") 11 ++ b "|" ++ [c_lf] ++ f10_2 NM total ++ b " | " ++ x ++ [c_lf].

  (** *** invocations that differ in one switch only *)
  Definition with_totals_flags (i : invocation) (no_totals totals_only : bool) : invocation :=
    {| i_f_db := i_f_db i; i_e_db := i_e_db i; i_f_log := i_f_log i; i_e_log := i_e_log i;
       i_f_fmt := i_f_fmt i; i_e_fmt := i_e_fmt i; i_f_depth := i_f_depth i; i_e_depth := i_e_depth i;
       i_f_today := i_f_today i; i_f_config := i_f_config i; i_e_config := i_e_config i;
       i_no_database := i_no_database i;
       i_g_begin := i_g_begin i; i_g_end := i_g_end i; i_l_begin := i_l_begin i; i_l_end := i_l_end i;
       i_g_no_color := i_g_no_color i; i_l_no_color := i_l_no_color i;
       i_single_food := i_single_food i; i_single_element := i_single_element i;
       i_group_food := i_group_food i; i_csv := i_csv i;
       i_no_totals := no_totals; i_totals_only := totals_only;
       i_shorten := i_shorten i; i_old := i_old i; i_template := i_template i;
       i_collapse := i_collapse i; i_collapse_last := i_collapse_last i;
       i_desc := i_desc i; i_silent := i_silent i; i_cmd := i_cmd i |}.

  (** the same invocation with another sub-command and another [-s] element *)
  Definition with_cmd_single (i : invocation) (cmd : command) (x : bytes) : invocation :=
    {| i_f_db := i_f_db i; i_e_db := i_e_db i; i_f_log := i_f_log i; i_e_log := i_e_log i;
       i_f_fmt := i_f_fmt i; i_e_fmt := i_e_fmt i; i_f_depth := i_f_depth i; i_e_depth := i_e_depth i;
       i_f_today := i_f_today i; i_f_config := i_f_config i; i_e_config := i_e_config i;
       i_no_database := i_no_database i;
       i_g_begin := i_g_begin i; i_g_end := i_g_end i; i_l_begin := i_l_begin i; i_l_end := i_l_end i;
       i_g_no_color := i_g_no_color i; i_l_no_color := i_l_no_color i;
       i_single_food := i_single_food i; i_single_element := x;
       i_group_food := i_group_food i; i_csv := i_csv i;
       i_no_totals := i_no_totals i; i_totals_only := i_totals_only i;
       i_shorten := i_shorten i; i_old := i_old i; i_template := i_template i;
       i_collapse := i_collapse i; i_collapse_last := i_collapse_last i;
       i_desc := i_desc i; i_silent := i_silent i; i_cmd := cmd |}.
End ProgramSpec.
