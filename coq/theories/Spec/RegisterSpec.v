(** Reference semantics of the register (property C02): what one day of the
    register shows, written directly on the day's RAW entries (as parsed, repeats
    allowed) and the resolved recipe book – no accumulator, no in-place update,
    no map, no order oracle.  Definitions only – no proofs here.

    The arithmetic is any [Num] (no law is assumed), so the ORDER and the
    ASSOCIATION of every sum is part of the specification:

    - the quantity of a food is the left fold of [add] over the values logged
      for it, in file order, starting FROM THE FIRST VALUE (Go: the first entry
      of a name is appended as it is, later ones are [+=]'d; there is no
      [zero +] in front);
    - the accumulator of the totals routes a contribution [v] by the test
      [v < 0]: a contribution that is zero, negative zero or NaN goes to the
      POSITIVE column ([v < 0] is false for them);
    - the FIRST contribution [v] of an element name initialises its pair to
      [(v, zero)] (when not [v < 0]) or [(zero, v)] (when [v < 0]); every later
      contribution is added on the right of its column.  Hence the column the
      first contribution goes to starts from that value, the other column starts
      from [zero] (and a later value routed there is computed as [zero + v],
      which over float64 differs from [v] for [v = -0]). *)
From Coq Require Import Permutation.
From HP Require Import Base.Bytes Base.Num Model.Elements Model.Dates Model.Writer Model.Reporters.

Section RegisterSpec.
  Context (NM : Num).
  Notation T := (T NM).

  (** distinct names of a list, in order of first appearance *)
  Fixpoint distinct (l : list bytes) : list bytes :=
    match l with
    | [] => []
    | x :: r => x :: filter (fun y => negb (beq y x)) (distinct r)
    end.

  (** the values paired with name [f], in order *)
  Definition values_of (es : list (bytes * T)) (f : bytes) : list T :=
    map snd (filter (fun nv => beq (fst nv) f) es).

  (** first-assign-then-add: [v1 + v2 + ... + vn] associated to the left, no
      leading [zero]; [zero] only when there is no value at all *)
  Definition sum1 (vs : list T) : T :=
    match vs with
    | [] => zero NM
    | v :: r => fold_left (add NM) r v
    end.

  Definition first_occurrences (es : list (bytes * T)) : list bytes := distinct (map fst es).
  Definition qty_of (es : list (bytes * T)) (f : bytes) : T := sum1 (values_of es f).

  (** the day as the register sees it: each distinct food once, with its summed quantity *)
  Definition merged (es : list (bytes * T)) : list (bytes * T) :=
    map (fun f => (f, qty_of es f)) (first_occurrences es).

  (** quantity times each resolved element of the food, or the food itself
      when the book does not define it *)
  Definition ingredients (d : list (bytes * list (bytes * T))) (f : bytes) (q : T) : list (bytes * T) :=
    match lookup f d with
    | Some els => map (fun xc => (fst xc, mul NM (snd xc) q)) els
    | None => [(f, q)]
    end.

  Definition day_rows (d : list (bytes * list (bytes * T))) (es : list (bytes * T))
    : list (bytes * T * list (bytes * T)) :=
    map (fun f => (f, qty_of es f, ingredients d f (qty_of es f))) (first_occurrences es).

  (** all (element, value) contributions of the day, in the order shown *)
  Definition contributed (d : list (bytes * list (bytes * T))) (es : list (bytes * T)) : list (bytes * T) :=
    flat_map (fun row => snd row) (day_rows d es).

  Definition is_neg (v : T) : bool := ltb NM v (zero NM).

  (** positive / negative column of element [x] over the contributions [cs]
      (see the header: the first contribution of [x] assigns, the rest add) *)
  Definition pos_of (cs : list (bytes * T)) (x : bytes) : T :=
    match values_of cs x with
    | [] => zero NM
    | v :: r => fold_left (add NM) (filter (fun w => negb (is_neg w)) r) (if is_neg v then zero NM else v)
    end.

  Definition neg_of (cs : list (bytes * T)) (x : bytes) : T :=
    match values_of cs x with
    | [] => zero NM
    | v :: r => fold_left (add NM) (filter is_neg r) (if is_neg v then v else zero NM)
    end.

  (** distinct names of the contributions, sorted (bytewise lexicographic, Go's
      [<] on strings).  [Proofs/RegisterSort.v] characterises it without
      reference to the sorting algorithm: it is THE strictly increasing list
      with the same members as [map fst cs]. *)
  Definition sorted_names (cs : list (bytes * T)) : list bytes := sort_bytes (first_occurrences cs).

  Definition totals_of (cs : list (bytes * T)) : list (bytes * T * T * T) :=
    map (fun x => (x, pos_of cs x, neg_of cs x, add NM (pos_of cs x) (neg_of cs x))) (sorted_names cs).

  Definition day_totals (d : list (bytes * list (bytes * T))) (es : list (bytes * T)) : list (bytes * T * T * T) :=
    totals_of (contributed d es).

  (** the whole report item of a day *)
  Definition day_item (c : rconfig) (d : list (bytes * list (bytes * T))) (t : time) (es : list (bytes * T))
    : report_item NM :=
    {| ri_time := t;
       ri_elements := if rc_totals_only c then [] else day_rows d es;
       ri_totals := if rc_totals c then Some (day_totals d es) else None |}.

  (** what an order oracle may do: deliver the keys of a map in any order *)
  Definition oracle (perm : list bytes -> list bytes) : Prop := forall l, Permutation (perm l) l.

  (** *** the old reporter's per-row renderings (regReporter.printElement,
      printIngredient, printTotalHeader, printTotalRow: one Fprintf each) *)
  Definition old_food_chunk (c : rconfig) (f : bytes) (q : T) : chunk :=
    unchecked ([c_tab] ++ pad_right 27 f ++ b " :" ++ format_value NM (rc_color c) q ++ [c_lf]).
  Definition old_ingredient_chunk (c : rconfig) (i : bytes * T) : chunk :=
    unchecked ([c_tab; c_tab] ++ pad_left 20 (fst i) ++ b " " ++ format_value NM (rc_color c) (snd i) ++ [c_lf]).
  Definition old_row_chunks (c : rconfig) (row : bytes * T * list (bytes * T)) : list chunk :=
    old_food_chunk c (fst (fst row)) (snd (fst row)) :: map (old_ingredient_chunk c) (snd row).
  Definition old_header_chunk : chunk := unchecked (total_header_default ++ [c_lf]).
  Definition old_total_chunk (c : rconfig) (t : bytes * T * T * T) : chunk :=
    let '(name, p, n, s) := t in
    unchecked ([c_tab; c_tab] ++ pad_left 20 name ++ b " " ++ format_value NM (rc_color c) p ++ b " "
               ++ format_value NM (rc_color c) n ++ b " =" ++ format_value NM (rc_color c) s ++ [c_lf]).

  (** everything the old reporter writes for a day, from the specification's rows *)
  Definition old_day_chunks (c : rconfig) (d : list (bytes * list (bytes * T))) (t : time) (es : list (bytes * T))
    : list chunk :=
    unchecked (fdate c t ++ [c_lf])
    :: (if rc_totals_only c then [] else flat_map (old_row_chunks c) (day_rows d es))
    ++ (if rc_totals c then
          match day_totals d es with
          | [] => []                      (* no contribution: no TOTAL header (the template prints one) *)
          | ts => old_header_chunk :: map (old_total_chunk c) ts
          end
        else []).

  (** the single chunk the template reporter writes for a day *)
  Definition template_day_chunk (c : rconfig) (d : list (bytes * list (bytes * T))) (t : time) (es : list (bytes * T))
    : chunk :=
    checked (if beq (rc_template c) (b "left-aligned")
             then render_left NM c (day_item c d t es) else render_default NM c (day_item c d t es)).

  (** a selected day as the walk hands it to a reporter (Cli.v, [walk_cb]): date,
      raw entries [es] of the record, metadata; the node carries [merge_elements es] *)
  Definition day := (time * list (bytes * T) * option (list (bytes * bytes)))%type.
  Definition day_node (dy : day) : lognode NM :=
    {| ln_time := fst (fst dy); ln_elems := merge_elements NM (snd (fst dy)); ln_meta := snd dy |}.

  (** feeding a list of days, in order, to a reporter; the chunks written, in order.
      (Errors do not occur in the register's reporters; the walk proper is in Cli.v.) *)
  Fixpoint process_days (R : reporter NM) (perm_day : nat -> list bytes -> list bytes) (i : nat)
           (st : RS NM R) (lns : list (lognode NM)) : RS NM R * list chunk :=
    match lns with
    | [] => (st, [])
    | ln :: r =>
        let '(st', chunks, _) := r_process NM R (perm_day i) st ln in
        let '(st'', rest) := process_days R perm_day (S i) st' r in
        (st'', chunks ++ rest)
    end.
End RegisterSpec.
