(** Regular expressions of [reg -f PATTERN] (Model/Regex.v): the definitions
    needed to state the theorems.  Definitions only.

    [matches r prev w next]: [r] matches the runes [w] when the rune before
    them is [prev] and the rune after them is [next] ([None] at the ends of the
    text); the neighbours are what the empty-width assertions look at. *)
From HP Require Import Base.Bytes Base.Utf8 Base.Num Model.Scanner Model.Parser Model.Elements Model.Dates
  Model.Tree Model.Writer Model.Regex Model.Reporters Model.Cli Spec.ComposeSpec.
Local Open Scope N_scope.

Definition head_or (w : list rune) (n : option rune) : option rune :=
  match w with c :: _ => Some c | [] => n end.

Fixpoint last_or (p : option rune) (w : list rune) : option rune :=
  match w with [] => p | c :: t => last_or (Some c) t end.

Inductive matches : re -> option rune -> list rune -> option rune -> Prop :=
| MEmpty p n : matches REmpty p [] n
| MLit c p n : matches (RLit c) p [c] n
| MAny c p n : c <> 10 -> matches RAny p [c] n
| MClass neg rs c p n : class_mem neg rs c = true -> matches (RClass neg rs) p [c] n
| MCat r1 r2 p w1 w2 n :
    matches r1 p w1 (head_or w2 n) -> matches r2 (last_or p w1) w2 n -> matches (RCat r1 r2) p (w1 ++ w2) n
| MAltL r1 r2 p w n : matches r1 p w n -> matches (RAlt r1 r2) p w n
| MAltR r1 r2 p w n : matches r2 p w n -> matches (RAlt r1 r2) p w n
| MStar0 r p n : matches (RStar r) p [] n
| MStarS r p w1 w2 n :
    matches r p w1 (head_or w2 n) -> matches (RStar r) (last_or p w1) w2 n -> matches (RStar r) p (w1 ++ w2) n
| MPlus r p w1 w2 n :
    matches r p w1 (head_or w2 n) -> matches (RStar r) (last_or p w1) w2 n -> matches (RPlus r) p (w1 ++ w2) n
| MOpt0 r p n : matches (ROpt r) p [] n
| MOptS r p w n : matches r p w n -> matches (ROpt r) p w n
(* {mn,mx}: between mn and mx iterations *)
| MRep0 r mx p n : matches (RRepeat r 0 mx) p [] n
| MRepS r mn mx p w1 w2 n :
    mx <> Some O ->
    matches r p w1 (head_or w2 n) ->
    matches (RRepeat r (Nat.pred mn) (option_map Nat.pred mx)) (last_or p w1) w2 n ->
    matches (RRepeat r mn mx) p (w1 ++ w2) n
| MAssert a p n : assert_holds a p n = true -> matches (RAssert a) p [] n
| MGroup r p w n : matches r p w n -> matches (RGroup r) p w n.

Definition head_opt (w : list rune) : option rune := head_or w None.

(** [regexp.MatchString]: some substring of the runes of the name matches, its
    neighbours being the runes around it in the name *)
Definition name_matches (r : re) (name : bytes) : Prop :=
  exists pre mid post,
    rune_values name = pre ++ mid ++ post /\ matches r (last_or None pre) mid (head_opt post).

(** expressions without empty-width assertions *)
Fixpoint anchor_free (r : re) : bool :=
  match r with
  | RAssert _ => false
  | RCat a c | RAlt a c => anchor_free a && anchor_free c
  | RStar a | RPlus a | ROpt a | RGroup a | RRepeat a _ _ => anchor_free a
  | _ => true
  end.

(** the literal of a list of runes *)
Definition lit_string (s : list rune) : re := cat_list (map RLit s).

Section SingleFood.
  Context (NM : Num).

  (** the row [reg -f] prints for a food of a day *)
  Definition food_row (c : rconfig) (ln : lognode NM) (nv : bytes * T NM) : chunk :=
    unchecked (fdate c (ln_time NM ln) ++ [c_tab] ++ fst nv ++ [c_tab] ++ f2 NM (snd nv) ++ [c_lf]).

  (** what [reg -f] prints for a day when the pattern compiles to [r] *)
  Definition single_food_day_text (c : rconfig) (r : re) (ln : lognode NM) : bytes :=
    concat (map (fun nv => fst (food_row c ln nv)) (filter (fun nv => re_search r (fst nv)) (ln_elems NM ln))).

  (** how [reg -f] ends when the pattern is invalid: the first parse / date
      error or the first selected day that has a food, whichever comes first *)
  Fixpoint invalid_pattern_error (toks : list ltoken) (bt et : option time) (evs : list (event NM)) : option cerr :=
    match evs with
    | [] => None
    | ev :: r =>
        match classify_event NM toks bt et ev with
        | KErr e => Some e
        | KSkip => invalid_pattern_error toks bt et r
        | KDay ln =>
            match ln_elems NM ln with
            | [] => invalid_pattern_error toks bt et r
            | _ :: _ => Some ERegexp
            end
        end
    end.
End SingleFood.
