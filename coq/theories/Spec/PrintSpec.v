(** Definitions needed to state property C14 ("print emits a normal form that
    reads back to the same log; printing the printed log is the identity").
    Definitions only.  All predicates are boolean tests (so that examples are
    checked by computation); a predicate [p x] used as a proposition means
    [p x = true] through the coercion-free convention [ok (p x)]. *)
From HP Require Import Base.Bytes Base.Utf8 Base.Num Model.Scanner Model.Parser Model.Elements
     Model.Dates Model.Writer Model.Reporters Model.Cli.
Open Scope N_scope.

(** *** byte-level tests *)

(** the string is non-empty and its first byte is outside [set] *)
Definition first_outside (set s : bytes) : bool :=
  match s with c :: _ => negb (memb c set) | [] => false end.

(** the string is non-empty and its last byte is outside [set] *)
Definition last_outside (set s : bytes) : bool := first_outside set (rev s).

(** the first rune of the string is a Unicode space ([strings.TrimSpace] would remove it) *)
Definition lead_space (s : bytes) : bool :=
  match decode_rune s with Some (r, _) => is_space_rune r | None => false end.

(** *** the normal form of an entry name as the parser delivers it:
    non-empty, one line, first byte outside the trim set and not the comment
    character, last byte outside the trim set *)
Definition normal_name (n : bytes) : bool :=
  negb (memb c_lf n) && first_outside (c_hash :: trim_text) n && last_outside trim_text n.

(** *** what a printed quantity must look like to be read back as the quantity
    of its line: non-empty, no blank and no line feed inside, first byte outside
    the quantity trim set, last byte outside the text trim set and not a
    carriage return (the scanner drops one trailing CR) *)
Definition qty_clean (q : bytes) : bool :=
  forallb (fun c => negb (memb c [c_tab; c_space; c_lf])) q
  && first_outside trim_qty q && last_outside (c_cr :: trim_text) q.

(** The number law the theorems take as a hypothesis: the two-decimal rendering
    of every value is a clean lexeme that reads back to a value with the same
    two-decimal rendering. *)
Record FmtStable (NM : Num) : Prop := {
  fs_reread : forall v : T NM, exists v' : T NM,
      of_lexeme NM (fmt_fixed NM 2 v) = Some v' /\ fmt_fixed NM 2 v' = fmt_fixed NM 2 v;
  fs_clean : forall v : T NM, qty_clean (fmt_fixed NM 2 v) = true
}.

(** *** the documented note forms that survive a print / read round trip *)

(** [# key: value]: the key is non-empty, has no colon and no line feed, does
    not start or end with [#], space or tab, and does not start with a Unicode
    space *)
Definition note_key_ok (k : bytes) : bool :=
  negb (memb c_colon k) && negb (memb c_lf k)
  && first_outside [c_hash; c_space; c_tab] k && last_outside [c_hash; c_space; c_tab] k
  && negb (lead_space k).

(** the value is one line, [strings.TrimSpace] leaves it alone, and (unless it is
    empty) its last byte is outside the trim set and is not [#] *)
Definition note_value_ok (v : bytes) : bool :=
  negb (memb c_lf v) && beq (trim_space v) v
  && match v with [] => true | _ => last_outside (c_hash :: trim_text) v end.

Definition documented_note (mp : bytes * bytes) : bool :=
  match fst mp with
  | [] => (* [# text] *) negb (memb c_colon (snd mp)) && note_value_ok (snd mp)
  | _ => (* [# key: value] *)
      note_key_ok (fst mp) && note_value_ok (snd mp) && match snd mp with [] => false | _ => true end
  end.

(** *** date layouts *)

Definition safe_tok (t : ltoken) : bool := match t with Lit c => safe_literal c | _ => true end.

(** a token that can stand at either end of a heading that is READ: an element or a
    literal the parser's trimming does not touch (of the safe literals: [/], [.] and [,]) *)
Definition edge_tok (t : ltoken) : bool :=
  match t with Lit c => negb (memb c trim_text) | _ => true end.

(** the elements of variable width ([2], [_2], [1]): [getnum] reads one digit, or two when a digit follows *)
Definition var_width (t : ltoken) : bool := match t with D1 | DU | M1 => true | _ => false end.

(** a token whose text cannot begin with a digit: a month name or a literal that is not a digit *)
Definition nondigit_tok (t : ltoken) : bool :=
  match t with MonS | MonL => true | Lit c => negb (is_digit c) | _ => false end.

(** every element of variable width is followed by a token that does not begin with a digit, or by the
    end of the layout: what the element writes is then read back as it was written
    ([variable_width_needs_separator_refuted] in Proofs/DatesLayout.v: [2] directly before [2006] is not) *)
Fixpoint sep_ok (toks : list ltoken) : bool :=
  match toks with
  | t :: r => (negb (var_width t) || match r with u :: _ => nondigit_tok u | [] => true end) && sep_ok r
  | [] => true
  end.

(** the layout begins with [_2], which writes a blank in front of the days 1..9 *)
Definition under_front (toks : list ltoken) : bool := match toks with DU :: _ => true | _ => false end.

(** what the layout writes it reads back, also as the heading of a log: the variable-width elements
    are separated, and the layout does not begin with [_2] (a line that begins with a blank is not a
    heading for the parser: [underday_leading_blank_refuted], finding KF4) *)
Definition stable_layout (toks : list ltoken) : bool := sep_ok toks && negb (under_front toks).

(** the layout can be printed as a heading line [date:] and be recognised as the heading [date] *)
Definition heading_layout (toks : list ltoken) : bool :=
  forallb safe_tok toks
  && match toks with t :: _ => edge_tok t | [] => false end
  && match rev toks with t :: _ => edge_tok t | [] => false end
  && stable_layout toks.

(** the layout without the spaces at its end.  A space of the layout is Go's [time.skip]: at the end
    of the value it matches the empty run, so a heading (which the parser delivers trimmed) is read under
    [toks] whenever it is read under [layout_core toks]; [format_date] writes the spaces and the parser's
    trimming removes them again *)
Definition layout_core (toks : list ltoken) : list ltoken := rev (drop_space_lits (rev toks)).

(** the fields the layout sets, in any of their spellings *)
Definition has_year (toks : list ltoken) : bool := existsb is_year toks.
Definition has_month (toks : list ltoken) : bool := existsb is_month toks.
Definition has_day (toks : list ltoken) : bool := existsb is_day toks.

(** the layout determines a date: a year, a month and a day element all occur *)
Definition full_layout (toks : list ltoken) : Prop :=
  has_year toks = true /\ has_month toks = true /\ has_day toks = true.

Open Scope Z_scope.
Definition valid_civil (c : Z * Z * Z) : Prop :=
  let '(y, m, d) := c in 0 <= y <= 9999 /\ 1 <= m <= 12 /\ 1 <= d <= days_in y m.

(** a civil date that the layout can express: valid, and a field the layout does
    not mention has Go's default (year 0, month 1, day 1) *)
Definition civil_fits (toks : list ltoken) (c : Z * Z * Z) : Prop :=
  let '(y, m, d) := c in
  valid_civil c /\ (has_year toks = false -> y = 0) /\ (has_month toks = false -> m = 1) /\ (has_day toks = false -> d = 1).
Close Scope Z_scope.

Section PrintSpec.
  Context (NM : Num).
  Notation T := (T NM).
  Notation lognode := (lognode NM).

  (** *** what print writes, as bytes and as lines *)

  Definition print_day (c : rconfig) (ln : lognode) : bytes := concat (map fst (print_chunks NM c ln)).

  Definition print_output (c : rconfig) (L : list lognode) : bytes := concat (map (print_day c) L).

  Definition notes_of (ln : lognode) : list (bytes * bytes) :=
    match ln_meta NM ln with Some l => l | None => [] end.

  Definition note_line (mp : bytes * bytes) : bytes :=
    match fst mp with
    | [] => b "  # " ++ snd mp
    | _ => b "  # " ++ fst mp ++ b ": " ++ snd mp
    end.

  Definition entry_line (nv : bytes * T) : bytes := b "  - " ++ fst nv ++ b ": " ++ fmt_fixed NM 2 (snd nv).

  Definition heading_line (c : rconfig) (ln : lognode) : bytes := fdate c (ln_time NM ln) ++ b ":".

  (** the lines of one printed day (each is written followed by a line feed) *)
  Definition day_lines (c : rconfig) (ln : lognode) : list bytes :=
    heading_line c ln :: map note_line (notes_of ln) ++ map entry_line (ln_elems NM ln) ++ [[]].

  (** *** a day in the normal form *)
  Definition day_ok (c : rconfig) (ln : lognode) : Prop :=
    ln_time NM ln = time_of_civil (civ (ln_time NM ln))
    /\ civil_fits (rc_date c) (civ (ln_time NM ln))
    /\ Forall (fun nv => normal_name (fst nv) = true) (ln_elems NM ln)
    /\ NoDup (map fst (ln_elems NM ln))
    /\ Forall (fun mp => documented_note mp = true) (notes_of ln)
    /\ Forall (fun l => lengthN l < max_token) (day_lines c ln).

  (** *** what reading the printed day back gives *)

  (** the value a printed quantity reads back to *)
  Definition reread (v : T) : T :=
    match of_lexeme NM (fmt_fixed NM 2 v) with Some v' => v' | None => v end.

  Definition reread_elems (el : list (bytes * T)) : list (bytes * T) :=
    map (fun nv => (fst nv, reread (snd nv))) el.

  (** an empty note list is printed as no notes *)
  Definition norm_meta (m : option (list (bytes * bytes))) : option (list (bytes * bytes)) :=
    match m with Some [] => None | _ => m end.

  (** the record the parser delivers for a printed day *)
  Definition reread_node (c : rconfig) (ln : lognode) : pnode NM :=
    {| header := fdate c (ln_time NM ln);
       elems := reread_elems (ln_elems NM ln);
       meta := norm_meta (ln_meta NM ln) |}.

  (** the day the walk builds from that record *)
  Definition reread_day (ln : lognode) : lognode :=
    {| ln_time := ln_time NM ln;
       ln_elems := reread_elems (ln_elems NM ln);
       ln_meta := norm_meta (ln_meta NM ln) |}.

  (** *** the days the walk ([walk_cb], no period limits) builds from parser
      events: [None] when an event is a parse error or a heading is not a date *)
  Fixpoint lognodes_of (toks : list ltoken) (evs : list (event NM)) : option (list lognode) :=
    match evs with
    | [] => Some []
    | EErr _ :: _ => None
    | ENode n :: r =>
        match parse_date toks (header n) with
        | None => None
        | Some cv =>
            option_map (cons {| ln_time := time_of_civil cv;
                                ln_elems := merge_elements NM (elems n);
                                ln_meta := meta n |})
                       (lognodes_of toks r)
        end
    end.

  (** the days of a whole log file as the tool reads it: the scanner must reach
      the end of the file (no line of 65536 bytes or more), every line must
      parse and every heading must be a date *)
  Definition read_log (toks : list ltoken) (data : bytes) : option (list lognode) :=
    match snd (scan data NoFault) with
    | ScanEOF => lognodes_of toks (events NM data)
    | _ => None
    end.

  (** *** the setting in which the command is considered: the world has the log
      file [data] under the configured name, reads of it do not fail, standard
      output never fails, the layout is one the model covers (any period) *)
  Definition print_setting (w : world) (op : options) (data : bytes) (toks : list ltoken) : Prop :=
    w_sink w = None
    /\ op_log op <> []
    /\ op_log op <> dev_null      (* the null device opens as the empty file whatever the world says (fix F24) *)
    /\ lookup_fs w (op_log op) = Some (FFile data)
    /\ lookup (op_log op) (w_read_fault w) = None
    /\ tokenize (op_fmt op) = Some toks.

  (** the days of the configured period *)
  Definition in_period (op : options) (d : lognode) : bool :=
    in_interval (op_begin op) (op_end op) (ln_time NM d).
End PrintSpec.
