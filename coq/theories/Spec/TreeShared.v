(** Predicates on balance trees shared by the work packages WP08 (the tree the
    reporter builds satisfies them) and WP09 (the printing modes are correct on
    every tree that satisfies them).  Definitions only. *)
From HP Require Import Base.Bytes Base.Num Model.Elements Model.Tree.

Section TreeShared.
  Context (NM : Num).
  Notation T := (T NM).
  Notation tree := (tree NM).

  (** every node below [t] with its path from [t] (segments) and its total, in pre-order *)
  Fixpoint paths_below (prefix : list bytes) (t : tree) : list (list bytes * T) :=
    match t with
    | Node _ _ ch =>
        flat_map (fun c => (prefix ++ [t_name NM c], t_total NM c) :: paths_below (prefix ++ [t_name NM c]) c) ch
    end.
  Definition tree_paths (root : tree) : list (list bytes * T) := paths_below [] root.

  (** the leaves (nodes without children) with path and total, in pre-order *)
  Fixpoint leaves_below (prefix : list bytes) (t : tree) : list (list bytes * T) :=
    match t with
    | Node _ _ ch =>
        flat_map (fun c => match t_children NM c with
                           | [] => [(prefix ++ [t_name NM c], t_total NM c)]
                           | _ => leaves_below (prefix ++ [t_name NM c]) c
                           end) ch
    end.
  Definition tree_leaves (root : tree) : list (list bytes * T) := leaves_below [] root.

  (** children of every node (the root included) have pairwise different names *)
  Fixpoint wf_tree (t : tree) : Prop :=
    match t with
    | Node _ _ ch =>
        NoDup (map (t_name NM) ch) /\
        (fix all (l : list tree) : Prop := match l with [] => True | c :: r => wf_tree c /\ all r end) ch
    end.

  (** no node name contains the separator *)
  Fixpoint slash_free (t : tree) : Prop :=
    match t with
    | Node n _ ch =>
        ~ In c_slash n /\
        (fix all (l : list tree) : Prop := match l with [] => True | c :: r => slash_free c /\ all r end) ch
    end.
  (** the root's own name is irrelevant (it is the empty string) *)
  Definition slash_free_below (root : tree) : Prop :=
    Forall slash_free (t_children NM root).

  (** a node with exactly one child has that child's total; [chain_const_below] exempts the root *)
  Fixpoint chain_const (t : tree) : Prop :=
    match t with
    | Node _ x ch =>
        (match ch with [only] => x = t_total NM only | _ => True end) /\
        (fix all (l : list tree) : Prop := match l with [] => True | c :: r => chain_const c /\ all r end) ch
    end.
  Definition chain_const_below (root : tree) : Prop := Forall chain_const (t_children NM root).
End TreeShared.
